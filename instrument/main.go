// Command instrument writes rewritten copies of selected packages (read from the current
// working tree) and a go build -overlay file that substitutes them. See DESIGN.md §2.3.
//
//	instrument -dir /repo -out /verif/.build/overlay/x -pkgs ./p2p/host/eventbus,./p2p/net/swarm
//
// Rewrites: sync -> simsync, go statements -> simrt.Go, channel operations -> simrt.Recv/Send
// with scheduling points, select -> tape-ordered poll, range over channels, range over maps in
// a reproducible order, time.Sleep/AfterFunc -> simrt variants.
package main

import (
	"bytes"
	"encoding/json"
	"flag"
	"fmt"
	"go/ast"
	"go/printer"
	"go/token"
	"go/types"
	"os"
	"path/filepath"
	"strconv"
	"strings"

	"golang.org/x/tools/go/ast/astutil"
	"golang.org/x/tools/go/packages"
)

const (
	rtName   = "__simrt"
	rtPath   = "verifsim/simrt"
	syncPath = "verifsim/simsync"
)

type stats struct {
	Files, Go, Recv, Send, Select, RangeChan, RangeMap, Sleep, AfterFunc, SyncImports, Touch int
	Skipped                                                                                  []string
}

type rewriter struct {
	fset  *token.FileSet
	info  *types.Info
	file  *ast.File
	fname string
	st    *stats
	used  bool
	noMap bool

	skip      map[ast.Node]bool // comm statements of selects: handled by the select rewrite
	rangeChan map[*ast.RangeStmt]bool
	rangeMap  map[*ast.RangeStmt]bool
	constArg  map[ast.Expr]bool
	timeSleep map[*ast.CallExpr]string
	labeled   map[ast.Stmt]*ast.LabeledStmt
	touch     map[*ast.AssignStmt]ast.Expr
	ctxName   string // name of the context import if a context.AfterFunc call was rewritten (the import must stay used)
}

func (r *rewriter) site(n ast.Node) *ast.BasicLit {
	p := r.fset.Position(n.Pos())
	return &ast.BasicLit{Kind: token.STRING, Value: strconv.Quote(filepath.Base(p.Filename) + ":" + strconv.Itoa(p.Line))}
}

func (r *rewriter) rt(fn string) ast.Expr {
	r.used = true
	return &ast.SelectorExpr{X: ast.NewIdent(rtName), Sel: ast.NewIdent(fn)}
}

func (r *rewriter) call(fn string, args ...ast.Expr) *ast.CallExpr {
	return &ast.CallExpr{Fun: r.rt(fn), Args: args}
}

func isRecv(e ast.Expr) (*ast.UnaryExpr, bool) {
	for {
		p, ok := e.(*ast.ParenExpr)
		if !ok {
			break
		}
		e = p.X
	}
	u, ok := e.(*ast.UnaryExpr)
	return u, ok && u.Op == token.ARROW
}

func (r *rewriter) analyse() {
	ast.Inspect(r.file, func(n ast.Node) bool {
		switch x := n.(type) {
		case *ast.LabeledStmt:
			r.labeled[x.Stmt] = x
		case *ast.SelectStmt:
			for _, c := range x.Body.List {
				cc := c.(*ast.CommClause)
				switch s := cc.Comm.(type) {
				case *ast.SendStmt:
					r.skip[s] = true
				case *ast.ExprStmt:
					if u, ok := isRecv(s.X); ok {
						r.skip[u] = true
					}
				case *ast.AssignStmt:
					if u, ok := isRecv(s.Rhs[0]); ok {
						r.skip[u] = true
					}
				}
			}
		case *ast.RangeStmt:
			if t := r.info.TypeOf(x.X); t != nil {
				switch t.Underlying().(type) {
				case *types.Chan:
					r.rangeChan[x] = true
				case *types.Map:
					r.rangeMap[x] = true
				}
			}
		case *ast.AssignStmt:
			if len(x.Lhs) == 1 {
				if ix, ok := x.Lhs[0].(*ast.IndexExpr); ok && pureExpr(ix.Index) {
					if t := r.info.TypeOf(ix.X); t != nil {
						if mt, ok := t.Underlying().(*types.Map); ok && pointerLike(mt.Key()) {
							r.touch[x] = ix.Index
						}
					}
				}
			}
		case *ast.GoStmt:
			for _, a := range x.Call.Args {
				if tv, ok := r.info.Types[a]; ok && (tv.Value != nil || tv.IsNil()) {
					r.constArg[a] = true
				}
			}
		case *ast.CallExpr:
			if se, ok := x.Fun.(*ast.SelectorExpr); ok {
				if id, ok := se.X.(*ast.Ident); ok {
					if pn, ok := r.info.Uses[id].(*types.PkgName); ok && pn.Imported().Path() == "time" {
						switch se.Sel.Name {
						case "Sleep":
							r.timeSleep[x] = "TimeSleep"
						case "AfterFunc":
							r.timeSleep[x] = "AfterFunc"
						}
					}
					// context.AfterFunc starts its callback with a `go` of the standard library: several callbacks of one
					// context would otherwise become tasks in the order the runtime happens to run them
					if pn, ok := r.info.Uses[id].(*types.PkgName); ok && pn.Imported().Path() == "context" && se.Sel.Name == "AfterFunc" {
						r.timeSleep[x] = "CtxAfterFunc"
						r.ctxName = id.Name
					}
				}
			}
		}
		return true
	})
}

func pureExpr(e ast.Expr) bool {
	switch x := e.(type) {
	case *ast.Ident:
		return true
	case *ast.SelectorExpr:
		return pureExpr(x.X)
	case *ast.ParenExpr:
		return pureExpr(x.X)
	}
	return false
}

func pointerLike(t types.Type) bool {
	switch u := t.Underlying().(type) {
	case *types.Pointer, *types.Interface, *types.Chan, *types.Signature:
		return true
	case *types.Struct:
		for i := 0; i < u.NumFields(); i++ {
			if pointerLike(u.Field(i).Type()) {
				return true
			}
		}
	case *types.Array:
		return pointerLike(u.Elem())
	}
	return false
}

func (r *rewriter) skipf(n ast.Node, why string) {
	p := r.fset.Position(n.Pos())
	r.st.Skipped = append(r.st.Skipped, fmt.Sprintf("%s:%d: %s", filepath.Base(p.Filename), p.Line, why))
}

// inList reports whether the cursor's node sits in a statement list (so that statements
// can be inserted next to it).
func inList(c *astutil.Cursor) bool { return c.Index() >= 0 }

func (r *rewriter) post(c *astutil.Cursor) bool {
	switch x := c.Node().(type) {
	case *ast.UnaryExpr:
		if x.Op != token.ARROW || r.skip[x] {
			return true
		}
		// two-value forms are handled at the statement
		r.st.Recv++
		c.Replace(r.call("Recv", r.site(x), x.X))
	case *ast.CallExpr:
		if fn, ok := r.timeSleep[x]; ok {
			x.Fun = r.rt(fn)
			if fn == "TimeSleep" {
				r.st.Sleep++
			} else {
				r.st.AfterFunc++
			}
		}
	case *ast.AssignStmt:
		if k, ok := r.touch[x]; ok && inList(c) {
			r.st.Touch++
			c.InsertBefore(&ast.ExprStmt{X: r.call("Touch", k)})
		}
		// v, ok := <-ch  (the unary was already turned into Recv(...) by the post-order walk)
		if len(x.Lhs) == 2 && len(x.Rhs) == 1 {
			if ce, ok := x.Rhs[0].(*ast.CallExpr); ok && r.isRT(ce, "Recv") {
				ce.Fun = r.rt("Recv2")
			}
		}
	case *ast.ValueSpec:
		if len(x.Names) == 2 && len(x.Values) == 1 {
			if ce, ok := x.Values[0].(*ast.CallExpr); ok && r.isRT(ce, "Recv") {
				ce.Fun = r.rt("Recv2")
			}
		}
	case *ast.SendStmt:
		if r.skip[x] {
			return true
		}
		if !inList(c) {
			r.skipf(x, "send statement outside a statement list")
			return true
		}
		r.st.Send++
		s := r.site(x)
		// an operand that calls something is evaluated BEFORE the pre-send yield, so that a callee which
		// blocks outside instrumented code (I/O) cannot wake up and reach the send without a yield
		hasCall := false
		ast.Inspect(x.Value, func(n ast.Node) bool {
			if _, ok := n.(*ast.CallExpr); ok {
				hasCall = true
			}
			if _, ok := n.(*ast.FuncLit); ok {
				return false
			}
			return !hasCall
		})
		if hasCall {
			if tv, ok := r.info.Types[x.Value]; ok && tv.Value == nil && !tv.IsNil() && tv.Type != nil {
				if _, isTuple := tv.Type.(*types.Tuple); !isTuple {
					t := tmp("v")
					c.InsertBefore(&ast.AssignStmt{Lhs: []ast.Expr{t}, Tok: token.DEFINE, Rhs: []ast.Expr{x.Value}})
					x.Value = t
				}
			}
		}
		c.InsertBefore(&ast.ExprStmt{X: r.call("Yield", s)})
		c.InsertAfter(&ast.ExprStmt{X: r.call("Yield", &ast.BasicLit{Kind: token.STRING, Value: s.Value[:len(s.Value)-1] + `+"`})})
	case *ast.GoStmt:
		r.rewriteGo(c, x)
	case *ast.SelectStmt:
		r.rewriteSelect(c, x)
	case *ast.RangeStmt:
		if r.rangeChan[x] {
			r.rewriteRangeChan(c, x)
		} else if r.rangeMap[x] && !r.noMap {
			r.rewriteRangeMap(c, x)
		}
	}
	return true
}

func (r *rewriter) isRT(ce *ast.CallExpr, fn string) bool {
	se, ok := ce.Fun.(*ast.SelectorExpr)
	if !ok {
		return false
	}
	id, ok := se.X.(*ast.Ident)
	return ok && id.Name == rtName && se.Sel.Name == fn
}

var tmpN int

func tmp(prefix string) *ast.Ident {
	tmpN++
	return ast.NewIdent(fmt.Sprintf("__sim%s%d", prefix, tmpN))
}

func (r *rewriter) rewriteGo(c *astutil.Cursor, g *ast.GoStmt) {
	call := g.Call
	// go func(){...}()  -> simrt.Go(func(){...})
	if fl, ok := call.Fun.(*ast.FuncLit); ok && len(call.Args) == 0 && fl.Type.Results == nil {
		r.st.Go++
		c.Replace(&ast.ExprStmt{X: r.call("Go", fl)})
		return
	}
	if !inList(c) && r.labeled[g] == nil {
		// still replaceable by a block statement
	}
	// general form: evaluate function value and arguments now, call later
	var lhs, rhs []ast.Expr
	newCall := &ast.CallExpr{Ellipsis: call.Ellipsis}
	if _, ok := call.Fun.(*ast.FuncLit); ok {
		newCall.Fun = call.Fun
	} else if tv, ok := r.info.Types[call.Fun]; ok && tv.IsBuiltin() {
		newCall.Fun = call.Fun
	} else if tv.IsType() {
		newCall.Fun = call.Fun
	} else {
		f := tmp("f")
		lhs = append(lhs, f)
		rhs = append(rhs, call.Fun)
		newCall.Fun = f
	}
	if len(call.Args) == 1 {
		if tv, ok := r.info.Types[call.Args[0]]; ok {
			if _, isTuple := tv.Type.(*types.Tuple); isTuple {
				r.skipf(g, "go statement with multi-value argument left as is")
				return
			}
		}
	}
	for _, a := range call.Args {
		if r.constArg[a] {
			newCall.Args = append(newCall.Args, a)
			continue
		}
		t := tmp("a")
		lhs = append(lhs, t)
		rhs = append(rhs, a)
		newCall.Args = append(newCall.Args, t)
	}
	r.st.Go++
	goCall := &ast.ExprStmt{X: r.call("Go", &ast.FuncLit{
		Type: &ast.FuncType{Params: &ast.FieldList{}},
		Body: &ast.BlockStmt{List: []ast.Stmt{&ast.ExprStmt{X: newCall}}},
	})}
	if len(lhs) == 0 {
		c.Replace(goCall)
		return
	}
	c.Replace(&ast.BlockStmt{List: []ast.Stmt{
		&ast.AssignStmt{Lhs: lhs, Tok: token.DEFINE, Rhs: rhs},
		goCall,
	}})
}

func (r *rewriter) rewriteSelect(c *astutil.Cursor, s *ast.SelectStmt) {
	if len(s.Body.List) == 0 {
		return // select {}: blocks for ever, nothing to decide
	}
	hasDefault := false
	var names, inits []ast.Expr
	var clauses []ast.Stmt
	idx := 0
	for _, cl := range s.Body.List {
		cc := cl.(*ast.CommClause)
		if cc.Comm == nil {
			hasDefault = true
			clauses = append(clauses, &ast.CaseClause{
				List: []ast.Expr{&ast.UnaryExpr{Op: token.SUB, X: &ast.BasicLit{Kind: token.INT, Value: "1"}}},
				Body: cc.Body,
			})
			continue
		}
		cv := tmp("c")
		names = append(names, cv)
		var pre []ast.Stmt
		switch st := cc.Comm.(type) {
		case *ast.SendStmt:
			inits = append(inits, &ast.CallExpr{Fun: &ast.SelectorExpr{X: r.call("SendCaseOf", st.Chan), Sel: ast.NewIdent("With")}, Args: []ast.Expr{st.Value}})
		case *ast.ExprStmt:
			u, _ := isRecv(st.X)
			inits = append(inits, r.call("RecvCase", u.X))
		case *ast.AssignStmt:
			u, _ := isRecv(st.Rhs[0])
			inits = append(inits, r.call("RecvCase", u.X))
			m := "Val"
			if len(st.Lhs) == 2 {
				m = "Val2"
			}
			pre = append(pre, &ast.AssignStmt{Lhs: st.Lhs, Tok: st.Tok, Rhs: []ast.Expr{
				&ast.CallExpr{Fun: &ast.SelectorExpr{X: cv, Sel: ast.NewIdent(m)}},
			}})
			if st.Tok == token.DEFINE {
				// the original may legally leave a := variable unused only if it is "_";
				// nothing to do.
			}
		}
		clauses = append(clauses, &ast.CaseClause{
			List: []ast.Expr{&ast.BasicLit{Kind: token.INT, Value: strconv.Itoa(idx)}},
			Body: append(pre, cc.Body...),
		})
		idx++
	}
	// Select only returns -1 or a clause index; the default clause makes the switch a
	// terminating statement whenever the original select was one.
	clauses = append(clauses, &ast.CaseClause{Body: []ast.Stmt{&ast.ExprStmt{X: &ast.CallExpr{
		Fun:  ast.NewIdent("panic"),
		Args: []ast.Expr{&ast.BasicLit{Kind: token.STRING, Value: `"verifsim: unreachable select index"`}},
	}}}})
	r.st.Select++
	hd := "false"
	if hasDefault {
		hd = "true"
	}
	args := append([]ast.Expr{r.site(s), ast.NewIdent(hd)}, names...)
	sw := &ast.SwitchStmt{
		Tag:  r.call("Select", args...),
		Body: &ast.BlockStmt{List: clauses},
	}
	if len(names) > 0 {
		sw.Init = &ast.AssignStmt{Lhs: names, Tok: token.DEFINE, Rhs: inits}
	}
	c.Replace(sw)
}

func (r *rewriter) rewriteRangeChan(c *astutil.Cursor, rs *ast.RangeStmt) {
	// for [k :=|=] range ch { body }  =>
	// for __ch := ch; ; { k, __ok := Recv2(ch); if !__ok { break }; body }
	chv := tmp("ch")
	okv := tmp("ok")
	var key ast.Expr = ast.NewIdent("_")
	tok := token.DEFINE
	if rs.Key != nil {
		key = rs.Key
		if rs.Tok == token.ASSIGN {
			// k, ok = ...: declare ok first
			tok = token.ASSIGN
		}
	}
	var head []ast.Stmt
	if tok == token.ASSIGN {
		head = append(head, &ast.DeclStmt{Decl: &ast.GenDecl{Tok: token.VAR, Specs: []ast.Spec{
			&ast.ValueSpec{Names: []*ast.Ident{okv}, Type: ast.NewIdent("bool")},
		}}})
	}
	head = append(head,
		&ast.AssignStmt{Lhs: []ast.Expr{key, okv}, Tok: tok, Rhs: []ast.Expr{r.call("Recv2", r.site(rs), chv)}},
		&ast.IfStmt{Cond: &ast.UnaryExpr{Op: token.NOT, X: okv}, Body: &ast.BlockStmt{List: []ast.Stmt{&ast.BranchStmt{Tok: token.BREAK}}}},
	)
	r.st.RangeChan++
	c.Replace(&ast.ForStmt{
		Init: &ast.AssignStmt{Lhs: []ast.Expr{chv}, Tok: token.DEFINE, Rhs: []ast.Expr{rs.X}},
		Body: &ast.BlockStmt{List: append(head, rs.Body.List...)},
	})
}

func isBlank(e ast.Expr) bool {
	id, ok := e.(*ast.Ident)
	return ok && id.Name == "_"
}

func (r *rewriter) rewriteRangeMap(c *astutil.Cursor, rs *ast.RangeStmt) {
	if rs.Tok == token.ASSIGN {
		r.skipf(rs, "range over map with '=' left in runtime order")
		return
	}
	if lb := r.labeled[rs]; lb != nil {
		r.skipf(rs, "labelled range over map left in runtime order")
		return
	}
	// { __m := m; for _, k := range MapKeys(__m) { v, ok := __m[k]; if !ok {continue}; body } }
	mv := tmp("m")
	okv := tmp("ok")
	var key ast.Expr
	if rs.Key == nil || isBlank(rs.Key) {
		key = tmp("k")
	} else {
		key = rs.Key
	}
	var val ast.Expr = ast.NewIdent("_")
	if rs.Value != nil {
		val = rs.Value
	}
	head := []ast.Stmt{
		&ast.AssignStmt{Lhs: []ast.Expr{val, okv}, Tok: token.DEFINE, Rhs: []ast.Expr{&ast.IndexExpr{X: mv, Index: key}}},
		&ast.IfStmt{Cond: &ast.UnaryExpr{Op: token.NOT, X: okv}, Body: &ast.BlockStmt{List: []ast.Stmt{&ast.BranchStmt{Tok: token.CONTINUE}}}},
	}
	r.st.RangeMap++
	c.Replace(&ast.BlockStmt{List: []ast.Stmt{
		&ast.AssignStmt{Lhs: []ast.Expr{mv}, Tok: token.DEFINE, Rhs: []ast.Expr{rs.X}},
		&ast.RangeStmt{
			Key: ast.NewIdent("_"), Value: key, Tok: token.DEFINE,
			X:    r.call("MapKeys", mv),
			Body: &ast.BlockStmt{List: append(head, rs.Body.List...)},
		},
	}})
}

func (r *rewriter) run() ([]byte, error) {
	r.analyse()
	// sync import
	for _, im := range r.file.Imports {
		if im.Path.Value == `"sync"` {
			im.Path.Value = strconv.Quote(syncPath)
			if im.Name == nil {
				im.Name = ast.NewIdent("sync")
			}
			r.st.SyncImports++
		}
	}
	astutil.Apply(r.file, nil, r.post)
	if r.ctxName != "" {
		r.file.Decls = append(r.file.Decls, &ast.GenDecl{Tok: token.VAR, Specs: []ast.Spec{&ast.ValueSpec{
			Names: []*ast.Ident{ast.NewIdent("_")}, Values: []ast.Expr{&ast.SelectorExpr{X: ast.NewIdent(r.ctxName), Sel: ast.NewIdent("Background")}}}}})
	}
	if r.used {
		imp := &ast.GenDecl{Tok: token.IMPORT, Specs: []ast.Spec{
			&ast.ImportSpec{Name: ast.NewIdent(rtName), Path: &ast.BasicLit{Kind: token.STRING, Value: strconv.Quote(rtPath)}},
		}}
		r.file.Decls = append([]ast.Decl{imp}, r.file.Decls...)
	}
	// keep only comments that matter to the compiler: those before the package clause and
	// //go: directives / cgo preambles attached to declarations.
	var keep []*ast.CommentGroup
	for _, cg := range r.file.Comments {
		if cg.End() < r.file.Package {
			keep = append(keep, cg)
			continue
		}
		for _, cm := range cg.List {
			if strings.HasPrefix(cm.Text, "//go:") {
				keep = append(keep, cg)
				break
			}
		}
	}
	r.file.Comments = keep
	var buf bytes.Buffer
	if err := (&printer.Config{Mode: printer.UseSpaces | printer.TabIndent, Tabwidth: 8}).Fprint(&buf, r.fset, r.file); err != nil {
		return nil, err
	}
	return buf.Bytes(), nil
}

func main() {
	dir := flag.String("dir", "/repo", "module directory to load packages from")
	out := flag.String("out", "", "output directory for rewritten files and overlay.json")
	pkgs := flag.String("pkgs", "", "comma separated package patterns")
	noMap := flag.String("nomap", "", "comma separated package path suffixes whose map ranges are left alone")
	copyMode := flag.Bool("copy", false, "write files into -out mirroring the package directory (for copied dependencies) instead of an overlay")
	prefix := flag.String("prefix", "", "only files below this directory are rewritten, and paths are taken relative to it (default: -dir)")
	flag.Parse()
	if *out == "" || *pkgs == "" {
		fmt.Fprintln(os.Stderr, "usage: instrument -dir D -out O -pkgs p1,p2")
		os.Exit(2)
	}
	if *prefix == "" {
		*prefix = *dir
	}
	cfg := &packages.Config{
		Mode: packages.NeedName | packages.NeedFiles | packages.NeedCompiledGoFiles | packages.NeedSyntax |
			packages.NeedTypes | packages.NeedTypesInfo | packages.NeedImports | packages.NeedDeps,
		Dir: *dir,
	}
	loaded, err := packages.Load(cfg, strings.Split(*pkgs, ",")...)
	if err != nil {
		fmt.Fprintln(os.Stderr, "load:", err)
		os.Exit(2)
	}
	overlay := map[string]string{}
	all := map[string]*stats{}
	bad := false
	for _, p := range loaded {
		for _, e := range p.Errors {
			fmt.Fprintln(os.Stderr, "package error:", e)
			bad = true
		}
		st := &stats{}
		all[p.PkgPath] = st
		nm := false
		for _, sfx := range strings.Split(*noMap, ",") {
			if sfx != "" && strings.HasSuffix(p.PkgPath, sfx) {
				nm = true
			}
		}
		for i, f := range p.Syntax {
			fname := p.CompiledGoFiles[i]
			if !strings.HasSuffix(fname, ".go") || !strings.HasPrefix(fname, *prefix) {
				continue
			}
			r := &rewriter{fset: p.Fset, info: p.TypesInfo, file: f, fname: fname, st: st, noMap: nm,
				skip: map[ast.Node]bool{}, rangeChan: map[*ast.RangeStmt]bool{}, rangeMap: map[*ast.RangeStmt]bool{},
				constArg: map[ast.Expr]bool{}, timeSleep: map[*ast.CallExpr]string{}, labeled: map[ast.Stmt]*ast.LabeledStmt{}, touch: map[*ast.AssignStmt]ast.Expr{}}
			src, err := r.run()
			if err != nil {
				fmt.Fprintln(os.Stderr, "print:", fname, err)
				os.Exit(2)
			}
			rel, _ := filepath.Rel(*prefix, fname)
			dst := filepath.Join(*out, rel)
			os.MkdirAll(filepath.Dir(dst), 0o755)
			if err := os.WriteFile(dst, src, 0o644); err != nil {
				fmt.Fprintln(os.Stderr, err)
				os.Exit(2)
			}
			overlay[fname] = dst
			st.Files++
		}
	}
	if bad {
		os.Exit(2)
	}
	if !*copyMode {
		b, _ := json.MarshalIndent(map[string]any{"Replace": overlay}, "", " ")
		os.WriteFile(filepath.Join(*out, "overlay.json"), b, 0o644)
	}
	b, _ := json.MarshalIndent(all, "", " ")
	os.WriteFile(filepath.Join(*out, "instrument-stats.json"), b, 0o644)
}
