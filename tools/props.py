# Per-property configuration of the orchestrator (see DESIGN.md for the reasoning).
PROPS = {}

NOT_APPLICABLE = {
    "C08": "every clause is a pure function of its input bytes (marshal/unmarshal round trips, signature verification, "
           "ID derivation, envelope validation): no schedule, clock, I/O, fault or multi-party behaviour for a simulator "
           "to control; deterministic simulation does not apply (DESIGN.md section 7)",
}


import glob, os, importlib.util
_here = os.path.dirname(os.path.dirname(os.path.abspath(__file__)))
for _p in sorted(glob.glob(os.path.join(_here, "harness", "c*", "props.py"))):
    _spec = importlib.util.spec_from_file_location("props_" + os.path.basename(os.path.dirname(_p)), _p)
    _m = importlib.util.module_from_spec(_spec)
    _spec.loader.exec_module(_m)
    if getattr(_m, "ENABLED", True):
        PROPS[os.path.basename(os.path.dirname(_p)).upper()] = _m.SPEC
