#!/bin/sh
# Regenerates evidence files from /verif against /repo: the given tier for every claimed property (16 workers), or for
# the ids in $VERIF_IDS; output appended to .build/final_pass.log. Usage: [VERIF_IDS="C05 C12"] tools/final_pass.sh [tier]
cd /verif
tier=${1:-thorough}
ids=${VERIF_IDS:-$(grep -v '^#' tools/claimed.txt)}
echo "## $(date -u +%H:%M:%S) tier=$tier repo=$(git -C /repo rev-parse --short HEAD) ids=$(echo $ids)" >> .build/final_pass.log
for p in $ids; do
  ./check $p $tier > .build/final_$p.out 2>&1
  rc=$?
  grep -E "^(C[0-9]+ $tier|VIOLATION|TROUBLE|KNOWN-FINDING|OBSERVATION|NOTE)" .build/final_$p.out | cut -c1-300 >> .build/final_pass.log
  echo "== $p $tier exit=$rc" >> .build/final_pass.log
done
echo "ALL DONE" >> .build/final_pass.log
