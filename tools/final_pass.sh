#!/bin/sh
# Regenerates every evidence file from /verif against /repo: thorough tier for every claimed property (16 workers),
# output to .build/final_pass.log. Usage: tools/final_pass.sh [tier]
cd /verif
tier=${1:-thorough}
: > .build/final_pass.log
for p in $(grep -v '^#' tools/claimed.txt); do
  ./check $p $tier > .build/final_$p.out 2>&1
  rc=$?
  grep -E "^(C[0-9]+ $tier|VIOLATION|TROUBLE|KNOWN-FINDING|OBSERVATION|NOTE)" .build/final_$p.out | cut -c1-300 >> .build/final_pass.log
  echo "== $p $tier exit=$rc" >> .build/final_pass.log
done
echo "ALL DONE" >> .build/final_pass.log
