#!/bin/sh
# usage: tools/mutcheck.sh <name> <patch file | -> <ID> [budget_s]
# Applies a patch (or stdin) to a scratch git worktree of /repo and runs the quick check against it.
# Exit status of the check: 1 = the mutation was detected. The worktree is removed afterwards.
set -e
name=$1; patch=$2; id=$3; budget=${4:-40}
wt=/tmp/mut/$name
rm -rf "$wt"; git -C /repo worktree prune
git -C /repo worktree add -q --detach "$wt" HEAD
if [ "$patch" = "-" ]; then git -C "$wt" apply --whitespace=nowarn -; else git -C "$wt" apply --whitespace=nowarn "$patch"; fi
set +e
VERIF_REPO=$wt VERIF_BUDGET_S=$budget VERIF_WORKERS=${VERIF_WORKERS:-8} /verif/check $id quick > /tmp/mut/$name.log 2>&1
rc=$?
set -e
grep -E "^(VIOLATION|TROUBLE|KNOWN|C[0-9]+ quick)" /tmp/mut/$name.log | cut -c1-200 | head -8
grep -B1 "^VIOLATION" /tmp/mut/$name.log | grep -v "^VIOLATION\|^--" | cut -c1-300 | head -3
git -C /repo worktree remove --force "$wt"
rm -rf /verif/.build/alt-$(python3 -c "import hashlib,sys;print(hashlib.sha256(sys.argv[1].encode()).hexdigest()[:10])" "$wt")
echo "mutcheck $name on $id: exit=$rc"
exit 0
