#!/usr/bin/env python3
"""Rewrites the seeded-changes table of DESIGN.md section 14 from /verif/seeded/*/meta.json."""
import glob, json, os, re
ROOT = os.path.dirname(os.path.dirname(os.path.abspath(__file__)))
rows = []
for m in sorted(glob.glob(os.path.join(ROOT, "seeded", "*", "meta.json"))):
    d = json.load(open(m))
    name = os.path.basename(os.path.dirname(m))
    c = d.get("confirmed_by_lead", {}).get("check", {})
    caught = ("caught: " + ", ".join("`%s`" % x for x in c.get("classes", [])[:4])) if c.get("caught") else "**missed**"
    note = d.get("lead_note", "")
    if note:
        caught += " — " + note
    def cell(x):
        return re.sub(r"\s+", " ", str(x)).replace("|", "/")[:420]
    rows.append("| `seeded/%s` — %s | %s | %s | %s |" % (name, cell(d.get("summary", "")), d.get("property", ""), cell(d.get("needs", "")), caught))
p = os.path.join(ROOT, "DESIGN.md")
s = open(p).read()
head = "| seeded change | property | needs | caught by |\n|---------------|----------|-------|-----------|\n"
i = s.index(head) + len(head)
j = s.index("\n---", i)
s = s[:i] + "\n".join(rows) + "\n" + s[j:]
open(p, "w").write(s)
print("%d seeded changes" % len(rows))
