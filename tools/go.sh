#!/bin/sh
# Runs the repository's own Go toolchain (1.25.7) offline.
export GOTOOLCHAIN=local GOFLAGS=-mod=mod GOPROXY=off GOSUMDB=off GONOSUMDB='*' GONOSUMCHECK=1 GOLOG_LOG_LEVEL=ERROR+8
exec /root/go/pkg/mod/golang.org/toolchain@v0.0.1-go1.25.7.linux-amd64/bin/go "$@"
