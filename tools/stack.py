# Packages of /repo that full-stack harnesses instrument so that EVERY goroutine of the node is a task of
# the simulation (lock-level scheduling, reproducible traces). Dependencies that hold locks across I/O or
# run their own goroutines are copied from the module cache and instrumented too (see check: ensure_dep).
FULL_STACK = [
    "./p2p/net/swarm", "./p2p/net/upgrader", "./p2p/host/basic", "./p2p/protocol/identify", "./p2p/host/eventbus",
    "./p2p/host/resource-manager", "./p2p/host/peerstore/pstoremem", "./p2p/security/noise", "./p2p/security/tls",
    "./p2p/net/pnet", "./p2p/transport/tcp", "./p2p/muxer/yamux", "./p2p/protocol/ping", "./p2p/net/connmgr",
    "./p2p/host/pstoremanager", "./p2p/host/observedaddrs", "./p2p/security/insecure",
]
FULL_DEPS = ["yamux", "multistream"]

# QUIC stratum: the real QUIC transport and quic-go itself as tasks of the scheduler, over simnet's UDP model.
QUIC_STACK = ["./p2p/transport/quic", "./p2p/transport/quicreuse"]
QUIC_DEPS = ["quic"]

# WebTransport on top of the QUIC stratum: quic-go/http3 (part of the quic copy) and webtransport-go instrumented too.
WT_STACK = ["./p2p/transport/webtransport"]
WT_DEPS = ["webtransport"]

# Shared-TCP path (tcpreuse demultiplexing listener + sampledconn + TcpTransport.Listen) on simnet: the package is
# instrumented, an overlay-only file adds the seam and one call in listener.go is redirected to it.
TCPREUSE_STACK = ["./p2p/transport/tcpreuse", "./p2p/transport/tcpreuse/internal/sampledconn"]
TCPREUSE_ADD = {"p2p/transport/tcpreuse/zz_verif_hook.go": "simhost/overlay/tcpreuse_hook.go"}
TCPREUSE_PATCH = [("p2p/transport/tcpreuse/listener.go", "manet.Listen(listenAddr)", "verifListen(listenAddr)")]
