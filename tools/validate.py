#!/opt/veriftools/pyvenv/bin/python
import json, jsonschema, glob, sys
jsonschema.validate(json.load(open('/verif/MANIFEST.json')), json.load(open('/root/.vp/MANIFEST.schema.json')))
n = 0
for f in glob.glob('/verif/evidence/*.json'):
    jsonschema.validate(json.load(open(f)), json.load(open('/root/.vp/EVIDENCE.schema.json')))
    n += 1
print('manifest valid; %d evidence files valid' % n)
