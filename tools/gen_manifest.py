#!/usr/bin/env python3
"""Writes /verif/MANIFEST.json from tools/props.py (single source of truth)."""
import json, os, sys
ROOT = os.path.dirname(os.path.dirname(os.path.abspath(__file__)))
sys.path.insert(0, os.path.join(ROOT, "tools"))
from props import PROPS, NOT_APPLICABLE

ALL = ["C%02d" % i for i in range(1, 21)]
# only checks that were reviewed and confirmed clean on the unchanged tree are claimed
CLAIMED = [l.strip() for l in open(os.path.join(ROOT, "tools", "claimed.txt")) if l.strip() and not l.startswith("#")]
PROPS = {k: v for k, v in PROPS.items() if k in CLAIMED}
checks = []
for pid in sorted(PROPS):
    s = PROPS[pid]
    checks.append({
        "property_id": pid,
        "quick_cmd": "./check %s quick" % pid,
        "thorough_cmd": "./check %s thorough" % pid,
        "evidence_file": "/verif/evidence/%s.json" % pid,
        "replay_cmd_template": "./check replay {path}",
        "engine": "verifsim",
        "level_claimed": {"category": s["level"], "text": s["level_text"], "design_ref": s.get("design_ref", "DESIGN.md")},
        "level_note": s["level_note"],
        "technique": s["technique"],
    })
na = []
for pid in ALL:
    if pid in PROPS:
        continue
    na.append({"property_id": pid, "reason": NOT_APPLICABLE.get(pid, "check not built yet in this phase; not claimed")})
m = {
    "version": 1,
    "setup_cmd": "./check setup",
    "hooks": {
        "guard": "verif",
        "enable": "no source hooks: checks instrument the current working tree of /repo through a go build -overlay generated at check time (tools: /verif/instrument); in-package harness files (C18) and one overlay-only seam (an extra file in p2p/transport/tcpreuse plus one substituted call in the overlay copy of its listener.go, so that the shared-TCP listener path runs on the simulated network; C02, C04) are added through the same overlay; instrumented copies of go-yamux, go-multistream, quic-go and webtransport-go are selected through a generated -modfile",
        "baseline_off_cmd": "cd /repo && go test -vet=off -count=1 -timeout 25m ./...",
        "source_commits": [],
        "add_only": True,
    },
    "engines": [{
        "name": "verifsim",
        "path": "/verif",
        "serves_properties": sorted(PROPS),
        "kind_free_text": "deterministic simulation with fault injection: seeded cooperative scheduler on testing/synctest (simrt), sync replacement (simsync), overlay instrumenter, simulated network/disk, choice tapes with replay and minimisation",
    }],
    "checks": checks,
    "not_applicable": na,
    "notes": "See DESIGN.md. Known genuine defects that are recorded rather than repaired are listed in known_findings.json.",
}
json.dump(m, open(os.path.join(ROOT, "MANIFEST.json"), "w"), indent=1)
print("MANIFEST.json: %d checks, %d not claimed" % (len(checks), len(na)))
