#!/usr/bin/env python3
"""Confirms a seeded change and runs the check against it.

  tools/seedeval.py <ID> <n> [--budget S] [--workers N] [--pkgs ./p2p/x/...]

Input: /tmp/seed/<ID>.out/<n>/{patch.diff, zz_seed_*_test.go | demo files, meta.json} written by an independent sub-agent
that saw only the property text. Steps, each in a scratch git worktree of /repo outside /repo and /verif:
  1. demo WITHOUT the change passes, 2. demo WITH the change fails, 3. the touched packages' own tests pass WITH the change,
  4. `VERIF_REPO=<worktree> ./check <ID> quick` — exit 1 = caught.
The change is kept as /verif/seeded/<ID>-<n>/ (patch.diff, demo, meta.json with what was run) only if 1-3 hold.
The worktree and its build output are removed afterwards.
"""
import hashlib
import json
import os
import re
import shutil
import subprocess
import sys

ROOT = os.path.dirname(os.path.dirname(os.path.abspath(__file__)))
GO = os.path.join(ROOT, "tools", "go.sh")


def sh(cmd, cwd=None, timeout=3600, env=None):
    p = subprocess.run(cmd, cwd=cwd, shell=isinstance(cmd, str), stdout=subprocess.PIPE, stderr=subprocess.STDOUT, text=True,
                       timeout=timeout, env=env)
    return p.returncode, p.stdout


def main():
    a = sys.argv[1:]
    sid, n = a[0], a[1]  # seed id (e.g. C04b) and number
    pid = re.match(r"(C\d+)", sid).group(1)  # the property it belongs to
    budget, workers, pkgs = "45", "8", None
    demo_dir_cli = None
    check_only = "--check-only" in a  # re-run only step 4 against an already confirmed seed in /verif/seeded/<ID>-<n>
    a = [x for x in a if x != "--check-only"]
    i = 2
    while i < len(a):
        if a[i] == "--budget":
            budget = a[i + 1]
        elif a[i] == "--workers":
            workers = a[i + 1]
        elif a[i] == "--pkgs":
            pkgs = a[i + 1].split(",")
        elif a[i] == "--demo-dir":
            demo_dir_cli = a[i + 1]
        i += 2
    src = "/tmp/seed/%s.out/%s" % (sid, n)
    if check_only:
        src = os.path.join(ROOT, "seeded", "%s-%s" % (sid, n))
    patch = os.path.join(src, "patch.diff")
    meta = json.load(open(os.path.join(src, "meta.json"))) if os.path.exists(os.path.join(src, "meta.json")) else {}
    demos = [f for f in os.listdir(src) if f.endswith("_test.go") or (f.endswith(".go") and f != "patch.diff")]
    wt = "/tmp/seedeval/%s-%s" % (sid, n)
    shutil.rmtree(wt, ignore_errors=True)
    sh("git -C /repo worktree prune")
    rc, out = sh("git -C /repo worktree add -q --detach %s HEAD" % wt)
    if rc != 0:
        print(out)
        sys.exit(2)
    result = {"property": pid, "seed": n}
    try:
        # where do the demo files go: the package of the first file touched by the patch unless meta says otherwise
        touched = re.findall(r"^\+\+\+ b/(.+)$", open(patch).read(), re.M)
        touched = [t for t in touched if not os.path.basename(t).startswith("zz_seed")]
        demo_dir = demo_dir_cli or meta.get("demo_dir") or os.path.dirname(touched[0])
        # demos may name their package: find a directory whose package clause matches
        for d in demos:
            txt = open(os.path.join(src, d)).read()
            m = re.search(r"^package (\w+)", txt, re.M)
            shutil.copy(os.path.join(src, d), os.path.join(wt, demo_dir, d))
        run_pat = "|".join(sorted(set(re.findall(r"^func (Test\w+)\(", "".join(open(os.path.join(src, d)).read() for d in demos), re.M))))
        demo_cmd = [GO, "test", "-count=1", "-run", "^(%s)$" % run_pat, "./" + demo_dir]
        if check_only:
            for d in demos:
                os.remove(os.path.join(wt, demo_dir, d))
            rc, out = sh("git apply --whitespace=nowarn %s" % patch, cwd=wt)
            if rc != 0:
                print(json.dumps({"seed": sid + "-" + n, "error": "patch does not apply: " + out[-300:]}))
                return
            env = dict(os.environ)
            env.update({"VERIF_REPO": wt, "VERIF_BUDGET_S": budget, "VERIF_WORKERS": workers})
            rc3, out3 = sh([os.path.join(ROOT, "check"), pid, "quick"], cwd=ROOT, env=env, timeout=3000)
            viol = re.findall(r"^  (C\d+/[^:]+):", out3, re.M)
            print(json.dumps({"seed": sid + "-" + n, "exit": rc3, "caught": rc3 == 1, "classes": sorted(set(viol))[:6]}))
            return
        rc0, out0 = sh(demo_cmd, cwd=wt)
        result["demo_without_change"] = "pass" if rc0 == 0 else "FAIL"
        rc, out = sh("git apply --whitespace=nowarn %s" % patch, cwd=wt)
        if rc != 0:
            print("patch does not apply:", out)
            result["error"] = "patch does not apply"
            print(json.dumps(result, indent=1))
            return
        rc1, out1 = sh(demo_cmd, cwd=wt)
        result["demo_with_change"] = "fail (as intended)" if rc1 != 0 else "PASSES (change not demonstrated)"
        result["demo_output_tail"] = out1[-600:]
        # existing tests of touched packages (without the demo files)
        for d in demos:
            os.remove(os.path.join(wt, demo_dir, d))
        test_pkgs = pkgs or sorted(set("./" + os.path.dirname(t) for t in touched))
        rc2, out2 = sh([GO, "test", "-count=1"] + test_pkgs, cwd=wt, timeout=3000)
        fails = re.findall(r"^--- FAIL: (\S+)", out2, re.M)
        # BASELINE.json: always_fail / flaky on the unchanged tree. Anything else that fails is re-run alone twice:
        # fixed ports and real-time assumptions make some swarm tests collide with other test runs on this machine.
        try:
            b = json.load(open("/root/.vp/BASELINE.json"))
            known_bad = set(x.split("::")[-1] for x in b.get("always_fail", []) + b.get("flaky", []))
        except Exception:
            known_bad = {"TestDialWorkerLoopTCPConnUpgradeWait", "TestDialBackoff"}
        fails = [f for f in fails if f.split("/")[0] not in known_bad]
        still = []
        for f in sorted(set(x.split("/")[0] for x in fails)):
            bad = 0
            for _ in range(2):
                rcx, outx = sh([GO, "test", "-count=1", "-run", "^%s$" % f] + test_pkgs, cwd=wt, timeout=1200)
                if re.search(r"^--- FAIL", outx, re.M):
                    bad += 1
            if bad == 2:
                still.append(f)
        fails = still
        result["existing_tests"] = {"packages": test_pkgs, "result": "pass" if not fails and ("FAIL" not in out2 or not fails) else "FAIL", "failed": fails}
        ok = rc0 == 0 and rc1 != 0 and not fails
        result["confirmed"] = ok
        # the check
        env = dict(os.environ)
        env.update({"VERIF_REPO": wt, "VERIF_BUDGET_S": budget, "VERIF_WORKERS": workers})
        rc3, out3 = sh([os.path.join(ROOT, "check"), pid, "quick"], cwd=ROOT, env=env, timeout=3000)
        viol = re.findall(r"^  (C\d+/[^:]+):", out3, re.M)
        result["check"] = {"cmd": "VERIF_REPO=<worktree with the patch> ./check %s quick (budget %ss, %s workers)" % (pid, budget, workers),
                           "exit": rc3, "caught": rc3 == 1, "classes": sorted(set(viol))[:8]}
        if rc3 not in (0, 1):
            result["check"]["output_tail"] = out3[-1500:]
        if ok:
            dst = os.path.join(ROOT, "seeded", "%s-%s" % (sid, n))
            shutil.rmtree(dst, ignore_errors=True)
            os.makedirs(dst)
            shutil.copy(patch, dst)
            for d in demos:
                shutil.copy(os.path.join(src, d), dst)
            meta.update({"property": pid, "confirmed_by_lead": result})
            json.dump(meta, open(os.path.join(dst, "meta.json"), "w"), indent=1)
        print(json.dumps(result, indent=1))
    finally:
        sh("git -C /repo worktree remove --force %s" % wt)
        h = hashlib.sha256(os.path.abspath(wt).encode()).hexdigest()[:10]
        shutil.rmtree(os.path.join(ROOT, ".build", "alt-" + h), ignore_errors=True)


if __name__ == "__main__":
    main()
