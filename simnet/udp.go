package simnet

// Simulated UDP: net.PacketConn endpoints on the same Net. Every datagram's fate is drawn from the tape when it is
// sent: delivered, lost, duplicated, and a latency per copy (different latencies reorder datagrams). A scripted
// filter (partitions, targeted loss) and the Net's blocked predicate apply too. Each copy travels as its own timer
// task (simrt.AfterFunc), so which datagram arrives next at one virtual instant is a scheduling decision.
//
// This is the wire QUIC runs over (quicreuse.OverrideListenUDP): quic-go's loss recovery, retransmission, path
// handling and the transport's hole punching meet the faults real UDP has and a TCP model cannot produce.

import (
	"fmt"
	"net"
	"sort"
	"sync"
	"syscall"
	"time"

	"verifsim/simrt"
)

// UDPConfig: fates per datagram. Zero value = every datagram is delivered at once.
type UDPConfig struct {
	DropPermille int             // lost
	DupPermille  int             // delivered twice (second copy draws its own latency)
	Latencies    []time.Duration // drawn per copy; index 0 should be the smallest
}

// UDPVerdict of a scripted filter.
type UDPVerdict int

const (
	UDPPass UDPVerdict = iota // fate is drawn as usual
	UDPDrop                   // lost (counted as "udp-filtered")
	UDPSure                   // delivered without drawing a loss (latency still drawn)
)

type dgram struct {
	from *net.UDPAddr
	data []byte
}

// PacketConn is one simulated UDP socket.
type PacketConn struct {
	n    *Net
	addr *net.UDPAddr

	mu     sync.Mutex
	q      []dgram
	closed bool
	rdl    time.Time
	rsig   chan struct{}
	dlsig  chan struct{}
	sent   int
	recvd  int
}

const udpQueueLimit = 4096 // datagrams queued at a socket nobody reads are dropped beyond this (receive buffer)

func (n *Net) SetUDP(cfg UDPConfig) { n.mu.Lock(); n.udpCfg = cfg; n.mu.Unlock() }

// SetUDPFilter installs a scripted verdict per datagram (from, to, payload). It runs in the sender's task and must
// not block.
func (n *Net) SetUDPFilter(f func(from, to *net.UDPAddr, data []byte) UDPVerdict) {
	n.mu.Lock()
	n.udpFilter = f
	n.mu.Unlock()
}

// SetUDPMangle installs an adversary that may rewrite datagrams in flight: it gets a private copy of every datagram that
// survived the filter and the drawn loss and returns the bytes that travel instead (the same slice, edited or not; nil =
// the datagram disappears). "udp-mangled" counts calls, not edits. It runs in the sender's task and must not block.
func (n *Net) SetUDPMangle(f func(from, to *net.UDPAddr, data []byte) []byte) {
	n.mu.Lock()
	n.udpMangle = f
	n.mu.Unlock()
}

// UDPSockets lists the open sockets' addresses (sorted).
func (n *Net) UDPSockets() []string {
	n.mu.Lock()
	defer n.mu.Unlock()
	var out []string
	for k := range n.udp {
		out = append(out, k)
	}
	sort.Strings(out)
	return out
}

func (n *Net) udpNote(what string) {
	n.mu.Lock()
	if n.udpCount == nil {
		n.udpCount = map[string]int{}
	}
	n.udpCount[what]++
	n.mu.Unlock()
}

// ListenUDP opens a socket. port 0 = an ephemeral port.
func (n *Net) ListenUDP(ip string, port int) (*PacketConn, error) {
	a := &net.UDPAddr{IP: net.ParseIP(ip), Port: port}
	if a.IP == nil {
		return nil, fmt.Errorf("simnet: bad ip %q", ip)
	}
	if v4 := a.IP.To4(); v4 != nil {
		a.IP = v4
	}
	n.mu.Lock()
	defer n.mu.Unlock()
	if n.udp == nil {
		n.udp = map[string]*PacketConn{}
	}
	if port == 0 {
		for {
			n.nextPort++
			if _, ok := n.udp[key(a.IP, n.nextPort)]; !ok {
				break
			}
		}
		a.Port = n.nextPort
	}
	k := key(a.IP, a.Port)
	if _, ok := n.udp[k]; ok {
		return nil, &net.OpError{Op: "listen", Net: "udp", Addr: a, Err: syscall.EADDRINUSE}
	}
	p := &PacketConn{n: n, addr: a, rsig: make(chan struct{}, 1), dlsig: make(chan struct{}, 1)}
	n.udp[k] = p
	return p, nil
}

// UDPListenFunc is what quicreuse.OverrideListenUDP wants for a node with one IP: unspecified addresses bind to it.
func (n *Net) UDPListenFunc(nodeIP string) func(network string, laddr *net.UDPAddr) (net.PacketConn, error) {
	return func(network string, laddr *net.UDPAddr) (net.PacketConn, error) {
		ip, port := nodeIP, 0
		if laddr != nil {
			port = laddr.Port
			if laddr.IP != nil && !laddr.IP.IsUnspecified() {
				ip = laddr.IP.String()
			}
		}
		return n.ListenUDP(ip, port)
	}
}

func (p *PacketConn) LocalAddr() net.Addr { return p.addr }

func (p *PacketConn) Counts() (sent, received int) {
	p.mu.Lock()
	defer p.mu.Unlock()
	return p.sent, p.recvd
}

func (p *PacketConn) WriteTo(b []byte, addr net.Addr) (int, error) {
	to, ok := addr.(*net.UDPAddr)
	if !ok {
		return 0, fmt.Errorf("simnet: not a udp address: %v", addr)
	}
	simrt.Yield("udp.write")
	p.mu.Lock()
	if p.closed {
		p.mu.Unlock()
		return 0, &net.OpError{Op: "write", Net: "udp", Addr: p.addr, Err: net.ErrClosed}
	}
	p.sent++
	p.mu.Unlock()
	n := p.n
	ip := to.IP
	if v4 := ip.To4(); v4 != nil {
		ip = v4
	}
	k := key(ip, to.Port)
	n.mu.Lock()
	cfg, filter, blocked, mangle := n.udpCfg, n.udpFilter, n.blocked, n.udpMangle
	n.mu.Unlock()
	n.udpNote("udp-sent")
	if blocked != nil && blocked(p.addr.IP.String(), k) {
		n.udpNote("udp-partitioned")
		return len(b), nil
	}
	verdict := UDPPass
	if filter != nil {
		verdict = filter(p.addr, to, b)
	}
	if verdict == UDPDrop {
		n.udpNote("udp-filtered")
		return len(b), nil
	}
	copies := 1
	if cfg.DropPermille > 0 || cfg.DupPermille > 0 {
		// 0 = delivered once (simplest); the top of the range is loss, below it duplication
		r := n.tape.Draw(1000)
		switch {
		case r >= 1000-cfg.DropPermille:
			if verdict != UDPSure {
				n.udpNote("udp-lost")
				return len(b), nil
			}
		case r >= 1000-cfg.DropPermille-cfg.DupPermille:
			copies = 2
			n.udpNote("udp-duplicated")
		}
	}
	data := append([]byte(nil), b...)
	from := p.addr
	n.mu.Lock()
	if ip, port := n.natOutLocked("udp", p.addr.IP, p.addr.Port); !ip.Equal(p.addr.IP) || port != p.addr.Port {
		from = &net.UDPAddr{IP: ip, Port: port}
	}
	n.mu.Unlock()
	if mangle != nil {
		// the adversary on the wire: sees a copy of the datagram and returns what travels instead (nil = nothing)
		if data = mangle(p.addr, to, data); data == nil {
			n.udpNote("udp-filtered")
			return len(b), nil
		}
		n.udpNote("udp-mangled")
	}
	for i := 0; i < copies; i++ {
		var lat time.Duration
		if len(cfg.Latencies) > 0 {
			li := n.tape.Draw(len(cfg.Latencies))
			lat = cfg.Latencies[li]
			if li > 0 {
				n.udpNote("udp-delayed")
			}
		}
		simrt.AfterFunc(lat, func() {
			simrt.Yield("udp.deliver")
			n.mu.Lock()
			dst := n.udp[k]
			if dst == nil {
				if pk := n.natInLocked("udp", k); pk != "" {
					dst = n.udp[pk]
				}
			}
			n.mu.Unlock()
			if dst == nil {
				n.udpNote("udp-no-socket")
				return
			}
			dst.mu.Lock()
			if dst.closed || len(dst.q) >= udpQueueLimit {
				dst.mu.Unlock()
				n.udpNote("udp-no-socket")
				return
			}
			dst.q = append(dst.q, dgram{from: from, data: data})
			dst.mu.Unlock()
			n.udpNote("udp-delivered")
			sig(dst.rsig)
		})
	}
	return len(b), nil
}

func (p *PacketConn) ReadFrom(b []byte) (int, net.Addr, error) {
	for {
		p.mu.Lock()
		if p.closed {
			p.mu.Unlock()
			return 0, nil, &net.OpError{Op: "read", Net: "udp", Addr: p.addr, Err: net.ErrClosed}
		}
		if len(p.q) > 0 {
			d := p.q[0]
			p.q = p.q[1:]
			p.recvd++
			p.mu.Unlock()
			n := copy(b, d.data)
			return n, d.from, nil
		}
		dl := p.rdl
		p.mu.Unlock()
		var tc <-chan time.Time
		var tm *time.Timer
		if !dl.IsZero() {
			d := time.Until(dl)
			if d <= 0 {
				return 0, nil, &net.OpError{Op: "read", Net: "udp", Addr: p.addr, Err: timeoutError{}}
			}
			tm = time.NewTimer(d)
			tc = tm.C
		}
		select {
		case <-p.rsig:
		case <-p.dlsig:
		case <-tc:
		}
		if tm != nil {
			tm.Stop()
		}
		// same discipline as Conn.Read: park before running on, then drop leftover wake-up tokens
		simrt.Yield("udp.read+")
		drain(p.rsig)
		drain(p.dlsig)
	}
}

func (p *PacketConn) Close() error {
	p.mu.Lock()
	if p.closed {
		p.mu.Unlock()
		return nil
	}
	p.closed = true
	p.q = nil
	p.mu.Unlock()
	p.n.mu.Lock()
	if p.n.udp[key(p.addr.IP, p.addr.Port)] == p {
		delete(p.n.udp, key(p.addr.IP, p.addr.Port))
	}
	p.n.mu.Unlock()
	sig(p.dlsig)
	return nil
}

func (p *PacketConn) SetDeadline(t time.Time) error { return p.SetReadDeadline(t) }

func (p *PacketConn) SetReadDeadline(t time.Time) error {
	p.mu.Lock()
	p.rdl = t
	p.mu.Unlock()
	sig(p.dlsig)
	return nil
}

func (p *PacketConn) SetWriteDeadline(time.Time) error { return nil }

// SetReadBuffer / SetWriteBuffer: quic-go asks for larger socket buffers when the connection offers these.
func (p *PacketConn) SetReadBuffer(int) error  { return nil }
func (p *PacketConn) SetWriteBuffer(int) error { return nil }
