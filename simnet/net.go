// Package simnet is the only network the simulated system sees (DESIGN.md §2.4): in-memory
// net.Conn pairs with *net.TCPAddr endpoints, listeners per simulated address and a dialer
// usable through the TCP transport's WithDialerForAddr option.
//
// Calls made by (un-instrumented) go-libp2p code never park in the scheduler: Write appends
// to an in-flight queue and returns, Read blocks durably until the simulator DELIVERS bytes.
// Delivery is done by one pump task per connection direction; each delivery is a scheduling
// decision (which direction progresses) plus draws for chunk size and latency, so short reads
// and arbitrary fragmentation come from the tape. Faults are injected per endpoint at a given
// I/O call index.
package simnet

import (
	"context"
	"errors"
	"fmt"
	"io"
	"net"
	"os"
	"sync"
	"syscall"
	"time"

	"verifsim/simrt"
)

// FaultKind is an injected stream fault.
type FaultKind int

const (
	NoFault  FaultKind = iota
	ReadErr            // the k-th I/O call, if a Read, fails (otherwise the next Read)
	WriteErr           // ... Write fails
	EOF                // peer appears to have closed: reads return EOF from now on, writes fail
	Reset              // connection reset by peer on both directions
	Stall              // nothing is delivered to this end any more (until its deadline / close)
)

func (k FaultKind) String() string {
	return [...]string{"none", "read-error", "write-error", "eof", "reset", "stall"}[k]
}

// Fault fires at the endpoint's AtCall-th Read/Write call (1-based).
type Fault struct {
	Kind   FaultKind
	AtCall int
}

// ErrInjected marks errors produced by fault injection.
var ErrInjected = errors.New("simnet: injected fault")

type timeoutError struct{}

func (timeoutError) Error() string   { return "simnet: i/o timeout" }
func (timeoutError) Timeout() bool   { return true }
func (timeoutError) Temporary() bool { return true }
func (timeoutError) Is(err error) bool {
	return err == os.ErrDeadlineExceeded || err == context.DeadlineExceeded
}

// half is one direction of a connection: writer -> reader.
type half struct {
	mu       sync.Mutex
	inflight []byte // written, not yet delivered
	buf      []byte // delivered, not yet read
	wclosed  bool   // writer end closed (EOF after everything was delivered and read)
	rclosed  bool   // reader end closed (data is discarded)
	reset    bool
	stalled  bool
	rsig     chan struct{} // wakes the reader
	wsig     chan struct{} // wakes a writer blocked by back-pressure
	psig     chan struct{} // wakes the pump
	done     bool          // pump finished
}

func newHalf() *half {
	return &half{rsig: make(chan struct{}, 1), wsig: make(chan struct{}, 1), psig: make(chan struct{}, 1)}
}

func sig(c chan struct{}) {
	select {
	case c <- struct{}{}:
	default:
	}
}

// Conn is one endpoint of a simulated TCP connection.
type Conn struct {
	n          *Net
	id         int
	dialer     bool
	local, rem *net.TCPAddr
	in, out    *half
	peer       *Conn

	mu          sync.Mutex
	closed      bool
	calls       int
	reads       int
	writes      int
	bytesIn     int
	bytesOut    int
	faults      []Fault
	fired       []Fault
	readErr     bool
	writeErr    bool
	rdeadline   time.Time
	wdeadline   time.Time
	closeSeq    uint64
	dlsig       chan struct{} // deadline changed
	hook        Hook
	mode        *LinkMode
	onCall      func(call int, isRead bool)
	errWithData bool
}

// Stats of an endpoint, for oracles (I/O indices for fault sweeps, Close observed).
type Stats struct {
	Calls, Reads, Writes, BytesIn, BytesOut int
	Closed                                  bool
	CloseStamp                              uint64
	Fired                                   []Fault
}

func (c *Conn) Stats() Stats {
	c.mu.Lock()
	defer c.mu.Unlock()
	return Stats{c.calls, c.reads, c.writes, c.bytesIn, c.bytesOut, c.closed, c.closeSeq, append([]Fault(nil), c.fired...)}
}

func (c *Conn) ID() int        { return c.id }
func (c *Conn) IsDialer() bool { return c.dialer }
func (c *Conn) Peer() *Conn    { return c.peer }

// InjectFault schedules a fault on this endpoint.
func (c *Conn) InjectFault(f Fault) {
	c.mu.Lock()
	c.faults = append(c.faults, f)
	c.mu.Unlock()
}

// step counts an I/O call and fires due faults. Returns an error to return from the call.
func (c *Conn) step(isRead bool) error {
	c.mu.Lock()
	if cb := c.onCall; cb != nil {
		n := c.calls + 1
		c.mu.Unlock()
		cb(n, isRead) // must not block: start a task for anything that does
		c.mu.Lock()
	}
	c.calls++
	if isRead {
		c.reads++
	} else {
		c.writes++
	}
	var due []Fault
	rest := c.faults[:0]
	for _, f := range c.faults {
		if f.AtCall <= c.calls {
			due = append(due, f)
		} else {
			rest = append(rest, f)
		}
	}
	c.faults = rest
	for _, f := range due {
		c.fired = append(c.fired, f)
		c.n.noteFault(f.Kind)
		switch f.Kind {
		case ReadErr:
			c.readErr = true
		case WriteErr:
			c.writeErr = true
		case EOF:
			// as if the peer had closed: our reads see EOF (after what was delivered), our writes fail
			c.in.mu.Lock()
			c.in.wclosed = true
			c.in.inflight = nil
			c.in.mu.Unlock()
			c.out.mu.Lock()
			c.out.rclosed = true
			c.out.mu.Unlock()
			sig(c.in.rsig)
		case Reset:
			for _, h := range []*half{c.in, c.out} {
				h.mu.Lock()
				h.reset = true
				h.inflight, h.buf = nil, nil
				h.mu.Unlock()
				sig(h.rsig)
				sig(h.psig)
			}
		case Stall:
			c.in.mu.Lock()
			c.in.stalled = true
			c.in.mu.Unlock()
		}
	}
	var err error
	if isRead && c.readErr {
		c.readErr = false
		err = fmt.Errorf("read %v: %w", c.local, ErrInjected)
	}
	if !isRead && c.writeErr {
		c.writeErr = false
		err = fmt.Errorf("write %v: %w", c.local, ErrInjected)
	}
	c.mu.Unlock()
	return err
}

func (c *Conn) Read(p []byte) (int, error) {
	if err := c.step(true); err != nil {
		return 0, err
	}
	if len(p) == 0 {
		return 0, nil
	}
	for {
		c.mu.Lock()
		closed, dl := c.closed, c.rdeadline
		c.mu.Unlock()
		if closed {
			return 0, &net.OpError{Op: "read", Net: "tcp", Addr: c.local, Err: net.ErrClosed}
		}
		h := c.in
		h.mu.Lock()
		if h.reset {
			h.mu.Unlock()
			return 0, &net.OpError{Op: "read", Net: "tcp", Addr: c.local, Err: syscall.ECONNRESET}
		}
		if len(h.buf) > 0 {
			n := copy(p, h.buf)
			h.buf = h.buf[n:]
			last := len(h.buf) == 0 && h.wclosed && len(h.inflight) == 0
			h.mu.Unlock()
			sig(h.wsig) // room again
			c.mu.Lock()
			c.bytesIn += n
			ewd := c.errWithData
			c.mu.Unlock()
			if last && ewd {
				// io.Reader allows the final bytes and io.EOF in one call; some connections do that
				return n, io.EOF
			}
			return n, nil
		}
		if h.wclosed && len(h.inflight) == 0 {
			h.mu.Unlock()
			return 0, io.EOF
		}
		h.mu.Unlock()
		// wait for delivery, close, or deadline
		var tc <-chan time.Time
		var tm *time.Timer
		if !dl.IsZero() {
			d := time.Until(dl)
			if d <= 0 {
				return 0, &net.OpError{Op: "read", Net: "tcp", Addr: c.local, Err: timeoutError{}}
			}
			tm = time.NewTimer(d)
			tc = tm.C
		}
		select {
		case <-h.rsig:
		case <-c.dlsig:
		case <-tc:
		}
		if tm != nil {
			tm.Stop()
		}
		// woken by a delivery, a close or a timer: park before running any further, so that the
		// reader never runs concurrently with whoever woke it (no-op for goroutines that are not tasks
		// of an instrumented stack... they become tasks here, which only makes them more orderly)
		simrt.Yield("net.read+")
		// now nobody else runs: drop whatever wake-up tokens are left, so that the number of further
		// wake-ups does not depend on which ready case the runtime's select happened to take
		drain(h.rsig)
		drain(c.dlsig)
	}
}

func drain(c chan struct{}) {
	for {
		select {
		case <-c:
		default:
			return
		}
	}
}

const maxBuffered = 8 << 20

func (c *Conn) Write(p []byte) (int, error) {
	if err := c.step(false); err != nil {
		return 0, err
	}
	for {
		c.mu.Lock()
		closed, dl := c.closed, c.wdeadline
		c.mu.Unlock()
		if closed {
			return 0, &net.OpError{Op: "write", Net: "tcp", Addr: c.local, Err: net.ErrClosed}
		}
		h := c.out
		h.mu.Lock()
		if h.reset {
			h.mu.Unlock()
			return 0, &net.OpError{Op: "write", Net: "tcp", Addr: c.local, Err: syscall.ECONNRESET}
		}
		if h.rclosed {
			h.mu.Unlock()
			return 0, &net.OpError{Op: "write", Net: "tcp", Addr: c.local, Err: syscall.EPIPE}
		}
		if h.wclosed {
			h.mu.Unlock()
			return 0, &net.OpError{Op: "write", Net: "tcp", Addr: c.local, Err: net.ErrClosed}
		}
		if len(h.inflight)+len(h.buf) < maxBuffered {
			h.inflight = append(h.inflight, p...)
			h.mu.Unlock()
			sig(h.psig)
			c.mu.Lock()
			c.bytesOut += len(p)
			c.mu.Unlock()
			return len(p), nil
		}
		h.mu.Unlock()
		// back-pressure: wait until the reader made room
		var tc <-chan time.Time
		var tm *time.Timer
		if !dl.IsZero() {
			d := time.Until(dl)
			if d <= 0 {
				return 0, &net.OpError{Op: "write", Net: "tcp", Addr: c.local, Err: timeoutError{}}
			}
			tm = time.NewTimer(d)
			tc = tm.C
		}
		select {
		case <-h.wsig:
		case <-c.dlsig:
		case <-tc:
		}
		if tm != nil {
			tm.Stop()
		}
	}
}

func (c *Conn) Close() error {
	c.mu.Lock()
	if c.closed {
		c.mu.Unlock()
		return &net.OpError{Op: "close", Net: "tcp", Addr: c.local, Err: net.ErrClosed}
	}
	c.closed = true
	c.closeSeq = simrt.Stamp()
	c.mu.Unlock()
	c.out.mu.Lock()
	c.out.wclosed = true
	c.out.mu.Unlock()
	c.in.mu.Lock()
	c.in.rclosed = true
	c.in.buf, c.in.inflight = nil, nil
	c.in.mu.Unlock()
	sig(c.in.rsig)
	sig(c.out.psig)
	sig(c.in.psig)
	sig(c.out.rsig)
	sig(c.in.wsig)
	sig(c.out.wsig)
	sig(c.dlsig)
	return nil
}

// CloseWrite half-closes (TCP FIN): the peer reads EOF after what was written.
func (c *Conn) CloseWrite() error {
	c.out.mu.Lock()
	c.out.wclosed = true
	c.out.mu.Unlock()
	sig(c.out.psig)
	sig(c.out.rsig)
	return nil
}

func (c *Conn) CloseRead() error {
	c.in.mu.Lock()
	c.in.rclosed = true
	c.in.buf, c.in.inflight = nil, nil
	c.in.mu.Unlock()
	sig(c.in.rsig)
	return nil
}

func (c *Conn) LocalAddr() net.Addr  { return c.local }
func (c *Conn) RemoteAddr() net.Addr { return c.rem }

func (c *Conn) SetDeadline(t time.Time) error {
	c.mu.Lock()
	c.rdeadline, c.wdeadline = t, t
	c.mu.Unlock()
	sig(c.dlsig)
	return nil
}
func (c *Conn) SetReadDeadline(t time.Time) error {
	c.mu.Lock()
	c.rdeadline = t
	c.mu.Unlock()
	sig(c.dlsig)
	return nil
}
func (c *Conn) SetWriteDeadline(t time.Time) error {
	c.mu.Lock()
	c.wdeadline = t
	c.mu.Unlock()
	sig(c.dlsig)
	return nil
}

// Options the TCP transport tries on real sockets.
func (c *Conn) SetLinger(int) error                    { return nil }
func (c *Conn) SetKeepAlive(bool) error                { return nil }
func (c *Conn) SetKeepAlivePeriod(time.Duration) error { return nil }
func (c *Conn) SetNoDelay(bool) error                  { return nil }

// Hook sees every chunk about to be delivered in one direction and returns what is delivered
// instead (adversary mode). It runs on the pump task.
type Hook func(toDialer bool, chunk []byte) []byte

// pump delivers one direction. It is a task of the simulation.
func (n *Net) pump(h *half, c *Conn, toDialer bool) {
	for {
		h.mu.Lock()
		for {
			if h.rclosed || h.reset || (h.wclosed && len(h.inflight) == 0) {
				h.done = true
				h.inflight = nil
				h.mu.Unlock()
				sig(h.rsig)
				return
			}
			if len(h.inflight) > 0 && !h.stalled {
				break
			}
			h.mu.Unlock()
			<-h.psig // durable; woken by Write / Close
			h.mu.Lock()
		}
		h.mu.Unlock()
		// one delivery = one scheduling decision
		simrt.Yield("deliver")
		lat := n.drawLatency(c)
		if lat > 0 {
			simrt.TimeSleep(lat)
		}
		h.mu.Lock()
		if h.rclosed || h.reset || h.stalled || len(h.inflight) == 0 {
			h.mu.Unlock()
			continue
		}
		k := n.drawChunk(c, len(h.inflight))
		chunk := h.inflight[:k]
		if c.hook != nil {
			chunk = c.hook(toDialer, append([]byte(nil), chunk...))
		}
		h.buf = append(h.buf, chunk...)
		h.inflight = h.inflight[k:]
		n.deliveries++
		h.mu.Unlock()
		sig(h.rsig)
	}
}

// Net ---------------------------------------------------------------------------------------

// LinkMode selects how in-flight bytes are chunked on delivery.
type LinkMode int

const (
	Whole    LinkMode = iota // everything in flight at once
	Fragment                 // drawn size in [1, n]
	Tiny                     // 1..3 bytes (expensive; for handshakes and frame edges)
)

type Config struct {
	Mode      LinkMode
	Latencies []time.Duration // drawn per delivery (nil = none)
}

type DialRecord struct {
	From, To   string
	Start, End uint64
	StartAt    time.Duration
	Outcome    string
}

type Net struct {
	tape *simrt.Stream
	cfg  Config

	mu         sync.Mutex
	listeners  map[string]*Listener
	conns      []*Conn
	dials      []*DialRecord
	refused    map[string]bool // addr -> dial refused
	blackhole  map[string]bool // addr -> dial hangs until ctx
	faultCount map[FaultKind]int
	deliveries int
	nextPort   int
	onConn     func(dialer *Conn, listener *Conn)
	blocked    func(from, to string) bool

	udp       map[string]*PacketConn
	udpCfg    UDPConfig
	udpFilter func(from, to *net.UDPAddr, data []byte) UDPVerdict
	udpCount  map[string]int
	udpMangle func(from, to *net.UDPAddr, data []byte) []byte
	nat       *natState
}

func New(tape *simrt.Stream, cfg Config) *Net {
	return &Net{tape: tape, cfg: cfg, listeners: map[string]*Listener{}, refused: map[string]bool{}, blackhole: map[string]bool{},
		faultCount: map[FaultKind]int{}, nextPort: 40000}
}

func (n *Net) noteFault(k FaultKind) {
	// called with the conn lock held; own lock is leaf
	n.mu.Lock()
	n.faultCount[k]++
	n.mu.Unlock()
}

// FaultsFired reports how often each fault kind actually fired.
func (n *Net) FaultsFired() map[string]int {
	n.mu.Lock()
	defer n.mu.Unlock()
	out := map[string]int{}
	for k, v := range n.faultCount {
		out[k.String()] = v
	}
	for k, v := range n.udpCount {
		if k != "udp-sent" && k != "udp-delivered" && k != "udp-mangled" {
			out[k] = v
		}
	}
	return out
}

// UDPCounts: datagrams sent / delivered / lost / duplicated / delayed / partitioned / filtered / no-socket.
func (n *Net) UDPCounts() map[string]int {
	n.mu.Lock()
	defer n.mu.Unlock()
	out := map[string]int{}
	for k, v := range n.udpCount {
		out[k] = v
	}
	return out
}

func (n *Net) Deliveries() int { n.mu.Lock(); defer n.mu.Unlock(); return n.deliveries }

// OnConn registers a callback invoked (on the dialing goroutine) when a connection pair is
// created, before either side can use it: the place to inject faults or hooks.
func (n *Net) OnConn(f func(dialer, listener *Conn)) { n.onConn = f }

// SetBlocked installs a partition / firewall predicate consulted at dial time.
func (n *Net) SetBlocked(f func(from, to string) bool) { n.mu.Lock(); n.blocked = f; n.mu.Unlock() }

func (n *Net) SetRefused(addr string, v bool)   { n.mu.Lock(); n.refused[addr] = v; n.mu.Unlock() }
func (n *Net) SetBlackhole(addr string, v bool) { n.mu.Lock(); n.blackhole[addr] = v; n.mu.Unlock() }

func (n *Net) Conns() []*Conn {
	n.mu.Lock()
	defer n.mu.Unlock()
	return append([]*Conn(nil), n.conns...)
}
func (n *Net) Dials() []DialRecord {
	n.mu.Lock()
	defer n.mu.Unlock()
	out := make([]DialRecord, len(n.dials))
	for i, d := range n.dials {
		out[i] = *d
	}
	return out
}

func (n *Net) drawLatency(c *Conn) time.Duration {
	if len(n.cfg.Latencies) == 0 {
		return 0
	}
	return n.cfg.Latencies[n.tape.Draw(len(n.cfg.Latencies))]
}

func (n *Net) drawChunk(c *Conn, avail int) int {
	mode := n.cfg.Mode
	if c.mode != nil {
		mode = *c.mode
	}
	switch mode {
	case Fragment:
		// 0 = everything (simplest)
		switch n.tape.Draw(4) {
		case 0:
			return avail
		case 1:
			if avail <= 256 {
				return 1
			}
			return avail/4 + 1
		case 2:
			return (avail + 1) / 2
		}
		return 1 + n.tape.Draw(avail)
	case Tiny:
		k := 1 + n.tape.Draw(3)
		if k > avail {
			k = avail
		}
		return k
	}
	return avail
}

// Pipe creates a connected pair outside of any listener (for harnesses that drive security
// transports or muxers directly).
func (n *Net) Pipe(fromIP string, toIP string, toPort int) (dialer, listener *Conn) {
	n.mu.Lock()
	n.nextPort++
	lp := n.nextPort
	n.mu.Unlock()
	return n.newPair(&net.TCPAddr{IP: net.ParseIP(fromIP), Port: lp}, &net.TCPAddr{IP: net.ParseIP(toIP), Port: toPort})
}

func (n *Net) newPair(from, to *net.TCPAddr) (*Conn, *Conn) {
	a2b, b2a := newHalf(), newHalf()
	n.mu.Lock()
	id := len(n.conns)
	seen := from // what the listener sees as the remote address: the NAT's public endpoint if the dialler is behind one
	if ip, port := n.natOutLocked("tcp", from.IP, from.Port); !ip.Equal(from.IP) || port != from.Port {
		seen = &net.TCPAddr{IP: ip, Port: port}
	}
	d := &Conn{n: n, id: id, dialer: true, local: from, rem: to, in: b2a, out: a2b, dlsig: make(chan struct{}, 1)}
	l := &Conn{n: n, id: id + 1, local: to, rem: seen, in: a2b, out: b2a, dlsig: make(chan struct{}, 1)}
	d.peer, l.peer = l, d
	n.conns = append(n.conns, d, l)
	cb := n.onConn
	n.mu.Unlock()
	if cb != nil {
		cb(d, l)
	}
	simrt.GoNamed(fmt.Sprintf("pump%d>", id), func() { n.pump(a2b, l, false) })
	simrt.GoNamed(fmt.Sprintf("pump%d<", id), func() { n.pump(b2a, d, true) })
	return d, l
}

// SetHook installs an adversary on the connection (both endpoints share it).
func (c *Conn) SetHook(h Hook) { c.hook = h; c.peer.hook = h }

// SetOnCall registers a callback run at the beginning of every Read/Write call on this
// endpoint with the call's index (1-based). It must not block.
func (c *Conn) SetOnCall(f func(call int, isRead bool)) { c.mu.Lock(); c.onCall = f; c.mu.Unlock() }

// SetEOFWithData makes Read return the last bytes of the stream together with io.EOF in ONE call (n > 0,
// err == io.EOF), which the io.Reader contract allows and wrappers must handle.
func (c *Conn) SetEOFWithData(v bool) { c.mu.Lock(); c.errWithData = v; c.mu.Unlock() }

// SetMode overrides the chunking mode for deliveries TO this endpoint.
func (c *Conn) SetMode(m LinkMode) { c.mode = &m }

// Listener ----------------------------------------------------------------------------------

type Listener struct {
	n      *Net
	addr   *net.TCPAddr
	q      chan *Conn
	closed chan struct{}
	once   sync.Once
}

func key(ip net.IP, port int) string { return net.JoinHostPort(ip.String(), fmt.Sprint(port)) }

func (n *Net) Listen(ip string, port int) (*Listener, error) {
	a := &net.TCPAddr{IP: net.ParseIP(ip), Port: port}
	if a.IP == nil {
		return nil, fmt.Errorf("simnet: bad ip %q", ip)
	}
	n.mu.Lock()
	defer n.mu.Unlock()
	k := key(a.IP, port)
	if _, ok := n.listeners[k]; ok {
		return nil, &net.OpError{Op: "listen", Net: "tcp", Addr: a, Err: syscall.EADDRINUSE}
	}
	l := &Listener{n: n, addr: a, q: make(chan *Conn, 64), closed: make(chan struct{})}
	n.listeners[k] = l
	return l, nil
}

func (l *Listener) Accept() (net.Conn, error) {
	select {
	case c := <-l.q:
		return c, nil
	case <-l.closed:
		return nil, &net.OpError{Op: "accept", Net: "tcp", Addr: l.addr, Err: net.ErrClosed}
	}
}

func (l *Listener) Close() error {
	l.once.Do(func() {
		l.n.mu.Lock()
		delete(l.n.listeners, key(l.addr.IP, l.addr.Port))
		l.n.mu.Unlock()
		close(l.closed)
		// connections nobody accepted are reset
		for {
			select {
			case c := <-l.q:
				c.Close()
			default:
				return
			}
		}
	})
	return nil
}

func (l *Listener) Addr() net.Addr { return l.addr }

// Dialer returns a dialer bound to a local IP (what tcp.WithDialerForAddr needs).
type Dialer struct {
	n       *Net
	LocalIP string
}

func (n *Net) Dialer(localIP string) *Dialer { return &Dialer{n: n, LocalIP: localIP} }

func (d *Dialer) DialContext(ctx context.Context, network, address string) (net.Conn, error) {
	n := d.n
	host, portS, err := net.SplitHostPort(address)
	if err != nil {
		return nil, err
	}
	var port int
	fmt.Sscan(portS, &port)
	to := &net.TCPAddr{IP: net.ParseIP(host), Port: port}
	k := key(to.IP, port)
	rec := &DialRecord{From: d.LocalIP, To: k, Start: simrt.Stamp(), StartAt: simrt.Now()}
	n.mu.Lock()
	n.dials = append(n.dials, rec)
	l := n.listeners[k]
	refused, hole := n.refused[k], n.blackhole[k]
	blocked := n.blocked != nil && n.blocked(d.LocalIP, k)
	if l == nil && n.isNATPublicLocked(to.IP) {
		hole = true // no port forwarding: the SYN is dropped by the NAT
	}
	n.nextPort++
	lp := n.nextPort
	n.mu.Unlock()
	finish := func(outcome string) {
		n.mu.Lock()
		rec.End, rec.Outcome = simrt.Stamp(), outcome
		n.mu.Unlock()
	}
	if hole || blocked {
		<-ctx.Done()
		finish("blackholed")
		return nil, &net.OpError{Op: "dial", Net: "tcp", Addr: to, Err: ctx.Err()}
	}
	if err := ctx.Err(); err != nil {
		finish("cancelled")
		return nil, &net.OpError{Op: "dial", Net: "tcp", Addr: to, Err: err}
	}
	if l == nil || refused {
		finish("refused")
		return nil, &net.OpError{Op: "dial", Net: "tcp", Addr: to, Err: syscall.ECONNREFUSED}
	}
	dc, lc := n.newPair(&net.TCPAddr{IP: net.ParseIP(d.LocalIP), Port: lp}, to)
	select {
	case l.q <- lc:
	case <-l.closed:
		dc.Close()
		lc.Close()
		finish("refused")
		return nil, &net.OpError{Op: "dial", Net: "tcp", Addr: to, Err: syscall.ECONNREFUSED}
	default:
		dc.Close()
		lc.Close()
		finish("backlog-full")
		return nil, &net.OpError{Op: "dial", Net: "tcp", Addr: to, Err: syscall.ECONNREFUSED}
	}
	finish("connected")
	return dc, nil
}
