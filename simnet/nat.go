package simnet

// Source NAT: nodes whose IP was registered with SetNAT sit behind a NAT with a public IP. Every TCP connection they
// dial and every UDP datagram they send shows <public IP>:<mapped port> as its source (endpoint-independent mapping,
// port-preserving when the port is free on the public IP, otherwise the next free one; a mapping lasts for the run).
// UDP datagrams addressed to a mapped public endpoint reach the private socket (endpoint-independent filtering; restrict
// it with SetUDPFilter). There is no port forwarding for TCP: a TCP dial to a NAT's public IP hangs until its context
// ends, like a SYN dropped by the NAT. This is what makes observed addresses (identify, AutoNAT) differ from local ones.

import (
	"net"
	"sort"
)

type natState struct {
	public map[string]net.IP // private IP -> public IP
	isPub  map[string]bool   // public IPs
	out    map[string]int    // "proto|privateIP:port" -> public port
	in     map[string]string // "proto|publicIP:port" -> private "ip:port"
}

// SetNAT puts the node with IP `private` behind a NAT whose public IP is `public` (several nodes may share one).
func (n *Net) SetNAT(private, public string) {
	n.mu.Lock()
	defer n.mu.Unlock()
	if n.nat == nil {
		n.nat = &natState{public: map[string]net.IP{}, isPub: map[string]bool{}, out: map[string]int{}, in: map[string]string{}}
	}
	ip := net.ParseIP(public)
	if v4 := ip.To4(); v4 != nil {
		ip = v4
	}
	n.nat.public[net.ParseIP(private).String()] = ip
	n.nat.isPub[ip.String()] = true
}

// NATMappings lists the mappings created so far as "proto private -> public" (sorted), for oracles.
func (n *Net) NATMappings() []string {
	n.mu.Lock()
	defer n.mu.Unlock()
	if n.nat == nil {
		return nil
	}
	var out []string
	for k, priv := range n.nat.in {
		out = append(out, k[:3]+" "+priv+" -> "+k[4:])
	}
	sort.Strings(out)
	return out
}

// natOut translates a source endpoint (n.mu held). proto is "tcp" or "udp".
func (n *Net) natOutLocked(proto string, ip net.IP, port int) (net.IP, int) {
	if n.nat == nil {
		return ip, port
	}
	pub, ok := n.nat.public[ip.String()]
	if !ok {
		return ip, port
	}
	kOut := proto + "|" + key(ip, port)
	if p, ok := n.nat.out[kOut]; ok {
		return pub, p
	}
	p := port
	for {
		if _, taken := n.nat.in[proto+"|"+key(pub, p)]; !taken {
			break
		}
		p++
	}
	n.nat.out[kOut] = p
	n.nat.in[proto+"|"+key(pub, p)] = key(ip, port)
	return pub, p
}

// natInLocked maps a public endpoint back to the private "ip:port" ("" if none).
func (n *Net) natInLocked(proto, k string) string {
	if n.nat == nil {
		return ""
	}
	return n.nat.in[proto+"|"+k]
}

func (n *Net) isNATPublicLocked(ip net.IP) bool {
	return n.nat != nil && n.nat.isPub[ip.String()]
}
