package simhost_test

import (
	"context"
	"io"
	"testing"
	"time"

	"github.com/libp2p/go-libp2p/core/network"
	"github.com/libp2p/go-libp2p/core/peerstore"

	ma "github.com/multiformats/go-multiaddr"

	"verifsim/simhost"
	"verifsim/simnet"
	"verifsim/simrt"
)

func TestSmoke(t *testing.T) {
	for _, secu := range []string{"noise", "tls", "insecure"} {
		for seed := uint64(0); seed < 3; seed++ {
			tape := simrt.NewTape(seed, "smoke", 0)
			start := time.Now()
			var got string
			res := simrt.Run(t, simrt.Config{}, tape.S, func() {
				n := simnet.New(tape.S, simnet.Config{Mode: simnet.Fragment})
				a, err := simhost.New(n, simhost.Opts{Key: simhost.DetKey(1), IP: "10.0.0.1", Port: 4001, Security: secu, WithHost: true})
				if err != nil {
					t.Fatal(err)
				}
				b, err := simhost.New(n, simhost.Opts{Key: simhost.DetKey(2), IP: "10.0.0.2", Port: 4001, Security: secu, WithHost: true})
				if err != nil {
					t.Fatal(err)
				}
				b.Host.SetStreamHandler("/echo/1", func(s network.Stream) {
					io.Copy(s, s)
					s.Close()
				})
				a.PS.AddAddrs(b.ID, []ma.Multiaddr{b.Addr}, peerstore.PermanentAddrTTL)
				ctx, cancel := context.WithTimeout(context.Background(), 30*time.Second)
				defer cancel()
				s, err := a.Host.NewStream(ctx, b.ID, "/echo/1")
				if err != nil {
					t.Errorf("newstream: %v", err)
				} else {
					s.Write([]byte("hello world"))
					s.CloseWrite()
					buf, _ := io.ReadAll(s)
					got = string(buf)
					s.Close()
				}
				a.Close()
				b.Close()
			})
			t.Logf("%s seed=%d got=%q steps=%d virtual=%v wall=%v residue=%d panic=%q stuck=%v deadlock=%q", secu, seed, got, res.Steps, res.Virtual, time.Since(start), len(res.Residue), res.Panic, res.Stuck, res.Deadlock)
			for _, r := range res.Residue {
				t.Logf("   residue: %s", r)
			}
		}
	}
}
