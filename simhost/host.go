// Package simhost builds real go-libp2p nodes (swarm, TCP dial path, upgrader, Noise/TLS,
// yamux, resource manager, optional PSK / gater / basic host) on top of simnet.
//
// Outbound: the real tcp.TcpTransport with WithDialerForAddr -> simnet dialer.
// Inbound: a wrapper transport that embeds the real TCP transport and overrides only Listen,
// feeding a simnet listener into the real GateMaListener / UpgradeGatedMaListener, so the
// real listener.handleIncoming, gated accept and Upgrade run unchanged.
// (TcpTransport.Listen's own few lines, tcpreuse and OS sockets are not simulated.)
package simhost

import (
	"bytes"
	"context"
	"fmt"
	"net"
	"time"

	"github.com/libp2p/go-libp2p/core/connmgr"
	"github.com/libp2p/go-libp2p/core/crypto"
	"github.com/libp2p/go-libp2p/core/event"
	"github.com/libp2p/go-libp2p/core/network"
	"github.com/libp2p/go-libp2p/core/peer"
	"github.com/libp2p/go-libp2p/core/peerstore"
	ipnet "github.com/libp2p/go-libp2p/core/pnet"
	"github.com/libp2p/go-libp2p/core/sec"
	"github.com/libp2p/go-libp2p/core/transport"
	basichost "github.com/libp2p/go-libp2p/p2p/host/basic"
	"github.com/libp2p/go-libp2p/p2p/host/eventbus"
	"github.com/libp2p/go-libp2p/p2p/host/peerstore/pstoremem"
	"github.com/libp2p/go-libp2p/p2p/muxer/yamux"
	"github.com/libp2p/go-libp2p/p2p/net/swarm"
	tptu "github.com/libp2p/go-libp2p/p2p/net/upgrader"
	"github.com/libp2p/go-libp2p/p2p/security/insecure"
	"github.com/libp2p/go-libp2p/p2p/security/noise"
	libp2ptls "github.com/libp2p/go-libp2p/p2p/security/tls"
	libp2pquic "github.com/libp2p/go-libp2p/p2p/transport/quic"
	"github.com/libp2p/go-libp2p/p2p/transport/quicreuse"
	"github.com/libp2p/go-libp2p/p2p/transport/tcp"
	"github.com/libp2p/go-libp2p/p2p/transport/tcpreuse"
	libp2pwebtransport "github.com/libp2p/go-libp2p/p2p/transport/webtransport"
	ma "github.com/multiformats/go-multiaddr"
	manet "github.com/multiformats/go-multiaddr/net"
	"github.com/quic-go/quic-go"

	"verifsim/simhook"
	"verifsim/simnet"
)

// DetKey returns an Ed25519 key that is a function of seed (so runs replay exactly).
func DetKey(seed int) crypto.PrivKey {
	b := bytes.Repeat([]byte{byte(seed), byte(seed >> 8), 0x5a}, 32)
	k, _, err := crypto.GenerateEd25519Key(bytes.NewReader(b))
	if err != nil {
		panic(err)
	}
	return k
}

type Opts struct {
	Key       crypto.PrivKey
	IP        string // local IP (dial source and listen address)
	Port      int    // listen port; 0 = dial only
	Security  string // "noise" (default), "tls", "insecure"
	PSK       []byte // 32 bytes or nil
	Gater     connmgr.ConnectionGater
	Rcmgr     network.ResourceManager // nil = network.NullResourceManager
	Bus       event.Bus
	Peerstore peerstore.Peerstore

	SwarmOpts    []swarm.Option
	UpgraderOpts []tptu.Option
	TCPOpts      []tcp.Option

	// Limited marks raw connections as limited (as the circuit transport does for relayed ones): the
	// upgrader copies the raw connection's Stat() into the upgraded connection. Applied to inbound
	// connections (remote = the peer's source address) and outbound ones (remote = the dialled address).
	Limited func(remote net.Addr) bool

	// QUIC adds the real QUIC transport (p2p/transport/quic + quicreuse + quic-go) over simnet's UDP model, listening
	// on /udp/<Port>/quic-v1 when Port != 0. NoTCPListen leaves the TCP transport dial-only.
	QUIC        bool
	QUICOpts    []libp2pquic.Option
	QUICReuse   []quicreuse.Option // e.g. quicreuse.DisableReuseport(): every dial gets a socket of its own
	NoTCPListen bool
	// WebTransport (needs QUIC) adds the real WebTransport transport (p2p/transport/webtransport + webtransport-go +
	// quic-go/http3) sharing the QUIC connection manager — and, as in a real node, the UDP port: with Port != 0 it listens
	// on /udp/<Port>/quic-v1/webtransport; the address with its certhashes is node.WTAddr().
	WebTransport bool
	WTOpts       []libp2pwebtransport.Option
	NoQUICListen bool // QUIC transport dial-only (WebTransport may still listen)

	// SharedTCP builds the TCP transport with a real tcpreuse.ConnMgr and lets TcpTransport.Listen itself run (demultiplexing
	// listener, sampledconn); see sharedtcp.go. Not with a PSK (the first bytes of a private-network connection are a
	// random nonce, which the demultiplexer cannot classify) and not with Limited.
	SharedTCP bool

	// WrapConn, if set, wraps every connection the TCP transport hands to the swarm (dialled and accepted): the seam for
	// faults at the transport.CapableConn level, e.g. a Close that does its work and then reports an error.
	WrapConn func(transport.CapableConn) transport.CapableConn

	WithHost bool // build a basic host on top of the swarm
	HostOpts *basichost.HostOpts
}

type Node struct {
	ID     peer.ID
	Key    crypto.PrivKey
	Swarm  *swarm.Swarm
	Host   *basichost.BasicHost
	PS     peerstore.Peerstore
	Bus    event.Bus
	Rcmgr  network.ResourceManager
	Tpt    *Transport
	Up     transport.Upgrader
	Addr   ma.Multiaddr // listen address (nil when dial-only)
	QAddr  ma.Multiaddr // QUIC listen address (nil without QUIC or when dial-only)
	WTBase ma.Multiaddr // WebTransport listen address without certhashes (nil without WebTransport)
	QUICCM *quicreuse.ConnManager
	ownsPS bool
}

// Transport is the real TCP transport with Listen redirected to simnet.
type Transport struct {
	*tcp.TcpTransport
	net     *simnet.Net
	up      transport.Upgrader
	rcmgr   network.ResourceManager
	dialer  *simnet.Dialer
	limited func(remote net.Addr) bool
	shared  bool
	wrap    func(transport.CapableConn) transport.CapableConn
}

func (t *Transport) wrapped(c transport.CapableConn, err error) (transport.CapableConn, error) {
	if err != nil || t.wrap == nil {
		return c, err
	}
	return t.wrap(c), nil
}

type wrapListener struct {
	transport.Listener
	t *Transport
}

func (l wrapListener) Accept() (transport.CapableConn, error) { return l.t.wrapped(l.Listener.Accept()) }

// limitedConn is a raw connection that reports itself as limited.
type limitedConn struct{ manet.Conn }

func (limitedConn) Stat() network.ConnStats {
	return network.ConnStats{Stats: network.Stats{Limited: true}}
}

type limitedListener struct {
	manet.Listener
	limited func(remote net.Addr) bool
}

func (l *limitedListener) Accept() (manet.Conn, error) {
	c, err := l.Listener.Accept()
	if err != nil {
		return nil, err
	}
	if na, err := manet.ToNetAddr(c.RemoteMultiaddr()); err == nil && l.limited(na) {
		return limitedConn{c}, nil
	}
	return c, nil
}

// Dial / DialWithUpdates: addresses the Limited predicate selects are dialled here (same steps as the
// TCP transport's own dial: connection scope, raw dial, upgrade) so that the raw connection can carry
// the limited mark; everything else goes through the real TCP transport.
func (t *Transport) Dial(ctx context.Context, raddr ma.Multiaddr, p peer.ID) (transport.CapableConn, error) {
	return t.DialWithUpdates(ctx, raddr, p, nil)
}

func (t *Transport) DialWithUpdates(ctx context.Context, raddr ma.Multiaddr, p peer.ID, updates chan<- transport.DialUpdate) (transport.CapableConn, error) {
	na, err := manet.ToNetAddr(raddr)
	if t.limited == nil || err != nil || !t.limited(na) {
		return t.wrapped(t.TcpTransport.DialWithUpdates(ctx, raddr, p, updates))
	}
	scope, err := t.rcmgr.OpenConnection(network.DirOutbound, true, raddr)
	if err != nil {
		return nil, err
	}
	if err := scope.SetPeer(p); err != nil {
		scope.Done()
		return nil, err
	}
	nc, err := t.dialer.DialContext(ctx, "tcp", na.String())
	if err != nil {
		scope.Done()
		return nil, err
	}
	mc, err := manet.WrapNetConn(nc)
	if err != nil {
		nc.Close()
		scope.Done()
		return nil, err
	}
	return t.wrapped(t.up.Upgrade(ctx, t, limitedConn{mc}, network.DirOutbound, p, scope))
}

func (t *Transport) Listen(laddr ma.Multiaddr) (transport.Listener, error) {
	l, err := t.listen(laddr)
	if err != nil || t.wrap == nil {
		return l, err
	}
	return wrapListener{l, t}, nil
}

func (t *Transport) listen(laddr ma.Multiaddr) (transport.Listener, error) {
	if t.shared {
		return t.TcpTransport.Listen(laddr) // the real one; its socket comes from simnet through simhook
	}
	na, err := manet.ToNetAddr(laddr)
	if err != nil {
		return nil, err
	}
	ta, ok := na.(*net.TCPAddr)
	if !ok {
		return nil, fmt.Errorf("simhost: not a tcp address: %s", laddr)
	}
	l, err := t.net.Listen(ta.IP.String(), ta.Port)
	if err != nil {
		return nil, err
	}
	mal, err := manet.WrapNetListener(l)
	if err != nil {
		l.Close()
		return nil, err
	}
	if t.limited != nil {
		mal = &limitedListener{Listener: mal, limited: t.limited}
	}
	return t.up.UpgradeGatedMaListener(t, t.up.GateMaListener(mal)), nil
}

func muxers() []tptu.StreamMuxer {
	return []tptu.StreamMuxer{{ID: yamux.ID, Muxer: yamux.DefaultTransport}}
}

// SecurityTransport builds the named security transport for a key.
func SecurityTransport(name string, key crypto.PrivKey) (sec.SecureTransport, error) {
	id, err := peer.IDFromPrivateKey(key)
	if err != nil {
		return nil, err
	}
	switch name {
	case "", "noise":
		return noise.New(noise.ID, key, muxers())
	case "tls":
		return libp2ptls.New(libp2ptls.ID, key, muxers())
	case "insecure":
		return insecure.NewWithIdentity(insecure.ID, id, key), nil
	}
	return nil, fmt.Errorf("unknown security %q", name)
}

func New(n *simnet.Net, o Opts) (*Node, error) {
	id, err := peer.IDFromPrivateKey(o.Key)
	if err != nil {
		return nil, err
	}
	nd := &Node{ID: id, Key: o.Key, Bus: o.Bus, PS: o.Peerstore, Rcmgr: o.Rcmgr}
	if nd.PS == nil {
		ps, err := pstoremem.NewPeerstore()
		if err != nil {
			return nil, err
		}
		nd.PS, nd.ownsPS = ps, true
	}
	nd.PS.AddPubKey(id, o.Key.GetPublic())
	nd.PS.AddPrivKey(id, o.Key)
	if nd.Bus == nil {
		nd.Bus = eventbus.NewBus()
	}
	if nd.Rcmgr == nil {
		nd.Rcmgr = &network.NullResourceManager{}
	}
	sopts := append([]swarm.Option{swarm.WithResourceManager(nd.Rcmgr)}, o.SwarmOpts...)
	if o.Gater != nil {
		sopts = append(sopts, swarm.WithConnectionGater(o.Gater))
	}
	sw, err := swarm.NewSwarm(id, nd.PS, nd.Bus, sopts...)
	if err != nil {
		nd.closePS()
		return nil, err
	}
	nd.Swarm = sw
	st, err := SecurityTransport(o.Security, o.Key)
	if err != nil {
		sw.Close()
		nd.closePS()
		return nil, err
	}
	var psk ipnet.PSK
	if o.PSK != nil {
		psk = ipnet.PSK(o.PSK)
	}
	up, err := tptu.New([]sec.SecureTransport{st}, muxers(), psk, nd.Rcmgr, o.Gater, o.UpgraderOpts...)
	if err != nil {
		sw.Close()
		nd.closePS()
		return nil, err
	}
	nd.Up = up
	d := n.Dialer(o.IP)
	topts := append([]tcp.Option{tcp.DisableReuseport(), tcp.WithDialerForAddr(func(ma.Multiaddr) (tcp.ContextDialer, error) { return d, nil })}, o.TCPOpts...)
	var shared *tcpreuse.ConnMgr
	if o.SharedTCP {
		if o.PSK != nil || o.Limited != nil {
			sw.Close()
			nd.closePS()
			return nil, fmt.Errorf("simhost: SharedTCP cannot be combined with PSK or Limited")
		}
		if !simhook.TCPReuseSeam {
			sw.Close()
			nd.closePS()
			return nil, fmt.Errorf("simhost: SharedTCP needs the tcpreuse overlay seam (props.py: TCPREUSE_STACK, TCPREUSE_ADD, TCPREUSE_PATCH)")
		}
		installListenHook(n)
		shared = tcpreuse.NewConnMgr(false, up)
	}
	tt, err := tcp.NewTCPTransport(up, nd.Rcmgr, shared, topts...)
	if err != nil {
		sw.Close()
		nd.closePS()
		return nil, err
	}
	nd.Tpt = &Transport{TcpTransport: tt, net: n, up: up, rcmgr: nd.Rcmgr, dialer: d, limited: o.Limited, shared: o.SharedTCP, wrap: o.WrapConn}
	if err := sw.AddTransport(nd.Tpt); err != nil {
		sw.Close()
		nd.closePS()
		return nil, err
	}
	proto := "ip4"
	if ip := net.ParseIP(o.IP); ip != nil && ip.To4() == nil {
		proto = "ip6"
	}
	if o.QUIC {
		// keys of the stateless-reset and token generators: a function of the node key
		var srk quic.StatelessResetKey
		var tk quic.TokenGeneratorKey
		copy(srk[:], []byte("verifsim-srk-"+id.String()))
		copy(tk[:], []byte("verifsim-tok-"+id.String()))
		src := net.ParseIP(o.IP)
		cm, err := quicreuse.NewConnManager(srk, tk, append([]quicreuse.Option{
			quicreuse.OverrideListenUDP(n.UDPListenFunc(o.IP)),
			quicreuse.OverrideSourceIPSelector(func() (quicreuse.SourceIPSelector, error) { return fixedSource{src}, nil })}, o.QUICReuse...)...)
		if err != nil {
			sw.Close()
			nd.closePS()
			return nil, err
		}
		nd.QUICCM = cm
		qt, err := libp2pquic.NewTransport(o.Key, cm, psk, o.Gater, nd.Rcmgr, o.QUICOpts...)
		if err == nil {
			err = sw.AddTransport(qt)
		}
		if err != nil {
			cm.Close()
			sw.Close()
			nd.closePS()
			return nil, err
		}
	}
	if o.QUIC && o.WebTransport {
		wt, err := libp2pwebtransport.New(o.Key, psk, nd.QUICCM, o.Gater, nd.Rcmgr, o.WTOpts...)
		if err == nil {
			err = sw.AddTransport(wt)
		}
		if err != nil {
			nd.closeQUIC()
			sw.Close()
			nd.closePS()
			return nil, err
		}
	}
	if o.Port != 0 && !o.NoTCPListen {
		nd.Addr = ma.StringCast(fmt.Sprintf("/%s/%s/tcp/%d", proto, o.IP, o.Port))
		if err := sw.Listen(nd.Addr); err != nil {
			nd.closeQUIC()
			sw.Close()
			nd.closePS()
			return nil, err
		}
	}
	if o.Port != 0 && o.QUIC && o.WebTransport {
		nd.WTBase = ma.StringCast(fmt.Sprintf("/%s/%s/udp/%d/quic-v1/webtransport", proto, o.IP, o.Port))
		if err := sw.Listen(nd.WTBase); err != nil {
			nd.closeQUIC()
			sw.Close()
			nd.closePS()
			return nil, err
		}
	}
	if o.Port != 0 && o.QUIC && !o.NoQUICListen {
		nd.QAddr = ma.StringCast(fmt.Sprintf("/%s/%s/udp/%d/quic-v1", proto, o.IP, o.Port))
		if err := sw.Listen(nd.QAddr); err != nil {
			nd.closeQUIC()
			sw.Close()
			nd.closePS()
			return nil, err
		}
	}
	if o.WithHost {
		ho := o.HostOpts
		if ho == nil {
			ho = &basichost.HostOpts{}
		}
		if ho.EventBus == nil {
			ho.EventBus = nd.Bus
		}
		if ho.NegotiationTimeout == 0 {
			ho.NegotiationTimeout = 10 * time.Second
		}
		h, err := basichost.NewHost(sw, ho)
		if err != nil {
			sw.Close()
			nd.closeQUIC()
			nd.closePS()
			return nil, err
		}
		nd.Host = h
		h.Start()
	}
	return nd, nil
}

type fixedSource struct{ ip net.IP }

func (f fixedSource) PreferredSourceIPForDestination(*net.UDPAddr) (net.IP, error) { return f.ip, nil }

func (nd *Node) closeQUIC() {
	if nd.QUICCM != nil {
		nd.QUICCM.Close()
	}
}

func (nd *Node) closePS() {
	if nd.ownsPS {
		if c, ok := nd.PS.(interface{ Close() error }); ok {
			c.Close()
		}
	}
}

// Close shuts the node down (host, swarm, peerstore).
func (nd *Node) Close() {
	if nd.Host != nil {
		nd.Host.Close()
	} else {
		nd.Swarm.Close()
	}
	nd.closeQUIC()
	nd.closePS()
}

// WTAddr is the WebTransport listen address as the swarm advertises it now (with the current certhashes), nil if none.
func (nd *Node) WTAddr() ma.Multiaddr {
	for _, a := range nd.Swarm.ListenAddresses() {
		if _, err := a.ValueForProtocol(ma.P_WEBTRANSPORT); err == nil {
			return a
		}
	}
	return nil
}

// AddrInfo of the node.
func (nd *Node) AddrInfo() peer.AddrInfo {
	ai := peer.AddrInfo{ID: nd.ID}
	if nd.Addr != nil {
		ai.Addrs = append(ai.Addrs, nd.Addr)
	}
	if nd.QAddr != nil {
		ai.Addrs = append(ai.Addrs, nd.QAddr)
	}
	return ai
}
