package simhost

// Shared-TCP path: with Opts.SharedTCP the node's TCP transport is built with a real tcpreuse.ConnMgr, its own Listen
// runs unchanged (TcpTransport.Listen -> ConnMgr.DemultiplexedListen -> multiplexedListener: accept loop, sampledconn
// peeking the first three bytes, demultiplexing by connection type, per-type queues, timeouts) and only the one call
// that would open an OS socket is redirected to simnet through verifsim/simhook (overlay-only seam, see
// simhost/overlay/tcpreuse_hook.go). The harness's props.py must list stack.TCPREUSE_STACK / _ADD / _PATCH.

import (
	"errors"
	"fmt"
	"io"
	"net"
	"syscall"

	ma "github.com/multiformats/go-multiaddr"
	manet "github.com/multiformats/go-multiaddr/net"

	"verifsim/simhook"
	"verifsim/simnet"
)

// tcpLikeConn gives a simnet connection the method set sampledconn insists on (the one of *net.TCPConn).
type tcpLikeConn struct {
	*simnet.Conn
	laddr, raddr ma.Multiaddr
}

func (c *tcpLikeConn) LocalMultiaddr() ma.Multiaddr  { return c.laddr }
func (c *tcpLikeConn) RemoteMultiaddr() ma.Multiaddr { return c.raddr }
func (c *tcpLikeConn) SyscallConn() (syscall.RawConn, error) {
	return nil, errors.New("simnet: no raw connection")
}
func (c *tcpLikeConn) MultipathTCP() (bool, error) { return false, nil }
func (c *tcpLikeConn) ReadFrom(r io.Reader) (int64, error) {
	return io.Copy(struct{ io.Writer }{c.Conn}, r)
}
func (c *tcpLikeConn) WriteTo(w io.Writer) (int64, error) {
	return io.Copy(w, struct{ io.Reader }{c.Conn})
}

type tcpLikeListener struct {
	l       *simnet.Listener
	laddr   ma.Multiaddr
	limited func(remote net.Addr) bool
}

func (l *tcpLikeListener) Accept() (manet.Conn, error) {
	nc, err := l.l.Accept()
	if err != nil {
		return nil, err
	}
	sc, ok := nc.(*simnet.Conn)
	if !ok {
		nc.Close()
		return nil, fmt.Errorf("simhost: unexpected connection type %T", nc)
	}
	ra, err := manet.FromNetAddr(sc.RemoteAddr())
	if err != nil {
		nc.Close()
		return nil, err
	}
	return &tcpLikeConn{Conn: sc, laddr: l.laddr, raddr: ra}, nil
}
func (l *tcpLikeListener) Close() error            { return l.l.Close() }
func (l *tcpLikeListener) Addr() net.Addr          { return l.l.Addr() }
func (l *tcpLikeListener) Multiaddr() ma.Multiaddr { return l.laddr }

// installListenHook points the overlay's seam at this run's network.
func installListenHook(n *simnet.Net) {
	simhook.ListenTCP = func(laddr ma.Multiaddr) (manet.Listener, error) {
		na, err := manet.ToNetAddr(laddr)
		if err != nil {
			return nil, err
		}
		ta, ok := na.(*net.TCPAddr)
		if !ok {
			return nil, fmt.Errorf("simhost: not a tcp address: %s", laddr)
		}
		l, err := n.Listen(ta.IP.String(), ta.Port)
		if err != nil {
			return nil, err
		}
		return &tcpLikeListener{l: l, laddr: laddr}, nil
	}
}
