package tcpreuse

// Overlay-only file (added by /verif/check to the build of harnesses that list it; /repo is not edited): the seam behind
// which ConnMgr.gatedMaListen finds its listener. The one call `manet.Listen(listenAddr)` in listener.go is redirected
// here by a textual patch of the overlay copy (tools/stack.py TCPREUSE_PATCH).

import (
	ma "github.com/multiformats/go-multiaddr"
	manet "github.com/multiformats/go-multiaddr/net"

	"verifsim/simhook"
)

func init() { simhook.TCPReuseSeam = true }

func verifListen(laddr ma.Multiaddr) (manet.Listener, error) {
	if f := simhook.ListenTCP; f != nil {
		return f(laddr)
	}
	return manet.Listen(laddr)
}
