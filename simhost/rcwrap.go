package simhost

import (
	"fmt"
	"net"
	"sync"

	"github.com/libp2p/go-libp2p/core/control"
	"github.com/libp2p/go-libp2p/core/network"
	"github.com/libp2p/go-libp2p/core/peer"
	"github.com/libp2p/go-libp2p/core/protocol"
	"github.com/multiformats/go-multiaddr"
)

// RefusingRcmgr delegates to a real resource manager but refuses the N-th call at one site
// with an error wrapping network.ErrResourceLimitExceeded — exactly what the real manager
// returns when a limit is hit. Sites: OpenConnection, SetPeer, ConnSpan (BeginSpan on a
// connection scope: the muxer's span), ConnMemory, OpenStream, SetProtocol, SetService,
// StreamMemory (ReserveMemory on a stream scope or its spans).
type RefusingRcmgr struct {
	network.ResourceManager
	mu     sync.Mutex
	Site   string
	N      int // refuse the N-th call at Site (1-based; 0 = never)
	count  map[string]int
	Fired  int
	Counts func() map[string]int
}

func NewRefusingRcmgr(real network.ResourceManager, site string, n int) *RefusingRcmgr {
	return &RefusingRcmgr{ResourceManager: real, Site: site, N: n, count: map[string]int{}}
}

// Arm resets the counters and refuses the n-th call at site from now on.
func (r *RefusingRcmgr) Arm(site string, n int) {
	r.mu.Lock()
	r.Site, r.N, r.count = site, n, map[string]int{}
	r.mu.Unlock()
}

// CallCounts returns how many calls each site has seen (dry runs use this to size sweeps).
func (r *RefusingRcmgr) CallCounts() map[string]int {
	r.mu.Lock()
	defer r.mu.Unlock()
	out := map[string]int{}
	for k, v := range r.count {
		out[k] = v
	}
	return out
}

func (r *RefusingRcmgr) refuse(site string) error {
	r.mu.Lock()
	defer r.mu.Unlock()
	r.count[site]++
	if site == r.Site && r.N != 0 && r.count[site] == r.N {
		r.Fired++
		return fmt.Errorf("simhost: injected refusal at %s #%d: %w", site, r.N, network.ErrResourceLimitExceeded)
	}
	return nil
}

func (r *RefusingRcmgr) OpenConnection(dir network.Direction, usefd bool, endpoint multiaddr.Multiaddr) (network.ConnManagementScope, error) {
	if err := r.refuse("OpenConnection"); err != nil {
		return nil, err
	}
	s, err := r.ResourceManager.OpenConnection(dir, usefd, endpoint)
	if err != nil {
		return nil, err
	}
	return &connScope{ConnManagementScope: s, r: r}, nil
}

func (r *RefusingRcmgr) OpenStream(p peer.ID, dir network.Direction) (network.StreamManagementScope, error) {
	if err := r.refuse("OpenStream"); err != nil {
		return nil, err
	}
	s, err := r.ResourceManager.OpenStream(p, dir)
	if err != nil {
		return nil, err
	}
	return &streamScope{StreamManagementScope: s, r: r}, nil
}

func (r *RefusingRcmgr) VerifySourceAddress(addr net.Addr) bool {
	return r.ResourceManager.VerifySourceAddress(addr)
}

type connScope struct {
	network.ConnManagementScope
	r *RefusingRcmgr
}

func (c *connScope) SetPeer(p peer.ID) error {
	if err := c.r.refuse("SetPeer"); err != nil {
		return err
	}
	return c.ConnManagementScope.SetPeer(p)
}

func (c *connScope) BeginSpan() (network.ResourceScopeSpan, error) {
	if err := c.r.refuse("ConnSpan"); err != nil {
		return nil, err
	}
	s, err := c.ConnManagementScope.BeginSpan()
	if err != nil {
		return nil, err
	}
	return &span{ResourceScopeSpan: s, r: c.r, site: "ConnMemory"}, nil
}

// PeerScope: the upgrader hands connScope.PeerScope() to the muxer, which opens its span there (yamux's memory
// manager): that span is the "ConnSpan" site and its reservations the "ConnMemory" site.
func (c *connScope) PeerScope() network.PeerScope {
	ps := c.ConnManagementScope.PeerScope()
	if ps == nil {
		return nil
	}
	return &peerScope{PeerScope: ps, r: c.r}
}

type peerScope struct {
	network.PeerScope
	r *RefusingRcmgr
}

func (p *peerScope) BeginSpan() (network.ResourceScopeSpan, error) {
	if err := p.r.refuse("ConnSpan"); err != nil {
		return nil, err
	}
	s, err := p.PeerScope.BeginSpan()
	if err != nil {
		return nil, err
	}
	return &span{ResourceScopeSpan: s, r: p.r, site: "ConnMemory"}, nil
}

func (c *connScope) ReserveMemory(size int, prio uint8) error {
	if err := c.r.refuse("ConnMemory"); err != nil {
		return err
	}
	return c.ConnManagementScope.ReserveMemory(size, prio)
}

type streamScope struct {
	network.StreamManagementScope
	r *RefusingRcmgr
}

func (s *streamScope) SetProtocol(p protocol.ID) error {
	if err := s.r.refuse("SetProtocol"); err != nil {
		return err
	}
	return s.StreamManagementScope.SetProtocol(p)
}

func (s *streamScope) SetService(srv string) error {
	if err := s.r.refuse("SetService"); err != nil {
		return err
	}
	return s.StreamManagementScope.SetService(srv)
}

func (s *streamScope) ReserveMemory(size int, prio uint8) error {
	if err := s.r.refuse("StreamMemory"); err != nil {
		return err
	}
	return s.StreamManagementScope.ReserveMemory(size, prio)
}

func (s *streamScope) BeginSpan() (network.ResourceScopeSpan, error) {
	sp, err := s.StreamManagementScope.BeginSpan()
	if err != nil {
		return nil, err
	}
	return &span{ResourceScopeSpan: sp, r: s.r, site: "StreamMemory"}, nil
}

type span struct {
	network.ResourceScopeSpan
	r    *RefusingRcmgr
	site string
}

func (s *span) ReserveMemory(size int, prio uint8) error {
	if err := s.r.refuse(s.site); err != nil {
		return err
	}
	return s.ResourceScopeSpan.ReserveMemory(size, prio)
}

// ScriptedGater rejects at one hook (and records every call).
type ScriptedGater struct {
	mu     sync.Mutex
	Reject string // "PeerDial", "AddrDial", "Accept", "Secured", "Upgraded" or ""
	Calls  map[string]int
	Fired  int
}

func NewScriptedGater(reject string) *ScriptedGater {
	return &ScriptedGater{Reject: reject, Calls: map[string]int{}}
}

func (g *ScriptedGater) hit(h string) bool {
	g.mu.Lock()
	defer g.mu.Unlock()
	g.Calls[h]++
	if g.Reject == h {
		g.Fired++
		return false
	}
	return true
}

func (g *ScriptedGater) InterceptPeerDial(peer.ID) bool { return g.hit("PeerDial") }
func (g *ScriptedGater) InterceptAddrDial(peer.ID, multiaddr.Multiaddr) bool {
	return g.hit("AddrDial")
}
func (g *ScriptedGater) InterceptAccept(network.ConnMultiaddrs) bool { return g.hit("Accept") }
func (g *ScriptedGater) InterceptSecured(network.Direction, peer.ID, network.ConnMultiaddrs) bool {
	return g.hit("Secured")
}
func (g *ScriptedGater) InterceptUpgraded(network.Conn) (bool, control.DisconnectReason) {
	return g.hit("Upgraded"), 0
}
