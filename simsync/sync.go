// Package simsync is a drop-in replacement for the parts of package sync used by the
// instrumented go-libp2p packages. Inside a simulation every acquisition is a scheduling
// point and all blocking happens on channels (durable for testing/synctest), so that a task
// parked by the scheduler while holding one of these locks never stalls quiescence
// detection. Outside a simulation the types behave like ordinary locks.
package simsync

import (
	"sync"
	"sync/atomic"

	"verifsim/simrt"
)

type (
	Locker = sync.Locker
	Map    = sync.Map
	Pool   = sync.Pool
)

func OnceFunc(f func()) func()                                 { return sync.OnceFunc(f) }
func OnceValue[T any](f func() T) func() T                     { return sync.OnceValue(f) }
func OnceValues[T1, T2 any](f func() (T1, T2)) func() (T1, T2) { return sync.OnceValues(f) }

// gate is a mutual-exclusion gate with FIFO hand-over, protected by a real mutex that is
// only ever held for a few instructions (never across a park).
type waiter struct {
	ch     chan struct{}
	writer bool
}

func newWaiter(w bool) *waiter { return &waiter{ch: make(chan struct{}), writer: w} }

// Mutex ----------------------------------------------------------------------------------

type Mutex struct {
	mu     sync.Mutex
	locked bool
	q      []chan struct{}
}

// Lock: waiters are all woken on Unlock and contend again, so the scheduler (not a FIFO)
// decides who gets the lock next, as with the runtime's barging mutex.
func (m *Mutex) Lock() {
	simrt.YieldPC("Lock", 1)
	for {
		m.mu.Lock()
		if !m.locked {
			m.locked = true
			m.mu.Unlock()
			return
		}
		w := make(chan struct{})
		m.q = append(m.q, w)
		m.mu.Unlock()
		<-w
		simrt.Yield("Lock+")
	}
}

func (m *Mutex) TryLock() bool {
	simrt.YieldPC("TryLock", 1)
	m.mu.Lock()
	defer m.mu.Unlock()
	if m.locked {
		return false
	}
	m.locked = true
	return true
}

func (m *Mutex) Unlock() {
	m.mu.Lock()
	if !m.locked {
		m.mu.Unlock()
		panic("simsync: unlock of unlocked mutex")
	}
	m.locked = false
	q := m.q
	m.q = nil
	m.mu.Unlock()
	for _, w := range q {
		close(w)
	}
}

// RWMutex --------------------------------------------------------------------------------
// Writer preference as in the runtime: once a writer waits, new readers queue behind it.

type RWMutex struct {
	mu      sync.Mutex
	readers int
	writer  bool
	q       []*waiter
}

func (m *RWMutex) Lock() {
	simrt.YieldPC("Lock", 1)
	m.mu.Lock()
	if !m.writer && m.readers == 0 && len(m.q) == 0 {
		m.writer = true
		m.mu.Unlock()
		return
	}
	w := newWaiter(true)
	m.q = append(m.q, w)
	m.mu.Unlock()
	<-w.ch
	simrt.Yield("Lock+")
}

func (m *RWMutex) TryLock() bool {
	simrt.YieldPC("TryLock", 1)
	m.mu.Lock()
	defer m.mu.Unlock()
	if !m.writer && m.readers == 0 && len(m.q) == 0 {
		m.writer = true
		return true
	}
	return false
}

func (m *RWMutex) RLock() {
	simrt.YieldPC("RLock", 1)
	m.mu.Lock()
	if !m.writer && len(m.q) == 0 {
		m.readers++
		m.mu.Unlock()
		return
	}
	w := newWaiter(false)
	m.q = append(m.q, w)
	m.mu.Unlock()
	<-w.ch
	simrt.Yield("RLock+")
}

func (m *RWMutex) TryRLock() bool {
	simrt.YieldPC("TryRLock", 1)
	m.mu.Lock()
	defer m.mu.Unlock()
	if !m.writer && len(m.q) == 0 {
		m.readers++
		return true
	}
	return false
}

// grant hands the lock to the head of the queue (and, for a reader, to the readers that
// follow it directly). Called with m.mu held and the lock free of conflicting holders.
func (m *RWMutex) grant() {
	if len(m.q) == 0 {
		return
	}
	if m.q[0].writer {
		if m.readers == 0 && !m.writer {
			w := m.q[0]
			m.q = m.q[1:]
			m.writer = true
			close(w.ch)
		}
		return
	}
	if m.writer {
		return
	}
	for len(m.q) > 0 && !m.q[0].writer {
		w := m.q[0]
		m.q = m.q[1:]
		m.readers++
		close(w.ch)
	}
}

func (m *RWMutex) Unlock() {
	m.mu.Lock()
	if !m.writer {
		m.mu.Unlock()
		panic("simsync: Unlock of unlocked RWMutex")
	}
	m.writer = false
	m.grant()
	m.mu.Unlock()
}

func (m *RWMutex) RUnlock() {
	m.mu.Lock()
	if m.readers <= 0 {
		m.mu.Unlock()
		panic("simsync: RUnlock of unlocked RWMutex")
	}
	m.readers--
	if m.readers == 0 {
		m.grant()
	}
	m.mu.Unlock()
}

type rlocker RWMutex

func (r *rlocker) Lock()   { (*RWMutex)(r).RLock() }
func (r *rlocker) Unlock() { (*RWMutex)(r).RUnlock() }

func (m *RWMutex) RLocker() Locker { return (*rlocker)(m) }

// WaitGroup ------------------------------------------------------------------------------

type WaitGroup struct {
	mu sync.Mutex
	n  int
	ws []chan struct{}
}

func (wg *WaitGroup) Add(d int) {
	wg.mu.Lock()
	wg.n += d
	if wg.n < 0 {
		wg.mu.Unlock()
		panic("simsync: negative WaitGroup counter")
	}
	var ws []chan struct{}
	if wg.n == 0 {
		ws, wg.ws = wg.ws, nil
	}
	wg.mu.Unlock()
	for _, w := range ws {
		close(w)
	}
}

func (wg *WaitGroup) Done() { wg.Add(-1) }

func (wg *WaitGroup) Go(f func()) {
	wg.Add(1)
	simrt.Go(func() {
		defer wg.Done()
		f()
	})
}

func (wg *WaitGroup) Wait() {
	simrt.YieldPC("wg.Wait", 1)
	wg.mu.Lock()
	if wg.n == 0 {
		wg.mu.Unlock()
		return
	}
	w := make(chan struct{})
	wg.ws = append(wg.ws, w)
	wg.mu.Unlock()
	<-w
	simrt.Yield("wg.Wait+")
}

// Once -----------------------------------------------------------------------------------

type Once struct {
	done atomic.Bool
	m    Mutex
}

func (o *Once) Do(f func()) {
	if o.done.Load() {
		return
	}
	o.m.Lock()
	defer o.m.Unlock()
	if !o.done.Load() {
		defer o.done.Store(true)
		f()
	}
}

// Cond -----------------------------------------------------------------------------------

type Cond struct {
	L  Locker
	mu sync.Mutex
	ws []chan struct{}
}

func NewCond(l Locker) *Cond { return &Cond{L: l} }

func (c *Cond) Wait() {
	w := make(chan struct{})
	c.mu.Lock()
	c.ws = append(c.ws, w)
	c.mu.Unlock()
	c.L.Unlock()
	<-w
	simrt.Yield("cond.Wait+")
	c.L.Lock()
}

func (c *Cond) Signal() {
	c.mu.Lock()
	var w chan struct{}
	if len(c.ws) > 0 {
		w = c.ws[0]
		c.ws = c.ws[1:]
	}
	c.mu.Unlock()
	if w != nil {
		close(w)
	}
}

func (c *Cond) Broadcast() {
	c.mu.Lock()
	ws := c.ws
	c.ws = nil
	c.mu.Unlock()
	for _, w := range ws {
		close(w)
	}
}
