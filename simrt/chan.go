package simrt

import (
	"reflect"
	"time"
)

// Recv is `<-ch` with a scheduling point before and after.
func Recv[T any](site string, ch <-chan T) T {
	if cur.Load() == nil {
		return <-ch
	}
	Yield(site)
	v := <-ch
	Yield(site + "+")
	return v
}

// Recv2 is `v, ok := <-ch`.
func Recv2[T any](site string, ch <-chan T) (T, bool) {
	if cur.Load() == nil {
		v, ok := <-ch
		return v, ok
	}
	Yield(site)
	v, ok := <-ch
	Yield(site + "+")
	return v, ok
}

// Send is `ch <- v`.
func Send[T any](site string, ch chan<- T, v T) {
	if cur.Load() == nil {
		ch <- v
		return
	}
	Yield(site)
	ch <- v
	Yield(site + "+")
}

// TimeSleep is time.Sleep followed by a scheduling point.
func TimeSleep(d time.Duration) {
	s := cur.Load()
	if s == nil {
		time.Sleep(d)
		return
	}
	s.sleepers.Add(1)
	time.Sleep(d)
	s.sleepers.Add(-1)
	Yield("time.Sleep+")
}

// SelCase is one communication clause of a rewritten select statement.
type SelCase interface{ sel() *selCase }

type selCase struct {
	c    reflect.SelectCase
	recv reflect.Value
	ok   bool
}

// RCase / SCase keep the static element type so that the case body can read the value.
type RCase[T any] struct{ selCase }
type SCase[T any] struct{ selCase }

func (c *RCase[T]) sel() *selCase { return &c.selCase }
func (c *SCase[T]) sel() *selCase { return &c.selCase }

func RecvCase[T any](ch <-chan T) *RCase[T] {
	return &RCase[T]{selCase{c: reflect.SelectCase{Dir: reflect.SelectRecv, Chan: reflect.ValueOf(ch)}}}
}

func SendCase[T any](ch chan<- T, v T) *SCase[T] {
	rv := reflect.New(reflect.TypeOf((*T)(nil)).Elem()).Elem()
	rv.Set(reflect.ValueOf(&v).Elem())
	return &SCase[T]{selCase{c: reflect.SelectCase{Dir: reflect.SelectSend, Chan: reflect.ValueOf(ch), Send: rv}}}
}

// SendCaseOf(ch).With(v) is SendCase(ch, v) for rewritten code: the element type is inferred from the channel alone and
// v is then an ordinary argument of type T, so everything assignable to T is accepted (a concrete type for an interface
// channel, untyped constants, nil), as in the original send statement.
func SendCaseOf[T any](ch chan<- T) *SCase[T] {
	return &SCase[T]{selCase{c: reflect.SelectCase{Dir: reflect.SelectSend, Chan: reflect.ValueOf(ch)}}}
}

func (c *SCase[T]) With(v T) *SCase[T] {
	rv := reflect.New(reflect.TypeOf((*T)(nil)).Elem()).Elem()
	rv.Set(reflect.ValueOf(&v).Elem())
	c.c.Send = rv
	return c
}

// Val returns the received value (zero value when the channel was closed).
func (c *RCase[T]) Val() T {
	var t T
	if c.recv.IsValid() {
		reflect.ValueOf(&t).Elem().Set(c.recv)
	}
	return t
}

func (c *RCase[T]) Val2() (T, bool) { return c.Val(), c.ok }

var defaultCase = reflect.SelectCase{Dir: reflect.SelectDefault}

// Select implements a select statement over cases. It returns the index of the chosen case,
// or -1 for the default clause. Inside a simulation the cases are polled in an order drawn
// from the schedule stream (Go itself would choose among ready cases with an unseedable
// generator); when none is ready and there is no default clause it blocks like the original.
func Select(site string, hasDefault bool, cases ...SelCase) int {
	cs := make([]*selCase, len(cases))
	for i, c := range cases {
		cs[i] = c.sel()
	}
	s := cur.Load()
	var t *task
	if s != nil {
		t = s.lookup(site)
	}
	if s == nil || t == nil {
		rc := make([]reflect.SelectCase, 0, len(cs)+1)
		for _, c := range cs {
			rc = append(rc, c.c)
		}
		if hasDefault {
			rc = append(rc, defaultCase)
		}
		i, rv, ok := reflect.Select(rc)
		if i == len(cs) {
			return -1
		}
		cs[i].recv, cs[i].ok = rv, ok
		return i
	}
	s.park(t, site, false)
	// poll in drawn order
	n := len(cs)
	order := make([]int, n)
	for i := range order {
		order[i] = i
	}
	if n > 1 {
		// the draw happens on the releasing side of the park: exactly one task runs here
		for i := 0; i < n-1; i++ {
			j := i + s.tape.Draw(n-i)
			order[i], order[j] = order[j], order[i]
		}
	}
	var two [2]reflect.SelectCase
	two[1] = defaultCase
	for _, i := range order {
		if !cs[i].c.Chan.IsValid() || cs[i].c.Chan.IsNil() {
			continue
		}
		two[0] = cs[i].c
		k, rv, ok := reflect.Select(two[:])
		if k == 0 {
			cs[i].recv, cs[i].ok = rv, ok
			s.selNote(t, site, i)
			return i
		}
	}
	if hasDefault {
		s.selNote(t, site, -1)
		return -1
	}
	rc := make([]reflect.SelectCase, 0, n)
	for _, c := range cs {
		rc = append(rc, c.c)
	}
	i, rv, ok := reflect.Select(rc)
	cs[i].recv, cs[i].ok = rv, ok
	s.park(t, site+"+", false)
	return i
}

func (s *Sched) selNote(t *task, site string, i int) {}
