package simrt

import (
	"unsafe"
)

func getg() uintptr

// goidOffset is the offset of the goid field in the runtime's g struct, found at start-up by
// comparing against the id parsed from runtime.Stack on several goroutines (0 = not found:
// fall back to the slow path).
var goidOffset uintptr

func init() {
	type sample struct {
		g  uintptr
		id int64
	}
	var samples []sample
	ch := make(chan sample)
	for i := 0; i < 4; i++ {
		go func() {
			id, _ := goidBubble()
			ch <- sample{getg(), id}
		}()
	}
	for i := 0; i < 4; i++ {
		samples = append(samples, <-ch)
	}
	id, _ := goidBubble()
	samples = append(samples, sample{getg(), id})
	for off := uintptr(0); off < 600; off += 8 {
		ok := true
		for _, s := range samples {
			if *(*int64)(unsafe.Pointer(s.g + off)) != s.id {
				ok = false
				break
			}
		}
		if ok {
			goidOffset = off
			return
		}
	}
}

// fastGoid returns the current goroutine's id without walking its stack.
func fastGoid() int64 {
	if goidOffset == 0 {
		id, _ := goidBubble()
		return id
	}
	return *(*int64)(unsafe.Pointer(getg() + goidOffset))
}

// GoidOffset reports the discovered offset (0 = slow path in use).
func GoidOffset() uintptr { return goidOffset }
