package simrt_test

import (
	"fmt"
	"testing"
	"time"

	"verifsim/simrt"
	"verifsim/simsync"
)

func workload(log *[]string) func() {
	return func() {
		var mu simsync.Mutex
		var wg simsync.WaitGroup
		ch := make(chan int)
		for i := 0; i < 3; i++ {
			wg.Add(1)
			simrt.Go(func() {
				defer wg.Done()
				for j := 0; j < 3; j++ {
					mu.Lock()
					*log = append(*log, fmt.Sprintf("w%d.%d", i, j))
					mu.Unlock()
					if j == 1 {
						simrt.TimeSleep(time.Duration(i+1) * time.Second)
					}
				}
				simrt.Send("send", ch, i)
			})
		}
		simrt.Go(func() {
			for k := 0; k < 3; k++ {
				tm := time.NewTimer(1500 * time.Millisecond)
				switch c0, c1 := simrt.RecvCase(ch), simrt.RecvCase(tm.C); simrt.Select("sel", false, c0, c1) {
				case 0:
					*log = append(*log, fmt.Sprintf("got%d", c0.Val()))
				case 1:
					*log = append(*log, "timeout")
					k--
				}
			}
		})
		wg.Wait()
		*log = append(*log, fmt.Sprintf("t=%v", simrt.Now()))
	}
}

func TestDeterminism(t *testing.T) {
	distinct := map[string]bool{}
	for seed := uint64(0); seed < 50; seed++ {
		var first string
		for rep := 0; rep < 3; rep++ {
			var log []string
			tape := simrt.NewTape(seed, "T", 0)
			res := simrt.Run(t, simrt.Config{StallPermille: 50}, tape.S, workload(&log))
			if res.Panic != "" || res.Stuck || res.Deadlock != "" || len(res.Residue) != 0 {
				t.Fatalf("seed %d: %+v", seed, res)
			}
			s := fmt.Sprint(log, res.Hash, res.Steps)
			if rep == 0 {
				first = s
			} else if s != first {
				t.Fatalf("seed %d diverged:\n%s\n%s", seed, first, s)
			}
			// replay from consumed tape
			var log2 []string
			r2 := simrt.Run(t, simrt.Config{StallPermille: 50}, simrt.ReplayStream(tape.S.Consumed()), workload(&log2))
			if s2 := fmt.Sprint(log2, r2.Hash, r2.Steps); s2 != s {
				t.Fatalf("seed %d replay diverged:\n%s\n%s", seed, s, s2)
			}
		}
		distinct[first] = true
	}
	t.Logf("distinct=%d", len(distinct))
	if len(distinct) < 40 {
		t.Fatalf("too few distinct schedules: %d", len(distinct))
	}
}

func TestStuckAndPanic(t *testing.T) {
	tape := simrt.NewTape(1, "T", 0)
	res := simrt.Run(t, simrt.Config{}, tape.S, func() {
		ch := make(chan int)
		simrt.Go(func() { simrt.Recv("r", ch) })
		simrt.Recv("r", ch)
	})
	if !res.Stuck {
		t.Fatalf("expected stuck: %+v", res)
	}
	t.Logf("stuck: residue=%v deadlock=%q virtual=%v", res.Residue, res.Deadlock, res.Virtual)
	res = simrt.Run(t, simrt.Config{}, tape.S, func() {
		simrt.Go(func() { panic("boom") })
		simrt.TimeSleep(time.Second)
	})
	if res.Panic == "" {
		t.Fatalf("expected panic: %+v", res)
	}
	// ticker residue must not hang
	res = simrt.Run(t, simrt.Config{}, tape.S, func() {
		go func() {
			tk := time.NewTicker(time.Second)
			for range tk.C {
			}
		}()
		simrt.TimeSleep(3 * time.Second)
	})
	t.Logf("ticker: residue=%v deadlock=%q", res.Residue, res.Deadlock)
}

func TestGoidOffset(t *testing.T) {
	if simrt.GoidOffset() == 0 {
		t.Fatal("goid offset not found: slow path would be used")
	}
	t.Logf("goid offset = %d", simrt.GoidOffset())
}
