package simrt

import (
	"reflect"
	"sort"
	"sync"
)

// Identity numbers give pointer-like map keys a reproducible order: the number is assigned
// when the key is first inserted into a map of an instrumented package (Touch) or, failing
// that, when it is first met during an iteration (counted, because that order is the
// runtime's).
var (
	identMu   sync.Mutex
	identTab  = map[any]uint64{}
	identNext uint64
	// UntouchedKeys counts keys that received their identity during iteration.
	UntouchedKeys int
)

func resetIdent() {
	identMu.Lock()
	identTab = map[any]uint64{}
	identNext = 0
	UntouchedKeys = 0
	identMu.Unlock()
}

// Touch assigns k its identity number if it has none.
func Touch(k any) {
	if cur.Load() == nil {
		return
	}
	identMu.Lock()
	if _, ok := identTab[k]; !ok {
		identNext++
		identTab[k] = identNext
	}
	identMu.Unlock()
}

func identOf(k any) uint64 {
	identMu.Lock()
	defer identMu.Unlock()
	id, ok := identTab[k]
	if !ok {
		identNext++
		id = identNext
		identTab[k] = id
		UntouchedKeys++
	}
	return id
}

func cmpVal(a, b reflect.Value) int {
	switch a.Kind() {
	case reflect.String:
		x, y := a.String(), b.String()
		if x < y {
			return -1
		} else if x > y {
			return 1
		}
		return 0
	case reflect.Int, reflect.Int8, reflect.Int16, reflect.Int32, reflect.Int64:
		x, y := a.Int(), b.Int()
		if x < y {
			return -1
		} else if x > y {
			return 1
		}
		return 0
	case reflect.Uint, reflect.Uint8, reflect.Uint16, reflect.Uint32, reflect.Uint64, reflect.Uintptr:
		x, y := a.Uint(), b.Uint()
		if x < y {
			return -1
		} else if x > y {
			return 1
		}
		return 0
	case reflect.Float32, reflect.Float64:
		x, y := a.Float(), b.Float()
		if x < y {
			return -1
		} else if x > y {
			return 1
		}
		return 0
	case reflect.Bool:
		x, y := a.Bool(), b.Bool()
		if x == y {
			return 0
		} else if !x {
			return -1
		}
		return 1
	case reflect.Array:
		for i := 0; i < a.Len(); i++ {
			if c := cmpVal(a.Index(i), b.Index(i)); c != 0 {
				return c
			}
		}
		return 0
	case reflect.Struct:
		for i := 0; i < a.NumField(); i++ {
			if c := cmpVal(a.Field(i), b.Field(i)); c != 0 {
				return c
			}
		}
		return 0
	}
	return 0
}

func needsIdent(t reflect.Type) bool {
	switch t.Kind() {
	case reflect.Pointer, reflect.Interface, reflect.Chan, reflect.UnsafePointer, reflect.Func, reflect.Map, reflect.Slice:
		return true
	case reflect.Array:
		return needsIdent(t.Elem())
	case reflect.Struct:
		for i := 0; i < t.NumField(); i++ {
			if needsIdent(t.Field(i).Type) {
				return true
			}
		}
	}
	return false
}

// MapKeys returns the keys of m in a reproducible order (natural order for value-like keys,
// identity order for pointer-like ones).
func MapKeys[M ~map[K]V, K comparable, V any](m M) []K {
	keys := make([]K, 0, len(m))
	for k := range m {
		keys = append(keys, k)
	}
	if len(keys) < 2 {
		return keys
	}
	var zero K
	t := reflect.TypeOf(&zero).Elem()
	if needsIdent(t) {
		if cur.Load() == nil {
			return keys
		}
		ids := make(map[K]uint64, len(keys))
		for _, k := range keys {
			ids[k] = identOf(k)
		}
		sort.Slice(keys, func(i, j int) bool { return ids[keys[i]] < ids[keys[j]] })
		return keys
	}
	sort.Slice(keys, func(i, j int) bool {
		return cmpVal(reflect.ValueOf(&keys[i]).Elem(), reflect.ValueOf(&keys[j]).Elem()) < 0
	})
	return keys
}
