package simrt

import (
	"bytes"
	"context"
	"fmt"
	"os"
	"runtime"
	"sort"
	"strconv"
	"strings"
	"sync"
	"sync/atomic"
	"testing"
	"testing/synctest"
	"time"
)

// Config are the per-run knobs of the scheduler. They are drawn by the harness from the
// G stream so that one tape fixes them.
type Config struct {
	MaxSteps      int           // scheduler decisions before the run is cut (0 = 200000)
	StallPermille int           // chance per decision that the process "stalls": time passes while ready tasks stay parked
	IdleLimit     time.Duration // virtual time with nothing runnable before a run with a live main task is declared stuck (0 = 2h)
	TraceCap      int           // decisions kept verbatim for replay files (0 = 4000)
	NoTrace       bool
	// PCTPermille: share of runs scheduled by priorities instead of uniformly (probabilistic concurrency
	// testing, Burckhardt et al.): every task gets a random priority, the runnable task with the highest
	// priority always runs, and at d-1 drawn change points the running task drops below everybody else.
	// A low-priority task is thereby paused for as long as others can run — the kind of long pause inside
	// a two-statement window that uniform picking makes astronomically unlikely. 0 = DefaultPCTPermille,
	// negative = never.
	PCTPermille int
	// PausePermille: share of runs with one pause rule (see Sched.pauseOn). 0 = DefaultPausePermille,
	// negative = never.
	PausePermille int
}

// DefaultPausePermille applies to harnesses that do not set Config.PausePermille (env VERIF_PAUSE_PERMILLE).
var DefaultPausePermille = func() int {
	if v, err := strconv.Atoi(os.Getenv("VERIF_PAUSE_PERMILLE")); err == nil {
		return v
	}
	return 300
}()

// DefaultPCTPermille applies to harnesses that do not set Config.PCTPermille (env VERIF_PCT_PERMILLE).
var DefaultPCTPermille = func() int {
	if v, err := strconv.Atoi(os.Getenv("VERIF_PCT_PERMILLE")); err == nil {
		return v
	}
	return 300
}()

// Result is what one simulated run reports about its schedule.
type Result struct {
	Steps     int
	Stalls    int
	Tasks     int
	MaxParked int
	Hash      uint64 // rolling hash of (task id, site) decisions
	Trace     []string
	Panic     string        // first panic recovered in a task (with stack)
	PanicFunc string        // the function that panicked (first frame below panic() that is not the runtime's)
	Stuck     bool          // idle limit hit while the main task had not returned
	StepLimit bool          // MaxSteps hit
	Virtual   time.Duration // virtual time covered
	Residue   []string      // goroutines of the bubble still alive after main returned and the run drained
	Deadlock  string        // synctest's own deadlock report when leaving the bubble, if any
	AutoTasks int           // goroutines that reached a yield point without having been started through Go
	PCT       bool          // this run was scheduled by priorities
	Paused    string        // program point at which the pause rule suspended a task ("" = rule did not fire / no rule)
}

type task struct {
	id      []int
	name    string
	ch      chan int // release token: 1 = run, 2 = die
	site    string
	spawned int
	idle    bool // parked in WaitIdle: released only when nothing else is runnable
	gid     int64
	prio    int    // PCT priority (0 = not assigned yet)
	key     uint64 // identity of the program point of the current park (site text or caller pc)
	pc      uintptr
	held    int  // > 0: suspended by the pause rule for that many more decisions
	fresh   bool // parked since the last scheduling decision
	lastPC  uintptr
}

func (t *task) idString() string {
	var b strings.Builder
	for i, x := range t.id {
		if i > 0 {
			b.WriteByte('.')
		}
		b.WriteString(strconv.Itoa(x))
	}
	return b.String()
}

func lessID(a, b []int) bool {
	for i := 0; i < len(a) && i < len(b); i++ {
		if a[i] != b[i] {
			return a[i] < b[i]
		}
	}
	return len(a) < len(b)
}

// Sched is one simulation. At most one is active per process.
type Sched struct {
	cfg     Config
	tape    *Stream
	bubble  int64
	rootGid int64

	mu       sync.Mutex // real mutex: never held across a blocking operation
	byGid    map[int64]*task
	parked   []*task
	wake     chan struct{}
	stopping bool
	mainDone bool
	panicMsg string
	autoN    int
	nTasks   int

	res   Result
	start time.Time

	pct     bool
	changes map[int]bool // PCT priority change points (step numbers)
	lowPrio int

	// pause rule (one per run, if drawn): the task that parks for the pauseK-th time at a program point
	// whose key falls into bucket pauseBucket is suspended for pauseLen decisions (or until nothing else
	// can run) — a long pause at a specific scheduling point, e.g. between two statements that are only
	// atomic by accident. Program points are identified by site text or caller pc, both stable for one
	// binary, so a replay in a fresh process meets the same rule.
	pauseOn     bool
	pauseBucket uint64
	pauseK      int
	pauseLen    int
	pauseSeen   int
	pcNames     map[uintptr]string

	seq      atomic.Uint64 // global event sequence number (stamps for histories)
	sleepers atomic.Int32  // tasks inside TimeSleep: waiting for them is not being stuck
}

var cur atomic.Pointer[Sched]

// Active reports whether a simulation is running in this process.
func Active() bool { return cur.Load() != nil }

// goidBubble parses "goroutine N [status, synctest bubble B]:".
func goidBubble() (gid int64, bubble int64) {
	var buf [96]byte
	n := runtime.Stack(buf[:], false)
	b := buf[:n]
	// "goroutine "
	b = b[10:]
	i := 0
	for i < len(b) && b[i] >= '0' && b[i] <= '9' {
		gid = gid*10 + int64(b[i]-'0')
		i++
	}
	nl := bytes.IndexByte(b, '\n')
	if nl < 0 {
		nl = len(b)
	}
	hdr := b[:nl]
	const key = "synctest bubble "
	if k := bytes.Index(hdr, []byte(key)); k >= 0 {
		k += len(key)
		for k < len(hdr) && hdr[k] >= '0' && hdr[k] <= '9' {
			bubble = bubble*10 + int64(hdr[k]-'0')
			k++
		}
	}
	return
}

// Stamp returns the next global event sequence number. Histories are ordered by these,
// never by (coarse) virtual time.
func Stamp() uint64 {
	s := cur.Load()
	if s == nil {
		return 0
	}
	return s.seq.Add(1)
}

// Now is the virtual time since the start of the run.
func Now() time.Duration {
	s := cur.Load()
	if s == nil {
		return 0
	}
	return time.Since(s.start)
}

func (s *Sched) lookup(autoSite string) *task {
	gid := fastGoid()
	s.mu.Lock()
	t := s.byGid[gid]
	s.mu.Unlock()
	if t != nil || autoSite == "" {
		return t
	}
	// unknown goroutine: it becomes a task if it belongs to this simulation's bubble
	_, bubble := goidBubble()
	if bubble != s.bubble {
		return nil
	}
	s.mu.Lock()
	s.autoN++
	s.res.AutoTasks++
	t = &task{id: []int{1 << 30, s.autoN}, name: "auto@" + autoSite, ch: make(chan int), gid: gid}
	s.byGid[gid] = t
	s.nTasks++
	s.mu.Unlock()
	if debugAuto {
		buf := make([]byte, 4096)
		n := runtime.Stack(buf, false)
		fmt.Fprintf(os.Stderr, "AUTO-TASK at %s:\n%s\n", autoSite, buf[:n])
	}
	return t
}

var debugAuto = os.Getenv("VERIF_DEBUG_AUTO") != ""

// Yield is a scheduling point: the calling goroutine parks until the scheduler releases it.
// Outside a simulation (or on a goroutine that does not belong to it) it does nothing.
func Yield(site string) {
	s := cur.Load()
	if s == nil {
		return
	}
	t := s.lookup(site)
	if t == nil {
		return
	}
	s.park(t, site, false)
}

// YieldPC is Yield for synchronisation primitives: the program point is the caller of the primitive
// (skip frames above YieldPC's caller), so that every Lock call site is a scheduling point of its own.
func YieldPC(kind string, skip int) {
	s := cur.Load()
	if s == nil {
		return
	}
	t := s.lookup(kind)
	if t == nil {
		return
	}
	var pcs [1]uintptr
	runtime.Callers(skip+2, pcs[:])
	t.pc = pcs[0]
	s.park(t, kind, false)
}

const pauseBuckets = 256

func siteKey(site string, pc uintptr) uint64 {
	h := uint64(14695981039346656037)
	for i := 0; i < len(site); i++ {
		h ^= uint64(site[i])
		h *= 1099511628211
	}
	h ^= uint64(pc)
	h *= 1099511628211
	return h
}

func (s *Sched) park(t *task, site string, idle bool) {
	s.mu.Lock()
	if s.stopping {
		s.mu.Unlock()
		runtime.Goexit()
	}
	t.site = site
	t.idle = idle
	pc := t.pc
	t.pc = 0
	t.key = siteKey(site, pc)
	t.held = 0
	t.fresh = true
	t.lastPC = pc
	if pc != 0 && !s.cfg.NoTrace && s.res.Steps < s.cfg.TraceCap {
		t.site = s.siteName(site, pc)
	}
	s.parked = append(s.parked, t)
	if len(s.parked) > s.res.MaxParked {
		s.res.MaxParked = len(s.parked)
	}
	s.mu.Unlock()
	select {
	case s.wake <- struct{}{}:
	default:
	}
	if tok := <-t.ch; tok == 2 {
		runtime.Goexit()
	}
}

// siteName resolves a caller pc to kind@file:line (cached; only used for traces). Called with s.mu held.
func (s *Sched) siteName(kind string, pc uintptr) string {
	if pc == 0 {
		return kind
	}
	if n, ok := s.pcNames[pc]; ok {
		return kind + "@" + n
	}
	n := "?"
	if f := runtime.FuncForPC(pc - 1); f != nil {
		file, line := f.FileLine(pc - 1)
		if i := strings.LastIndexByte(file, '/'); i >= 0 {
			file = file[i+1:]
		}
		n = file + ":" + strconv.Itoa(line)
	}
	s.pcNames[pc] = n
	return kind + "@" + n
}

// WaitIdle parks the caller until no other task is runnable at the current instant.
// Harness main tasks use it to wait for quiescence without letting time pass.
func WaitIdle() {
	s := cur.Load()
	if s == nil {
		return
	}
	t := s.lookup("WaitIdle")
	if t == nil {
		return
	}
	s.park(t, "WaitIdle", true)
}

// Sleep lets virtual time pass for the caller, then yields.
func Sleep(d time.Duration) { TimeSleep(d) }

// Go starts f as a task of the simulation (a plain goroutine outside one).
func Go(f func()) { GoNamed("", f) }

func GoNamed(name string, f func()) {
	s := cur.Load()
	if s == nil {
		go f()
		return
	}
	parent := s.lookup("")
	var id []int
	s.mu.Lock()
	if parent != nil {
		parent.spawned++
		id = append(append([]int(nil), parent.id...), parent.spawned)
	} else {
		// started from a goroutine the simulation does not know: order of arrival
		s.autoN++
		id = []int{1 << 29, s.autoN}
	}
	t := &task{id: id, name: name, ch: make(chan int)}
	s.nTasks++
	s.mu.Unlock()
	go s.runTask(t, f)
}

func (s *Sched) runTask(t *task, f func()) {
	gid := fastGoid()
	t.gid = gid
	s.mu.Lock()
	s.byGid[gid] = t
	s.mu.Unlock()
	defer func() {
		if r := recover(); r != nil {
			buf := make([]byte, 16<<10)
			n := runtime.Stack(buf, false)
			s.mu.Lock()
			if s.panicMsg == "" {
				s.panicMsg = fmt.Sprintf("panic in task %s(%s): %v\n%s", t.idString(), t.name, r, buf[:n])
				s.res.PanicFunc = panicOrigin(string(buf[:n]))
			}
			s.mu.Unlock()
		}
		s.mu.Lock()
		delete(s.byGid, gid)
		s.mu.Unlock()
		select {
		case s.wake <- struct{}{}:
		default:
		}
	}()
	s.park(t, "start", false)
	f()
}

// AfterFunc is time.AfterFunc whose callback runs as a task. The task's id is fixed when the
// timer is created (child of the creating task), so that callbacks firing at the same virtual
// instant are ordered reproducibly.
func AfterFunc(d time.Duration, f func()) *time.Timer {
	s := cur.Load()
	if s == nil {
		return time.AfterFunc(d, f)
	}
	parent := s.lookup("")
	var base []int
	s.mu.Lock()
	if parent != nil {
		parent.spawned++
		base = append(append([]int(nil), parent.id...), parent.spawned)
	} else {
		s.autoN++
		base = []int{1 << 29, s.autoN}
	}
	s.mu.Unlock()
	fires := 0
	return time.AfterFunc(d, func() {
		if cur.Load() != s {
			f()
			return
		}
		s.mu.Lock()
		fires++
		t := &task{id: append(append([]int(nil), base...), fires), name: "afterfunc", ch: make(chan int)}
		s.nTasks++
		s.mu.Unlock()
		s.runTask(t, f)
	})
}

// panicOrigin finds, in a stack printed inside a deferred recover, the function that called panic (or faulted).
func panicOrigin(stack string) string {
	lines := strings.Split(stack, "\n")
	for i := 0; i < len(lines); i++ {
		if !strings.HasPrefix(lines[i], "panic(") {
			continue
		}
		for j := i + 2; j < len(lines); j += 2 {
			f := lines[j]
			if strings.HasPrefix(f, "runtime.") || strings.HasPrefix(f, "panic(") {
				continue
			}
			if k := strings.LastIndex(f, "("); k > 0 {
				f = f[:k]
			}
			return f
		}
	}
	return ""
}

// CtxAfterFunc is context.AfterFunc whose callback runs as a task with an id fixed at registration (child of the
// registering task): all callbacks of one context start at the same moment, in goroutines the standard library creates.
func CtxAfterFunc(ctx context.Context, f func()) (stop func() bool) {
	s := cur.Load()
	if s == nil {
		return context.AfterFunc(ctx, f)
	}
	parent := s.lookup("")
	var id []int
	s.mu.Lock()
	if parent != nil {
		parent.spawned++
		id = append(append([]int(nil), parent.id...), parent.spawned)
	} else {
		s.autoN++
		id = []int{1 << 29, s.autoN}
	}
	s.mu.Unlock()
	return context.AfterFunc(ctx, func() {
		if cur.Load() != s {
			f()
			return
		}
		s.mu.Lock()
		t := &task{id: id, name: "ctxafterfunc", ch: make(chan int)}
		s.nTasks++
		s.mu.Unlock()
		s.runTask(t, f)
	})
}

func (s *Sched) note(t *task) {
	// FNV-1a over id and site
	h := s.res.Hash
	if h == 0 {
		h = 14695981039346656037
	}
	for _, x := range t.id {
		h ^= uint64(x) + 1
		h *= 1099511628211
	}
	for i := 0; i < len(t.site); i++ {
		h ^= uint64(t.site[i])
		h *= 1099511628211
	}
	s.res.Hash = h
	if !s.cfg.NoTrace && len(s.res.Trace) < s.cfg.TraceCap {
		e := t.idString() + "@" + t.site
		if traceTime {
			e += "#" + time.Since(s.start).String()
		}
		s.res.Trace = append(s.res.Trace, e)
	}
}

// traceTime (VERIF_TRACE_TIME) appends the virtual time to every trace entry: a debugging aid for divergences.
var traceTime = os.Getenv("VERIF_TRACE_TIME") != ""

var stallDurations = []time.Duration{time.Nanosecond, time.Millisecond, 100 * time.Millisecond, time.Second, 10 * time.Second, time.Minute}

// loop is the scheduler; it runs on the bubble's root goroutine.
func (s *Sched) loop(mainT *task) {
	idleSince := time.Now()
	for {
		synctest.Wait()
		s.mu.Lock()
		if s.panicMsg != "" {
			s.mu.Unlock()
			return
		}
		n := len(s.parked)
		mainDone := s.mainDone
		var cands []*task
		var idlers []*task
		if s.pauseOn && s.pauseSeen < s.pauseK {
			// the pause rule counts parks in task-id order (arrival order of two goroutines that park at
			// about the same time is the runtime's business)
			var fresh []*task
			for _, t := range s.parked {
				if t.fresh && !t.idle {
					fresh = append(fresh, t)
				}
			}
			sort.Slice(fresh, func(i, j int) bool { return lessID(fresh[i].id, fresh[j].id) })
			for _, t := range fresh {
				if (t.key>>8)%pauseBuckets == s.pauseBucket {
					s.pauseSeen++
					if s.pauseSeen == s.pauseK {
						t.held = s.pauseLen
						s.res.Paused = s.siteName(strings.SplitN(t.site, "@", 2)[0], t.lastPC)
					}
				}
			}
		}
		for _, t := range s.parked {
			t.fresh = false
		}
		var held []*task
		for _, t := range s.parked {
			if t.idle {
				idlers = append(idlers, t)
			} else if t.held > 0 {
				held = append(held, t)
			} else {
				cands = append(cands, t)
			}
		}
		if len(cands) == 0 && len(held) > 0 {
			// nothing else can run: the pause ends
			for _, t := range held {
				t.held = 0
			}
			cands, held = held, nil
		}
		for _, t := range held {
			t.held--
		}
		s.mu.Unlock()
		if n == 0 {
			if mainDone && s.sleepers.Load() == 0 {
				return
			}
			// nothing runnable: let virtual time advance until somebody parks
			if s.sleepers.Load() > 0 {
				idleSince = time.Now()
			}
			lim := s.cfg.IdleLimit - time.Since(idleSince)
			if lim <= 0 {
				s.res.Stuck = true
				return
			}
			tm := time.NewTimer(lim)
			select {
			case <-s.wake:
			case <-tm.C:
			}
			tm.Stop()
			continue
		}
		idleSince = time.Now()
		onlyIdle := len(cands) == 0
		if onlyIdle {
			cands = idlers // only idle waiters left: the instant is quiescent
		}
		if s.res.Steps >= s.cfg.MaxSteps {
			s.res.StepLimit = true
			return
		}
		s.res.Steps++
		if s.cfg.StallPermille > 0 && s.tape.Draw(1000) >= 1000-s.cfg.StallPermille {
			d := stallDurations[s.tape.Draw(len(stallDurations))]
			s.res.Stalls++
			time.Sleep(d)
			continue
		}
		sort.Slice(cands, func(i, j int) bool { return lessID(cands[i].id, cands[j].id) })
		var t *task
		if s.pct && !onlyIdle && s.tape.Draw(20) != 19 {
			for _, c := range cands {
				if c.prio == 0 {
					c.prio = 1000 + s.tape.Draw(1000000)
				}
			}
			t = cands[0]
			for _, c := range cands[1:] {
				if c.prio > t.prio {
					t = c
				}
			}
			if s.changes[s.res.Steps] {
				s.lowPrio--
				t.prio = s.lowPrio
			}
		} else {
			t = cands[s.tape.Draw(len(cands))]
		}
		s.mu.Lock()
		for i, p := range s.parked {
			if p == t {
				s.parked = append(s.parked[:i], s.parked[i+1:]...)
				break
			}
		}
		s.mu.Unlock()
		s.note(t)
		t.ch <- 1
	}
}

func bubbleGoroutines(bubble int64, skipGid int64) []string {
	buf := make([]byte, 1<<20)
	for {
		n := runtime.Stack(buf, true)
		if n < len(buf) {
			buf = buf[:n]
			break
		}
		buf = make([]byte, 2*len(buf))
	}
	var out []string
	tag := "synctest bubble " + strconv.FormatInt(bubble, 10)
	for _, g := range strings.Split(string(buf), "\n\n") {
		nl := strings.IndexByte(g, '\n')
		if nl < 0 {
			continue
		}
		hdr := g[:nl]
		k := strings.Index(hdr, tag)
		if k < 0 {
			continue
		}
		// make sure the bubble number is not a prefix of another one
		rest := hdr[k+len(tag):]
		if len(rest) > 0 && rest[0] >= '0' && rest[0] <= '9' {
			continue
		}
		var gid int64
		fmt.Sscanf(hdr, "goroutine %d ", &gid)
		if gid == skipGid {
			continue
		}
		// keep header + top frames (function names only, no addresses)
		lines := strings.Split(g, "\n")
		var fr []string
		for i := 1; i < len(lines) && len(fr) < 6; i += 2 {
			f := lines[i]
			if p := strings.LastIndexByte(f, '('); p > 0 {
				f = f[:p]
			}
			if k := strings.Index(f, " in goroutine "); k >= 0 {
				f = f[:k]
			}
			fr = append(fr, f)
		}
		if len(fr) > 0 && (strings.HasPrefix(fr[0], "testing/synctest.") || strings.HasPrefix(fr[0], "internal/synctest.")) {
			continue
		}
		st := hdr[strings.IndexByte(hdr, '[')+1:]
		if c := strings.IndexByte(st, ','); c >= 0 {
			st = st[:c]
		} else if c := strings.IndexByte(st, ']'); c >= 0 {
			st = st[:c]
		}
		out = append(out, st+": "+strings.Join(fr, " < "))
	}
	sort.Strings(out)
	return out
}

// BubbleGoroutines lists the goroutines of the running simulation other than the scheduler
// (state and top frames), for residue oracles.
func BubbleGoroutines() []string {
	s := cur.Load()
	if s == nil {
		return nil
	}
	return bubbleGoroutines(s.bubble, s.rootGid)
}

var runMu sync.Mutex

// Run executes main as task 0 of a fresh simulation inside a synctest bubble and returns
// when main has returned and no task is runnable any more (or a budget was hit).
func Run(t *testing.T, cfg Config, tape *Stream, main func()) (res Result) {
	runMu.Lock()
	defer runMu.Unlock()
	if cfg.MaxSteps == 0 {
		cfg.MaxSteps = 200000
	}
	if cfg.IdleLimit == 0 {
		cfg.IdleLimit = 2 * time.Hour
	}
	if cfg.TraceCap == 0 {
		cfg.TraceCap = 4000
	}
	s := &Sched{cfg: cfg, tape: tape, byGid: map[int64]*task{}}
	resetIdent()
	pm := cfg.PCTPermille
	if pm == 0 {
		pm = DefaultPCTPermille
	}
	s.pcNames = map[uintptr]string{}
	pp := cfg.PausePermille
	if pp == 0 {
		pp = DefaultPausePermille
	}
	if pm < 0 {
		pm = 0
	}
	if pp < 0 {
		pp = 0
	}
	mode := 0
	if pm > 0 || pp > 0 {
		v := tape.Draw(1000)
		if v >= 1000-pm {
			mode = 1
		} else if v >= 1000-pm-pp {
			mode = 2
		}
	}
	if mode == 2 {
		s.pauseOn = true
		s.pauseBucket = uint64(tape.Draw(pauseBuckets))
		s.pauseK = 1 + tape.Draw(4)
		s.pauseLen = []int{50, 500, 5000, 1 << 30}[tape.Draw(4)]
	}
	if mode == 1 {
		s.pct = true
		s.res.PCT = true
		s.lowPrio = 999
		s.changes = map[int]bool{}
		d := tape.Draw(4) // number of change points
		horizon := []int{200, 1000, 5000, 20000}[tape.Draw(4)]
		for i := 0; i < d; i++ {
			s.changes[1+tape.Draw(horizon)] = true
		}
	}
	defer func() {
		cur.Store(nil)
		if r := recover(); r != nil {
			s.res.Deadlock = fmt.Sprint(r)
		}
		res = s.res
	}()
	synctest.Test(t, func(t *testing.T) {
		gid, bubble := goidBubble()
		s.bubble = bubble
		s.rootGid = gid
		s.wake = make(chan struct{}, 1)
		s.start = time.Now()
		cur.Store(s)
		mt := &task{id: []int{0}, name: "main", ch: make(chan int)}
		s.nTasks++
		go s.runTask(mt, func() {
			defer func() {
				s.mu.Lock()
				s.mainDone = true
				s.mu.Unlock()
			}()
			main()
		})
		s.loop(mt)
		s.res.Virtual = time.Since(s.start)
		s.res.Tasks = s.nTasks
		// stop: parked tasks are told to exit (their deferred functions run)
		s.mu.Lock()
		s.stopping = true
		s.res.Panic = s.panicMsg
		parked := s.parked
		s.parked = nil
		s.mu.Unlock()
		for _, p := range parked {
			p.ch <- 2
		}
		synctest.Wait()
		s.res.Residue = bubbleGoroutines(bubble, gid)
		cur.Store(nil)
	})
	return
}
