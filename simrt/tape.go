// Package simrt is the seeded cooperative scheduler and choice tape of the simulator.
//
// It imports only the standard library so that instrumented copies of go-libp2p
// packages (and copied dependencies) can import it without creating cycles.
package simrt

import (
	"encoding/binary"
	"hash/fnv"
)

// splitmix64: small, fast, well distributed; the only PRNG of the simulator.
type splitmix struct{ s uint64 }

func (r *splitmix) next() uint64 {
	r.s += 0x9e3779b97f4a7c15
	z := r.s
	z = (z ^ (z >> 30)) * 0xbf58476d1ce4e5b9
	z = (z ^ (z >> 27)) * 0x94d049bb133111eb
	return z ^ (z >> 31)
}

// SeedFor derives the PRNG state of one run from (VERIF_SEED, property, stream, run index).
func SeedFor(seed uint64, property string, stream string, run uint64) uint64 {
	h := fnv.New64a()
	var b [8]byte
	binary.LittleEndian.PutUint64(b[:], seed)
	h.Write(b[:])
	h.Write([]byte(property))
	h.Write([]byte{0})
	h.Write([]byte(stream))
	h.Write([]byte{0})
	binary.LittleEndian.PutUint64(b[:], run)
	h.Write(b[:])
	r := splitmix{s: h.Sum64()}
	return r.next()
}

// Stream is one sequence of recorded choices. Draw(n) returns vals[i] mod n; once the
// recorded prefix is exhausted values come from the PRNG (or are zero when Fixed is set,
// which is what the minimiser uses: 0 is always the simplest choice).
type Stream struct {
	Vals  []uint32
	pos   int
	rng   splitmix
	Fixed bool // exhausted => 0 instead of PRNG
}

func NewStream(seed uint64) *Stream { return &Stream{rng: splitmix{s: seed}} }

// ReplayStream replays vals; beyond them every draw is 0.
func ReplayStream(vals []uint32) *Stream {
	return &Stream{Vals: append([]uint32(nil), vals...), Fixed: true}
}

func (s *Stream) raw() uint32 {
	if s.pos < len(s.Vals) {
		v := s.Vals[s.pos]
		s.pos++
		return v
	}
	var v uint32
	if !s.Fixed {
		v = uint32(s.rng.next() >> 32)
	}
	s.Vals = append(s.Vals, v)
	s.pos++
	return v
}

// Draw returns a value in [0,n). n<=1 consumes nothing.
func (s *Stream) Draw(n int) int {
	if n <= 1 {
		return 0
	}
	return int(s.raw() % uint32(n))
}

// Consumed returns the choices made so far (what a replay needs).
func (s *Stream) Consumed() []uint32 { return append([]uint32(nil), s.Vals[:s.pos]...) }

// Pos is the number of draws consumed.
func (s *Stream) Pos() int { return s.pos }

// Tape holds the two choice streams of one run: G decides the generated workload,
// configuration and fault plan; S decides scheduling and environment events. They are kept
// apart so that shrinking the schedule does not perturb the workload and vice versa.
type Tape struct {
	G *Stream
	S *Stream
}

func NewTape(seed uint64, property string, run uint64) *Tape {
	return &Tape{
		G: NewStream(SeedFor(seed, property, "G", run)),
		S: NewStream(SeedFor(seed, property, "S", run)),
	}
}

func ReplayTape(g, s []uint32) *Tape {
	return &Tape{G: ReplayStream(g), S: ReplayStream(s)}
}

// Gen is a convenience view on a stream for workload generators.
type Gen struct{ S *Stream }

func (g Gen) Int(n int) int { return g.S.Draw(n) }

// Range returns a value in [lo,hi].
func (g Gen) Range(lo, hi int) int {
	if hi <= lo {
		return lo
	}
	return lo + g.S.Draw(hi-lo+1)
}
func (g Gen) Bool() bool { return g.S.Draw(2) == 1 }

// Chance is true with probability num/den. A zero draw is false (simplest).
func (g Gen) Chance(num, den int) bool {
	if num <= 0 {
		return false
	}
	return g.S.Draw(den) >= den-num
}

// Pick returns an index weighted by w (all >=0, sum>0). Index 0 is the simplest.
func (g Gen) Weighted(w ...int) int {
	sum := 0
	for _, x := range w {
		sum += x
	}
	if sum <= 0 {
		return 0
	}
	v := g.S.Draw(sum)
	for i, x := range w {
		if v < x {
			return i
		}
		v -= x
	}
	return len(w) - 1
}
