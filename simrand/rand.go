// Package simrand makes crypto/rand a function of the run: rand.Reader is replaced by a seeded stream for the
// duration of a run. With every goroutine of the stack a task of the scheduler, reads happen in a reproducible
// order, so QUIC connection ids, TLS randoms, ephemeral keys and signature nonces — and everything whose size or map
// order depends on them — replay exactly.
//
// Two more sources are pinned by Install because no reader reaches them: (1) TLS 1.3's default key share is the hybrid
// X25519MLKEM768, and ML-KEM key generation draws from the runtime's internal DRBG, not from Config.Rand / rand.Reader — the
// transcript, hence the CertificateVerify signature and its DER length (70..72 bytes), hence packet sizes and pacing,
// would differ from execution to execution; GODEBUG tlsmlkem=0 leaves X25519, which reads rand.Reader. (2) math/rand's
// global generator (the QUIC transport paces its hole-punch packets with rand.Intn): GODEBUG randseednop=0 + rand.Seed.
//
// crypto/internal/randutil.MaybeReadByte reads ONE byte from a caller-supplied reader with probability 1/2 (from a
// generator nobody can seed) precisely to stop callers from relying on a fixed stream. One-byte reads therefore do
// not advance the stream here.
package simrand

import (
	crand "crypto/rand"
	"encoding/binary"
	"io"
	mrand1 "math/rand"
	mrand "math/rand/v2"
	"os"
	"strings"
	"sync"
)

type reader struct {
	mu    sync.Mutex
	c     *mrand.ChaCha8
	reads uint64
}

func (r *reader) Read(p []byte) (int, error) {
	r.mu.Lock()
	defer r.mu.Unlock()
	if len(p) == 1 {
		p[0] = byte(r.reads*131 + 7)
		return 1, nil
	}
	r.reads++
	return r.c.Read(p)
}

// Install replaces crypto/rand.Reader; the returned function puts the previous reader back.
func Install(seed uint64) (restore func()) {
	var k [32]byte
	binary.LittleEndian.PutUint64(k[:], seed)
	copy(k[8:], "verifsim/simrand")
	prev := crand.Reader
	crand.Reader = &reader{c: mrand.NewChaCha8(k)}
	prevDebug, hadDebug := os.LookupEnv("GODEBUG")
	godebug("tlsmlkem", "0")
	godebug("randseednop", "0")
	mrand1.Seed(int64(seed) + 1)
	return func() {
		crand.Reader = prev
		// later runs of the process that do not install simrand keep Go's defaults (the hybrid key share in particular)
		if hadDebug {
			os.Setenv("GODEBUG", prevDebug)
		} else {
			os.Unsetenv("GODEBUG")
		}
	}
}

// godebug sets one GODEBUG setting for the process (the runtime notifies internal/godebug of changes of the variable).
func godebug(key, val string) {
	cur := os.Getenv("GODEBUG")
	for _, kv := range strings.Split(cur, ",") {
		if kv == key+"="+val {
			return
		}
	}
	if cur != "" {
		cur += ","
	}
	os.Setenv("GODEBUG", cur+key+"="+val)
}

var _ io.Reader = (*reader)(nil)
