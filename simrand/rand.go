// Package simrand makes crypto/rand a function of the run: rand.Reader is replaced by a seeded stream for the
// duration of a run. With every goroutine of the stack a task of the scheduler, reads happen in a reproducible
// order, so QUIC connection ids, TLS randoms, ephemeral keys and signature nonces — and everything whose size or map
// order depends on them — replay exactly.
//
// crypto/internal/randutil.MaybeReadByte reads ONE byte from a caller-supplied reader with probability 1/2 (from a
// generator nobody can seed) precisely to stop callers from relying on a fixed stream. One-byte reads therefore do
// not advance the stream here.
package simrand

import (
	crand "crypto/rand"
	"encoding/binary"
	"io"
	mrand "math/rand/v2"
	"sync"
)

type reader struct {
	mu    sync.Mutex
	c     *mrand.ChaCha8
	reads uint64
}

func (r *reader) Read(p []byte) (int, error) {
	r.mu.Lock()
	defer r.mu.Unlock()
	if len(p) == 1 {
		p[0] = byte(r.reads*131 + 7)
		return 1, nil
	}
	r.reads++
	return r.c.Read(p)
}

// Install replaces crypto/rand.Reader; the returned function puts the previous reader back.
func Install(seed uint64) (restore func()) {
	var k [32]byte
	binary.LittleEndian.PutUint64(k[:], seed)
	copy(k[8:], "verifsim/simrand")
	prev := crand.Reader
	crand.Reader = &reader{c: mrand.NewChaCha8(k)}
	return func() { crand.Reader = prev }
}

var _ io.Reader = (*reader)(nil)
