// Package simdisk is a go-datastore with failure and crash points (DESIGN.md §2.5).
// It wraps ds.MapDatastore, so the real query / key / namespace code of go-datastore runs.
// Durability model: a Put/Delete/Commit that returned nil is durable.
package simdisk

import (
	"context"
	"errors"
	"sync"

	ds "github.com/ipfs/go-datastore"
	"github.com/ipfs/go-datastore/query"
)

// ErrInjected is returned by an operation chosen to fail.
var ErrInjected = errors.New("simdisk: injected I/O error")

// Crash is the panic value used to stop the "process" after a mutation was applied.
type Crash struct{ AfterMutation int }

type Disk struct {
	mu  sync.Mutex
	m   *ds.MapDatastore
	ops int // all operations
	mut int // applied mutations

	FailOp      int // fail the n-th operation (1-based; 0 = never)
	CrashAfter  int // panic(Crash{}) after the n-th mutation has been applied (0 = never)
	FailedOps   int
	Crashed     bool
	ReadOnlyOps int
}

func New() *Disk { return &Disk{m: ds.NewMapDatastore()} }

// Ops / Mutations report counters (for dry runs that enumerate fault positions).
func (d *Disk) Ops() int       { d.mu.Lock(); defer d.mu.Unlock(); return d.ops }
func (d *Disk) Mutations() int { d.mu.Lock(); defer d.mu.Unlock(); return d.mut }

func (d *Disk) op() error {
	d.ops++
	if d.FailOp != 0 && d.ops == d.FailOp {
		d.FailedOps++
		return ErrInjected
	}
	return nil
}

func (d *Disk) mutated() {
	d.mut++
	if d.CrashAfter != 0 && d.mut == d.CrashAfter {
		d.Crashed = true
		d.mu.Unlock()
		panic(Crash{AfterMutation: d.mut})
	}
}

func (d *Disk) Get(ctx context.Context, key ds.Key) ([]byte, error) {
	d.mu.Lock()
	defer d.mu.Unlock()
	if err := d.op(); err != nil {
		return nil, err
	}
	return d.m.Get(ctx, key)
}

func (d *Disk) Has(ctx context.Context, key ds.Key) (bool, error) {
	d.mu.Lock()
	defer d.mu.Unlock()
	if err := d.op(); err != nil {
		return false, err
	}
	return d.m.Has(ctx, key)
}

func (d *Disk) GetSize(ctx context.Context, key ds.Key) (int, error) {
	d.mu.Lock()
	defer d.mu.Unlock()
	if err := d.op(); err != nil {
		return -1, err
	}
	return d.m.GetSize(ctx, key)
}

func (d *Disk) Query(ctx context.Context, q query.Query) (query.Results, error) {
	d.mu.Lock()
	defer d.mu.Unlock()
	if err := d.op(); err != nil {
		return nil, err
	}
	return d.m.Query(ctx, q)
}

func (d *Disk) Put(ctx context.Context, key ds.Key, value []byte) error {
	d.mu.Lock()
	if err := d.op(); err != nil {
		d.mu.Unlock()
		return err
	}
	err := d.m.Put(ctx, key, append([]byte(nil), value...))
	if err == nil {
		d.mutated() // unlocks before panicking
	}
	d.mu.Unlock()
	return err
}

func (d *Disk) Delete(ctx context.Context, key ds.Key) error {
	d.mu.Lock()
	if err := d.op(); err != nil {
		d.mu.Unlock()
		return err
	}
	err := d.m.Delete(ctx, key)
	if err == nil {
		d.mutated()
	}
	d.mu.Unlock()
	return err
}

func (d *Disk) Sync(ctx context.Context, prefix ds.Key) error { return nil }
func (d *Disk) Close() error                                  { return nil }

// Keys returns all keys (sorted by the datastore's own order) — for oracles.
func (d *Disk) Keys() []string {
	d.mu.Lock()
	defer d.mu.Unlock()
	res, _ := d.m.Query(context.Background(), query.Query{KeysOnly: true, Orders: []query.Order{query.OrderByKey{}}})
	es, _ := res.Rest()
	out := make([]string, 0, len(es))
	for _, e := range es {
		out = append(out, e.Key)
	}
	return out
}

type batch struct {
	d   *Disk
	ops []func(ctx context.Context) error
}

func (d *Disk) Batch(ctx context.Context) (ds.Batch, error) { return &batch{d: d}, nil }

func (b *batch) Put(ctx context.Context, key ds.Key, value []byte) error {
	v := append([]byte(nil), value...)
	b.ops = append(b.ops, func(ctx context.Context) error { return b.d.Put(ctx, key, v) })
	return nil
}

func (b *batch) Delete(ctx context.Context, key ds.Key) error {
	b.ops = append(b.ops, func(ctx context.Context) error { return b.d.Delete(ctx, key) })
	return nil
}

// Commit applies the operations one by one: a crash point may fall between two of them
// (go-datastore's basic batch gives no atomicity either).
func (b *batch) Commit(ctx context.Context) error {
	for _, op := range b.ops {
		if err := op(ctx); err != nil {
			return err
		}
	}
	b.ops = nil
	return nil
}

var _ ds.Batching = (*Disk)(nil)
