// C12 — limited (relayed) connections are never mistaken for direct ones.
//
// Lock-level simulation of REAL basic hosts on simnet (everything instrumented). See world_test.go.
package c12

import (
	"os"
	"testing"

	"verifsim/harness/common"
	"verifsim/simrt"
)

func TestSim(t *testing.T) { common.Main(t, common.Harness{Property: "C12", Run: run}) }

func run(t *testing.T, tape *simrt.Tape) *common.Outcome {
	g := simrt.Gen{S: tape.G}
	// stratum first (0 = layer A, the main stratum)
	layerB := g.Weighted(4, 1) == 1
	if l := os.Getenv("C12_LAYER"); l != "" { // development aid only: pin the stratum
		layerB = l == "B"
	}
	return runWorld(t, tape, g, layerB)
}
