// C12 — limited (relayed) connections are never mistaken for direct ones.
//
// Lock-level simulation of REAL basic hosts on simnet (everything instrumented, see props.py):
// A (under observation), B (the peer; holds a reservation on the relay), R (basic host + real
// circuit-v2 relay service: default limits, a 15 s limit, or unlimited). A and B carry the real
// circuit client transport (wired as p2p/protocol/circuitv2/relay/relay_test.go does) behind a
// wrapper that records the addresses handed to Dial and delegates. world_test.go holds the code.
// A's swarm resolves names through a scripted MultiaddrDNSResolver; in some runs A knows B (also or only)
// by a /dnsaddr name that expands to B's circuit address, by a /dnsaddr name that expands to B's direct
// address (control), by the circuit address with the relay's /dns4 name, or by B's /dns4 name.
//
// Layer A: the initial connections A-B are drawn (limited only, none, direct only,
// both); 1-4 caller tasks on A call Swarm.NewStream / Swarm.DialPeer / Host.NewStream /
// Host.Connect / Conn.NewStream with every subset of {WithAllowLimitedConn, WithForceDirectDial,
// WithNoDial}, own deadline, optional WithDialPeerTimeout and an independent cancellation instant;
// 1-2 environment tasks meanwhile make B's listener refuse / accept, create direct connections in
// both directions, close direct / relayed connections on A's or B's side, ClosePeer, flap a direct
// connection, close the next direct connection from inside A's Connected notification, or make B
// drop everything and come back through the relay (inbound limited connection on A). The main task
// takes Connectedness readings at quiescent instants (accepted only if nothing was notified while
// reading, as C06 does). After all callers left, direct connections arrive once more (outbound,
// then inbound), everything is closed and the goroutine residue is inspected.
//
// Race stratum of layer A (2 runs of 11; layer A proper 7 of 11, layer B 2 of 11): 3-6 rounds per run; in each the
// peer is reachable over the limited connection only and 1-4 waiter tasks call Swarm.NewStream
// without allow-limited at the very instant a direct connection (B dials A / A dials B) is admitted
// by A's gater, i.e. just before the swarm registers it, with drawn numbers of extra scheduling
// points in the gater, the dialer and the waiters, so that the registration lands around the
// waiter's check-then-register window; the direct connection then stays until the waiters returned.
//
// Strata are drawn first: layer A 7, layer B (TCP) 2, race 2, QUIC 3 of 14 runs.
//
// QUIC stratum = layer B on the transport hole punching was designed for (real quic-go + p2p/transport/quic +
// quicreuse, instrumented, over simnet's UDP wire; simrand.Install pins crypto/rand): A and B listen on QUIC only
// (the relay and the relayed connections stay on TCP), so the direct address A learns over the relayed connection
// (identify) or knows beforehand is B's /quic-v1 address. The NAT is a UDP filter: a datagram from X towards a
// "filtered" node Y is dropped unless Y sent a datagram to X within the last 2 s (or the flow is established and
// not idle for 2 min); "symmetric": always dropped; "open": passes. A unilateral direct dial therefore fails and
// the DCUtR exchange succeeds only if both sides really send at about the same time: the receiver of the dcutr
// stream with a normal QUIC dial, the initiator through the transport's holePunch() (random 64-byte datagrams +
// waiting for its own listener to accept the connection; third attempt with the roles swapped). Part of the
// runs adds UDP loss (5% / 15%), duplication and per-datagram latency (reordering); these faults stop before
// the closing phase. All layer-A/B oracles apply unchanged; additionally no UDP socket may survive the nodes.
// In a third of the QUIC runs each, A's / B's connection gater (the recording gater, scripted) refuses the
// peer's INBOUND direct connections at InterceptAccept or at InterceptSecured(DirInbound) — never outbound dials,
// never relayed connections — from the start or from the moment the first relayed connection to the peer is
// admitted (an inbound allow-list that does not name the peer). The gater also yields the ground truth for
// "this direct connection exists": every direct connection a swarm admits (InterceptUpgraded) must have passed that
// node's InterceptSecured before; one that has not (admitted count > passed count) never existed for the purposes
// of the oracles below, whatever the swarm briefly listed.
// (A TCP listener next to the QUIC one is not modelled: simnet's partition predicate cannot tell TCP from UDP
// on the same port.)
//
// Layer B: A and B on public addresses behind simulated stateful firewalls
// (filtered: an inbound connection is accepted only from an IP the host dialled within the last
// 2 s; open; symmetric: never), optional link latency, real hole punching services on both
// (2/3 of the runs: built by the harness with holepunch.NewService around a host wrapper that
// records the service's NewStream / SetStreamHandler / Connect calls and delegates; 1/3:
// HostOpts.EnableHolePunching unchanged), public tracer on both. The same callers run on A, so
// that a stream open without permission waits for the hole punch.
//
// Oracles (classes), all from the statement; weaker readings are listed in props.py level_note:
//
//	stream-on-limited-conn-without-permission/<api>   returned stream's Conn().Stat().Limited without allow-limited
//	force-direct-returned-relayed[/final]             DialPeer(force-direct) returned a limited / relay-address connection
//	force-direct-connect-without-direct-conn          Host.Connect(force-direct)==nil with no direct connection open during the call
//	relay-address-dialled-under-force-direct          circuit transport Dial saw a context that demands a direct connection
//	relay-address-dialled-by-hole-punch               ... a simultaneous-connect (hole punching) context
//	relayed-conn-not-marked-limited                   connection through a limiting relay with Stat().Limited == false
//	limited-flag-on-direct-address                    Limited connection whose remote address is no relay address
//	late-return/<api>                                 call returned later than its own deadline / cancellation + 1 s
//	wait-exceeds-dial-peer-timeout/Swarm.NewStream    pure wait (no-dial) longer than the dial-peer timeout + 1 s with no direct connection admitted
//	gave-up-without-waiting                           ErrLimitedConn although no direct connection came (and went) during the call
//	direct-conn-ignored                               stream open failed although a non-limited connection was open all the time
//	waiter-not-released                               direct connection was announced while waiting and stayed, call still timed out
//	unexpected-error                                  pure wait failed with something else than ErrLimitedConn / ErrNoConn / context error
//	connectedness/reported-X-truth-Y                  Connectedness(B) at a quiescent instant vs. the notified open connections
//	connectedness-event/last-X-truth-Y                last EvtPeerConnectednessChanged vs. the same truth
//	waiter-entry-leaked                               Swarm.directConnNotifs (reflection, quiescent) holds more entries than waiting calls
//	panic, deadlock, residue                          e.g. a direct connection arriving after all waiters left
//	holepunch-dials-relay-address                     StartHolePunch addresses / the service's Connect list a /p2p-circuit address
//	holepunch-connect-without-force-direct            the service's Connect lacks force-direct (wrapped wiring)
//	holepunch-coordinated-over-direct-conn            StartHolePunch after a /libp2p/dcutr stream on a non-relayed connection (wrapped wiring)
//	holepunch-coordinated-without-relayed-conn        StartHolePunch on a node that never had a relayed connection to the peer
//	holepunch-success-without-direct-conn             EndHolePunch(success) with no direct connection open during the attempt
//	force-direct-success-with-dead-conn/<api>         force-direct DialPeer / Host.Connect succeeded on a connection the node's own gater had refused
//	force-direct-returned-stale-closed-conn/Swarm.DialPeer  force-direct DialPeer returned a connection whose Disconnected notification preceded the call
//	                                                  (fires on the unchanged tree: a request joining a live dial worker gets the cached trackedDials conn; reported to the lead)
//	waiter-woken-without-direct-conn                  ErrLimitedConn where every direct connection admitted during the call had been refused by A's gater
//	direct-dial-success-without-direct-conn           DirectDial(success) likewise
//
// Opening the dcutr stream on a direct connection is legal for the initiator (it happens on the
// unchanged tree when a direct connection exists by the time of a retry: probe
// dcutr-stream-on-direct-conn); what must not happen is that the exchange completes on it.
//
// Sensitivity (one mutation at a time on a private copy of the instrumented overlay, 3-4 workers,
// each reported within 60 s; first class that caught it):
//
//	waitForDirectConn returns the limited connection at once          gave-up-without-waiting
//	bestAcceptableConnToPeer ignores force-direct                     force-direct-returned-relayed (+ /final, direct-dial-success-without-direct-conn)
//	connectednessUnlocked: Connected for limited only                 connectedness/reported-Connected-truth-Limited (+ connectedness-event/...)
//	addrsForDial keeps relay addresses under force-direct             relay-address-dialled-under-force-direct
//	addrsForDial filters relay addresses BEFORE resolving (a /dnsaddr expanding to a circuit address slips through)  relay-address-dialled-under-force-direct (+ force-direct-returned-relayed, force-direct-connect-without-direct-conn, holepunch-success-without-direct-conn; run through ./check with VERIF_REPO)
//	Conn.NewStream re-check dropped                                   stream-on-limited-conn-without-permission/Conn.NewStream
//	Swarm.NewStream: Limited check dropped                            gave-up-without-waiting
//	addConn does not close the waiters' channels                      waiter-not-released
//	cancelled waiter's entry not removed                              waiter-entry-leaked
//	addConn does not delete the map entry (double close)              panic
//	waitForDirectConn without the dial-peer timeout                   wait-exceeds-dial-peer-timeout/Swarm.NewStream
//	isBetterConn prefers the limited connection                       direct-conn-ignored
//	waitForDirectConn checks outside the waiter-list lock (lost wake-up)  waiter-not-released (race stratum; ~9% of all runs; run through ./check with VERIF_REPO)
//	addConn wakes waiters for limited connections too                 gave-up-without-waiting
//	circuit client: inbound / outbound Limited flag not set           relayed-conn-not-marked-limited (two mutations)
//	holepunch removeRelayAddrs keeps everything                       holepunch-dials-relay-address
//	holepunch receiver accepts a stream on a direct connection        holepunch-coordinated-over-direct-conn
//	holePunchConnect swallows the error                               holepunch-success-without-direct-conn
//	holePunchConnect without force-direct                             holepunch-success-without-direct-conn (+ holepunch-connect-without-force-direct)
//	hole puncher's first direct dial without force-direct             direct-dial-success-without-direct-conn
//
// QUIC listener hands an accepted connection to a pending hole punch BEFORE the inbound gater check (seeded, run through
// ./check with VERIF_REPO): holepunch-success-without-direct-conn on all 8 workers (the refused-yet-admitted connection
// shows up in ~1.2% of all runs).
// Re-checked through the QUIC stratum only (C12_LAYER=Q, 3 workers): holePunchConnect swallows the error
// (holepunch-success-without-direct-conn, 5 s), bestAcceptableConnToPeer ignores force-direct
// (direct-dial-success-without-direct-conn, 3 s), receiver accepts a dcutr stream on a direct connection
// (holepunch-coordinated-over-direct-conn, ~60 s), addConn does not close the waiters' channels (waiter-not-released, 19 s).
// Equivalent for this property (not caught, by construction): waitForDirectConn returning the limited
// connection AFTER being woken (Conn.NewStream's re-check turns it into the same ErrLimitedConn);
// Host.Connect treating Limited as connected without allow-limited (DialPeer returns the limited
// connection anyway, Host.NewStream then waits in Swarm.NewStream).

//go:debug randseednop=0
package c12

import (
	mrand "math/rand"
	"os"
	"testing"

	"verifsim/harness/common"
	"verifsim/simrand"
	"verifsim/simrt"
)

func TestSim(t *testing.T) { common.Main(t, common.Harness{Property: "C12", Run: run}) }

func run(t *testing.T, tape *simrt.Tape) *common.Outcome {
	g := simrt.Gen{S: tape.G}
	// stratum first (0 = layer A, the main stratum)
	mode := g.Weighted(7, 2, 2, 3)
	if l := os.Getenv("C12_LAYER"); l != "" { // development aid only (never set by ./check): pin the stratum
		mode = map[string]int{"A": modeA, "B": modeB, "R": modeRace, "Q": modeQUIC}[l]
	}
	// the QUIC transport's holePunch() paces its packets with the GLOBAL math/rand generator: pin it per run
	// (needs the go:debug line above; the top-level generator is otherwise seeded by the runtime)
	mrand.Seed(int64(1000 + mode))
	if mode == modeQUIC {
		// deterministic crypto/rand (connection ids, TLS randoms) for the QUIC stratum, before any node is built
		restore := simrand.Install(uint64(1 + g.Int(1<<16)))
		defer restore()
	}
	return runWorld(t, tape, g, mode)
}
