# orchestrator configuration of the C12 check (loaded by tools/props.py)
from stack import FULL_STACK, FULL_DEPS

ENABLED = False
SPEC = dict(
    pkg="./harness/c12",
    instrument=FULL_STACK + ["./p2p/protocol/circuitv2/relay", "./p2p/protocol/circuitv2/client", "./p2p/protocol/circuitv2/util",
                             "./p2p/protocol/holepunch"],
    deps=FULL_DEPS,
    level="exploration",
    level_text="tbd",
    level_note="tbd",
    technique="deterministic simulation: seeded lock-level scheduler over instrumented host stack on simnet, history oracles",
    design_ref="DESIGN.md section 5 (C12)",
    quick_s=50, thorough_s=600,
    rule="tbd",
    probes=[],
    real=[], stubs=[], assume=[],
)
