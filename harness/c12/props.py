# orchestrator configuration of the C12 check (loaded by tools/props.py)
from stack import FULL_STACK, FULL_DEPS, QUIC_STACK, QUIC_DEPS

SPEC = dict(
    pkg="./harness/c12",
    instrument=FULL_STACK + QUIC_STACK + ["./p2p/protocol/circuitv2/relay", "./p2p/protocol/circuitv2/client", "./p2p/protocol/circuitv2/util",
                             "./p2p/protocol/holepunch"],
    deps=FULL_DEPS + QUIC_DEPS,
    level="exploration",
    level_text=("seeded search over configurations x histories x schedules of three REAL basic hosts on a simulated TCP network: A (under "
                "observation), B (the peer, holding a reservation on the relay) and R (real circuit-v2 relay service); every lock, channel "
                "operation, select and goroutine start of swarm, basic host, identify, circuit client / relay, hole punching, upgrader, "
                "yamux, multistream is a scheduling decision. Layer A (7 of 14 runs): 1-4 caller tasks on A call Swarm.NewStream / "
                "Swarm.DialPeer / Host.NewStream / Host.Connect / Conn.NewStream with every subset of {allow-limited, force-direct, "
                "no-dial}, own deadlines, dial-peer timeouts and independent cancellation instants while 1-2 environment tasks make B "
                "reachable / unreachable, create direct connections in both directions, close direct / relayed connections on either "
                "side, flap a direct connection, close it from inside A's Connected notification or let B come back through the relay "
                "(inbound limited connection on A); the relay is limited, short-lived "
                "or unlimited. Race stratum (2 of 14): 3-6 rounds in which 1-4 waiters call Swarm.NewStream without allow-limited at the "
                "instant A's gater admits a direct connection (just before the swarm registers it), with drawn extra scheduling points "
                "in gater, dialer and waiters (check-then-register window of the waiter list). Layer B (2 of 14): A and B behind simulated stateful firewalls (filtered / open / symmetric), real hole "
                "punching services with the public tracer, optional link latency; the same callers on A wait for the hole punch. "
                "QUIC stratum (3 of 14; strata weights A 7, B 2, race 2): layer B with A and B listening on QUIC only (real quic-go, "
                "p2p/transport/quic incl. holePunch(), quicreuse over a simulated UDP wire), NAT = endpoint-dependent UDP filter, UDP loss / "
                "duplication / reordering in part of the runs (stopped before the closing phase). "
                "In a third of the QUIC runs each, A's / B's gater refuses the peer's inbound direct connections at Accept or Secured "
                "(from the start or once the relayed connection exists); a direct connection counts as existing only if it passed the "
                "node's own InterceptSecured before the swarm admitted it. "
                "History oracles over stamped invocations, notifications, gater admissions, transport dials and tracer events; "
                "Connectedness compared with the notified connection set at robust quiescent instants. Sampling, not proof."),
    level_note=("trusted: testing/synctest, the overlay rewrite, simrand (pinned crypto/rand in the QUIC stratum), simnet's UDP model, simnet's TCP model (no SYN retransmission: a dial towards a firewalled "
                "host hangs until its context ends; no true simultaneous open: the later of two crossing dials gets through); weaker "
                "readings: 'direct' for the stream / waiter clauses means not Limited (Stat().Limited; a connection through an UNLIMITED "
                "relay is relayed but not limited and may carry any stream), 'direct' for force-direct and hole punching means a "
                "non-relay remote address; failing is always allowed, only streams on limited connections without permission, relayed "
                "results of force-direct dials, late returns (own deadline + 1 s; pure waits: dial-peer timeout + 1 s), ErrLimitedConn "
                "without a direct connection having come and gone, and failures although a usable direct connection was open all the "
                "time / appeared and stayed are reported; a hole-punch success needs a direct connection that was open at some instant "
                "of the attempt (it may be closed again when the event is traced); the dcutr stream's connection is observed only in the "
                "2/3 of layer-B runs whose services are built by the harness around a recording host wrapper (the rest uses "
                "HostOpts.EnableHolePunching unchanged); Swarm.directConnNotifs is read through reflection at quiescent instants"),
    technique="deterministic simulation: seeded lock-level scheduler over instrumented host stack on simnet, history oracles",
    design_ref="DESIGN.md section 5 (C12)",
    quick_s=50, thorough_s=600,
    rule=("one run = one tape: stratum (layer A / B), relay limits (default, 15 s, unlimited), security (insecure / noise), initial "
          "connections (limited only, none, direct only, both), B's initial reachability or the firewall modes of A and B, link "
          "latencies, direct-dial timeout, whether A knows B's direct address, whether relay addresses are advertised for hole "
          "punching, service wiring, whether A holds a reservation too, the names A knows for B (literal addresses, /dnsaddr names that "
          "a scripted resolver expands to B's circuit or direct address, /dns4 names of relay and B), 1-4 callers x 1-3 calls (API, option set, pause, deadline, dial-peer timeout, cancellation "
          "instant), 0-2 environment tasks x 1-6 steps, sampling pace, and the schedule; non-trivial = at least one call was made, "
          "at least one quiescent reading was accepted and A saw at least one connection to B; distinct = distinct (scheduler "
          "decision hash, connection list, per-call outcome, Connectedness readings, event sequence, hole-punch event sequence)"),
    probes=["waiter-released-by-direct-conn", "waiter-cancelled-or-timed-out", "direct-conn-vanished-before-waiter-woke",
            "stream-on-limited-conn-allowed", "force-direct-succeeded", "quiescent-limited-only", "quiescent-both",
            "inbound-limited-conn-on-A", "dnsaddr-expanded-to-relay-address", "quic-transport-hole-punch-packets", "hole-punch-attempted", "hole-punch-succeeded", "hole-punch-failed", "holepunch-direct-dial-succeeded",
            "holepunch-direct-dial-failed", "holepunch-protocol-error", "dcutr-stream-on-direct-conn"],
    real=["ALL of the following run as tasks of the seeded scheduler (instrumented)", "swarm (conns, waiter list, dial worker, dial sync, "
          "connectedness, emitter)", "basic host (NewStream, Connect), identify", "circuitv2 relay service and client transport "
          "(Reserve, dial, stop handler, limited flag)", "holepunch service and hole puncher (dcutr exchange, direct dial, retries, tracer)",
          "QUIC stratum: quic-go, p2p/transport/quic (dial, listener, holePunch), quicreuse", "tcp transport dial path, upgrader + listener, noise / insecure, multistream-select, yamux", "pstoremem, eventbus"],
    stubs=["wire: simnet TCP model; simnet UDP model with drawn loss / duplication / latency (QUIC stratum)", "UDP NAT filter (datagram X->Y passes only if Y sent to X within 2 s or the flow is established)", "stateful firewall predicate (inbound accepted only from an IP dialled within the last 2 s)",
           "scripted MultiaddrDNSResolver on A (dnsaddr / dns4 names of B and the relay)", "scripted inbound refusal in the recording connection gater (QUIC stratum)", "recording wrappers that only delegate: connection gater, circuit transport Dial, host handed to the hole punching service"],
    assume=["virtual clock of testing/synctest", "no process stalls (timing oracles use 1 s slack)",
            "zero virtual time passes between a connection becoming unusable and its Disconnected notification"],
)
