package c12

import (
	"context"
	"errors"
	"fmt"
	"net"
	"os"
	"reflect"
	"slices"
	"sort"
	"strings"
	"testing"
	"time"

	"github.com/libp2p/go-libp2p/core/control"
	"github.com/libp2p/go-libp2p/core/event"
	"github.com/libp2p/go-libp2p/core/network"
	"github.com/libp2p/go-libp2p/core/peer"
	"github.com/libp2p/go-libp2p/core/peerstore"
	"github.com/libp2p/go-libp2p/core/protocol"
	"github.com/libp2p/go-libp2p/core/transport"
	basichost "github.com/libp2p/go-libp2p/p2p/host/basic"
	"github.com/libp2p/go-libp2p/p2p/host/eventbus"
	"github.com/libp2p/go-libp2p/p2p/net/swarm"
	"github.com/libp2p/go-libp2p/p2p/protocol/circuitv2/client"
	"github.com/libp2p/go-libp2p/p2p/protocol/circuitv2/relay"
	"github.com/libp2p/go-libp2p/p2p/protocol/holepunch"
	ma "github.com/multiformats/go-multiaddr"
	manet "github.com/multiformats/go-multiaddr/net"

	"verifsim/harness/common"
	"verifsim/simhost"
	"verifsim/simnet"
	"verifsim/simrt"
	"verifsim/simsync"
)

var debug = os.Getenv("C12_DEBUG") != ""

const (
	apiSwarmNewStream = iota
	apiSwarmDialPeer
	apiHostNewStream
	apiHostConnect
	apiConnNewStream
)

var apiNames = [...]string{"Swarm.NewStream", "Swarm.DialPeer", "Host.NewStream", "Host.Connect", "Conn.NewStream"}

const echoProto = "/c12/echo/1"

// slack added to every documented timeout (virtual time; the runs have no process stalls, so
// the simulated process needs zero virtual time for its own work and 1 s is generous)
const slack = time.Second

// the simulated firewall keeps an outbound mapping for this long
const natWindow = 2 * time.Second

type opSpec struct {
	api                  int
	allow, force, nodial bool
	pre                  time.Duration // pause before the call
	timeout              time.Duration // the caller's own deadline (always set)
	dpt                  time.Duration // network.WithDialPeerTimeout (0 = default 60 s)
	cancelAt             time.Duration // explicit cancellation after this long (0 = none)
}

func (s opSpec) String() string {
	var f []string
	if s.allow {
		f = append(f, "allow-limited")
	}
	if s.force {
		f = append(f, "force-direct")
	}
	if s.nodial {
		f = append(f, "no-dial")
	}
	return fmt.Sprintf("%s{%s} pre=%v timeout=%v dialPeerTimeout=%v cancelAt=%v", apiNames[s.api], strings.Join(f, ","), s.pre, s.timeout, s.dpt, s.cancelAt)
}

func (s opSpec) isStream() bool {
	return s.api == apiSwarmNewStream || s.api == apiHostNewStream || s.api == apiConnNewStream
}

func (s opSpec) dialPeerTimeout() time.Duration {
	if s.dpt != 0 {
		return s.dpt
	}
	return network.DialPeerTimeout
}

type opRec struct {
	task, idx    int
	spec         opSpec
	inv, ret     uint64
	invAt, retAt time.Duration
	done         bool
	err          error
	kind         string // classification of err
	connID       string // connection of the returned stream / conn
	limited      bool   // its Stat().Limited
	relayed      bool   // its remote address contains /p2p-circuit
	skipped      bool   // Conn.NewStream with no connection to call it on
}

// connection between A and B as seen through the public observation points of ONE node's swarm
type connInfo struct {
	id               string
	limited, relayed bool
	dir              network.Direction
	admit            uint64 // gater InterceptUpgraded (before the swarm registers the connection)
	admitAt          time.Duration
	conn, disc       uint64 // Connected / Disconnected notification (0 = not seen)
	connAt, discAt   time.Duration
	closedAtAdmit    bool // IsClosed() already when the swarm asked the gater to admit it
	ungated          bool // admitted by the swarm although the node's gater has not passed that many direct connections of the peer
}

// action: the refusal of an inbound connection by a node's scripted gater
type action struct {
	node  int
	stamp uint64
	at    time.Duration
}

// firstSeen is the earliest instant at which the connection is known to have existed
func (ci *connInfo) firstSeen() (uint64, time.Duration) {
	if ci.admit != 0 {
		return ci.admit, ci.admitAt
	}
	return ci.conn, ci.connAt
}

// overlaps: the connection was (possibly) open at some stamp of [from, to]
func (ci *connInfo) overlaps(from, to uint64) bool {
	first, _ := ci.firstSeen()
	return first != 0 && first < to && (ci.disc == 0 || ci.disc > from)
}

type relayDial struct {
	stamp            uint64
	addr             string
	force, simulConn bool
}

// view: what one node (0 = A, the node under observation; 1 = B) sees of the other
type view struct {
	w         *world
	node      int
	other     peer.ID
	conns     map[string]*connInfo
	order     []string
	dials     []relayDial // addresses handed to the circuit transport for the other peer
	closeNext bool        // close the next direct connection from inside the Connected notification
}

type sample struct {
	stamp    uint64
	at       time.Duration
	got      network.Connectedness
	listed   []string // ConnsToPeer(B): id/limited/closed
	lastEv   int      // last bus event for B seen so far (-1 none)
	waiters  int      // entries of Swarm.directConnNotifs (-1 unknown)
	inflight int      // calls in flight that may legitimately wait for a direct connection
}

// hole punching observations
type hpEvent struct {
	node    int
	typ     string
	stamp   uint64
	at      time.Duration
	success bool
	elapsed time.Duration
	addrs   []string
	errS    string
}

type hpStream struct {
	node     int
	outbound bool // opened by the node (initiator) / received by its handler
	stamp    uint64
	ok       bool
	relayed  bool
	limited  bool
	connID   string
}

type hpConnect struct {
	node       int
	stamp      uint64
	addrs      []string
	force, sim bool
}

type world struct {
	o        *common.Outcome
	layerB   bool
	ids      [2]peer.ID
	v        [2]*view
	events   []network.Connectedness // EvtPeerConnectednessChanged for B on A's bus
	activity int
	samples  []sample
	ops      []*opRec
	probed   map[string]bool

	refusals []action // inbound connections refused by a node's scripted gater

	// race stratum
	gate        chan struct{}
	gateArmed   bool
	gaterYields int

	hpEvents   []hpEvent
	hpStreams  []hpStream
	hpConnects []hpConnect
	wrapped    bool // hole punch services built by the harness around a recording host wrapper
}

// phantom: a "connection" that the node's swarm admitted although the node's own connection gater never let it pass
// InterceptSecured (the gater refused it at InterceptAccept or InterceptSecured): for the purposes of this property
// such a connection never existed, whatever the swarm briefly listed.
func (w *world) phantom(_ *view, ci *connInfo) bool { return ci.ungated }

func (w *world) openGate() {
	if w.gate != nil {
		close(w.gate)
		w.gate = nil
	}
}

func (w *world) probe(name string) {
	if !w.probed[name] {
		w.probed[name] = true
		w.o.Probe(name)
	}
}

func isRelayAddr(a ma.Multiaddr) bool {
	if a == nil {
		return false
	}
	_, err := a.ValueForProtocol(ma.P_CIRCUIT)
	return err == nil
}

func (v *view) info(c network.Conn) *connInfo {
	if c.RemotePeer() != v.other {
		return nil
	}
	id := c.ID()
	ci := v.conns[id]
	if ci == nil {
		ci = &connInfo{id: id, limited: c.Stat().Limited, relayed: isRelayAddr(c.RemoteMultiaddr()), dir: c.Stat().Direction}
		v.conns[id] = ci
		v.order = append(v.order, id)
	}
	return ci
}

// directOpenBetween: some non-relayed connection was (possibly) open during [from, to] (stamps)
func (v *view) directOverlaps(from, to uint64) bool {
	for _, id := range v.order {
		if ci := v.conns[id]; !ci.relayed && !ci.limited && ci.overlaps(from, to) {
			return true
		}
	}
	return false
}

// recording gater: InterceptUpgraded is the earliest public observation point of a new connection
//
// QUIC stratum: it may additionally refuse the peer's INBOUND direct connections (never outbound dials, never
// relayed connections) at InterceptAccept or at InterceptSecured — an inbound allow-list that does not name the peer.
type recGater struct {
	v       *view
	refuse  int    // 0 never, 1 at InterceptAccept, 2 at InterceptSecured(DirInbound)
	armed   bool   // refusing now (from the start, or switched on when the first relayed connection to the peer is admitted)
	onRelay bool   // switch on at the first relayed connection
	peerIP  string // the peer's IP (InterceptAccept sees addresses only)

	// ground truth for "this connection exists": every direct connection the swarm admits has passed InterceptSecured
	// (TCP: upgrader, both directions; QUIC: the transport on dial, the listener after InterceptAccept) exactly once
	securedOK, admittedDirect int
}

func (g *recGater) refused(where int, c network.ConnMultiaddrs) bool {
	if g.refuse != where || !g.armed || isRelayAddr(c.RemoteMultiaddr()) {
		return false
	}
	if ip, err := manet.ToIP(c.RemoteMultiaddr()); err != nil || ip.String() != g.peerIP {
		return false
	}
	g.v.w.refusals = append(g.v.w.refusals, action{node: g.v.node, stamp: simrt.Stamp(), at: simrt.Now()})
	return true
}

func (g *recGater) InterceptPeerDial(peer.ID) bool                { return true }
func (g *recGater) InterceptAddrDial(peer.ID, ma.Multiaddr) bool  { return true }
func (g *recGater) InterceptAccept(c network.ConnMultiaddrs) bool { return !g.refused(1, c) }
func (g *recGater) InterceptSecured(dir network.Direction, p peer.ID, c network.ConnMultiaddrs) bool {
	if dir == network.DirInbound && p == g.v.other && g.refused(2, c) {
		return false
	}
	if p == g.v.other && !isRelayAddr(c.RemoteMultiaddr()) {
		g.securedOK++
	}
	return true
}
func (g *recGater) InterceptUpgraded(c network.Conn) (bool, control.DisconnectReason) {
	if ci := g.v.info(c); ci != nil && ci.admit == 0 {
		ci.admit, ci.admitAt = simrt.Stamp(), simrt.Now()
		ci.closedAtAdmit = c.IsClosed()
		if !ci.relayed {
			if g.admittedDirect++; g.admittedDirect > g.securedOK {
				ci.ungated = true
			}
		}
		if ci.relayed && g.onRelay {
			g.armed = true
		}
		w := g.v.w
		w.activity++
		if g.v.node == 0 && w.gateArmed && !ci.limited && !ci.relayed {
			// race stratum: release the waiters now and linger for a drawn number of scheduling points
			w.gateArmed = false
			w.openGate()
			for i := 0; i < w.gaterYields; i++ {
				simrt.Yield("c12.gater")
			}
		}
	}
	return true, 0
}

type recNotifiee struct{ v *view }

func (n *recNotifiee) Listen(network.Network, ma.Multiaddr)      {}
func (n *recNotifiee) ListenClose(network.Network, ma.Multiaddr) {}
func (n *recNotifiee) Connected(_ network.Network, c network.Conn) {
	if ci := n.v.info(c); ci != nil {
		n.v.w.activity++
		if ci.conn == 0 {
			ci.conn, ci.connAt = simrt.Stamp(), simrt.Now()
		}
		if n.v.closeNext && !ci.limited && !ci.relayed {
			n.v.closeNext = false
			c.Close()
		}
	}
}
func (n *recNotifiee) Disconnected(_ network.Network, c network.Conn) {
	if ci := n.v.info(c); ci != nil {
		n.v.w.activity++
		if ci.disc == 0 {
			ci.disc, ci.discAt = simrt.Stamp(), simrt.Now()
		}
	}
}

// recTransport is the real circuit client transport; Dial additionally records the address it
// was handed and whether the dial context demands a direct connection / is a hole punch.
type recTransport struct {
	*client.Client
	v *view
}

func (r *recTransport) Dial(ctx context.Context, a ma.Multiaddr, p peer.ID) (transport.CapableConn, error) {
	if p == r.v.other {
		force, _ := network.GetForceDirectDial(ctx)
		sim, _, _ := network.GetSimultaneousConnect(ctx)
		r.v.dials = append(r.v.dials, relayDial{stamp: simrt.Stamp(), addr: a.String(), force: force, simulConn: sim})
	}
	return r.Client.Dial(ctx, a, p)
}

func addCircuitTransport(nd *simhost.Node, v *view) error {
	cl, err := client.New(nd.Host, nd.Up)
	if err != nil {
		return err
	}
	if err := nd.Swarm.AddTransport(&recTransport{Client: cl, v: v}); err != nil {
		return err
	}
	if err := nd.Swarm.Listen(ma.StringCast("/p2p-circuit")); err != nil {
		return err
	}
	cl.Start()
	return nil
}

// hole punching observation --------------------------------------------------------------

type recTracer struct {
	w    *world
	node int
}

func (t *recTracer) Trace(e *holepunch.Event) {
	if e.Remote != t.w.ids[1-t.node] {
		return
	}
	ev := hpEvent{node: t.node, typ: e.Type, stamp: simrt.Stamp(), at: simrt.Now()}
	switch x := e.Evt.(type) {
	case *holepunch.DirectDialEvt:
		ev.success, ev.elapsed, ev.errS = x.Success, x.EllapsedTime, x.Error
	case *holepunch.ProtocolErrorEvt:
		ev.errS = x.Error
	case *holepunch.StartHolePunchEvt:
		ev.addrs = append([]string(nil), x.RemoteAddrs...)
	case *holepunch.EndHolePunchEvt:
		ev.success, ev.elapsed, ev.errS = x.Success, x.EllapsedTime, x.Error
	}
	t.w.hpEvents = append(t.w.hpEvents, ev)
}

// hpHost is what the harness hands to holepunch.NewService in the "wrapped" wiring: the real
// basic host; the three calls the service makes on it are recorded before being delegated.
type hpHost struct {
	*basichost.BasicHost
	w    *world
	node int
}

func (h *hpHost) recStream(s network.Stream, outbound bool, err error) {
	r := hpStream{node: h.node, outbound: outbound, stamp: simrt.Stamp(), ok: err == nil}
	if err == nil && s != nil {
		c := s.Conn()
		r.relayed, r.limited, r.connID = isRelayAddr(c.RemoteMultiaddr()), c.Stat().Limited, c.ID()
	}
	h.w.hpStreams = append(h.w.hpStreams, r)
}

func (h *hpHost) NewStream(ctx context.Context, p peer.ID, pids ...protocol.ID) (network.Stream, error) {
	s, err := h.BasicHost.NewStream(ctx, p, pids...)
	if p == h.w.ids[1-h.node] && slices.Contains(pids, holepunch.Protocol) {
		h.recStream(s, true, err)
	}
	return s, err
}

func (h *hpHost) SetStreamHandler(pid protocol.ID, handler network.StreamHandler) {
	if pid == holepunch.Protocol {
		inner := handler
		handler = func(s network.Stream) {
			if s.Conn().RemotePeer() == h.w.ids[1-h.node] {
				h.recStream(s, false, nil)
			}
			inner(s)
		}
	}
	h.BasicHost.SetStreamHandler(pid, handler)
}

func (h *hpHost) Connect(ctx context.Context, pi peer.AddrInfo) error {
	if pi.ID == h.w.ids[1-h.node] {
		force, _ := network.GetForceDirectDial(ctx)
		sim, _, _ := network.GetSimultaneousConnect(ctx)
		r := hpConnect{node: h.node, stamp: simrt.Stamp(), force: force, sim: sim}
		for _, a := range pi.Addrs {
			r.addrs = append(r.addrs, a.String())
		}
		h.w.hpConnects = append(h.w.hpConnects, r)
	}
	return h.BasicHost.Connect(ctx, pi)
}

// scriptedDNS is A's network.MultiaddrDNSResolver: /dnsaddr names expand to scripted multiaddrs (as a TXT
// record would), /dns4 names to an IP. It never blocks.
type scriptedDNS struct {
	w       *world
	dnsaddr map[string][]string // name -> multiaddrs
	hosts   map[string]string   // name -> IPv4
}

func (d *scriptedDNS) ResolveDNSAddr(_ context.Context, expected peer.ID, maddr ma.Multiaddr, _, outputLimit int) ([]ma.Multiaddr, error) {
	name, err := maddr.ValueForProtocol(ma.P_DNSADDR)
	if err != nil {
		return nil, err
	}
	var out []ma.Multiaddr
	for _, a := range d.dnsaddr[name] {
		m := ma.StringCast(a)
		if id, err := peer.IDFromP2PAddr(m); err == nil && expected != "" && id != expected {
			continue
		}
		if isRelayAddr(m) {
			d.w.probe("dnsaddr-expanded-to-relay-address")
		}
		out = append(out, m)
	}
	if len(out) == 0 {
		return nil, errors.New("scripted resolver: no such name")
	}
	if len(out) > outputLimit {
		out = out[:max(outputLimit, 0)]
	}
	return out, nil
}

func (d *scriptedDNS) ResolveDNSComponent(_ context.Context, maddr ma.Multiaddr, outputLimit int) ([]ma.Multiaddr, error) {
	first, rest := ma.SplitFirst(maddr)
	if first == nil || first.Protocol().Code != ma.P_DNS4 {
		return nil, errors.New("scripted resolver: not a /dns4 address")
	}
	ip, ok := d.hosts[first.Value()]
	if !ok || outputLimit <= 0 {
		return nil, errors.New("scripted resolver: no such host")
	}
	out := ma.StringCast("/ip4/" + ip)
	if rest != nil {
		out = out.Encapsulate(rest)
	}
	return []ma.Multiaddr{out}, nil
}

// firewall: a node in mode natFiltered accepts an inbound TCP connection only from an IP it has
// itself dialled within the last natWindow; natSymmetric never accepts; natOpen always.
const (
	natFiltered = iota
	natOpen
	natSymmetric
)

var natNames = [...]string{"filtered", "open", "symmetric"}

type firewall struct {
	mode    map[string]int
	lastOut map[string]time.Duration // "fromIP>toIP" -> virtual time of the last outbound attempt
	flow    map[string]bool          // UDP: "ipX|ipY" (sorted) -> datagrams have passed in both directions
	closed  map[string]bool          // UDP: nothing reaches this IP (environment step)
	dropped int
	punches int
}

// an established UDP flow keeps its NAT mapping this long after the last datagram of either direction
const udpFlowIdle = 2 * time.Minute

// udp is simnet's SetUDPFilter verdict: endpoint-dependent filtering. A datagram from X towards a node Y in mode
// natFiltered is dropped unless Y has sent a datagram to X within the last natWindow (or the flow X<->Y is
// established and not idle for udpFlowIdle); natSymmetric: always dropped; natOpen / not behind a NAT: passes.
// Drawn loss / duplication / latency (simnet.UDPConfig) applies to what passes.
func (f *firewall) udp(from, to *net.UDPAddr, data []byte) simnet.UDPVerdict {
	x, y := from.IP.String(), to.IP.String()
	if _, ok := f.mode[y]; ok && len(data) == 64 {
		f.punches++ // the QUIC transport's holePunch() sends 64 random bytes (QUIC's own packets of that size are rare)
	}
	now := simrt.Now()
	prev, had := f.lastOut[y+">"+x]
	f.lastOut[x+">"+y] = now
	fk := x + "|" + y
	if y < x {
		fk = y + "|" + x
	}
	drop := func() simnet.UDPVerdict { f.dropped++; return simnet.UDPDrop }
	if f.closed[y] {
		return drop()
	}
	mode, behind := f.mode[y]
	if !behind || mode == natOpen {
		return simnet.UDPPass
	}
	if mode == natSymmetric || !had {
		return drop()
	}
	if f.flow[fk] && now-prev <= udpFlowIdle {
		return simnet.UDPPass
	}
	if now-prev > natWindow {
		delete(f.flow, fk)
		return drop()
	}
	f.flow[fk] = true // Y sent to X recently and X's datagram now reaches Y: both directions are open
	return simnet.UDPPass
}

// blocked is simnet's SetBlocked predicate (called for every dial attempt, under simnet's lock)
func (f *firewall) blocked(from, to string) bool {
	toIP, _, err := net.SplitHostPort(to)
	if err != nil {
		return false
	}
	now := simrt.Now()
	f.lastOut[from+">"+toIP] = now
	mode, behind := f.mode[toIP]
	if !behind || mode == natOpen {
		return false
	}
	if mode == natSymmetric {
		return true
	}
	t, ok := f.lastOut[toIP+">"+from]
	return !ok || now-t > natWindow
}

func errKind(err error) string {
	switch {
	case err == nil:
		return "ok"
	case errors.Is(err, network.ErrLimitedConn):
		return "limited-conn"
	case errors.Is(err, network.ErrNoConn):
		return "no-conn"
	case errors.Is(err, context.DeadlineExceeded):
		return "deadline"
	case errors.Is(err, context.Canceled):
		return "canceled"
	}
	return "other"
}

// waiterEntries reads len(Swarm.directConnNotifs.m[*]) — the waiter list named in the property's
// anchors — through reflection (read-only, at quiescent instants only). -1: layout changed.
func waiterEntries(sw any) int {
	v := reflect.ValueOf(sw)
	if v.Kind() != reflect.Pointer || v.Elem().Kind() != reflect.Struct {
		return -1
	}
	f := v.Elem().FieldByName("directConnNotifs")
	if !f.IsValid() || f.Kind() != reflect.Struct {
		return -1
	}
	m := f.FieldByName("m")
	if !m.IsValid() || m.Kind() != reflect.Map {
		return -1
	}
	n := 0
	it := m.MapRange()
	for it.Next() {
		if it.Value().Kind() != reflect.Slice {
			return -1
		}
		n += it.Value().Len()
	}
	return n
}

const (
	eSleep = iota
	eReachable
	eUnreachable
	eBDialsA
	eADialsDirect
	eCloseDirectAtA
	eCloseDirectAtB
	eCloseLimitedAtA
	eClosePeer
	eFlapInbound
	eFlapOutbound
	eArmCloseInConnected
	eBReconnectsViaRelay
)

var envNames = [...]string{"sleep", "B-reachable", "B-unreachable", "B-dials-A-direct", "A-dials-B-direct", "A-closes-direct", "B-closes-direct",
	"A-closes-limited", "A.ClosePeer(B)", "B-dials-A-direct-and-closes", "A-dials-B-direct-and-closes", "arm:A-closes-next-direct-conn-inside-Connected",
	"B-drops-every-conn-and-dials-A-through-the-relay"}

type envStep struct {
	kind int
	pre  time.Duration
}

// strata
const (
	modeA    = iota // layer A: free mix of callers and environment tasks
	modeB           // layer B: hole punching behind firewalls
	modeRace        // layer A, targeted: waiters start while a direct connection is being registered
	modeQUIC        // layer B over QUIC: direct addresses are QUIC addresses, NAT modelled on the UDP wire
)

// one round of the race stratum: the peer is reachable over the limited connection only; 1-4 waiter
// tasks call Swarm.NewStream without allow-limited at the instant a direct connection is admitted on A
// (A's gater sees it just before the swarm registers it), with drawn numbers of extra scheduling points
// on both sides, so that the registration lands around the waiter's check-then-register window.
type raceWaiter struct {
	yields int
	spec   opSpec
}
type raceRound struct {
	waiters       []raceWaiter
	inbound       bool // B dials A (otherwise A dials B)
	gateAtDial    bool // waiters are released when the dial starts (otherwise when A's gater admits the connection)
	gaterYields   int  // scheduling points spent inside InterceptUpgraded after releasing the waiters
	dialerYields  int  // scheduling points before the dial starts
	holdDirectFor time.Duration
}

func runWorld(t *testing.T, tape *simrt.Tape, g simrt.Gen, mode int) *common.Outcome {
	quic := mode == modeQUIC
	layerB := mode == modeB || quic
	o := &common.Outcome{}
	w := &world{o: o, layerB: layerB, probed: map[string]bool{}}
	for i := range w.v {
		w.v[i] = &view{w: w, node: i, conns: map[string]*connInfo{}}
	}

	// ---- configuration / workload (0 = simplest) ---------------------------------------------
	relayMode := g.Weighted(5, 2, 2) // 0 default limits, 1 short duration limit, 2 unlimited relay (relayed but NOT limited)
	secu := []string{"insecure", "noise"}[g.Weighted(4, 1)]
	durs := []time.Duration{0, time.Millisecond, 100 * time.Millisecond, 700 * time.Millisecond, 3 * time.Second, 12 * time.Second}
	timeouts := []time.Duration{3 * time.Second, 500 * time.Millisecond, 20 * time.Second, 70 * time.Second}
	dpts := []time.Duration{0, 2 * time.Second, 8 * time.Second}
	var (
		initial, nCallers, nEnvs int
		reachable                bool
		natA, natB               int
		latencies                []time.Duration
		directDialTimeout        time.Duration
		knowsDirect              = true
		advertiseRelayAddr       bool
	)
	var rounds []raceRound
	if mode == modeRace {
		relayMode, initial, reachable = 0, 0, true
		for i, n := 0, g.Range(3, 6); i < n; i++ {
			rd := raceRound{inbound: g.Bool(), gateAtDial: g.Chance(1, 4), gaterYields: g.Int(10), dialerYields: g.Int(4)}
			for k, nw := 0, g.Range(1, 4); k < nw; k++ {
				rd.waiters = append(rd.waiters, raceWaiter{yields: g.Int(8), spec: opSpec{api: apiSwarmNewStream, nodial: !g.Chance(1, 4),
					timeout: 5 * time.Second, dpt: []time.Duration{2 * time.Second, 8 * time.Second}[g.Weighted(3, 1)]}})
			}
			rounds = append(rounds, rd)
		}
	} else if !layerB {
		initial = g.Weighted(5, 2, 1, 2) // 0 limited only, 1 none, 2 direct only, 3 both
		reachable = g.Chance(1, 3)       // B's listener accepts direct dials at the start of the concurrent phase
		nCallers = g.Range(1, 4)
		nEnvs = g.Range(1, 2)
	} else {
		initial = 1
		natA = g.Weighted(6, 2, 2)
		natB = g.Weighted(6, 1, 2)
		latencies = [][]time.Duration{nil, {0, 5 * time.Millisecond, 40 * time.Millisecond}, {300 * time.Millisecond, 1500 * time.Millisecond}}[g.Weighted(3, 3, 1)]
		directDialTimeout = []time.Duration{3 * time.Second, 10 * time.Second}[g.Weighted(3, 1)]
		knowsDirect = g.Bool()               // A's peerstore also holds B's direct address
		advertiseRelayAddr = !g.Chance(1, 4) // the nodes list a relay address among their hole punching addresses (as autorelay does)
		w.wrapped = !g.Chance(1, 3)
		timeouts = []time.Duration{40 * time.Second, 3 * time.Second, 90 * time.Second, 15 * time.Second}
		nCallers = g.Range(1, 3)
		nEnvs = g.Range(0, 1)
	}
	var udpCfg simnet.UDPConfig
	var gaterRefuse [2]int
	var gaterOnRelay [2]bool
	if quic {
		// faults of the UDP wire in part of the runs (they stop before the closing phase)
		udpCfg.DropPermille = []int{0, 0, 50, 150}[g.Int(4)]
		udpCfg.DupPermille = []int{0, 50}[g.Weighted(2, 1)]
		udpCfg.Latencies = [][]time.Duration{nil, {0, 5 * time.Millisecond, 40 * time.Millisecond}, {0, 20 * time.Millisecond, 250 * time.Millisecond}}[g.Int(3)]
		// scripted inbound refusal by the nodes' connection gaters (0 none, 1 at InterceptAccept, 2 at InterceptSecured),
		// from the start or switched on when the first relayed connection to the peer is admitted
		for i := range gaterRefuse {
			gaterRefuse[i], gaterOnRelay[i] = g.Weighted(4, 1, 1), g.Bool()
		}
	}
	callers := make([][]opSpec, nCallers)
	for c := range callers {
		n := g.Range(1, 3)
		for i := 0; i < n; i++ {
			s := opSpec{}
			if !layerB {
				s.api = g.Weighted(6, 3, 3, 2, 2)
			} else {
				s.api = [...]int{apiHostNewStream, apiSwarmNewStream, apiHostConnect, apiSwarmDialPeer, apiConnNewStream}[g.Weighted(6, 3, 2, 2, 1)]
			}
			// bit0 allow-limited, bit1 force-direct, bit2 no-dial; the waiting configurations first
			var m int
			if !layerB {
				m = [...]int{4, 0, 1, 2, 5, 6, 3, 7}[g.Weighted(5, 3, 2, 3, 1, 1, 1, 1)]
			} else {
				m = [...]int{0, 4, 1, 2, 5, 6, 3, 7}[g.Weighted(6, 3, 2, 1, 1, 1, 1, 1)]
			}
			s.allow, s.force, s.nodial = m&1 != 0, m&2 != 0, m&4 != 0
			s.pre = durs[g.Int(len(durs)-1)]
			s.timeout = timeouts[g.Int(len(timeouts))]
			s.dpt = dpts[g.Int(len(dpts))]
			if g.Chance(1, 3) {
				s.cancelAt = durs[1+g.Int(len(durs)-1)]
			}
			callers[c] = append(callers[c], s)
		}
	}
	envs := make([][]envStep, nEnvs)
	for e := range envs {
		n := g.Range(1, 6)
		for i := 0; i < n; i++ {
			var k int
			if !layerB {
				k = g.Weighted(1, 3, 2, 4, 3, 3, 2, 2, 1, 2, 2, 2, 2)
			} else {
				k = g.Weighted(3, 1, 1, 1, 1, 3, 2, 3, 1, 1, 1, 1, 2)
			}
			envs[e] = append(envs[e], envStep{kind: k, pre: durs[g.Int(len(durs))]})
		}
	}
	samplePause := []time.Duration{500 * time.Millisecond, 30 * time.Millisecond, 4 * time.Second}[g.Int(3)]
	// names in A's peerstore for B: 0 none; relay route: 1 a /dnsaddr that expands to B's circuit address next to the literal
	// circuit address, 2 instead of it, 3 the circuit address with the relay's /dns4 name instead of the literal one;
	// direct route (only if A knows B's direct address): 1 a /dnsaddr that expands to B's direct address (control), 2 B's /dns4 name
	var dnsRelay, dnsDirect int
	if mode != modeRace {
		dnsRelay, dnsDirect = g.Weighted(3, 1, 1, 1), g.Weighted(3, 1, 1)
	}
	aReserves := g.Bool() // A holds a reservation on the relay too, so that B can reach A through it (inbound limited connections on A)
	if mode == modeA && g.Chance(1, 6) {
		// bias towards the rarest race: a waiter is woken by a direct connection that is gone again before the waiter looks
		initial = 0
		for c := range callers { // several waiters: the later a woken waiter runs, the likelier the connection is gone
			callers[c][0] = opSpec{api: apiSwarmNewStream, nodial: g.Bool(), timeout: 20 * time.Second, dpt: dpts[g.Int(len(dpts))]}
		}
		steps := []envStep{{kind: []int{eArmCloseInConnected, eFlapInbound, eFlapOutbound}[g.Int(3)], pre: durs[1+g.Int(3)]}}
		if steps[0].kind == eArmCloseInConnected {
			steps = append(steps, envStep{kind: []int{eBDialsA, eADialsDirect}[g.Int(2)], pre: durs[g.Int(3)]})
			reachable = true
		}
		envs[0] = append(steps, envs[0]...)
	}

	if mode == modeRace {
		o.Logf("layer A / race stratum: security=%s", secu)
		for i, rd := range rounds {
			o.Logf(" round%d inbound=%v gate-at-dial=%v gater-yields=%d dialer-yields=%d", i, rd.inbound, rd.gateAtDial, rd.gaterYields, rd.dialerYields)
			for k, wt := range rd.waiters {
				o.Logf("  waiter%d yields=%d %v", k, wt.yields, wt.spec)
			}
		}
	} else if !layerB {
		o.Logf("layer A: relay=%d(0 default limits,1 15s limit,2 unlimited) initial=%d(0 limited,1 none,2 direct,3 both) reachable=%v security=%s", relayMode, initial, reachable, secu)
	} else {
		if quic {
			o.Logf("QUIC stratum (A and B listen on QUIC only; NAT = UDP filter): udp drop=%d dup=%d latencies=%v", udpCfg.DropPermille, udpCfg.DupPermille, udpCfg.Latencies)
			o.Logf(" gaters refuse the peer's inbound direct connections: A=%d B=%d (0 never, 1 at Accept, 2 at Secured) only-after-the-relayed-connection: A=%v B=%v", gaterRefuse[0], gaterRefuse[1], gaterOnRelay[0], gaterOnRelay[1])
		}
		o.Logf("layer B: relay=%d(0 default limits,1 15s limit,2 unlimited) firewall A=%s B=%s latencies=%v directDialTimeout=%v A-knows-B's-direct-address=%v relay-address-advertised=%v wrapped-service=%v security=%s",
			relayMode, natNames[natA], natNames[natB], latencies, directDialTimeout, knowsDirect, advertiseRelayAddr, w.wrapped, secu)
	}
	o.Logf(" A-has-reservation=%v names-for-B: relay-route=%d(0 literal,1 +dnsaddr,2 dnsaddr only,3 /dns4 relay host) direct-route=%d(0 literal,1 +dnsaddr,2 +/dns4)", aReserves, dnsRelay, dnsDirect)
	for c, ops := range callers {
		for i, s := range ops {
			o.Logf(" caller%d.%d %v", c, i, s)
		}
	}
	for e, st := range envs {
		var sb []string
		for _, s := range st {
			sb = append(sb, fmt.Sprintf("+%v:%s", s.pre, envNames[s.kind]))
		}
		o.Logf(" env%d %s", e, strings.Join(sb, " "))
	}

	finished := false
	reflectOK := true
	var postDirect string

	var udpCounts map[string]int
	var udpLeft []string
	res := simrt.Run(t, simrt.Config{MaxSteps: 4000000, IdleLimit: time.Hour, TraceCap: 3000}, tape.S, func() {
		n := simnet.New(tape.S, simnet.Config{Mode: simnet.Whole, Latencies: latencies})
		if quic {
			// QUIC connection teardown is a datagram exchange: let it end after every node was closed (deferred calls run first)
			defer func() {
				simrt.TimeSleep(10 * time.Second)
				udpCounts, udpLeft = n.UDPCounts(), n.UDPSockets()
			}()
		}
		ipR, ipA, ipB := "10.0.9.1", "10.0.0.1", "10.0.1.1"
		if layerB {
			ipR, ipA, ipB = "5.5.5.1", "2.2.0.1", "3.3.0.1"
		}
		fw := &firewall{mode: map[string]int{}, lastOut: map[string]time.Duration{}, flow: map[string]bool{}, closed: map[string]bool{}}
		if layerB {
			fw.mode[ipA], fw.mode[ipB] = natA, natB
			if quic {
				n.SetUDPFilter(fw.udp)
				n.SetUDP(udpCfg)
			} else {
				n.SetBlocked(fw.blocked)
			}
		}
		bus := eventbus.NewBus()
		R, err := simhost.New(n, simhost.Opts{Key: simhost.DetKey(100), IP: ipR, Port: 4001, Security: secu, WithHost: true})
		if err != nil {
			o.Trouble = "relay host: " + err.Error()
			return
		}
		defer R.Close()
		var ropts []relay.Option
		switch relayMode {
		case 1:
			ropts = append(ropts, relay.WithLimit(&relay.RelayLimit{Duration: 15 * time.Second, Data: 1 << 17}))
		case 2:
			ropts = append(ropts, relay.WithInfiniteLimits())
		}
		rl, err := relay.New(R.Host, ropts...)
		if err != nil {
			o.Trouble = "relay: " + err.Error()
			return
		}
		defer rl.Close()
		dns := &scriptedDNS{w: w, dnsaddr: map[string][]string{}, hosts: map[string]string{"relayhost.c12": ipR, "bhost.c12": ipB}}
		circuitVia := ma.StringCast(fmt.Sprintf("/ip4/%s/tcp/4001/p2p/%s/p2p-circuit", ipR, R.ID))

		mkOpts := func(node int) *basichost.HostOpts {
			ho := &basichost.HostOpts{}
			if layerB {
				if advertiseRelayAddr {
					ho.AddrsFactory = func(as []ma.Multiaddr) []ma.Multiaddr { return append(slices.Clone(as), circuitVia) }
				}
				if !w.wrapped {
					ho.EnableHolePunching = true
					ho.HolePunchingOptions = []holepunch.Option{holepunch.WithTracer(&recTracer{w, node}), holepunch.DirectDialTimeout(directDialTimeout)}
				}
			}
			return ho
		}
		mkGater := func(node int, peerIP string) *recGater {
			return &recGater{v: w.v[node], refuse: gaterRefuse[node], onRelay: gaterOnRelay[node], armed: gaterRefuse[node] != 0 && !gaterOnRelay[node], peerIP: peerIP}
		}
		B, err := simhost.New(n, simhost.Opts{Key: simhost.DetKey(2), IP: ipB, Port: 4001, Security: secu, WithHost: true, HostOpts: mkOpts(1), Gater: mkGater(1, ipA),
			QUIC: quic, NoTCPListen: quic})
		if err != nil {
			o.Trouble = "host B: " + err.Error()
			return
		}
		defer B.Close()
		A, err := simhost.New(n, simhost.Opts{Key: simhost.DetKey(1), IP: ipA, Port: 4001, Security: secu, WithHost: true, HostOpts: mkOpts(0), Bus: bus, Gater: mkGater(0, ipB),
			SwarmOpts: []swarm.Option{swarm.WithMultiaddrResolver(dns)}, QUIC: quic, NoTCPListen: quic})
		if err != nil {
			o.Trouble = "host A: " + err.Error()
			return
		}
		defer A.Close()
		w.ids = [2]peer.ID{A.ID, B.ID}
		w.v[0].other, w.v[1].other = B.ID, A.ID
		nodes := [2]*simhost.Node{A, B}
		addrA, addrB, dns4B := A.Addr, B.Addr, "/dns4/bhost.c12/tcp/4001"
		if quic {
			addrA, addrB, dns4B = A.QAddr, B.QAddr, "/dns4/bhost.c12/udp/4001/quic-v1"
		}
		if waiterEntries(A.Swarm) < 0 {
			reflectOK = false
		}
		// circuit client transports (wired as p2p/protocol/circuitv2/relay/relay_test.go does), wrapped for recording
		for i, nd := range nodes {
			if err := addCircuitTransport(nd, w.v[i]); err != nil {
				o.Trouble = "circuit transport: " + err.Error()
				return
			}
			nd.Swarm.Notify(&recNotifiee{w.v[i]})
			nd.Host.SetStreamHandler(echoProto, func(s network.Stream) { s.Close() })
		}
		if layerB && w.wrapped {
			for i, nd := range nodes {
				hh := &hpHost{BasicHost: nd.Host, w: w, node: i}
				listenAddrs := func() []ma.Multiaddr {
					// what basichost's HolePunchAddrs computes without NAT mappings / observed addresses
					var out []ma.Multiaddr
					for _, a := range nd.Host.Addrs() {
						if manet.IsPublicAddr(a) {
							out = append(out, a)
						}
					}
					return out
				}
				svc, err := holepunch.NewService(hh, nd.Host.IDService(), listenAddrs, holepunch.WithTracer(&recTracer{w, i}), holepunch.DirectDialTimeout(directDialTimeout))
				if err != nil {
					o.Trouble = "holepunch service: " + err.Error()
					return
				}
				defer svc.Close()
			}
		}

		sub, err := bus.Subscribe(new(event.EvtPeerConnectednessChanged), eventbus.BufSize(1024))
		if err != nil {
			o.Trouble = err.Error()
			return
		}
		defer sub.Close()
		drain := func() {
			for {
				rc := simrt.RecvCase(sub.Out())
				if simrt.Select("c12.sub", true, rc) != 0 {
					return
				}
				v, ok := rc.Val2()
				if !ok {
					return
				}
				if ev := v.(event.EvtPeerConnectednessChanged); ev.Peer == B.ID {
					w.events = append(w.events, ev.Connectedness)
				}
			}
		}

		bDirect, aDirect := net.JoinHostPort(ipB, "4001"), net.JoinHostPort(ipA, "4001")
		setReachable := func(v bool) {
			if layerB {
				if v {
					fw.mode[ipB] = natOpen
				} else {
					fw.mode[ipB] = natB
				}
				return
			}
			n.SetRefused(bDirect, !v)
		}
		bg := context.Background()
		with := func(d time.Duration, f func(ctx context.Context) error) error {
			ctx, cancel := context.WithTimeout(bg, d)
			defer cancel()
			return f(ctx)
		}
		// B connects to the relay and reserves a slot
		if err := with(30*time.Second, func(ctx context.Context) error { return B.Host.Connect(ctx, R.AddrInfo()) }); err != nil {
			o.Trouble = "B->R: " + err.Error()
			return
		}
		if err := with(30*time.Second, func(ctx context.Context) error { _, err := client.Reserve(ctx, B.Host, R.AddrInfo()); return err }); err != nil {
			o.Trouble = "reserve: " + err.Error()
			return
		}
		A.PS.AddAddrs(R.ID, []ma.Multiaddr{R.Addr}, peerstore.PermanentAddrTTL)
		if aReserves {
			if err := with(30*time.Second, func(ctx context.Context) error { return A.Host.Connect(ctx, R.AddrInfo()) }); err != nil {
				o.Trouble = "A->R: " + err.Error()
				return
			}
			if err := with(30*time.Second, func(ctx context.Context) error { _, err := client.Reserve(ctx, A.Host, R.AddrInfo()); return err }); err != nil {
				o.Trouble = "reserve (A): " + err.Error()
				return
			}
			B.PS.AddAddrs(A.ID, []ma.Multiaddr{circuitVia}, peerstore.PermanentAddrTTL)
		}
		dns.dnsaddr["relay.b.c12"] = []string{fmt.Sprintf("%s/p2p/%s", circuitVia, B.ID)}
		dns.dnsaddr["direct.b.c12"] = []string{fmt.Sprintf("%s/p2p/%s", addrB, B.ID)}
		var forB []ma.Multiaddr
		switch dnsRelay {
		case 0:
			forB = append(forB, circuitVia)
		case 1:
			forB = append(forB, circuitVia, ma.StringCast(fmt.Sprintf("/dnsaddr/relay.b.c12/p2p/%s", B.ID)))
		case 2:
			forB = append(forB, ma.StringCast(fmt.Sprintf("/dnsaddr/relay.b.c12/p2p/%s", B.ID)))
		case 3:
			forB = append(forB, ma.StringCast(fmt.Sprintf("/dns4/relayhost.c12/tcp/4001/p2p/%s/p2p-circuit", R.ID)))
		}
		if knowsDirect {
			forB = append(forB, addrB)
			switch dnsDirect {
			case 1:
				forB = append(forB, ma.StringCast(fmt.Sprintf("/dnsaddr/direct.b.c12/p2p/%s", B.ID)))
			case 2:
				forB = append(forB, ma.StringCast(dns4B))
			}
		}
		A.PS.AddAddrs(B.ID, forB, peerstore.PermanentAddrTTL)
		if !layerB {
			B.PS.AddAddrs(A.ID, []ma.Multiaddr{addrA}, peerstore.PermanentAddrTTL)
		}

		// initial connections (layer A)
		if !layerB {
			setReachable(false)
			if initial == 0 || initial == 3 {
				err := with(30*time.Second, func(ctx context.Context) error {
					return A.Host.Connect(network.WithAllowLimitedConn(ctx, "c12"), peer.AddrInfo{ID: B.ID})
				})
				if err != nil {
					o.Trouble = "initial relayed connection: " + err.Error()
					return
				}
			}
			if initial == 2 || initial == 3 {
				setReachable(true)
				err := with(30*time.Second, func(ctx context.Context) error {
					_, err := A.Swarm.DialPeer(network.WithForceDirectDial(ctx, "c12"), B.ID)
					return err
				})
				if err != nil {
					o.Trouble = "initial direct connection: " + err.Error()
					return
				}
			}
			setReachable(reachable)
		}
		simrt.WaitIdle()
		simrt.TimeSleep(time.Second)
		simrt.WaitIdle()
		o.Logf("concurrent phase starts at %v (stamp %d)", simrt.Now(), simrt.Stamp())

		inflightWaiters := func() int {
			k := 0
			for _, r := range w.ops {
				if !r.done && r.spec.isStream() && !r.spec.allow {
					k++
				}
			}
			return k
		}
		takeSample := func() {
			simrt.WaitIdle()
			drain()
			before := w.activity
			s := sample{stamp: simrt.Stamp(), at: simrt.Now(), got: A.Swarm.Connectedness(B.ID), lastEv: len(w.events) - 1,
				waiters: waiterEntries(A.Swarm), inflight: inflightWaiters()}
			for _, c := range A.Swarm.ConnsToPeer(B.ID) {
				s.listed = append(s.listed, fmt.Sprintf("%s/limited=%v/closed=%v", c.ID(), c.Stat().Limited, c.IsClosed()))
			}
			sort.Strings(s.listed)
			simrt.WaitIdle()
			drain()
			if w.activity == before && len(w.events)-1 == s.lastEv {
				w.samples = append(w.samples, s)
			} else {
				w.probe("sample-discarded")
			}
		}

		var wg simsync.WaitGroup
		running := nCallers + nEnvs
		for c, ops := range callers {
			wg.Add(1)
			simrt.GoNamed(fmt.Sprintf("caller%d", c), func() {
				defer wg.Done()
				defer func() { running-- }()
				for i, sp := range ops {
					if sp.pre > 0 {
						simrt.TimeSleep(sp.pre)
					}
					r := &opRec{task: c, idx: i, spec: sp}
					w.ops = append(w.ops, r)
					w.call(A, B.ID, r)
				}
			})
		}
		for e, steps := range envs {
			wg.Add(1)
			simrt.GoNamed(fmt.Sprintf("env%d", e), func() {
				defer wg.Done()
				defer func() { running-- }()
				for _, st := range steps {
					var serr error
					if st.pre > 0 {
						simrt.TimeSleep(st.pre)
					}
					switch st.kind {
					case eReachable:
						setReachable(true)
					case eUnreachable:
						setReachable(false)
					case eBDialsA, eFlapInbound:
						serr = with(5*time.Second, func(ctx context.Context) error {
							c, err := B.Swarm.DialPeer(network.WithForceDirectDial(ctx, "c12"), A.ID)
							if err == nil && st.kind == eFlapInbound {
								c.Close()
							}
							return err
						})
					case eADialsDirect, eFlapOutbound:
						if st.kind == eFlapOutbound {
							setReachable(true)
						}
						serr = with(5*time.Second, func(ctx context.Context) error {
							c, err := A.Swarm.DialPeer(network.WithForceDirectDial(ctx, "c12"), B.ID)
							if err == nil && st.kind == eFlapOutbound {
								c.Close()
							}
							return err
						})
					case eCloseDirectAtA, eCloseLimitedAtA:
						for _, c := range A.Swarm.ConnsToPeer(B.ID) {
							if isRelayAddr(c.RemoteMultiaddr()) == (st.kind == eCloseLimitedAtA) {
								c.Close()
								if st.kind == eCloseLimitedAtA {
									o.Fault("relayed-conn-closed-locally")
								} else {
									o.Fault("direct-conn-closed-locally")
								}
							}
						}
					case eCloseDirectAtB:
						for _, c := range B.Swarm.ConnsToPeer(A.ID) {
							if !isRelayAddr(c.RemoteMultiaddr()) {
								c.Close()
								o.Fault("direct-conn-closed-by-peer")
							}
						}
					case eClosePeer:
						if len(A.Swarm.ConnsToPeer(B.ID)) > 0 {
							o.Fault("all-conns-closed-locally")
						}
						A.Swarm.ClosePeer(B.ID)
					case eArmCloseInConnected:
						w.v[0].closeNext = true
					case eBReconnectsViaRelay:
						if aReserves {
							B.Swarm.ClosePeer(A.ID)
							n.SetRefused(aDirect, true)
							fw.closed[ipA] = true
							serr = with(5*time.Second, func(ctx context.Context) error {
								return B.Host.Connect(network.WithAllowLimitedConn(ctx, "c12"), peer.AddrInfo{ID: A.ID})
							})
							n.SetRefused(aDirect, false)
							fw.closed[ipA] = false
						}
					}
					o.Logf("env%d %s done @%d t=%v err=%v", e, envNames[st.kind], simrt.Stamp(), simrt.Now(), serr != nil)
				}
			})
		}
		// quiescent readings while the tasks run
		for i := 0; running > 0 && i < 40; i++ {
			takeSample()
			simrt.TimeSleep(samplePause)
		}
		wg.Wait()
		takeSample()
		for ri, rd := range rounds {
			// back to "limited only"
			for _, c := range A.Swarm.ConnsToPeer(B.ID) {
				if !isRelayAddr(c.RemoteMultiaddr()) {
					c.Close()
				}
			}
			simrt.WaitIdle()
			if A.Swarm.Connectedness(B.ID) == network.NotConnected {
				setReachable(false)
				err := with(30*time.Second, func(ctx context.Context) error {
					return A.Host.Connect(network.WithAllowLimitedConn(ctx, "c12"), peer.AddrInfo{ID: B.ID})
				})
				setReachable(true)
				if err != nil {
					o.Trouble = "race round: relayed connection: " + err.Error()
					return
				}
			}
			simrt.TimeSleep(1500 * time.Millisecond)
			takeSample()
			gate := make(chan struct{})
			w.gate, w.gaterYields, w.gateArmed = gate, rd.gaterYields, !rd.gateAtDial
			var rwg simsync.WaitGroup
			for k, wt := range rd.waiters {
				rwg.Add(1)
				simrt.GoNamed(fmt.Sprintf("waiter%d.%d", ri, k), func() {
					defer rwg.Done()
					simrt.Recv("c12.gate", (<-chan struct{})(gate))
					for i := 0; i < wt.yields; i++ {
						simrt.Yield("c12.waiter")
					}
					r := &opRec{task: 100 + ri, idx: k, spec: wt.spec}
					w.ops = append(w.ops, r)
					w.call(A, B.ID, r)
				})
			}
			rwg.Add(1)
			simrt.GoNamed(fmt.Sprintf("dialer%d", ri), func() {
				defer rwg.Done()
				for i := 0; i < rd.dialerYields; i++ {
					simrt.Yield("c12.dialer")
				}
				if rd.gateAtDial {
					w.openGate()
				}
				err := with(5*time.Second, func(ctx context.Context) error {
					ctx = network.WithForceDirectDial(ctx, "c12")
					if rd.inbound {
						_, err := B.Swarm.DialPeer(ctx, A.ID)
						return err
					}
					_, err := A.Swarm.DialPeer(ctx, B.ID)
					return err
				})
				w.openGate() // whatever happened: the waiters must not be left behind
				o.Logf("round%d dial done @%d t=%v err=%v", ri, simrt.Stamp(), simrt.Now(), err != nil)
			})
			rwg.Wait()
			w.gateArmed = false
		}
		if len(rounds) > 0 {
			takeSample()
		}
		if layerB {
			// let a hole punch that is still under way end (3 attempts of at most directDialTimeout each + the direct dial)
			simrt.TimeSleep(4*directDialTimeout + 10*time.Second)
			takeSample()
		}

		// after all waiters left: a direct connection arrives (outbound, then inbound)
		w.v[0].closeNext = false
		if quic {
			n.SetUDP(simnet.UDPConfig{}) // the faults of the wire stop here
		}
		if layerB {
			fw.mode[ipA], fw.mode[ipB] = natOpen, natOpen
		} else {
			setReachable(true)
		}
		if layerB && !knowsDirect {
			A.PS.AddAddrs(B.ID, []ma.Multiaddr{addrB}, peerstore.PermanentAddrTTL)
		}
		err = with(10*time.Second, func(ctx context.Context) error {
			c, err := A.Swarm.DialPeer(network.WithForceDirectDial(ctx, "c12"), B.ID)
			if err == nil && (c.Stat().Limited || isRelayAddr(c.RemoteMultiaddr())) {
				o.Violate("C12/force-direct-returned-relayed/final", "the closing force-direct DialPeer returned connection %s (limited=%v addr=%s)", c.ID(), c.Stat().Limited, c.RemoteMultiaddr())
			}
			return err
		})
		postDirect = fmt.Sprint(err)
		takeSample()
		for _, c := range A.Swarm.ConnsToPeer(B.ID) {
			if !isRelayAddr(c.RemoteMultiaddr()) {
				c.Close()
			}
		}
		B.PS.AddAddrs(A.ID, []ma.Multiaddr{addrA}, peerstore.PermanentAddrTTL)
		with(10*time.Second, func(ctx context.Context) error {
			_, err := B.Swarm.DialPeer(network.WithForceDirectDial(ctx, "c12"), A.ID)
			return err
		})
		takeSample()
		simrt.TimeSleep(2 * time.Second)
		takeSample()
		for _, d := range n.Dials() {
			switch {
			case d.Outcome == "refused" && d.To == bDirect:
				o.Fault("direct-dial-refused")
			case d.Outcome == "blackholed":
				o.Fault("dial-dropped-by-firewall")
			}
		}
		for i := 0; i < fw.dropped && i < 1; i++ {
			o.Fault("datagram-dropped-by-nat")
		}
		for i := 0; i < len(w.refusals) && i < 1; i++ {
			o.Fault("inbound-conn-refused-by-gater")
		}
		if fw.punches > 0 {
			w.probe("quic-transport-hole-punch-packets")
		}
		finished = true
	})
	o.Sched = res
	o.Virtual = res.Virtual
	if res.Panic != "" {
		o.Violate("C12/panic", "%s", res.Panic)
		return o
	}
	if res.StepLimit {
		o.Trouble = "step limit"
		return o
	}
	if o.Trouble != "" {
		return o
	}
	if res.Stuck || !finished {
		o.Violate("C12/deadlock", "run did not finish (stuck=%v): %v", res.Stuck, res.Residue)
		return o
	}
	if !reflectOK {
		o.Trouble = "Swarm.directConnNotifs.m not found by reflection: adapt waiterEntries"
		return o
	}
	var sig strings.Builder
	for i, v := range w.v {
		for _, id := range v.order {
			// the relay of this run imposes limits (modes 0 and 1): every connection through it is a limited connection
			if ci := v.conns[id]; ci.relayed && !ci.limited && relayMode != 2 {
				o.Violate("C12/relayed-conn-not-marked-limited", "%c's connection %s (%v) runs through a relay that imposes limits but Stat().Limited is false", "AB"[i], id, ci.dir)
			}
			if ci := v.conns[id]; i == 0 && ci.limited && ci.dir == network.DirInbound {
				w.probe("inbound-limited-conn-on-A")
			}
			if w.phantom(v, v.conns[id]) {
				// judged through its consequences (reported success, woken waiters); cannot happen on a correct tree
				w.probe("conn-admitted-although-own-gater-refused-it")
				o.Logf("%c's swarm admitted connection %s although %c's gater had not let it pass", "AB"[i], id, "AB"[i])
			}
		}
	}
	w.judgeA(&sig, postDirect)
	if layerB {
		w.judgeB(&sig)
	}
	o.Sig = sig.String()
	for _, k := range []string{"udp-lost", "udp-duplicated", "udp-delayed"} {
		if udpCounts[k] > 0 {
			o.Fault(k)
		}
	}
	if len(udpLeft) > 0 {
		o.Violate("C12/udp-socket-left-open", "UDP sockets still open after every node was closed: %v", udpLeft)
	}
	if len(res.Residue) > 0 {
		o.Violate("C12/residue", "goroutines left after every host was closed: %v", res.Residue)
	}
	if debug {
		for _, l := range o.Trace {
			fmt.Fprintln(os.Stderr, "  ", l)
		}
		fmt.Fprintf(os.Stderr, "steps=%d virtual=%v violations=%v\n\n", res.Steps, res.Virtual, o.Violations)
	}
	return o
}

// call executes one API call on A with the drawn option set and records what came back.
func (w *world) call(A *simhost.Node, b peer.ID, r *opRec) {
	sp := r.spec
	ctx, cancel := context.WithTimeout(context.Background(), sp.timeout)
	defer cancel()
	if sp.allow {
		ctx = network.WithAllowLimitedConn(ctx, "c12")
	}
	if sp.force {
		ctx = network.WithForceDirectDial(ctx, "c12")
	}
	if sp.nodial {
		ctx = network.WithNoDial(ctx, "c12")
	}
	if sp.dpt != 0 {
		ctx = network.WithDialPeerTimeout(ctx, sp.dpt)
	}
	if sp.cancelAt > 0 {
		tm := simrt.AfterFunc(sp.cancelAt, cancel)
		defer tm.Stop()
	}
	var target network.Conn
	if sp.api == apiConnNewStream {
		// prefer a limited connection: that is where the re-check matters
		for _, c := range A.Swarm.ConnsToPeer(b) {
			if target == nil || (c.Stat().Limited && !target.Stat().Limited) {
				target = c
			}
		}
		if target == nil {
			r.skipped, r.done = true, true
			return
		}
	}
	var s network.Stream
	var cn network.Conn
	r.inv, r.invAt = simrt.Stamp(), simrt.Now()
	switch sp.api {
	case apiSwarmNewStream:
		s, r.err = A.Swarm.NewStream(ctx, b)
	case apiSwarmDialPeer:
		cn, r.err = A.Swarm.DialPeer(ctx, b)
	case apiHostNewStream:
		s, r.err = A.Host.NewStream(ctx, b, echoProto)
	case apiHostConnect:
		r.err = A.Host.Connect(ctx, peer.AddrInfo{ID: b})
	case apiConnNewStream:
		s, r.err = target.NewStream(ctx)
	}
	r.ret, r.retAt = simrt.Stamp(), simrt.Now()
	r.done = true
	r.kind = errKind(r.err)
	if r.err == nil && s != nil {
		cn = s.Conn()
	}
	if r.err == nil && cn != nil {
		r.connID, r.limited, r.relayed = cn.ID(), cn.Stat().Limited, isRelayAddr(cn.RemoteMultiaddr())
		w.v[0].info(cn)
	}
	if s != nil && r.err == nil {
		s.Reset()
	}
}

// judgeA: the oracles about A's swarm / host API (both layers)
func (w *world) judgeA(sig *strings.Builder, postDirect string) {
	o := w.o
	v := w.v[0]
	for _, id := range v.order {
		ci := v.conns[id]
		o.Logf("conn %s limited=%v relayed=%v dir=%v admitted=%d(%v) Connected=%d Disconnected=%d(%v) closed-at-admission=%v never-passed-own-gater=%v", id, ci.limited, ci.relayed, ci.dir, ci.admit, ci.admitAt, ci.conn, ci.disc, ci.discAt, ci.closedAtAdmit, w.phantom(v, ci))
		fmt.Fprintf(sig, "c:%v%v%v%v;", ci.limited, ci.relayed, ci.dir, ci.disc != 0)
		if ci.limited && !ci.relayed {
			o.Violate("C12/limited-flag-on-direct-address", "connection %s is Limited but its remote address is not a relay address", id)
		}
	}
	for i, vv := range w.v {
		for _, d := range vv.dials {
			o.Logf("circuit transport of %c: Dial(%s) force-direct=%v simultaneous-connect=%v @%d", "AB"[i], d.addr, d.force, d.simulConn, d.stamp)
			if d.force {
				o.Violate("C12/relay-address-dialled-under-force-direct", "the circuit transport of %c was handed %s by a dial whose context demands a direct connection (@%d)", "AB"[i], d.addr, d.stamp)
			} else if d.simulConn {
				o.Violate("C12/relay-address-dialled-by-hole-punch", "the circuit transport of %c was handed %s by a simultaneous-connect (hole punching) dial (@%d)", "AB"[i], d.addr, d.stamp)
			}
		}
	}
	directAdmittedIn := func(from, to uint64) bool {
		for _, id := range v.order {
			if ci := v.conns[id]; !ci.limited && ci.admit > from && ci.admit < to {
				return true
			}
		}
		return false
	}
	for _, r := range w.ops {
		sp := r.spec
		if r.skipped {
			o.Logf("caller%d.%d %v: skipped (no connection)", r.task, r.idx, sp)
			continue
		}
		o.Logf("caller%d.%d %v: [%d,%d] t=[%v,%v] -> %s conn=%s limited=%v relayed=%v err=%v", r.task, r.idx, sp, r.inv, r.ret, r.invAt, r.retAt, r.kind, r.connID, r.limited, r.relayed, r.err)
		fmt.Fprintf(sig, "o:%d%v%v%v:%s%v%v;", sp.api, sp.allow, sp.force, sp.nodial, r.kind, r.limited, r.relayed)
		api := apiNames[sp.api]
		// (1) a stream on a limited connection needs the caller's permission
		if sp.isStream() && r.err == nil && r.limited && !sp.allow {
			o.Violate("C12/stream-on-limited-conn-without-permission/"+api, "%s without allow-limited returned a stream on limited connection %s", api, r.connID)
		}
		// (2) a dial that demands a direct connection never returns a relayed one
		if sp.api == apiSwarmDialPeer && sp.force && r.err == nil && (r.limited || r.relayed) {
			o.Violate("C12/force-direct-returned-relayed", "DialPeer with force-direct returned connection %s (limited=%v relayed=%v)", r.connID, r.limited, r.relayed)
		}
		if sp.api == apiHostConnect && sp.force && r.err == nil && !v.directOverlaps(r.inv, r.ret) {
			o.Violate("C12/force-direct-connect-without-direct-conn", "Host.Connect with force-direct succeeded during [%d,%d] although no direct connection to the peer was open in that interval", r.inv, r.ret)
		}
		// ... and what it returns / reports must be a connection that really existed: not one the node's own gater refused
		// (phantom), and not one whose Disconnected notification was delivered before the call even began (stale).
		if sp.force && r.err == nil && (sp.api == apiSwarmDialPeer || sp.api == apiHostConnect) {
			var candidates []*connInfo // the returned connection (DialPeer) / every direct connection that overlaps the call (Connect)
			for _, id := range v.order {
				if ci := v.conns[id]; !ci.relayed && !ci.limited && ((sp.api == apiSwarmDialPeer && id == r.connID) || (sp.api == apiHostConnect && ci.overlaps(r.inv, r.ret))) {
					candidates = append(candidates, ci)
				}
			}
			allPhantom := len(candidates) > 0
			for _, ci := range candidates {
				if !w.phantom(v, ci) {
					allPhantom = false
				}
			}
			if allPhantom {
				o.Violate("C12/force-direct-success-with-dead-conn/"+api, "%s with force-direct succeeded during [%d,%d] (conn %s) but the only direct connection involved had been refused by the node's own gater: no direct connection existed", api, r.inv, r.ret, r.connID)
			}
			if sp.api == apiSwarmDialPeer && len(candidates) == 1 && candidates[0].disc != 0 && candidates[0].disc < r.inv {
				ci := candidates[0]
				o.Violate("C12/force-direct-returned-stale-closed-conn/"+api, "DialPeer with force-direct, invoked at stamp %d (t=%v), returned connection %s whose Disconnected notification had been delivered at stamp %d (t=%v), before the call began: the swarm no longer lists it, no direct connection to the peer exists", r.inv, r.invAt, ci.id, ci.disc, ci.discAt)
			}
		}
		// (3) timing: every call returns by its own deadline; a pure wait (no-dial) for a direct
		// connection that never shows up ends by the dial-peer timeout
		lim := sp.timeout
		if sp.cancelAt > 0 && sp.cancelAt < lim {
			lim = sp.cancelAt
		}
		if r.retAt-r.invAt > lim+slack {
			o.Violate("C12/late-return/"+api, "%v returned after %v, its context ended after %v", sp, r.retAt-r.invAt, lim)
		}
		// (swarm level only: the host additionally waits for identify and protocol negotiation on the stream's connection)
		if sp.api == apiSwarmNewStream && !sp.allow && sp.nodial && r.retAt-r.invAt > sp.dialPeerTimeout()+slack && !directAdmittedIn(r.inv, r.ret) {
			o.Violate("C12/wait-exceeds-dial-peer-timeout/"+api, "%v took %v although no direct connection appeared meanwhile (dial-peer timeout %v)", sp, r.retAt-r.invAt, sp.dialPeerTimeout())
		}
		// (4) failures of the swarm-level stream open
		if sp.api == apiSwarmNewStream && !sp.allow && r.err != nil {
			anyDirect := false
			for _, id := range v.order {
				if ci := v.conns[id]; !ci.limited && ci.overlaps(r.inv, r.ret) {
					anyDirect = true
				}
			}
			if sp.nodial && r.kind == "other" && !anyDirect {
				o.Violate("C12/unexpected-error", "%v failed with %q although no direct connection was involved (want ErrLimitedConn, ErrNoConn or a context error)", sp, r.err)
			}
			// ErrLimitedConn means: was woken by a direct connection that is gone again. Giving up
			// without any direct connection having been admitted is not "waiting".
			if r.kind == "limited-conn" && !directAdmittedIn(r.inv, r.ret) {
				o.Violate("C12/gave-up-without-waiting", "%v returned ErrLimitedConn after %v although no direct connection was admitted during the call", sp, r.retAt-r.invAt)
			} else if r.kind == "limited-conn" {
				// ... and that connection must have existed: a waiter woken by a connection the gater had refused was woken by nothing
				real := false
				for _, id := range v.order {
					if ci := v.conns[id]; !ci.limited && ci.admit > r.inv && ci.admit < r.ret && !w.phantom(v, ci) {
						real = true
					}
				}
				if !real {
					o.Violate("C12/waiter-woken-without-direct-conn", "%v returned ErrLimitedConn after %v: every direct connection admitted during the call had been refused by A's own gater (no direct connection ever existed)", sp, r.retAt-r.invAt)
				}
			}
			// a direct connection that is open during the whole call must be used (zero virtual time passes
			// between a connection becoming unusable and its Disconnected notification)
			for _, id := range v.order {
				ci := v.conns[id]
				if !ci.limited && ci.conn != 0 && ci.conn < r.inv && (ci.disc == 0 || (ci.disc > r.ret && ci.discAt > r.retAt)) {
					if r.kind == "limited-conn" || r.kind == "no-conn" || ((r.kind == "deadline" || r.kind == "canceled") && r.retAt-r.invAt >= slack) {
						o.Violate("C12/direct-conn-ignored", "%v failed with %q during [%d,%d] although the non-limited connection %s was open all the time", sp, r.err, r.inv, r.ret, id)
						break
					}
				}
			}
			// released by a direct connection that appeared while waiting and stayed
			if sp.nodial && (r.kind == "deadline" || r.kind == "canceled") {
				for _, id := range v.order {
					ci := v.conns[id]
					if !ci.limited && ci.conn > r.inv && ci.conn < r.ret && (ci.disc == 0 || ci.disc > r.ret) && r.retAt-ci.connAt >= slack {
						o.Violate("C12/waiter-not-released", "%v waited from t=%v, direct connection %s was announced at t=%v and stayed open, yet the call failed with %q at t=%v", sp, r.invAt, id, ci.connAt, r.err, r.retAt)
						break
					}
				}
			}
		}
		if sp.isStream() && !sp.allow && sp.api != apiConnNewStream {
			switch {
			case r.err == nil && r.retAt-r.invAt > 0:
				w.probe("waiter-released-by-direct-conn")
			case r.kind == "canceled" || r.kind == "deadline":
				w.probe("waiter-cancelled-or-timed-out")
			case r.kind == "limited-conn" || (r.kind == "no-conn" && r.retAt-r.invAt > 0):
				w.probe("direct-conn-vanished-before-waiter-woke")
			}
		}
		if sp.isStream() && r.err == nil && r.limited {
			w.probe("stream-on-limited-conn-allowed")
		}
		if sp.force && r.err == nil {
			w.probe("force-direct-succeeded")
		}
	}
	// (5) Connectedness at quiescent instants
	for i, s := range w.samples {
		want := network.NotConnected
		var open []string
		for _, id := range v.order {
			ci := v.conns[id]
			if ci.conn != 0 && ci.conn < s.stamp && (ci.disc == 0 || ci.disc > s.stamp) {
				open = append(open, fmt.Sprintf("%s/limited=%v", id, ci.limited))
				if !ci.limited {
					want = network.Connected
				} else if want == network.NotConnected {
					want = network.Limited
				}
			}
		}
		o.Logf("sample%d @%d t=%v Connectedness=%v listed=%v open(by notifications)=%v lastEvent=%d waiterEntries=%d inflightWaiters=%d", i, s.stamp, s.at, s.got, s.listed, open, s.lastEv, s.waiters, s.inflight)
		fmt.Fprintf(sig, "s:%v;", s.got)
		if s.got != want {
			o.Violate(fmt.Sprintf("C12/connectedness/reported-%v-truth-%v", s.got, want), "at quiescent stamp %d Connectedness(B)=%v but the open connections are %v", s.stamp, s.got, open)
		}
		last := network.NotConnected
		if s.lastEv >= 0 {
			last = w.events[s.lastEv]
		}
		if last != want {
			o.Violate(fmt.Sprintf("C12/connectedness-event/last-%v-truth-%v", last, want), "at quiescent stamp %d the last EvtPeerConnectednessChanged for B was %v but the open connections are %v", s.stamp, last, open)
		}
		if s.waiters > s.inflight {
			o.Violate("C12/waiter-entry-leaked", "at quiescent stamp %d Swarm.directConnNotifs holds %d waiter entries but only %d stream opens that may wait are in flight", s.stamp, s.waiters, s.inflight)
		}
		switch want {
		case network.Limited:
			w.probe("quiescent-limited-only")
		case network.Connected:
			if len(open) > 1 {
				w.probe("quiescent-both")
			}
		}
	}
	o.Logf("events for B: %v; closing force-direct dial: %s", w.events, postDirect)
	fmt.Fprintf(sig, "e:%v", w.events)
	nOps := 0
	for _, r := range w.ops {
		if !r.skipped {
			nOps++
		}
	}
	o.Nontrivial = nOps > 0 && len(w.samples) > 0 && len(v.conns) > 0
}

// judgeB: the hole punching oracles (layer B)
func (w *world) judgeB(sig *strings.Builder) {
	o := w.o
	for _, s := range w.hpStreams {
		o.Logf("dcutr stream at %c outbound=%v ok=%v conn=%s relayed=%v limited=%v @%d", "AB"[s.node], s.outbound, s.ok, s.connID, s.relayed, s.limited, s.stamp)
		if s.ok && !s.relayed {
			// legal: the initiator opens the stream on the best connection; the receiver must refuse to coordinate on it
			w.probe("dcutr-stream-on-direct-conn")
		}
	}
	for _, c := range w.hpConnects {
		o.Logf("holepunch service of %c: Connect(addrs=%v) force-direct=%v simultaneous-connect=%v @%d", "AB"[c.node], c.addrs, c.force, c.sim, c.stamp)
		for _, a := range c.addrs {
			if strings.Contains(a, "/p2p-circuit") {
				o.Violate("C12/holepunch-dials-relay-address", "the hole punching service of %c asked the host to connect to relay address %s (@%d)", "AB"[c.node], a, c.stamp)
			}
		}
		if !c.force {
			o.Violate("C12/holepunch-connect-without-force-direct", "the hole punching service of %c called Connect(%v) without demanding a direct connection (@%d)", "AB"[c.node], c.addrs, c.stamp)
		}
	}
	for _, e := range w.hpEvents {
		x := "AB"[e.node]
		v := w.v[e.node]
		o.Logf("holepunch event at %c: %s success=%v elapsed=%v addrs=%v err=%q @%d t=%v", x, e.typ, e.success, e.elapsed, e.addrs, e.errS, e.stamp, e.at)
		fmt.Fprintf(sig, "h:%d%s%v;", e.node, e.typ, e.success)
		// a direct connection that was open at some instant of the attempt [t-elapsed, t]
		directDuring := func() bool {
			for _, id := range v.order {
				ci := v.conns[id]
				first, firstAt := ci.firstSeen()
				if !ci.relayed && first != 0 && first < e.stamp && firstAt <= e.at && (ci.disc == 0 || ci.discAt >= e.at-e.elapsed) && !w.phantom(v, ci) {
					return true
				}
			}
			return false
		}
		switch e.typ {
		case holepunch.StartHolePunchEvtT:
			w.probe("hole-punch-attempted")
			for _, a := range e.addrs {
				if strings.Contains(a, "/p2p-circuit") {
					o.Violate("C12/holepunch-dials-relay-address", "StartHolePunch at %c lists relay address %s among the addresses to dial (@%d)", x, a, e.stamp)
				}
			}
			// coordination happened over a relayed connection
			relayedBefore := false
			for _, id := range v.order {
				ci := v.conns[id]
				if first, _ := ci.firstSeen(); ci.relayed && first != 0 && first < e.stamp {
					relayedBefore = true
				}
			}
			if !relayedBefore {
				o.Violate("C12/holepunch-coordinated-without-relayed-conn", "StartHolePunch at %c @%d although %c never had a relayed connection to the peer", x, e.stamp, x)
			}
			if w.wrapped {
				var last *hpStream
				for i := range w.hpStreams {
					if s := &w.hpStreams[i]; s.node == e.node && s.ok && s.stamp < e.stamp {
						last = s
					}
				}
				if last == nil {
					o.Violate("C12/holepunch-coordinated-without-stream", "StartHolePunch at %c @%d without a preceding coordination stream", x, e.stamp)
				} else if !last.relayed {
					o.Violate("C12/holepunch-coordinated-over-direct-conn", "StartHolePunch at %c @%d: the coordination stream (@%d, outbound=%v) ran on connection %s, which is not relayed", x, e.stamp, last.stamp, last.outbound, last.connID)
				}
			}
		case holepunch.EndHolePunchEvtT:
			if e.success {
				w.probe("hole-punch-succeeded")
				if !directDuring() {
					o.Violate("C12/holepunch-success-without-direct-conn", "EndHolePunch(success) at %c @%d t=%v (elapsed %v) but %c had no direct connection to the peer during the attempt", x, e.stamp, e.at, e.elapsed, x)
				}
			} else {
				w.probe("hole-punch-failed")
			}
		case holepunch.DirectDialEvtT:
			if e.success {
				w.probe("holepunch-direct-dial-succeeded")
				if !directDuring() {
					o.Violate("C12/direct-dial-success-without-direct-conn", "DirectDial(success) at %c @%d t=%v (elapsed %v) but %c had no direct connection to the peer during the dial", x, e.stamp, e.at, e.elapsed, x)
				}
			} else {
				w.probe("holepunch-direct-dial-failed")
			}
		case holepunch.ProtocolErrorEvtT:
			w.probe("holepunch-protocol-error")
		}
	}
	for _, id := range w.v[1].order {
		ci := w.v[1].conns[id]
		o.Logf("B's conn %s limited=%v relayed=%v dir=%v admitted=%d(%v) Connected=%d Disconnected=%d(%v)", id, ci.limited, ci.relayed, ci.dir, ci.admit, ci.admitAt, ci.conn, ci.disc, ci.discAt)
	}
}
