package c05

// The scripted world of the C05 harness: address universe of the target peers, per-address
// outcome scripts, the recording TCP transport of the dialing swarm (real tcp.TcpTransport on
// simnet underneath), scripted stub transports for the non-TCP address kinds and the scripted
// DNS resolver. Everything here is a pure function of the G stream.

import (
	"context"
	"errors"
	"fmt"
	"net"
	"sort"
	"strings"
	"time"

	"github.com/libp2p/go-libp2p/core/crypto"
	"github.com/libp2p/go-libp2p/core/network"
	"github.com/libp2p/go-libp2p/core/peer"
	"github.com/libp2p/go-libp2p/core/peerstore"
	"github.com/libp2p/go-libp2p/core/sec"
	"github.com/libp2p/go-libp2p/core/transport"
	"github.com/libp2p/go-libp2p/p2p/host/eventbus"
	"github.com/libp2p/go-libp2p/p2p/host/peerstore/pstoremem"
	"github.com/libp2p/go-libp2p/p2p/muxer/yamux"
	"github.com/libp2p/go-libp2p/p2p/net/swarm"
	tptu "github.com/libp2p/go-libp2p/p2p/net/upgrader"
	libp2pquic "github.com/libp2p/go-libp2p/p2p/transport/quic"
	"github.com/libp2p/go-libp2p/p2p/transport/quicreuse"
	"github.com/libp2p/go-libp2p/p2p/transport/tcp"
	ma "github.com/multiformats/go-multiaddr"
	manet "github.com/multiformats/go-multiaddr/net"
	"github.com/quic-go/quic-go"

	"verifsim/harness/common"
	"verifsim/simhost"
	"verifsim/simnet"
	"verifsim/simrt"
)

// transport kinds of a dialable target
const (
	tTCP = iota
	tQUIC
	tWT
	tWS
	tCircuit
)

var kindName = []string{"tcp", "quic", "webtransport", "ws", "circuit"}

// outcome scripts
const (
	sRefuse     = iota // TCP: connection refused at once; stubs: fail after dur
	sSucceed           // TCP: a real node of the peer listens there
	sHang              // TCP: SYN black hole; stubs: hang until the context ends
	sSilent            // TCP: connection accepted, nothing ever answers (accept-then-stall)
	sReset             // TCP: accepted, then reset / EOF at the k-th I/O call of one end
	sWrongPeer         // TCP: an honest OTHER peer answers there
	sLie               // TCP: the transport itself dials the other peer (returns a conn authenticated as the wrong peer)
	sStall             // TCP (noise runs only): stall fault at the k-th I/O call of one end
	sLossyStart        // QUIC stratum: a real node of the peer listens, the first k datagrams of every dial are lost
)

var scriptName = []string{"fail", "succeed", "hang", "silent", "reset", "wrong-peer", "transport-lies", "stall", "first-datagrams-lost"}

// target is one address that may legitimately be handed to a transport.
type target struct {
	key        string // canonical multiaddr string as the transport sees it
	peer       int
	kind       int
	script     int
	dur        time.Duration // stubs: failure delay
	fault      simnet.FaultKind
	faultAt    int
	onListener bool
	ip         string
	port       int
	public     bool
	filtered   bool // removed by a documented dial filter (non-exact stratum only)
}

func (t *target) fd() bool { return t.kind == tTCP || t.kind == tWS }

func (t *target) String() string {
	s := fmt.Sprintf("%s %s", t.key, scriptName[t.script])
	switch {
	case t.kind != tTCP && t.script == sRefuse:
		s += fmt.Sprintf(" after %v", t.dur)
	case t.script == sLossyStart:
		s += fmt.Sprintf(" (%d)", t.faultAt)
	case t.script == sReset || t.script == sStall:
		end := "dialer"
		if t.onListener {
			end = "listener"
		}
		s += fmt.Sprintf(" %s at call %d of the %s end", t.fault, t.faultAt, end)
	}
	if t.filtered {
		s += " (filtered)"
	}
	return s
}

// maxDur is an upper bound of how long a failing script keeps a dial busy (documented dial
// timeouts: 5 s local / 15 s, TCP connect timeout 5 s).
func (t *target) maxDur() time.Duration {
	switch t.script {
	case sRefuse:
		return t.dur
	default:
		return 15 * time.Second
	}
}

type dnsEntry struct {
	fail      bool
	out       []string
	peer      int
	delay     time.Duration // the lookup takes this long (the dial worker waits for it)
	ignoreCtx bool          // ... and does not notice a cancelled context before it is over
	coldOnly  bool          // only the first lookup is slow (the answer is cached afterwards)
}

var dnsDelays = []time.Duration{0, 0, 0, 10 * time.Millisecond, 100 * time.Millisecond, time.Second}

type peerSpec struct {
	idx     int
	raw     []string        // what is put into the dialer's peerstore
	known   map[string]bool // every address a transport may legitimately see for this peer
	targets []*target       // unique dialable addresses (after resolution), generation order
}

func (p *peerSpec) target(key string) *target {
	for _, t := range p.targets {
		if t.key == key {
			return t
		}
	}
	return nil
}

// dialRec is one invocation of a transport's Dial.
type dialRec struct {
	kind             int
	peer             int
	addr             string
	start, end       uint64
	startAt, endAt   time.Duration
	ctx              context.Context
	cancelledAtStart bool // the shared context had been cancelled (every caller gone) before the transport was invoked
	ctxErrAtEnd      error
	err              error
	ok               bool
}

func (r *dialRec) String() string {
	st := "running"
	if r.end != 0 {
		st = fmt.Sprintf("end=%d@%v ok=%v ctx=%v", r.end, r.endAt, r.ok, r.ctxErrAtEnd)
	}
	z := ""
	if r.cancelledAtStart {
		z = " (context already cancelled at start)"
	}
	return fmt.Sprintf("%s p%d %s start=%d@%v %s%s", kindName[r.kind], r.peer, r.addr, r.start, r.startAt, st, z)
}

// connRec is what D's recording notifiee saw of one connection.
type connRec struct {
	id         string
	peer       int
	addr       string
	seen, disc uint64 // stamps at which Connected / Disconnected were delivered to the notifiee (0 = not yet)
	closedBy   string
}

// noti is a notifiee on the dialing swarm: it records Connected / Disconnected per connection and, in the
// "connections vanish" stratum, closes new connections to the target peers from inside Connected (at once) or
// from a task started there (after a small delay).
type noti struct {
	w     *world
	mode  int // 0 record only, 1 close at once, 2 close after delay
	delay time.Duration
}

func (n *noti) Listen(network.Network, ma.Multiaddr)      {}
func (n *noti) ListenClose(network.Network, ma.Multiaddr) {}

func (w *world) conn(c network.Conn) *connRec {
	id := c.ID()
	r := w.conns[id]
	if r == nil {
		r = &connRec{id: id, peer: w.peerIndex(c.RemotePeer()), addr: c.RemoteMultiaddr().String(), seen: simrt.Stamp()}
		w.conns[id] = r
		w.connOrder = append(w.connOrder, r)
	}
	return r
}

func (n *noti) Connected(_ network.Network, c network.Conn) {
	r := n.w.conn(c)
	if r.peer < 0 || c.Stat().Direction != network.DirOutbound {
		return
	}
	switch n.mode {
	case 1:
		r.closedBy = "notifiee, at once"
		c.Close()
	case 2:
		r.closedBy = fmt.Sprintf("notifiee, after %v", n.delay)
		simrt.GoNamed("conn-closer", func() {
			simrt.TimeSleep(n.delay)
			c.Close()
		})
	}
}

func (n *noti) Disconnected(_ network.Network, c network.Conn) {
	r := n.w.conn(c)
	if r.disc == 0 {
		r.disc = simrt.Stamp()
		if n.w.onDisc != nil && c.Stat().Direction == network.DirOutbound {
			n.w.onDisc(r.peer)
		}
	}
}

type world struct {
	onDisc    func(peer int)
	conns     map[string]*connRec
	connOrder []*connRec
	o         *common.Outcome
	peers     []*peerSpec
	ids       []peer.ID // target peers
	qID       peer.ID   // the honest other peer
	relayID   peer.ID
	targets   map[string]*target // by canonical address (all peers; addresses are disjoint)
	dns       map[string]dnsEntry
	dnsSeen   map[string]bool
	punch     bool                    // hole-punch sub-stratum of the QUIC stratum (see sim_test.go)
	reuseOff  bool                    // quicreuse.DisableReuseport() on the dialing node
	rcmgr     network.ResourceManager // the dialing node's REAL resource manager (QUIC stratum), nil = NullResourceManager
	quic      bool                    // QUIC stratum: /quic-v1 addresses go to the REAL QUIC transport over simnet's UDP wire
	udpLost   map[string]int          // sLossyStart: datagrams dropped so far in the current dial, by destination
	recs      []*dialRec
	dnsCalls  int
}

func (w *world) peerIndex(p peer.ID) int {
	for i, id := range w.ids {
		if id == p {
			return i
		}
	}
	return -1
}

func (w *world) begin(kind int, raddr ma.Multiaddr, p peer.ID, ctx context.Context) *dialRec {
	r := &dialRec{kind: kind, peer: w.peerIndex(p), addr: raddr.String(), ctx: ctx, cancelledAtStart: errors.Is(ctx.Err(), context.Canceled),
		start: simrt.Stamp(), startAt: simrt.Now()}
	w.recs = append(w.recs, r)
	return r
}

func (w *world) finish(r *dialRec, err error) {
	r.err = err
	r.ok = err == nil
	r.ctxErrAtEnd = r.ctx.Err()
	r.endAt = simrt.Now()
	r.end = simrt.Stamp()
}

func canon(s string) string { return ma.StringCast(s).String() }

func ipFor(pi, slot, fam int) (string, bool) {
	switch fam {
	case 0:
		return fmt.Sprintf("10.%d.0.%d", pi+1, slot+1), false
	case 1:
		return fmt.Sprintf("44.%d.0.%d", pi+1, slot+1), true
	case 2:
		return fmt.Sprintf("2a01:%x::%x", pi+1, slot+1), true
	}
	return fmt.Sprintf("fd00:%x::%x", pi+1, slot+1), false
}

func ipProto(ip string) string {
	if strings.Contains(ip, ":") {
		return "ip6"
	}
	return "ip4"
}

var stubDurs = []time.Duration{0, time.Millisecond, 30 * time.Millisecond, 250 * time.Millisecond, time.Second, 3 * time.Second}
var ports = []int{4001, 4002, 443}

// genPeer draws the address set of one target peer.
//
// exact: the set avoids every documented dial filter (filterKnownUndialables /
// filterLowPriorityAddresses: same 2-tuple QUIC+WebTransport or TCP+WebSocket pairs, unspecified,
// link-local and own listen addresses), so "eligible" = has a transport.
func (w *world) genPeer(g simrt.Gen, pi, n int, exact, noise, allFail bool, ownAddr string) *peerSpec {
	ps := &peerSpec{idx: pi, known: map[string]bool{}}
	add := func(t *target) *target {
		t.key = canon(t.key)
		t.peer = pi
		if old := w.targets[t.key]; old != nil {
			return old
		}
		w.targets[t.key] = t
		ps.targets = append(ps.targets, t)
		ps.known[t.key] = true
		return t
	}
	tcpScript := func(t *target) {
		if allFail {
			t.script = []int{sRefuse, sHang}[g.Weighted(3, 1)]
			return
		}
		// Stall faults in the middle of a Noise handshake are NOT drawn: the handshake then ends at its
		// read deadline, which Noise sets to the very instant of the context deadline; the reader (woken by
		// simnet's deadline timer, no scheduling point before its `respCh <- runHandshake()` send) races the
		// context's timer goroutine for real, and the run stops being reproducible. Accept-then-stall is
		// covered by the silent listener (sSilent), whose only way out is the context.
		wStall := 0
		_ = noise
		t.script = g.Weighted(3, 4, 2, 1, 1, 1, 1, wStall)
		switch t.script {
		case sReset:
			t.fault = []simnet.FaultKind{simnet.Reset, simnet.EOF}[g.Int(2)]
			t.faultAt = 1 + g.Int(8)
			t.onListener = g.Bool()
		case sStall:
			t.fault = simnet.Stall
			t.faultAt = 1 + g.Int(8)
			t.onListener = g.Bool()
		}
	}
	stubScript := func(t *target) {
		if g.Chance(1, 4) {
			t.script = sHang
		} else {
			t.script = sRefuse
			t.dur = stubDurs[g.Int(len(stubDurs))]
		}
	}
	var tcps, quics []*target
	for i := 0; i < n; i++ {
		wf := 0
		if !exact {
			wf = 1
		}
		wt, wq := 6, 2
		if w.quic {
			wt, wq = 4, 5
		}
		kind := g.Weighted(wt, wq, 1, 1, 1, 1, 1, wf, wf, wf, wf, wf)
		ip, public := ipFor(pi, i, g.Weighted(3, 3, 1, 1))
		port := ports[g.Int(len(ports))]
		pr := ipProto(ip)
		switch kind {
		case 0: // TCP
			t := &target{kind: tTCP, key: fmt.Sprintf("/%s/%s/tcp/%d", pr, ip, port), ip: ip, port: port, public: public}
			tcpScript(t)
			t = add(t)
			tcps = append(tcps, t)
			raw := t.key
			if g.Chance(1, 6) {
				// duplicate spelling: explicit /p2p/<peer> suffix
				ps.raw = append(ps.raw, raw+"/p2p/"+w.ids[pi].String())
			}
			ps.raw = append(ps.raw, raw)
		case 1: // QUIC v1
			t := &target{kind: tQUIC, key: fmt.Sprintf("/%s/%s/udp/%d/quic-v1", pr, ip, port), ip: ip, port: port, public: public}
			switch {
			case !w.quic:
				stubScript(t)
			case allFail:
				t.script = []int{sHang, sWrongPeer}[g.Weighted(3, 1)]
			default:
				// real QUIC: served, dead (nobody listens: datagrams vanish, the dial ends with the handshake
				// timeout or its context), served by the other peer, served after the first k datagrams were lost
				t.script = []int{sSucceed, sHang, sWrongPeer, sLossyStart}[g.Weighted(4, 3, 1, 2)]
				if t.script == sLossyStart {
					t.faultAt = 1 + g.Int(3)
				}
			}
			t = add(t)
			quics = append(quics, t)
			ps.raw = append(ps.raw, t.key)
		case 2: // WebTransport
			t := &target{kind: tWT, key: fmt.Sprintf("/%s/%s/udp/%d/quic-v1/webtransport", pr, ip, port), ip: ip, port: port, public: public}
			stubScript(t)
			ps.raw = append(ps.raw, add(t).key)
		case 3: // WebSocket
			t := &target{kind: tWS, key: fmt.Sprintf("/%s/%s/tcp/%d/ws", pr, ip, port), ip: ip, port: port, public: public}
			stubScript(t)
			ps.raw = append(ps.raw, add(t).key)
		case 4: // relayed
			t := &target{kind: tCircuit, key: fmt.Sprintf("/ip4/44.9.%d.%d/tcp/4001/p2p/%s/p2p-circuit", pi+1, i+1, w.relayID), public: true}
			stubScript(t)
			ps.raw = append(ps.raw, add(t).key)
		case 5: // DNS name resolving to TCP addresses
			host := fmt.Sprintf("h%dx%d.test", pi, i)
			e := dnsEntry{peer: pi, delay: dnsDelays[g.Int(len(dnsDelays))]}
			e.ignoreCtx = e.delay > 0 && g.Bool()
			e.coldOnly = e.delay > 0 && g.Bool()
			switch v := g.Int(4); {
			case v == 2:
				e.fail = true
			case v == 3 && len(tcps) > 0:
				// resolves to an address that is also listed literally: a duplicate
				e.out = append(e.out, tcps[g.Int(len(tcps))].key)
			default:
				for j := 0; j <= v%2; j++ {
					rip := fmt.Sprintf("10.%d.1.%d", pi+1, 2*i+j+1)
					pub := false
					if g.Bool() {
						rip, pub = fmt.Sprintf("44.%d.1.%d", pi+1, 2*i+j+1), true
					}
					t := &target{kind: tTCP, key: fmt.Sprintf("/ip4/%s/tcp/%d", rip, port), ip: rip, port: port, public: pub}
					tcpScript(t)
					t = add(t)
					tcps = append(tcps, t)
					e.out = append(e.out, t.key)
				}
			}
			w.dns[host] = e
			ps.raw = append(ps.raw, fmt.Sprintf("/dns4/%s/tcp/%d", host, port))
		case 6: // no transport
			if g.Bool() {
				ps.raw = append(ps.raw, fmt.Sprintf("/%s/%s/udp/%d/quic", pr, ip, port)) // QUIC draft-29
			} else {
				ps.raw = append(ps.raw, fmt.Sprintf("/%s/%s/udp/%d", pr, ip, port))
			}
		case 7: // unspecified (filtered)
			t := &target{kind: tTCP, key: fmt.Sprintf("/ip4/0.0.0.0/tcp/%d", 5000+10*pi+i), ip: "0.0.0.0", port: 5000 + 10*pi + i, filtered: true}
			ps.raw = append(ps.raw, add(t).key)
		case 8: // IPv6 link-local (filtered)
			llip := fmt.Sprintf("fe80::%x:%x", pi+1, i+1)
			t := &target{kind: tTCP, key: fmt.Sprintf("/ip6/%s/tcp/%d", llip, port), ip: llip, port: port, filtered: true}
			ps.raw = append(ps.raw, add(t).key)
		case 9: // the dialer's own listen address (filtered)
			if w.targets[canon(ownAddr)] == nil {
				t := &target{kind: tTCP, key: ownAddr, ip: "10.0.0.1", port: 4001, filtered: true}
				ps.raw = append(ps.raw, add(t).key)
			}
		case 10: // WebSocket on the 2-tuple of a TCP address (filtered as low priority)
			if len(tcps) > 0 {
				b := tcps[g.Int(len(tcps))]
				t := &target{kind: tWS, key: b.key + "/ws", ip: b.ip, port: b.port, public: b.public, filtered: true}
				stubScript(t)
				ps.raw = append(ps.raw, add(t).key)
			}
		case 11: // WebTransport on the 2-tuple of a QUIC address (filtered as low priority)
			if len(quics) > 0 {
				b := quics[g.Int(len(quics))]
				t := &target{kind: tWT, key: b.key + "/webtransport", ip: b.ip, port: b.port, public: b.public, filtered: true}
				stubScript(t)
				ps.raw = append(ps.raw, add(t).key)
			}
		}
	}
	return ps
}

// plantSlowName adds a name whose first lookup is slow and deaf to cancellation, and two hanging
// addresses, to the peer's set ("slow worker" stratum).
func (w *world) plantSlowName(g simrt.Gen, ps *peerSpec) {
	pi := ps.idx
	add := func(t *target) {
		t.key = canon(t.key)
		t.peer = pi
		w.targets[t.key] = t
		ps.targets = append(ps.targets, t)
		ps.known[t.key] = true
	}
	rip := fmt.Sprintf("10.%d.2.1", pi+1)
	tt := &target{kind: tTCP, key: fmt.Sprintf("/ip4/%s/tcp/4001", rip), ip: rip, port: 4001, script: sRefuse}
	add(tt)
	host := fmt.Sprintf("slow%d.test", pi)
	w.dns[host] = dnsEntry{peer: pi, out: []string{tt.key}, delay: time.Second, ignoreCtx: true, coldOnly: true}
	ps.raw = append(ps.raw, fmt.Sprintf("/dns4/%s/tcp/4001", host))
	for j := 0; j < 2; j++ {
		ip, public := ipFor(pi, 20+j, g.Int(2))
		t := &target{kind: tQUIC, key: fmt.Sprintf("/ip4/%s/udp/%d/quic-v1", ip, 4001+j), ip: ip, port: 4001 + j, public: public, script: sHang}
		add(t)
		ps.raw = append(ps.raw, t.key)
	}
}

// plantBackoffPair adds a hanging public address A (keeps a dial worker alive for 15 s) and a private
// TCP address B that is refused at once (lands in back-off) to the peer's set ("back-off rejoin" stratum).
func (w *world) plantBackoffPair(g simrt.Gen, ps *peerSpec) {
	pi := ps.idx
	add := func(t *target) {
		t.key = canon(t.key)
		t.peer = pi
		w.targets[t.key] = t
		ps.targets = append(ps.targets, t)
		ps.known[t.key] = true
		ps.raw = append(ps.raw, t.key)
	}
	aip, _ := ipFor(pi, 30, 1)
	if g.Bool() {
		add(&target{kind: tQUIC, key: fmt.Sprintf("/ip4/%s/udp/4001/quic-v1", aip), ip: aip, port: 4001, public: true, script: sHang})
	} else {
		add(&target{kind: tTCP, key: fmt.Sprintf("/ip4/%s/tcp/4001", aip), ip: aip, port: 4001, public: true, script: sHang})
	}
	bip, _ := ipFor(pi, 31, 0)
	add(&target{kind: tTCP, key: fmt.Sprintf("/ip4/%s/tcp/4001", bip), ip: bip, port: 4001, script: sRefuse})
}

// ---- scripted DNS resolver -----------------------------------------------------------------

type resolver struct{ w *world }

func (r *resolver) ResolveDNSAddr(_ context.Context, _ peer.ID, maddr ma.Multiaddr, _, _ int) ([]ma.Multiaddr, error) {
	return []ma.Multiaddr{maddr}, nil
}

func (r *resolver) ResolveDNSComponent(ctx context.Context, maddr ma.Multiaddr, limit int) ([]ma.Multiaddr, error) {
	r.w.dnsCalls++
	host, err := maddr.ValueForProtocol(ma.P_DNS4)
	if err != nil {
		return nil, err
	}
	e, ok := r.w.dns[host]
	if ok && e.delay > 0 && !(e.coldOnly && r.w.dnsSeen[host]) {
		r.w.dnsSeen[host] = true
		if e.ignoreCtx {
			simrt.TimeSleep(e.delay)
		} else {
			tm := time.NewTimer(e.delay)
			cancelled := simrt.Select("resolver", false, simrt.RecvCase(ctx.Done()), simrt.RecvCase(tm.C)) == 0
			tm.Stop()
			if cancelled {
				return nil, ctx.Err()
			}
		}
	}
	if !ok || e.fail {
		return nil, errors.New("scripted resolver: no such host")
	}
	var out []ma.Multiaddr
	for _, s := range e.out {
		out = append(out, ma.StringCast(s))
	}
	if len(out) > limit {
		out = out[:limit]
	}
	return out, nil
}

// ---- stub transports (never succeed) --------------------------------------------------------

var errStubFail = errors.New("scripted transport: dial failed")

type stub struct {
	w      *world
	kind   int
	protos []int
	proxy  bool
}

func hasProto(a ma.Multiaddr, code int) bool {
	_, err := a.ValueForProtocol(code)
	return err == nil
}

func (s *stub) CanDial(a ma.Multiaddr) bool {
	switch s.kind {
	case tQUIC:
		return hasProto(a, ma.P_QUIC_V1) && !hasProto(a, ma.P_WEBTRANSPORT) && !hasProto(a, ma.P_CIRCUIT)
	case tWT:
		return hasProto(a, ma.P_WEBTRANSPORT) && !hasProto(a, ma.P_CIRCUIT)
	case tWS:
		return hasProto(a, ma.P_WS) && !hasProto(a, ma.P_CIRCUIT)
	case tCircuit:
		return hasProto(a, ma.P_CIRCUIT)
	}
	return false
}
func (s *stub) Protocols() []int { return s.protos }
func (s *stub) Proxy() bool      { return s.proxy }
func (s *stub) Listen(ma.Multiaddr) (transport.Listener, error) {
	return nil, errors.New("scripted transport: cannot listen")
}

func (s *stub) Dial(ctx context.Context, raddr ma.Multiaddr, p peer.ID) (transport.CapableConn, error) {
	r := s.w.begin(s.kind, raddr, p, ctx)
	tg := s.w.targets[r.addr]
	var err error
	switch {
	case tg == nil:
		simrt.Yield("stub.unknown")
		err = errors.New("scripted transport: unknown address")
	case tg.script == sHang:
		simrt.Select("stub.hang", false, simrt.RecvCase(ctx.Done()))
		err = ctx.Err()
	default:
		tm := time.NewTimer(tg.dur)
		if simrt.Select("stub.dial", false, simrt.RecvCase(ctx.Done()), simrt.RecvCase(tm.C)) == 0 {
			err = ctx.Err()
		} else {
			err = errStubFail
		}
		tm.Stop()
	}
	s.w.finish(r, err)
	return nil, err
}

// ---- the dialing node: real swarm, real TCP transport on simnet behind a recording wrapper ----

// recTransport is the real TCP transport (dial path on simnet, listen redirected to simnet exactly
// as simhost.Transport does) that records every Dial invocation. For "transport-lies" targets it
// asks the real transport to dial the other peer, so that the connection it returns is
// authenticated as the wrong peer (the swarm must reject it).
type recTransport struct {
	*tcp.TcpTransport
	w   *world
	net *simnet.Net
	up  transport.Upgrader
}

func (t *recTransport) Listen(laddr ma.Multiaddr) (transport.Listener, error) {
	na, err := manet.ToNetAddr(laddr)
	if err != nil {
		return nil, err
	}
	ta, ok := na.(*net.TCPAddr)
	if !ok {
		return nil, fmt.Errorf("not a tcp address: %s", laddr)
	}
	l, err := t.net.Listen(ta.IP.String(), ta.Port)
	if err != nil {
		return nil, err
	}
	mal, err := manet.WrapNetListener(l)
	if err != nil {
		l.Close()
		return nil, err
	}
	return t.up.UpgradeGatedMaListener(t, t.up.GateMaListener(mal)), nil
}

func (t *recTransport) Dial(ctx context.Context, raddr ma.Multiaddr, p peer.ID) (transport.CapableConn, error) {
	return t.DialWithUpdates(ctx, raddr, p, nil)
}

func (t *recTransport) DialWithUpdates(ctx context.Context, raddr ma.Multiaddr, p peer.ID, ch chan<- transport.DialUpdate) (transport.CapableConn, error) {
	r := t.w.begin(tTCP, raddr, p, ctx)
	as := p
	if tg := t.w.targets[r.addr]; tg != nil && tg.script == sLie {
		as = t.w.qID
	}
	c, err := t.TcpTransport.DialWithUpdates(ctx, raddr, as, ch)
	t.w.finish(r, err)
	return c, err
}

// recQUIC is the real QUIC transport (p2p/transport/quic over quicreuse over simnet's UDP wire) behind the
// same recorder.
type recQUIC struct {
	transport.Transport
	w *world
}

func (t *recQUIC) Dial(ctx context.Context, raddr ma.Multiaddr, p peer.ID) (transport.CapableConn, error) {
	r := t.w.begin(tQUIC, raddr, p, ctx)
	if tg := t.w.targets[r.addr]; tg != nil && tg.script == sLossyStart {
		t.w.udpLost[udpKey(tg.ip, tg.port)] = 0 // a new attempt loses its first datagrams again
	}
	c, err := t.Transport.Dial(ctx, raddr, p)
	t.w.finish(r, err)
	return c, err
}

func (t *recQUIC) Close() error {
	if c, ok := t.Transport.(interface{ Close() error }); ok {
		return c.Close()
	}
	return nil
}

func udpKey(ip string, port int) string {
	return net.JoinHostPort(net.ParseIP(ip).String(), fmt.Sprint(port))
}

type dialer struct {
	id    peer.ID
	swarm *swarm.Swarm
	ps    peerstore.Peerstore
	cm    *quicreuse.ConnManager
	qt    transport.Transport // the real QUIC transport (QUIC stratum), un-recorded
}

func (d *dialer) close() {
	d.swarm.Close()
	if d.cm != nil {
		d.cm.Close()
	}
	d.ps.Close()
}

type fixedSource struct{ ip net.IP }

func (f fixedSource) PreferredSourceIPForDestination(*net.UDPAddr) (net.IP, error) { return f.ip, nil }

func newDialer(n *simnet.Net, w *world, key crypto.PrivKey, ip, secu string, opts ...swarm.Option) (*dialer, error) {
	id, err := peer.IDFromPrivateKey(key)
	if err != nil {
		return nil, err
	}
	ps, err := pstoremem.NewPeerstore()
	if err != nil {
		return nil, err
	}
	ps.AddPubKey(id, key.GetPublic())
	ps.AddPrivKey(id, key)
	var rm network.ResourceManager = &network.NullResourceManager{}
	if w.rcmgr != nil {
		rm = w.rcmgr
	}
	sw, err := swarm.NewSwarm(id, ps, eventbus.NewBus(), append([]swarm.Option{swarm.WithResourceManager(rm)}, opts...)...)
	if err != nil {
		ps.Close()
		return nil, err
	}
	fail := func(err error) (*dialer, error) {
		sw.Close()
		ps.Close()
		return nil, err
	}
	st, err := simhost.SecurityTransport(secu, key)
	if err != nil {
		return fail(err)
	}
	up, err := tptu.New([]sec.SecureTransport{st}, []tptu.StreamMuxer{{ID: yamux.ID, Muxer: yamux.DefaultTransport}}, nil, rm, nil)
	if err != nil {
		return fail(err)
	}
	sd := n.Dialer(ip)
	tt, err := tcp.NewTCPTransport(up, rm, nil, tcp.DisableReuseport(), tcp.WithDialerForAddr(func(ma.Multiaddr) (tcp.ContextDialer, error) { return sd, nil }))
	if err != nil {
		return fail(err)
	}
	if err := sw.AddTransport(&recTransport{TcpTransport: tt, w: w, net: n, up: up}); err != nil {
		return fail(err)
	}
	var cm *quicreuse.ConnManager
	var inner transport.Transport
	stubs := []*stub{{w: w, kind: tQUIC, protos: []int{ma.P_QUIC_V1}}}
	if w.quic {
		// exactly what simhost does for Opts.QUIC, plus the recorder
		stubs = nil
		var srk quic.StatelessResetKey
		var tk quic.TokenGeneratorKey
		copy(srk[:], []byte("verifsim-srk-"+id.String()))
		copy(tk[:], []byte("verifsim-tok-"+id.String()))
		src := net.ParseIP(ip)
		qopts := []quicreuse.Option{quicreuse.OverrideListenUDP(n.UDPListenFunc(ip)),
			quicreuse.OverrideSourceIPSelector(func() (quicreuse.SourceIPSelector, error) { return fixedSource{src}, nil })}
		if w.reuseOff {
			qopts = append(qopts, quicreuse.DisableReuseport())
		}
		cm, err = quicreuse.NewConnManager(srk, tk, qopts...)
		if err != nil {
			return fail(err)
		}
		qt, err := libp2pquic.NewTransport(key, cm, nil, nil, rm)
		inner = qt
		if err == nil {
			err = sw.AddTransport(&recQUIC{Transport: qt, w: w})
		}
		if err != nil {
			cm.Close()
			return fail(err)
		}
	}
	for _, s := range append(stubs, []*stub{
		{w: w, kind: tWT, protos: []int{ma.P_WEBTRANSPORT}},
		{w: w, kind: tWS, protos: []int{ma.P_WS, ma.P_WSS}},
		{w: w, kind: tCircuit, protos: []int{ma.P_CIRCUIT}, proxy: true},
	}...) {
		if err := sw.AddTransport(s); err != nil {
			if cm != nil {
				cm.Close()
			}
			return fail(err)
		}
	}
	return &dialer{id: id, swarm: sw, ps: ps, cm: cm, qt: inner}, nil
}

// netKey is simnet's name of a TCP endpoint.
func netKey(ip string, port int) string {
	return net.JoinHostPort(net.ParseIP(ip).String(), fmt.Sprint(port))
}

// goroutines returns the multiset of goroutine descriptors of the bubble without the simulator's
// connection pumps and the harness's own tasks (callers, cancellers, the main task).
func goroutines() map[string]int {
	out := map[string]int{}
	for _, g := range simrt.BubbleGoroutines() {
		if strings.Contains(g, "verifsim/simnet.") || strings.Contains(g, "harness/c05.run") {
			continue
		}
		// normalise: the frame list may end in an empty entry or a "created by" line depending on how deep the stack is
		var fr []string
		for _, f := range strings.Split(g, " < ") {
			if f = strings.TrimSpace(f); f != "" && !strings.HasPrefix(f, "created by") {
				fr = append(fr, f)
			}
		}
		out[strings.Join(fr, " < ")]++
	}
	return out
}

func newGoroutines(base, now map[string]int) []string {
	var out []string
	for g, n := range now {
		if n > base[g] {
			out = append(out, fmt.Sprintf("%dx %s", n-base[g], g))
		}
	}
	sort.Strings(out)
	return out
}
