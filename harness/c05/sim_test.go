// C05 — every dial request completes exactly once; dials are deduplicated and capped.
//
// Lock-level simulation of a REAL dialing swarm D (dial_sync, dial_worker, limiter, swarm_dial,
// dial_ranker, back-off; real TCP transport + upgrader + insecure|noise + yamux on simnet; D is
// built like a simhost node but its TCP transport sits behind a recording wrapper, world_test.go)
// against two target peers whose reachability is scripted PER ADDRESS: TCP addresses are served by
// real simhost nodes (succeed), refused, black-holed, accepted-and-never-answered, reset / EOF at
// the k-th I/O call of either end, answered by an honest other peer, or dialed by a lying
// transport (returns a connection authenticated as another peer); QUIC-v1, WebTransport,
// WebSocket and relayed addresses go to scripted stub transports that fail after a drawn virtual
// delay or hang until their context ends; /dns4 names go through a scripted resolver (fails,
// resolves to 1-2 addresses or to a duplicate, optionally slow / deaf to cancellation / slow on
// the first lookup only). 1-5 caller tasks per round call DialPeer at drawn virtual instants with
// independent deadlines / cancel instants / dial-peer timeouts and force-direct /
// simultaneous-connect / allow-limited flags, a quarter of them retrying at the instant of a
// failure; per-peer cap 1-8 and FD cap unset|1-4 are drawn per run; a second round inherits the
// back-off state of the first; afterwards residue audit and token probes.
//
// Oracles over the stamped history (transport Dial records + caller returns):
//
//	(1)  every caller returns (caller-never-returned, deadlock), never with neither connection nor
//	     error (empty-result), no later than min(own limit, dial-peer timeout) + 1 s
//	     (returned-after-deadline)
//	(2)  success => RemotePeer is the dialed peer, not over an address served by another peer
//	     (connection-to-wrong-peer); direct when force-direct (force-direct-got-relayed);
//	(2c) usable connection: a caller answered (conn, nil) never gets a connection whose Disconnected notification
//	     had been delivered (D's recording notifiee) before that caller's invocation stamp; a close that races
//	     with the call is legitimate (returned-connection-closed-before-call/<tcp|quic>)
//	(2b) a connection obtained over an address that never failed before releases every caller
//	     attached at that instant within resolution slack + 1 s
//	     (connection-obtained-but-caller-kept-waiting)
//	(3)  failure with the own context alive and the dial-peer timeout not reached => *swarm.DialError
//	     (error-not-dialerror); exactness stratum: every eligible address has a finished dial inside
//	     the caller's session or a back-off refusal named in the DialError
//	     (eligible-address-not-attempted/<kind>), and a back-off refusal needs an earlier failed dial
//	     (backoff-without-failure)
//	(3b) all-fail stratum: the DialError arrives within ranking delays + resolution + script
//	     durations that can be ahead of the caller (all-scripts-fail-but-no-dial-error-in-time)
//	(3c) once every eligible address has a failed dial of the caller's live generation the answer is
//	     due (all-addresses-failed-but-caller-kept-waiting)
//	(3d) a back-off refusal is true: not after the documented back-off length has passed since the last
//	     failed dial (backoff-refusal-after-backoff-ended), not for a WithForceDirectDial caller unless a
//	     request without the flag had just scheduled the address (backoff-refusal-for-force-direct)
//	(4)  at most one hand-over of an address to a transport per generation — except that a dead RESULT may be
//	     replaced: the earlier dial succeeded and the connection it produced (Connected delivered after that dial
//	     returned) had its Disconnected delivered before the second hand-over started (bf9a88d dials such an
//	     address again for a joining request; the clause is about duplicate attempts);
//	     (address-dialed-twice-in-generation/<kind>); only known addresses of the asked peer, on the
//	     right transport (dialed-unknown-address, dialed-unknown-peer, wrong-transport)
//	(5)  at every Dial start stamp: in-flight Dials per peer <= per-peer cap, FD-consuming (TCP, WS)
//	     in-flight Dials <= FD cap (per-peer-cap-exceeded, fd-cap-exceeded)
//	(6)  a cancelled caller returns within 1 s (cancelled-caller-not-released); a caller whose context
//	     is alive is never told that an address dial was cancelled, or timed out before the smallest
//	     dial timeout had passed (shared-attempt-cancelled)
//	(7)  when the last caller of a round has returned every running Dial has a dead context
//	     (dial-not-cancelled-after-last-caller); 3 virtual minutes later no Dial is running
//	     (dial-still-running) and the goroutine multiset equals the baseline (goroutine-left/dial|other);
//	     a fresh DialPeer of cap hanging QUIC addresses per peer has cap dials in flight 2 s later
//	     (token-leaked/per-peer), fdCap black-holed TCP addresses likewise (token-leaked/fd);
//	     nothing but simulator tasks after every node was closed (residue-after-close); panic.
//
// QUIC stratum (drawn FIRST, 1/4 of runs): the /quic-v1 addresses are dialed by the REAL QUIC transport
// (p2p/transport/quic + quicreuse + quic-go, instrumented, behind the same recorder) over simnet's UDP wire
// and the target peers (and the honest other peer) are simhost nodes with QUIC: an address is served
// (succeed), dead (nobody listens: datagrams vanish, the dial ends with quic-go's handshake idle timeout
// or the dial timeout / context — not a refusal), served by the other peer (TLS peer verification fails),
// or served after the first 1-3 datagrams of every attempt were lost (scripted UDP filter); in half of
// these runs the wire also loses (3 % | 15 %), duplicates (5 %) and delays/reorders datagrams. So the real
// DefaultDialRanker staggers real QUIC before real TCP dials, one worker drives several real transports,
// UDP addresses go through back-off, the losing transport's in-flight dial is cancelled when the other one
// wins, and WithSimultaneousConnect(server) callers run the transport's hole punching. Every oracle is
// unchanged (records come from the wrapper, kind "quic"); liveness (3b) holds under loss because every
// script's duration is bounded by the dial timeout (15 s) it is charged with. crypto/rand is pinned with
// simrand.Install, the global math/rand (hole-punch pacing) with rand.Seed (go:debug randseednop=0 below);
// no scheduler stalls in this stratum. WebTransport / WebSocket / relay stay stubs.
// Hole-punch sub-stratum (1/2 of QUIC runs): D gets a REAL resource manager (all QUIC runs); two
// WithSimultaneousConnect(server) callers punch towards p0's node address from instant 0 (cancelled at
// instants drawn from {50 ms, 1 s, 4.9 s, 4.999 s, 5 s, 5.001 s} or left to the 5 s HolePunchTimeout, half
// of them retrying at the instant of the failure = a new worker and punch next to the dying one), D listens
// on QUIC (2/3) or is dial-only with quicreuse's reuseport on | off, p0 itself dials D once or twice at
// instants from the same grid (in half of the runs exactly when the punch ends; in half of the runs over a
// clean wire, so that its handshake completes at that very instant), and in half of the runs two overlapping
// punches to one (address, peer) are handed to the transport directly (the second is turned away with
// "already punching hole"). Extra residue oracles of every QUIC run, 3 virtual minutes after every caller and
// side task returned and everything D lists was closed (twice, 30 s apart: a late last handshake datagram):
// nobody lists a connection to D (one-sided-connection-left), D's resource manager reads zero
// (resource-scope-not-released), D has no UDP socket besides its listening one (udp-socket-left), and the
// goroutine comparison includes quic-go's Transport and Conn loops (goroutine-left/other).
// (2b) is off in this sub-stratum: with inbound connections a caller can be served from the connection table
// while others still dial.
//
// "Connections vanish" stratum (1/4 of the runs without hole punching): a recording notifiee sits on D in EVERY
// run (Connected / Disconnected stamps per connection); in this stratum D's connections are closed WHILE callers
// are inside: by that notifiee from inside Connected (at once) or from a task started there (after 1 | 30 ms),
// by a task closing what D lists for p0 at 1-3 drawn instants, or by p0 closing its side at those instants; p0
// gets a cleanly served TCP address and three callers starting at one instant, and in half of these runs the
// application re-dials from inside its Disconnected handler (up to 3 times per run, only while a round's callers
// are inside) — a call that begins after the connection is gone and usually before the caller answered with it
// has released the worker. Fault counter conn-closed-while-callers-inside. Other oracles under vanishing
// connections: (2b) skips a pair when the connection A got was gone before B returned; (3), (3b), (3c), caps and
// residue need no change (a vanished connection is not a failed dial, re-dials are bounded and waited for).
//
// Strata (drawn first): exactness (address sets avoid every documented dial filter, so
// eligibility = "has a transport and not in back-off") vs filters (unspecified, link-local, own
// listen address, same-2-tuple WebSocket/WebTransport: only the weaker claims, (3) without
// eligibility); all-fail (every script fails: (3b)); slow worker (1/8: a name whose first lookup
// takes 1 s and ignores cancellation, two hanging addresses, cap 1-2, first caller gives up early,
// another dials within the second — a worker outliving its callers next to its successor);
// back-off rejoin (1/8: round 1 leaves address B in back-off but not the hanging address A; round 2:
// a first caller is refused B and waits on A, a second one joins after B's back-off ended or with
// force-direct — B must reach a transport);
// stalls (1/6 of insecure runs: the scheduler lets virtual time pass while tasks are runnable;
// every oracle that reasons with virtual time — (1) bound, (2b), (3b), (3c), (3d), (4), (6) timing, token
// probes — is switched off there); insecure vs noise; link latency.
//
// Weaker readings taken (guide rule 6):
//   - "once all callers have returned no attempt, token or worker remains" is read over ALL callers
//     of the swarm: a cancelled job queued for an FD token keeps its per-peer token until some FD
//     holder (possibly of another peer) finishes.
//   - a generation ("while any caller is waiting") is recognised from the outside only when no
//     caller of the peer returned at a virtual instant within the closed interval between two
//     dials of one address (exact in runs without stalls, where a runnable task never lets time
//     pass); dials started with an already cancelled shared context belong to no live generation.
//   - a back-off refusal is accepted as such when the DialError names the address with
//     ErrDialBackoff and an earlier failed dial of that address exists.
//   - a context error is accepted whenever the caller's context had ended when DialPeer returned.
//   - (2b) is not asserted for addresses that failed or were refused earlier (see checkSharedSuccess).
//
// Not drawn, and why: Stall faults in the middle of a Noise handshake, and scheduler stalls in Noise
// runs (Noise sets the read deadline to the instant of the context deadline; the reader woken by
// simnet's deadline timer reaches its `respCh <- runHandshake()` send without a scheduling point
// and races the context's timer goroutine for real: the run stops being reproducible).
//
// Genuine defects found (all repaired in /repo, the classes stay armed):
//   - fd-cap-exceeded: limiter.freeFDToken handed a freed FD token out twice when it skipped a
//     cancelled waiter whose freePeerToken admitted a job from the per-peer wait list (ebe4161);
//     history: fd-cap-exceeded.replay.json (decoded trace inside; its tape predates later generator changes)
//   - goroutine-left/other (QUIC stratum): quicreuse never released the transport a SUCCESSFUL dial went out from
//     when the connection was closed: socket and quic-go loops lived until ConnManager.Close (ee51243)
//   - (found by C12, armed here as (2c)) a request joining a live worker was answered with a connection closed
//     since (bf9a88d)
//   - all-scripts-fail-but-no-dial-error-in-time: an exiting dial worker's clearAllPeerDials wiped the
//     jobs its successor had queued on the per-peer wait list; they were never dialed, the caller
//     waited for its deadline (cb59e91); history: waitlist-wiped.replay.json (decoded trace inside)
//
// Sensitivity — each mutation applied alone to a private copy of the instrumented overlay, 8 workers,
// 30-40 s; all detected:
//
//	m1a dial_sync: callers joining an existing activeDial are not counted (released under a waiter)
//	                                   -> panic (send on closed channel), (3b), (3c)
//	m1b dial_sync: activeDial never released (refCnt < 0)
//	                                   -> dial-not-cancelled-after-last-caller, goroutine-left/dial,
//	                                      eligible-address-not-attempted/*
//	m2  dial_worker.dispatchError does not answer the last pending request -> (3b), (3c)
//	m3  dial_worker: a joining request re-dials an address that is already tracked
//	                                   -> address-dialed-twice-in-generation/*
//	m4a limiter.freeFDToken: cancelled waiter skipped without freePeerToken -> token-leaked/per-peer
//	m4b limiter.freePeerToken: token taken before the cancelled check      -> token-leaked/per-peer, (3b)
//	m5  dial_sync: the worker uses the first caller's context -> shared-attempt-cancelled, (3b), (3c)
//	m6  limiter: per-peer limit check off by one (>)           -> per-peer-cap-exceeded
//	m7  swarm_dial.dialAddr does not check the remote peer id  -> error-not-dialerror ("unexpected peer")
//	m8  limiter: FD limit check off by one (>)                 -> fd-cap-exceeded
//	m9  limiter.freeFDToken without the re-check (= the defect repaired by ebe4161) -> fd-cap-exceeded
//	m10 dial_sync: the waiting caller does not watch its context
//	                                   -> cancelled-caller-not-released, returned-after-deadline
//	m11 limiter.executeDial without the per-dial timeout       -> (3b)
//	m12 dial_worker: a successful dial answers only one pending request
//	                                   -> connection-obtained-but-caller-kept-waiting
//	m13 limiter.clearAllPeerDials drops live jobs too (= the defect repaired by cb59e91) -> (3b)
//	re-checked through the QUIC stratum (violating runs with quic=true): m3 (a real QUIC address dialed twice),
//	m5, m6 (real dead QUIC addresses over the cap), m12 (over a real QUIC connection)
//	m15 quic holePunch: last look at connCh outside holePunchingMx (lead's seed C05c/1; the accepted connection is
//	    orphaned when the hand-over falls between that look and the deferred delete)
//	                                   -> one-sided-connection-left, resource-scope-not-released, goroutine-left/other
//	                                      (3 of 8 workers within 45 s: needs the coincidence AND the interleaving)
//	m16 quic holePunch: DecreaseCount registered after the duplicate check (lead's seed C05c/2)
//	                                   -> udp-socket-left, goroutine-left/other (every worker within seconds)
//	m17 dial_worker: a joining request is answered with trackedDials[addr].conn although it is closed (bf9a88d
//	    undone in a scratch worktree) -> returned-connection-closed-before-call/tcp and /quic (60 s, 4 workers)
//	m14 dial_worker.dispatchError: the back-off clean-up deletes trackedDials by addr.String() (no-op),
//	    the refused address stays "failed" for the worker's lifetime (lead's seeded change, scratch worktree)
//	                                   -> backoff-refusal-after-backoff-ended, backoff-refusal-for-force-direct
//
//go:debug randseednop=0
package c05

import (
	"context"
	"errors"
	"fmt"
	mrand "math/rand"
	"net"
	"os"
	"sort"
	"strconv"
	"strings"
	"testing"
	"time"

	"github.com/libp2p/go-libp2p/core/network"
	"github.com/libp2p/go-libp2p/core/peer"
	"github.com/libp2p/go-libp2p/core/peerstore"
	rcmgr "github.com/libp2p/go-libp2p/p2p/host/resource-manager"
	"github.com/libp2p/go-libp2p/p2p/net/swarm"
	ma "github.com/multiformats/go-multiaddr"

	"verifsim/harness/common"
	"verifsim/simhost"
	"verifsim/simnet"
	"verifsim/simrand"
	"verifsim/simrt"
)

func TestSim(t *testing.T) { common.Main(t, common.Harness{Property: "C05", Run: run}) }

type caller struct {
	round, idx, peer int
	start            time.Duration
	ctxKind          int // 0 plain, 1 deadline, 2 cancelled by another task, 3 WithDialPeerTimeout
	ctxDur           time.Duration
	forceDirect      bool
	allowLimited     bool
	simConnect       int // 0 no, 1 client, 2 server
	probe            bool
	retry            *caller // called from the same task at the instant this one returned a failure
	isRetry          bool
	invoked          bool

	inv, ret      uint64
	invAt, retAt  time.Duration
	hasOwnLimit   bool
	ownLimitAt    time.Duration // deadline / planned cancel instant
	dpt           time.Duration // dial-peer timeout in force
	cancelled     bool          // cancel() was called while DialPeer had not returned
	cancelStamp   uint64
	cancelAt      time.Duration
	returned      bool
	ok            bool
	err           error
	ctxErr        error // the caller's own context when DialPeer returned
	connPeer      peer.ID
	connAddr      string
	connLimited   bool
	connProxy     bool
	connID        string
	invokedOnDisc bool // called from inside a Disconnected handler
}

func (c *caller) name() string { return fmt.Sprintf("caller%d.%d", c.round, c.idx) }

func (c *caller) describe() string {
	s := fmt.Sprintf("%s -> p%d start+%v", c.name(), c.peer, c.start)
	switch c.ctxKind {
	case 1:
		s += fmt.Sprintf(" deadline %v", c.ctxDur)
	case 2:
		s += fmt.Sprintf(" cancel after %v", c.ctxDur)
	case 3:
		s += fmt.Sprintf(" dial-peer-timeout %v", c.ctxDur)
	}
	if c.forceDirect {
		s += " force-direct"
	}
	if c.simConnect == 1 {
		s += " simconnect-client"
	}
	if c.simConnect == 2 {
		s += " simconnect-server"
	}
	if c.allowLimited {
		s += " allow-limited"
	}
	if c.retry != nil {
		s += " (on failure retried at once as " + c.retry.name() + ")"
	}
	return s
}

// limitAt is the instant by which the caller's own context or the dial-peer timeout ends.
func (c *caller) limitAt() time.Duration {
	l := c.invAt + c.dpt
	if c.hasOwnLimit && c.ownLimitAt < l {
		l = c.ownLimitAt
	}
	return l
}

func (c *caller) outcome() string {
	switch {
	case !c.returned:
		return "never-returned"
	case c.ok:
		return "ok"
	}
	var de *swarm.DialError
	switch {
	case errors.As(c.err, &de):
		if de.Cause != nil {
			return "dial-error(" + de.Cause.Error() + ")"
		}
		return "dial-error"
	case errors.Is(c.err, context.Canceled):
		return "ctx-cancelled"
	case errors.Is(c.err, context.DeadlineExceeded):
		return "ctx-deadline"
	}
	return "other-error"
}

var startGrid = []time.Duration{0, 0, time.Millisecond, 30 * time.Millisecond, 250 * time.Millisecond, 500 * time.Millisecond,
	time.Second, 2 * time.Second, 5 * time.Second, 5250 * time.Millisecond}
var ctxGrid = []time.Duration{time.Millisecond, 30 * time.Millisecond, 250 * time.Millisecond, 500 * time.Millisecond, time.Second,
	2 * time.Second, 5 * time.Second, 5250 * time.Millisecond, 15 * time.Second, 16 * time.Second, 30 * time.Second}

func run(t *testing.T, tape *simrt.Tape) *common.Outcome {
	g := simrt.Gen{S: tape.G}
	o := &common.Outcome{}
	w := &world{o: o, targets: map[string]*target{}, dns: map[string]dnsEntry{}, dnsSeen: map[string]bool{}, udpLost: map[string]int{}, conns: map[string]*connRec{}}

	// ---- configuration (0 = simplest) --------------------------------------------------------
	// stratum first: QUIC (the /quic-v1 addresses are dialed by the REAL QUIC transport over simnet's UDP wire and
	// served, or not, by real nodes) | TCP + stubs (as before)
	w.quic = g.Chance(1, 4)
	var udp simnet.UDPConfig
	if w.quic {
		if g.Bool() {
			udp.DropPermille = []int{30, 150}[g.Int(2)]
			udp.DupPermille = []int{0, 50}[g.Int(2)]
			udp.Latencies = [][]time.Duration{nil, {0, time.Millisecond, 15 * time.Millisecond}, {0, 5 * time.Millisecond, 80 * time.Millisecond, 400 * time.Millisecond}}[g.Int(3)]
		}
		restore := simrand.Install(uint64(7 + udp.DropPermille))
		defer restore()
		// the QUIC transport's hole punching (WithSimultaneousConnect, server side) paces its packets with the
		// global math/rand generator, which nothing else pins (see the go:debug line above the package clause)
		mrand.Seed(int64(11 + udp.DropPermille))
	}
	// hole-punch sub-stratum (1/3 of QUIC runs): WithSimultaneousConnect(server) callers punch towards p0's node
	// address while p0 itself dials D at drawn instants around the end of the punch (HolePunchTimeout 5 s, the
	// callers' cancel instants); D listens on QUIC (2/3) or is dial-only with quicreuse's reuseport on | off.
	var dListenQUIC, directDup, alignTarget bool
	var targetDials, punchCancels []time.Duration
	punchGrid := []time.Duration{0, 50 * time.Millisecond, time.Second, 4900 * time.Millisecond, 4999 * time.Millisecond, 5 * time.Second, 5001 * time.Millisecond}
	if w.quic {
		w.punch = g.Chance(1, 2)
		w.reuseOff = g.Chance(1, 3)
		if w.punch {
			dListenQUIC = g.Chance(2, 3)
			directDup = g.Bool()
			alignTarget = g.Bool()
			if g.Bool() {
				udp = simnet.UDPConfig{} // a clean wire: the target's handshake completes at the instant it dials
			}
			for i, n := 0, 1+g.Int(2); i < n && dListenQUIC; i++ {
				targetDials = append(targetDials, punchGrid[g.Int(len(punchGrid))])
			}
			for i := 0; i < 2; i++ {
				punchCancels = append(punchCancels, punchGrid[1+g.Int(len(punchGrid)-1)])
			}
		}
	}
	// "connections vanish" stratum (1/4, not together with hole punching): connections of D are closed WHILE
	// callers are inside — by a Connected notifiee on D (at once | after 1 ms | 30 ms), by a task closing what D
	// lists for p0 at drawn instants, or by p0 closing its side at drawn instants; p0 gets a cleanly served TCP
	// address and at least three callers starting at one instant, so that requests join a worker whose
	// tracked dial already produced — and lost — a connection.
	vanish := 0
	var vanishAt []time.Duration
	vanishDelay := time.Duration(0)
	redial, redials := false, 0
	if !w.punch && g.Chance(1, 4) {
		redial = g.Bool()
		vanish = 1 + g.Int(4) // 1 notifiee at once, 2 notifiee delayed, 3 local close task, 4 remote close task
		vanishDelay = []time.Duration{time.Millisecond, 30 * time.Millisecond}[g.Int(2)]
		for i, n := 0, 1+g.Int(3); i < n; i++ {
			vanishAt = append(vanishAt, startGrid[g.Int(7)])
		}
	}
	noise := g.Chance(1, 4)
	exact := !g.Chance(1, 3)
	allFail := g.Chance(1, 4)
	stall := []int{0, 0, 0, 0, 0, 8}[g.Int(6)]
	latency := !allFail && g.Chance(1, 5)
	perPeerCap := []int{8, 1, 2, 3, 4, 5, 6, 7}[g.Int(8)]
	fdCap := []int{0, 1, 2, 3, 4}[g.Weighted(2, 2, 2, 1, 1)] // 0 = LIBP2P_SWARM_FD_LIMIT unset (160)
	secu := "insecure"
	if noise {
		secu = "noise"
		// Noise sets the connection's read deadline to the very instant of the context deadline; once a stall
		// lets both pass, the reader (woken by simnet's deadline timer, no scheduling point before its send)
		// races the context's timer goroutine for real. Stalls are therefore drawn for insecure runs only.
		stall = 0
	}
	if w.quic {
		stall = 0 // quic-go's timers and a clock that runs while its tasks are parked: not worth the risk for determinism
	}
	const ownAddr = "/ip4/10.0.0.1/tcp/4001"
	const ownQUIC = "/ip4/10.0.0.1/udp/4001/quic-v1"
	const punchAddr = "/ip4/10.1.0.250/udp/4001/quic-v1"
	keyD, keyQ := simhost.DetKey(1), simhost.DetKey(12)
	keys := []int{10, 11}
	for _, k := range keys {
		id, _ := peer.IDFromPrivateKey(simhost.DetKey(k))
		w.ids = append(w.ids, id)
	}
	w.qID, _ = peer.IDFromPrivateKey(keyQ)
	w.relayID, _ = peer.IDFromPrivateKey(simhost.DetKey(30))
	// "slow worker" stratum: the first lookup of a name of p0 takes 1 s and does not notice cancellation, two
	// addresses hang, the per-peer cap is below the number of hanging addresses, the first caller gives up
	// early and another one dials within the second (a dial worker outliving its callers while a new one works)
	slowWorker := !w.punch && g.Chance(1, 8)
	if slowWorker {
		exact, allFail, latency, stall, fdCap = true, true, false, 0, 0
		perPeerCap = 1 + g.Int(2)
	}
	// "back-off rejoin" stratum: round 1 leaves address B of p0 in back-off (the caller gives up after 1-2 s, so
	// the hanging address A is not); round 2: a first caller is refused B and waits on A (the worker stays
	// alive), a second caller joins either after B's back-off has ended or with WithForceDirectDial: B is
	// eligible for it and must reach a transport.
	backoffRejoin := !slowWorker && !w.punch && g.Chance(1, 8)
	if backoffRejoin {
		exact, allFail, latency, stall, fdCap = true, true, false, 0, 0
		perPeerCap = []int{8, 2, 3, 4}[g.Int(4)]
	}
	nAddr := []int{g.Range(0, 8), g.Weighted(3, 2, 2, 1)}
	if slowWorker && nAddr[0] > 5 {
		nAddr[0] = 5
	}
	if backoffRejoin {
		nAddr[0] = g.Int(2)
	}
	for pi := range w.ids {
		w.peers = append(w.peers, w.genPeer(g, pi, nAddr[pi], exact, noise, allFail, ownAddr))
	}
	if slowWorker {
		w.plantSlowName(g, w.peers[0])
	}
	if backoffRejoin {
		w.plantBackoffPair(g, w.peers[0])
	}
	if vanish != 0 {
		allFail = false
		ps := w.peers[0]
		tg := &target{kind: tTCP, key: canon("/ip4/10.1.3.1/tcp/4001"), peer: 0, ip: "10.1.3.1", port: 4001, script: sSucceed}
		w.targets[tg.key] = tg
		ps.targets = append(ps.targets, tg)
		ps.known[tg.key] = true
		ps.raw = append(ps.raw, tg.key)
	}
	if w.punch {
		// the punched address is p0's NODE address: the node dials D from the socket listening there (quicreuse
		// reuses the listen socket whose IP is the preferred source), which is what the hole punch waits for
		allFail, latency = false, false
		ps := w.peers[0]
		tg := &target{kind: tQUIC, key: canon(punchAddr), peer: 0, ip: "10.1.0.250", port: 4001, script: sSucceed}
		w.targets[tg.key] = tg
		ps.targets = append(ps.targets, tg)
		ps.known[tg.key] = true
		ps.raw = append(ps.raw, tg.key)
	}
	nRounds := 1 + g.Int(2)
	gap := []time.Duration{time.Second, 4 * time.Second, 6 * time.Second, 30 * time.Second}[g.Int(4)]
	if backoffRejoin {
		nRounds, gap = 2, time.Second
	}
	keepConns := g.Chance(1, 4)
	var rounds [][]*caller
	var callers []*caller
	for r := 0; r < nRounds; r++ {
		n := g.Range(1, 5)
		var cs []*caller
		for i := 0; i < n; i++ {
			c := &caller{round: r, idx: i, peer: g.Weighted(4, 1), start: startGrid[g.Int(len(startGrid))],
				ctxKind: g.Weighted(3, 3, 3, 1)}
			if c.ctxKind != 0 {
				c.ctxDur = ctxGrid[g.Int(len(ctxGrid))]
			}
			c.forceDirect = g.Chance(1, 6)
			c.simConnect = g.Weighted(8, 1, 1)
			c.allowLimited = g.Chance(1, 6)
			cs = append(cs, c)
			if g.Chance(1, 4) {
				// the application retries at the very instant the first call failed (fresh context of the same kind)
				rc := *c
				rc.idx, rc.start, rc.isRetry = 10+i, 0, true
				if g.Bool() {
					rc.ctxKind, rc.ctxDur = 0, 0
				}
				c.retry = &rc
			}
		}
		if slowWorker && r == 0 {
			cs[0].peer, cs[0].start, cs[0].ctxKind, cs[0].ctxDur = 0, 0, 1+g.Int(2), ctxGrid[g.Int(3)]
			if len(cs) == 1 {
				c := *cs[0]
				c.idx, c.retry = 1, nil
				cs = append(cs, &c)
			}
			cs[1].peer, cs[1].start, cs[1].ctxKind, cs[1].ctxDur = 0, startGrid[2+g.Int(4)], 0, 0
		}
		if backoffRejoin {
			if r == 0 {
				cs = cs[:1]
				*cs[0] = caller{round: 0, idx: 0, peer: 0, ctxKind: 1, ctxDur: []time.Duration{time.Second, 2 * time.Second}[g.Int(2)]}
			} else {
				for len(cs) < 2 {
					cs = append(cs, &caller{round: r, idx: len(cs)})
				}
				*cs[0] = caller{round: r, idx: 0, peer: 0}
				c := caller{round: r, idx: 1, peer: 0}
				if g.Bool() {
					c.start = []time.Duration{5 * time.Second, 5250 * time.Millisecond}[g.Int(2)] // B's back-off (5 s) is over
				} else {
					c.start, c.forceDirect = []time.Duration{3 * time.Second, 4 * time.Second}[g.Int(2)], true // back-off does not apply
				}
				*cs[1] = c
			}
		}
		if vanish != 0 {
			for len(cs) < 3 {
				cs = append(cs, &caller{round: r, idx: len(cs), ctxKind: g.Weighted(3, 1), ctxDur: 5 * time.Second})
			}
			at := startGrid[g.Int(5)]
			for _, c := range cs[:3] {
				c.peer, c.start = 0, at
			}
		}
		if w.punch && r == 0 {
			for len(cs) < 2 {
				cs = append(cs, &caller{round: r, idx: len(cs)})
			}
			for i := 0; i < 2; i++ {
				c := caller{round: r, idx: i, peer: 0, simConnect: 2, forceDirect: g.Bool()}
				if i == 1 {
					c.start = punchGrid[g.Int(2)]
				}
				if g.Chance(2, 3) {
					c.ctxKind, c.ctxDur = 2, punchCancels[i]
				}
				if g.Bool() {
					rc := c // retried at the instant of the failure: a new dial worker (and punch) next to the dying one
					rc.idx, rc.start, rc.isRetry = 10+i, 0, true
					c.retry = &rc
				}
				*cs[i] = c
			}
			if alignTarget && len(targetDials) > 0 {
				// the target dials at the very instant the punch ends: when its last caller cancels, else at the
				// 5 s HolePunchTimeout (= the dial timeout of a private address)
				end := time.Duration(0)
				for _, c := range cs[:2] {
					if c.ctxKind != 2 || c.retry != nil {
						end = 5 * time.Second
						break
					}
					if e := c.start + c.ctxDur; e > end {
						end = e
					}
				}
				if end > 5*time.Second {
					end = 5 * time.Second
				}
				targetDials[0] = end
			}
		}
		rounds = append(rounds, cs)
		for _, c := range cs {
			callers = append(callers, c)
			if c.retry != nil {
				callers = append(callers, c.retry)
			}
		}
	}
	o.Logf("quic=%v udp=%+v punch=%v dialerListensQUIC=%v reuseportOff=%v targetDialsDialerAt=%v directDuplicatePunch=%v",
		w.quic, udp, w.punch, dListenQUIC, w.reuseOff, targetDials, directDup)
	o.Logf("connections vanish: mode=%d (1 notifiee at once, 2 notifiee after %v, 3 local close at %v, 4 remote close at %v) redialFromDisconnected=%v", vanish, vanishDelay, vanishAt, vanishAt, redial)
	o.Logf("security=%s exact=%v allFail=%v stall=%d latency=%v perPeerCap=%d fdCap=%d rounds=%d gap=%v keepConns=%v slowWorker=%v backoffRejoin=%v",
		secu, exact, allFail, stall, latency, perPeerCap, fdCap, nRounds, gap, keepConns, slowWorker, backoffRejoin)
	for _, ps := range w.peers {
		o.Logf("peer p%d peerstore: %s", ps.idx, strings.Join(ps.raw, " "))
		for _, tg := range ps.targets {
			o.Logf("   target %s", tg)
		}
	}
	var hosts []string
	for h := range w.dns {
		hosts = append(hosts, h)
	}
	sort.Strings(hosts)
	for _, h := range hosts {
		e := w.dns[h]
		o.Logf("   dns %s -> fail=%v %v delay=%v ignoresCancel=%v firstLookupOnly=%v", h, e.fail, e.out, e.delay, e.ignoreCtx, e.coldOnly)
	}
	for _, c := range callers {
		o.Logf(" %s", c.describe())
	}

	var (
		finished       bool
		timedOut       bool
		notCancelled   []string // dials whose context was alive after every caller had returned
		stillRunning   []string // dials that had not returned long after
		leftGoroutines []string
		probeProblems  []common.Violation
		probesDone     int
		dialsNet       []simnet.DialRecord
		faultsFired    map[string]int
		udpCounts      map[string]int
		oneSided       []string
		socketsLeft    []string
		scopesLeft     string
		targetDialLog  []string
	)
	timeless := stall > 0 // virtual-time reasoning is off

	maxSteps := 400000
	if w.quic {
		maxSteps = 3000000
	}
	res := simrt.Run(t, simrt.Config{MaxSteps: maxSteps, StallPermille: stall, IdleLimit: 2 * time.Hour, TraceCap: 3000}, tape.S, func() {
		cfg := simnet.Config{Mode: simnet.Whole}
		if latency {
			cfg.Latencies = []time.Duration{0, 0, 5 * time.Millisecond, 80 * time.Millisecond}
		}
		n := simnet.New(tape.S, cfg)

		// caps are read when the swarm is built
		oldCap := swarm.DefaultPerPeerRateLimit
		swarm.DefaultPerPeerRateLimit = perPeerCap
		if fdCap > 0 {
			os.Setenv("LIBP2P_SWARM_FD_LIMIT", strconv.Itoa(fdCap))
		} else {
			os.Unsetenv("LIBP2P_SWARM_FD_LIMIT")
		}
		if w.quic {
			rm, err := rcmgr.NewResourceManager(rcmgr.NewFixedLimiter(rcmgr.InfiniteLimits), rcmgr.WithMetricsDisabled())
			if err != nil {
				o.Trouble = "rcmgr: " + err.Error()
				return
			}
			w.rcmgr = rm
			defer rm.Close()
		}
		D, err := newDialer(n, w, keyD, "10.0.0.1", secu,
			swarm.WithUDPBlackHoleSuccessCounter(nil), swarm.WithIPv6BlackHoleSuccessCounter(nil),
			swarm.WithMultiaddrResolver(&resolver{w}))
		swarm.DefaultPerPeerRateLimit = oldCap
		os.Unsetenv("LIBP2P_SWARM_FD_LIMIT")
		if err != nil {
			o.Trouble = "dialer: " + err.Error()
			return
		}
		var nodes []*simhost.Node
		var silent []*simnet.Listener
		defer func() {
			D.close()
			for _, nd := range nodes {
				nd.Close()
			}
			for _, l := range silent {
				l.Close()
			}
		}()
		mk := func(seed int, ip string) *simhost.Node {
			nd, err := simhost.New(n, simhost.Opts{Key: simhost.DetKey(seed), IP: ip, Security: secu, QUIC: w.quic})
			if err != nil {
				o.Trouble = "node: " + err.Error()
				return nil
			}
			nodes = append(nodes, nd)
			return nd
		}
		var T []*simhost.Node
		for i, k := range keys {
			nd := mk(k, fmt.Sprintf("10.%d.0.250", i+1))
			if nd == nil {
				return
			}
			T = append(T, nd)
		}
		Q := mk(12, "10.9.0.250")
		if Q == nil {
			return
		}
		if !exact {
			if err := D.swarm.Listen(ma.StringCast(ownAddr)); err != nil {
				o.Trouble = "dialer listen: " + err.Error()
				return
			}
		}
		if dListenQUIC {
			if err := D.swarm.Listen(ma.StringCast(ownQUIC)); err != nil {
				o.Trouble = "dialer listen quic: " + err.Error()
				return
			}
			T[0].PS.AddAddrs(D.id, []ma.Multiaddr{ma.StringCast(ownQUIC)}, peerstore.PermanentAddrTTL)
		}
		byNetKey := map[string]*target{}
		lossy := map[string]*target{}
		for _, ps := range w.peers {
			for _, tg := range ps.targets {
				if w.quic && tg.kind == tQUIC && !tg.filtered {
					var err error
					switch tg.script {
					case sSucceed, sLossyStart:
						err = T[ps.idx].Swarm.Listen(ma.StringCast(tg.key))
					case sWrongPeer:
						err = Q.Swarm.Listen(ma.StringCast(tg.key))
					}
					if err != nil {
						o.Trouble = fmt.Sprintf("listen %s: %v", tg.key, err)
						return
					}
					if tg.script == sLossyStart {
						lossy[udpKey(tg.ip, tg.port)] = tg
					}
					continue
				}
				if tg.kind != tTCP || tg.filtered {
					continue
				}
				nk := netKey(tg.ip, tg.port)
				byNetKey[nk] = tg
				var err error
				switch tg.script {
				case sHang:
					n.SetBlackhole(nk, true)
				case sSilent:
					var l *simnet.Listener
					if l, err = n.Listen(tg.ip, tg.port); err == nil {
						silent = append(silent, l)
					}
				case sSucceed, sReset, sStall:
					err = T[ps.idx].Swarm.Listen(ma.StringCast(tg.key))
				case sWrongPeer, sLie:
					err = Q.Swarm.Listen(ma.StringCast(tg.key))
				}
				if err != nil {
					o.Trouble = fmt.Sprintf("listen %s: %v", tg.key, err)
					return
				}
			}
			var addrs []ma.Multiaddr
			for _, s := range ps.raw {
				addrs = append(addrs, ma.StringCast(s))
			}
			D.ps.AddAddrs(w.ids[ps.idx], addrs, peerstore.PermanentAddrTTL)
		}
		n.OnConn(func(d, l *simnet.Conn) {
			tg := byNetKey[d.RemoteAddr().String()]
			if tg == nil || (tg.script != sReset && tg.script != sStall) {
				return
			}
			end := d
			if tg.onListener {
				end = l
			}
			end.InjectFault(simnet.Fault{Kind: tg.fault, AtCall: tg.faultAt})
		})
		if w.quic {
			n.SetUDP(udp)
			if len(lossy) > 0 {
				n.SetUDPFilter(func(from, to *net.UDPAddr, _ []byte) simnet.UDPVerdict {
					k := net.JoinHostPort(to.IP.String(), fmt.Sprint(to.Port))
					if tg := lossy[k]; tg != nil && w.udpLost[k] < tg.faultAt {
						w.udpLost[k]++
						return simnet.UDPDrop
					}
					return simnet.UDPPass
				})
			}
		}
		simrt.WaitIdle()
		base := goroutines()

		var callFn func(c *caller)
		extraLeft := 0
		inRound := false // re-dials only while the round's callers are inside (not during the audit's closes)
		// an application that re-dials from inside its Disconnected handler: the call begins after the connection is
		// gone and, often, before the caller that was answered with it has released the dial worker
		w.onDisc = func(peer int) {
			if !redial || !inRound || callFn == nil || redials >= 3 || peer < 0 {
				return
			}
			c := &caller{round: 80, idx: redials, peer: peer, ctxKind: 1, ctxDur: 5 * time.Second, invokedOnDisc: true}
			redials++
			callers = append(callers, c)
			extraLeft++
			simrt.GoNamed(c.name(), func() {
				callFn(c)
				extraLeft--
			})
		}
		runCallers := func(cs []*caller, bound time.Duration) bool {
			done := make(chan struct{})
			left := len(cs)
			var call func(c *caller)
			call = func(c *caller) {
				ctx := context.Background()
				if c.forceDirect {
					ctx = network.WithForceDirectDial(ctx, "c05")
				}
				switch c.simConnect {
				case 1:
					ctx = network.WithSimultaneousConnect(ctx, true, "c05")
				case 2:
					ctx = network.WithSimultaneousConnect(ctx, false, "c05")
				}
				if c.allowLimited {
					ctx = network.WithAllowLimitedConn(ctx, "c05")
				}
				c.dpt = network.DialPeerTimeout
				cancel := context.CancelFunc(func() {})
				now := simrt.Now()
				switch c.ctxKind {
				case 1:
					ctx, cancel = context.WithTimeout(ctx, c.ctxDur)
					c.hasOwnLimit, c.ownLimitAt = true, now+c.ctxDur
				case 2:
					ctx, cancel = context.WithCancel(ctx)
					c.hasOwnLimit, c.ownLimitAt = true, now+c.ctxDur
					cn := cancel
					simrt.GoNamed(c.name()+".cancel", func() {
						simrt.TimeSleep(c.ctxDur)
						if !c.returned {
							c.cancelled, c.cancelAt, c.cancelStamp = true, simrt.Now(), simrt.Stamp()
						}
						cn()
					})
				case 3:
					ctx = network.WithDialPeerTimeout(ctx, c.ctxDur)
					c.dpt = c.ctxDur
				}
				c.invoked = true
				c.invAt, c.inv = simrt.Now(), simrt.Stamp()
				conn, err := D.swarm.DialPeer(ctx, w.ids[c.peer])
				c.ret, c.retAt = simrt.Stamp(), simrt.Now()
				c.ctxErr = ctx.Err()
				c.returned = true
				c.err = err
				if conn != nil {
					c.ok = err == nil
					c.connPeer = conn.RemotePeer()
					c.connAddr = conn.RemoteMultiaddr().String()
					c.connID = conn.ID()
					c.connLimited = conn.Stat().Limited
					_, err := conn.RemoteMultiaddr().ValueForProtocol(ma.P_CIRCUIT)
					c.connProxy = err == nil
				}
				cancel()
			}
			callFn = call
			for _, c := range cs {
				simrt.GoNamed(c.name(), func() {
					if c.start > 0 {
						simrt.TimeSleep(c.start)
					}
					call(c)
					if c.retry != nil {
						if !c.ok {
							call(c.retry)
						}
					}
					left--
					if left == 0 {
						close(done)
					}
				})
			}
			tm := time.NewTimer(bound)
			defer tm.Stop()
			return simrt.Select("main.wait", false, simrt.RecvCase((<-chan struct{})(done)), simrt.RecvCase(tm.C)) == 0
		}
		closeConns := func() {
			for _, c := range D.swarm.Conns() {
				c.Close()
			}
		}
		bound := 140 * time.Second // > latest start (5.25 s) + 2 x dial-peer timeout (first call and retry) + slack
		if timeless {
			bound = 24 * time.Hour
		}

		nf := &noti{w: w, delay: vanishDelay}
		if vanish == 1 || vanish == 2 {
			nf.mode = vanish
		}
		D.swarm.Notify(nf)
		sideLeft := 0
		sideDone := make(chan struct{})
		side := func(name string, f func()) {
			sideLeft++
			simrt.GoNamed(name, func() {
				f()
				sideLeft--
				if sideLeft == 0 {
					close(sideDone)
				}
			})
		}
		for i, d := range targetDials {
			side(fmt.Sprintf("target-dials-dialer%d", i), func() {
				simrt.TimeSleep(d)
				ctx, cancel := context.WithTimeout(context.Background(), 10*time.Second)
				at := simrt.Now()
				_, err := T[0].Swarm.DialPeer(ctx, D.id)
				cancel()
				targetDialLog = append(targetDialLog, fmt.Sprintf("p0 dials D at %v: returned at %v err=%v", at, simrt.Now(), err))
			})
		}
		if vanish == 3 || vanish == 4 {
			for i, d := range vanishAt {
				side(fmt.Sprintf("conn-closer%d", i), func() {
					simrt.TimeSleep(d)
					if vanish == 3 {
						for _, c := range D.swarm.ConnsToPeer(w.ids[0]) {
							w.conn(c).closedBy = "local close task"
							c.Close()
						}
					} else {
						for _, c := range D.swarm.ConnsToPeer(w.ids[0]) {
							w.conn(c).closedBy = "remote close task"
						}
						T[0].Swarm.ClosePeer(D.id)
					}
				})
			}
		}
		if directDup && D.qt != nil {
			// two overlapping hole punches to one (address, peer) handed to the transport itself: the second is
			// turned away ("already punching hole"); both must give back what they took
			dead := ma.StringCast("/ip4/10.9.9.9/udp/4001/quic-v1")
			for i := 0; i < 2; i++ {
				side(fmt.Sprintf("direct-punch%d", i), func() {
					ctx, cancel := context.WithTimeout(network.WithSimultaneousConnect(context.Background(), false, "c05"), time.Second)
					c, err := D.qt.Dial(ctx, dead, w.qID)
					cancel()
					if c != nil {
						c.Close()
					}
					targetDialLog = append(targetDialLog, fmt.Sprintf("direct punch %d returned at %v err=%v", i, simrt.Now(), err))
				})
			}
		}
		for r, cs := range rounds {
			inRound = true
			ok := runCallers(cs, bound)
			inRound = false
			if !ok {
				timedOut = true
				return
			}
			for i := 0; extraLeft > 0 && i < 200; i++ {
				simrt.TimeSleep(100 * time.Millisecond) // re-dials started from Disconnected handlers (5 s deadline)
			}
			if extraLeft > 0 {
				timedOut = true
				return
			}
			// (7a) every caller has returned: the context of every dial still running must have ended
			// (the last caller cancels the shared context before it returns, so this holds at once)
			for _, rec := range w.recs {
				if rec.end == 0 && rec.ctx.Err() == nil {
					notCancelled = append(notCancelled, rec.String())
				}
			}
			simrt.WaitIdle()
			if r+1 < len(rounds) {
				if !keepConns {
					closeConns()
				}
				simrt.TimeSleep(gap)
				simrt.WaitIdle()
			}
		}
		// ---- residue ---------------------------------------------------------------------------
		if sideLeft > 0 {
			simrt.Recv("side-tasks", (<-chan struct{})(sideDone))
		}
		simrt.WaitIdle()
		closeConns()
		if w.quic {
			// an inbound QUIC connection whose last handshake datagram was lost or delayed reaches D's swarm
			// after the remote's dial has returned: close what D lists once more after every handshake timeout
			simrt.TimeSleep(30 * time.Second)
			simrt.WaitIdle()
			closeConns()
		}
		simrt.WaitIdle()
		simrt.TimeSleep(3 * time.Minute) // past dial (15 s), accept (15 s), negotiation, keep-alive and QUIC idle (30 s) timeouts, quicreuse's gc (10 s unused, every 30 s)
		simrt.WaitIdle()
		if w.quic {
			// every connection D listed was closed 3 minutes ago: nobody may still hold a connection to D (a
			// one-sided connection is an attempt that remained), D's resource manager reads zero, D has no UDP
			// socket besides its listening one
			for i, nd := range append(append([]*simhost.Node{}, T...), Q) {
				if cs := nd.Swarm.ConnsToPeer(D.id); len(cs) > 0 {
					who := "the honest other peer"
					if i < len(T) {
						who = fmt.Sprintf("p%d", i)
					}
					oneSided = append(oneSided, fmt.Sprintf("%s lists %d connection(s) to D (%s), D lists %d", who, len(cs), cs[0].RemoteMultiaddr(), len(D.swarm.Conns())))
				}
			}
			if st, ok := w.rcmgr.(rcmgr.ResourceManagerState); ok {
				x := st.Stat()
				if (x.System != network.ScopeStat{}) || (x.Transient != network.ScopeStat{}) {
					scopesLeft = fmt.Sprintf("system=%+v transient=%+v", x.System, x.Transient)
				}
			}
			for _, sk := range n.UDPSockets() {
				if strings.HasPrefix(sk, "10.0.0.1:") && !(dListenQUIC && sk == "10.0.0.1:4001") {
					socketsLeft = append(socketsLeft, sk)
				}
			}
		}
		for _, rec := range w.recs {
			if rec.end == 0 {
				stillRunning = append(stillRunning, rec.String())
			}
		}
		leftGoroutines = newGoroutines(base, goroutines())

		// ---- token probes: a fresh dial to hanging addresses must get every token at once --------
		if len(stillRunning) == 0 && len(leftGoroutines) == 0 && !timeless {
			tokenProbe := func(class string, sets map[int][]*target, want int) bool {
				var cs []*caller
				fresh := map[string]bool{}
				for pi := range w.peers {
					tgs := sets[pi]
					if len(tgs) == 0 {
						continue
					}
					var addrs []ma.Multiaddr
					for _, tg := range tgs {
						tg.key = canon(tg.key)
						tg.peer = pi
						w.targets[tg.key] = tg
						w.peers[pi].known[tg.key] = true
						fresh[tg.key] = true
						if tg.kind == tTCP {
							n.SetBlackhole(netKey(tg.ip, tg.port), true)
						}
						addrs = append(addrs, ma.StringCast(tg.key))
					}
					D.ps.ClearAddrs(w.ids[pi])
					D.ps.AddAddrs(w.ids[pi], addrs, peerstore.PermanentAddrTTL)
					c := &caller{round: 90 + probesDone, idx: pi, peer: pi, ctxKind: 1, ctxDur: 4 * time.Second, probe: true}
					cs = append(cs, c)
					callers = append(callers, c)
				}
				probesDone++
				okc := make(chan bool, 1)
				simrt.GoNamed("probe-wait", func() { okc <- runCallers(cs, 30*time.Second) })
				simrt.TimeSleep(2 * time.Second) // past every ranking delay (<= 2 x 250 ms here)
				simrt.WaitIdle()
				inflight := 0
				for _, rec := range w.recs {
					if fresh[rec.addr] && rec.end == 0 {
						inflight++
					}
				}
				good := inflight == want
				if !good {
					probeProblems = append(probeProblems, common.Violation{Class: class, Detail: fmt.Sprintf(
						"after everything had ended (no dial running, no goroutine left) a fresh DialPeer to %d hanging addresses had %d dials in flight 2 s later, want %d (perPeerCap=%d fdCap=%d)",
						len(fresh), inflight, want, perPeerCap, fdCap)})
				}
				if !simrt.Recv("probe-wait", (<-chan bool)(okc)) {
					timedOut = true
					return false
				}
				simrt.WaitIdle()
				simrt.TimeSleep(time.Second)
				simrt.WaitIdle()
				return good
			}
			// per-peer tokens: cap hanging QUIC addresses (no FD) for each target peer
			sets := map[int][]*target{}
			for pi := range w.peers {
				for j := 0; j < perPeerCap; j++ {
					sets[pi] = append(sets[pi], &target{kind: tQUIC, script: sHang, public: true,
						key: fmt.Sprintf("/ip4/44.%d.9.%d/udp/4001/quic-v1", pi+1, j+1)})
				}
			}
			good := tokenProbe("C05/token-leaked/per-peer", sets, perPeerCap*len(w.peers))
			if timedOut {
				return
			}
			// FD tokens: exactly fdCap black-holed TCP addresses spread over the peers
			if good && fdCap > 0 && fdCap <= perPeerCap*len(w.peers) {
				sets := map[int][]*target{}
				k := 0
				for pi := range w.peers {
					for j := 0; j < perPeerCap && k < fdCap; j++ {
						ip := fmt.Sprintf("44.%d.8.%d", pi+1, j+1)
						sets[pi] = append(sets[pi], &target{kind: tTCP, script: sHang, public: true, ip: ip, port: 4001,
							key: fmt.Sprintf("/ip4/%s/tcp/4001", ip)})
						k++
					}
				}
				tokenProbe("C05/token-leaked/fd", sets, fdCap)
				if timedOut {
					return
				}
			}
			simrt.TimeSleep(30 * time.Second)
			simrt.WaitIdle()
		}
		dialsNet = n.Dials()
		faultsFired = n.FaultsFired()
		udpCounts = n.UDPCounts()
		finished = true
	})
	o.Sched = res
	o.Virtual = res.Virtual
	if res.Panic != "" {
		o.Violate("C05/panic", "%s", res.Panic)
		return o
	}
	if res.StepLimit {
		o.Trouble = "step limit"
		return o
	}
	if o.Trouble != "" {
		return o
	}

	{
		kept := callers[:0]
		for _, c := range callers {
			if !c.isRetry || c.invoked {
				kept = append(kept, c)
			}
		}
		callers = kept
	}
	// ---- history ---------------------------------------------------------------------------------
	for _, l := range targetDialLog {
		o.Logf("%s", l)
	}
	for _, r := range w.recs {
		o.Logf("dial %s", r)
	}
	for _, c := range callers {
		extra := ""
		if c.cancelled {
			extra = fmt.Sprintf(" cancelled@%d/%v", c.cancelStamp, c.cancelAt)
		}
		if c.ok {
			extra += " conn=" + c.connAddr
		}
		o.Logf("%s p%d inv=%d@%v ret=%d@%v %s ctx=%v%s", c.name(), c.peer, c.inv, c.invAt, c.ret, c.retAt, c.outcome(), c.ctxErr, extra)
		if c.returned && !c.ok && c.err != nil && !c.probe {
			o.Logf("     err: %s", strings.ReplaceAll(c.err.Error(), "\n", " | "))
		}
	}

	// ---- oracles ---------------------------------------------------------------------------------
	// (1) every caller returns
	for _, c := range callers {
		if !c.returned {
			o.Violate("C05/caller-never-returned", "%s (%s) had not returned %v after the round started; stuck=%v", c.name(), c.describe(), 140*time.Second, res.Stuck)
		}
	}
	if timedOut || res.Stuck || !finished {
		if len(o.Violations) == 0 {
			o.Violate("C05/deadlock", "run did not finish (stuck=%v): %v", res.Stuck, res.Residue)
		}
		return o
	}
	for _, c := range callers {
		checkCaller(o, w, c, callers, exact, timeless)
	}
	checkLiveness(o, w, callers, exact && allFail && !timeless && !latency, fdCap)
	checkAnswered(o, w, callers, exact && !timeless)
	checkSharedSuccess(o, w, callers, !timeless && !w.punch) // with inbound connections a caller may be served from the connection table while others still dial
	checkRecords(o, w, callers, perPeerCap, fdCap, timeless)

	// (7) residue
	for _, s := range notCancelled {
		o.Violate("C05/dial-not-cancelled-after-last-caller", "every caller had returned but the context of this dial was still alive: %s", s)
	}
	for _, s := range stillRunning {
		o.Violate("C05/dial-still-running", "3 virtual minutes after the last caller returned this dial had not returned: %s", s)
	}
	if len(leftGoroutines) > 0 {
		cls := "other"
		for _, gr := range leftGoroutines {
			if strings.Contains(gr, "dialWorker") || strings.Contains(gr, "dialLimiter") || strings.Contains(gr, "dialSync") ||
				strings.Contains(gr, "activeDial") || strings.Contains(gr, "dialAddr") {
				cls = "dial"
			}
		}
		o.Violate("C05/goroutine-left/"+cls, "goroutines that did not exist before the first round, 3 virtual minutes after the last caller returned and every connection was closed: %v", leftGoroutines)
	}
	for _, x := range oneSided {
		o.Violate("C05/one-sided-connection-left", "3 virtual minutes after every caller had returned and every connection D listed was closed: %s", x)
	}
	if scopesLeft != "" {
		o.Violate("C05/resource-scope-not-released", "3 virtual minutes after every caller had returned and every connection D listed was closed, D's resource manager reads %s", scopesLeft)
	}
	if len(socketsLeft) > 0 {
		o.Violate("C05/udp-socket-left", "3 virtual minutes after every caller had returned and every connection was closed D still has UDP socket(s) %v besides its listening one (reuseport off=%v)", socketsLeft, w.reuseOff)
	}
	o.Violations = append(o.Violations, probeProblems...)
	var resid []string
	for _, gr := range res.Residue {
		if !strings.Contains(gr, "verifsim/simnet.") && !strings.Contains(gr, "harness/c05.run") {
			resid = append(resid, gr)
		}
	}
	if len(resid) > 0 && len(o.Violations) == 0 {
		o.Violate("C05/residue-after-close", "goroutines alive after every node was closed: %v", resid)
	}

	// ---- evidence --------------------------------------------------------------------------------
	for k, v := range faultsFired {
		if strings.HasPrefix(k, "udp-") {
			continue // counted below
		}
		for i := 0; i < v; i++ {
			o.Fault("io-" + k)
		}
	}
	for _, k := range []string{"udp-lost", "udp-duplicated", "udp-delayed", "udp-filtered", "udp-no-socket"} {
		if v := udpCounts[k]; v > 0 {
			if o.Faults == nil {
				o.Faults = map[string]int{}
			}
			o.Faults[k] += v
		}
	}
	drawnTCP := map[string]bool{}
	for _, ps := range w.peers {
		for _, tg := range ps.targets {
			if tg.kind == tTCP {
				drawnTCP[netKey(tg.ip, tg.port)] = true
			}
		}
	}
	for _, d := range dialsNet {
		if drawnTCP[d.To] && (d.Outcome == "refused" || d.Outcome == "blackholed") {
			o.Fault("tcp-" + d.Outcome)
		}
	}
	for _, r := range w.recs {
		tg := w.targets[r.addr]
		if tg == nil || w.peers[tg.peer].target(r.addr) == nil {
			continue // unknown address or an address of the token probes
		}
		if r.kind == tQUIC && w.quic && r.end != 0 {
			if tg.script != sSucceed {
				o.Fault("quic-" + scriptName[tg.script])
			}
		} else if r.kind != tTCP && r.end != 0 {
			o.Fault("stub-" + scriptName[tg.script])
		}
		if r.kind == tTCP && r.end != 0 {
			switch tg.script {
			case sSilent, sWrongPeer, sLie:
				o.Fault("tcp-" + scriptName[tg.script])
			}
		}
		if r.cancelledAtStart {
			o.Probe("dial-started-with-dead-context")
		}
	}
	probes(o, w, callers, perPeerCap, fdCap)
	for _, cr := range w.connOrder {
		if cr.disc == 0 || cr.peer < 0 {
			continue
		}
		inside := false
		for _, c := range callers {
			if c.peer == cr.peer && c.returned && !c.probe && c.inv < cr.disc && cr.disc < c.ret {
				inside = true
			}
		}
		if inside {
			o.Fault("conn-closed-while-callers-inside")
		}
		for _, c := range callers {
			if c.peer != cr.peer || !c.returned || c.probe || c.inv < cr.disc {
				continue
			}
			// another caller kept the worker alive from before the close until after this invocation
			for _, x := range callers {
				if x != c && x.peer == c.peer && x.returned && x.inv < cr.seen && x.ret > c.inv {
					o.Probe("caller-invoked-after-close-while-worker-alive")
					if c.ok && c.connID != cr.id {
						o.Probe("caller-invoked-after-close-got-another-connection")
					}
					break
				}
			}
		}
	}
	if w.punch {
		// hole-punch sub-stratum
		for _, r := range w.recs {
			if r.addr != canon(punchAddr) || r.end == 0 {
				continue
			}
			if r.ok {
				o.Probe("hole-punch-got-the-inbound-connection")
			}
			for _, d := range targetDials {
				if r.endAt == d && !r.ok {
					o.Probe("hole-punch-gave-up-at-instant-of-target-dial")
				}
				if r.endAt == d && r.ok {
					o.Probe("hole-punch-served-at-instant-of-target-dial")
				}
			}
		}
		for _, l := range targetDialLog {
			if strings.Contains(l, "already punching hole") {
				o.Probe("overlapping-hole-punch-turned-away")
			}
			if strings.HasPrefix(l, "p0 dials D") && strings.HasSuffix(l, "err=<nil>") {
				o.Probe("target-dialed-dialer")
			}
		}
	}
	var sig strings.Builder
	fmt.Fprintf(&sig, "%s|%v|%v|%d|%d|%v;", secu, exact, allFail, perPeerCap, fdCap, w.quic)
	for _, c := range callers {
		if !c.probe {
			fmt.Fprintf(&sig, "%d:%s:%s;", c.peer, c.outcome(), c.connAddr)
		}
	}
	counts := map[string]int{}
	for _, r := range w.recs {
		counts[r.addr]++
	}
	var ks []string
	for k := range counts {
		ks = append(ks, k)
	}
	sort.Strings(ks)
	for _, k := range ks {
		fmt.Fprintf(&sig, "%s=%d;", k, counts[k])
	}
	o.Sig = sig.String()
	// non-trivial: at least one address was handed to a transport or refused by back-off for a drawn caller
	for _, r := range w.recs {
		if tg := w.targets[r.addr]; tg != nil && w.peers[tg.peer].target(r.addr) != nil {
			o.Nontrivial = true
		}
	}
	return o
}

// ---- per-caller oracles (1) time bound, (2) success, (3) failure, (6) cancellation ------------------

func sessionStart(c *caller, callers []*caller) uint64 {
	// maximal union of overlapping [inv, ret] intervals of the peer's callers containing c: every
	// generation c may belong to began inside it
	var cs []*caller
	for _, x := range callers {
		if x.peer == c.peer && x.returned {
			cs = append(cs, x)
		}
	}
	sort.Slice(cs, func(i, j int) bool { return cs[i].inv < cs[j].inv })
	var start, end uint64
	for _, x := range cs {
		if start == 0 || x.inv > end {
			start, end = x.inv, x.ret
		} else if x.ret > end {
			end = x.ret
		}
		if x == c {
			return start
		}
	}
	return c.inv
}

func checkCaller(o *common.Outcome, w *world, c *caller, callers []*caller, exact, timeless bool) {
	if !c.returned {
		return
	}
	pid := w.ids[c.peer]
	if !c.ok && c.err == nil {
		o.Violate("C05/empty-result", "%s: DialPeer returned neither a connection nor an error", c.name())
		return
	}
	// (1) no later than min(own deadline, dial-peer timeout) + 1 s
	if !timeless && c.retAt > c.limitAt()+time.Second {
		o.Violate("C05/returned-after-deadline", "%s invoked at %v with limit %v returned at %v", c.name(), c.invAt, c.limitAt(), c.retAt)
	}
	// (6) a cancelled caller is released within 1 s
	if !timeless && c.cancelled && c.cancelStamp < c.ret && c.retAt > c.cancelAt+time.Second {
		o.Violate("C05/cancelled-caller-not-released", "%s cancelled at %v returned at %v", c.name(), c.cancelAt, c.retAt)
	}
	if c.ok {
		// (2)
		if c.connPeer != pid {
			o.Violate("C05/connection-to-wrong-peer", "%s dialed p%d but got a connection whose RemotePeer is another peer (remote address %s)", c.name(), c.peer, c.connAddr)
		}
		if c.forceDirect && (c.connLimited || c.connProxy) {
			o.Violate("C05/force-direct-got-relayed", "%s asked for a direct connection and got limited=%v proxy=%v", c.name(), c.connLimited, c.connProxy)
		}
		// (2c) usable connection: not one whose Disconnected notification had been delivered before this call
		// began (a close that races with the call is legitimate: it may land after the answer was chosen)
		if cr := w.conns[c.connID]; cr != nil && cr.disc != 0 && cr.disc < c.inv {
			kind := "tcp"
			if strings.Contains(c.connAddr, "/quic") {
				kind = "quic"
			}
			o.Violate("C05/returned-connection-closed-before-call/"+kind, "%s (invoked at stamp %d) got connection %s over %s with a nil error, but Disconnected for that connection had been delivered at stamp %d (closed by: %s)",
				c.name(), c.inv, cr.id, c.connAddr, cr.disc, cr.closedBy)
		}
		if tg := w.targets[c.connAddr]; tg != nil && (tg.script == sWrongPeer || tg.script == sLie) {
			o.Violate("C05/connection-to-wrong-peer", "%s got a connection to %s, which is served by another peer", c.name(), c.connAddr)
		}
		return
	}
	// (3) failure
	expired := c.ctxErr != nil || c.retAt-c.invAt >= c.dpt
	if expired {
		return // either error is accepted when the context ended
	}
	var de *swarm.DialError
	if !errors.As(c.err, &de) {
		o.Violate("C05/error-not-dialerror", "%s failed at %v (invoked %v, own context alive, dial-peer timeout %v not reached) with an error that is not a *swarm.DialError: %v",
			c.name(), c.retAt, c.invAt, c.dpt, c.err)
		return
	}
	if c.probe {
		return
	}
	lastRec := func(addr string) *dialRec {
		var best *dialRec
		for _, r := range w.recs {
			if r.peer == c.peer && r.addr == addr && r.end != 0 && r.end < c.ret && (best == nil || r.end > best.end) {
				best = r
			}
		}
		return best
	}
	backoff := map[string]bool{}
	for _, te := range de.DialErrors {
		a := te.Address.String()
		if errors.Is(te.Cause, swarm.ErrDialBackoff) {
			backoff[a] = true
		}
		// (6) the shared attempt must not be cancelled while a caller (this one) is still waiting
		if errors.Is(te.Cause, context.Canceled) {
			o.Violate("C05/shared-attempt-cancelled", "%s (own context alive) was told that the dial of %s was cancelled: %v", c.name(), a, te.Cause)
		} else if errors.Is(te.Cause, context.DeadlineExceeded) && !timeless {
			// dial timeouts are 5 s (private) / 15 s; a dial whose context expired earlier was not bounded by its own timeout
			if r := lastRec(a); r != nil && r.ctxErrAtEnd != nil && r.endAt-r.startAt < 5*time.Second {
				o.Violate("C05/shared-attempt-cancelled", "%s (own context alive) was told that the dial of %s timed out, but its context ended %v after it started (dial timeouts are 5 s / 15 s): %s",
					c.name(), a, r.endAt-r.startAt, r)
			}
		}
	}
	if !timeless {
		checkBackoffRefusals(o, w, c, callers, backoff)
	}
	if !exact || de.Skipped > 0 {
		return
	}
	ss := sessionStart(c, callers)
	for _, tg := range w.peers[c.peer].targets {
		if c.forceDirect && tg.kind == tCircuit {
			continue
		}
		attempted := false
		failedBefore := false
		for _, r := range w.recs {
			if r.peer != c.peer || r.addr != tg.key || r.end == 0 || r.end > c.ret {
				continue
			}
			if !r.ok || tg.script == sLie { // a connection to the wrong peer is a failed dial for the swarm
				failedBefore = true
			}
			if r.start > ss && !r.cancelledAtStart {
				attempted = true
			}
		}
		if attempted {
			continue
		}
		if backoff[tg.key] {
			if !failedBefore {
				o.Violate("C05/backoff-without-failure", "%s: %s was refused as being in back-off although no dial of it had failed before", c.name(), tg.key)
			}
			continue
		}
		o.Violate("C05/eligible-address-not-attempted/"+kindName[tg.kind], "%s failed with a DialError (context alive) but %s (has a transport, not filtered, no back-off refusal reported) has no finished dial since stamp %d; error: %s",
			c.name(), tg.key, ss, strings.ReplaceAll(c.err.Error(), "\n", " | "))
	}
}

// dnsSlack bounds how long the peer's dial worker can be busy resolving names instead of serving
// requests: every request resolves every name of the peer once.
func dnsSlack(w *world, peer, nCallers int) time.Duration {
	var d time.Duration
	for _, e := range w.dns {
		if e.peer == peer {
			d += e.delay
		}
	}
	return time.Duration(nCallers) * d
}

// (3b) bounded liveness: when every script fails, a caller whose limit is far enough gets the
// DialError before its limit. Bound: ranking delays (<= 1 s per address) + name resolution + the
// time other dials can keep the tokens this caller's dials wait for. Dials of a generation whose
// callers have all left end at once (every failing script here honours its context), so when the
// FD cap cannot bind only the peer's own addresses count, each once; when it can bind, every dial
// of every generation of the run may be ahead in the (work-conserving, FIFO) queues: at most one
// generation per caller, each address once per generation.
func checkLiveness(o *common.Outcome, w *world, callers []*caller, enabled bool, fdCap int) {
	if !enabled {
		return
	}
	fds := 0
	var all time.Duration
	for _, ps := range w.peers {
		for _, tg := range ps.targets {
			all += tg.maxDur()
			if tg.fd() {
				fds++
			}
		}
	}
	n := 0
	for _, c := range callers {
		if !c.probe {
			n++
		}
	}
	for _, c := range callers {
		if c.probe || !c.returned || c.ok {
			continue
		}
		ps := w.peers[c.peer]
		bound := time.Duration(len(ps.targets)+2)*time.Second + dnsSlack(w, c.peer, n)
		if fdCap > 0 && fdCap < fds {
			bound += time.Duration(n) * all
		} else {
			for _, tg := range ps.targets {
				bound += tg.maxDur()
			}
		}
		if c.limitAt() <= c.invAt+bound+time.Second {
			continue
		}
		o.Probe("liveness-asserted")
		var de *swarm.DialError
		if !errors.As(c.err, &de) || c.retAt > c.invAt+bound {
			o.Violate("C05/all-scripts-fail-but-no-dial-error-in-time", "%s: every address of every peer fails within its script (ranking delays, resolution and script durations that can be ahead of this caller sum to <= %v), the caller's limit is %v after the invocation, yet it returned %v after with: %v",
				c.name(), bound, c.limitAt()-c.invAt, c.retAt-c.invAt, c.err)
		}
	}
}

// (3d) a back-off refusal must be true. Back-off of an address starts when the worker learns of a failed
// dial (at its end, or later by at most the name-resolution slack) and lasts, as documented at
// DialBackoff.AddBackoff, BackoffBase + BackoffCoef * priorBackoffs^2, at most BackoffMax; with n failed
// dials so far that is at most min(BackoffBase + n^2 * BackoffCoef, BackoffMax). A refusal is decided no
// earlier than the caller's invocation (an address refused for an earlier request is forgotten by the
// worker, so that "it doesn't inhibit new dial requests"), hence a caller invoked after that instant must
// not be told "dial backoff". A WithForceDirectDial caller is exempt from back-off altogether; it can only
// inherit a refusal of an address that a request WITHOUT the flag had scheduled and the worker had not
// looked at yet, i.e. when such a caller was invoked less than (largest ranking delay + 250 ms per TCP
// address of handshake wait + resolution slack + 1 s) before it, or after it.
func checkBackoffRefusals(o *common.Outcome, w *world, c *caller, callers []*caller, refused map[string]bool) {
	if len(refused) == 0 {
		return
	}
	n := 0
	for _, x := range callers {
		if !x.probe {
			n++
		}
	}
	slack := dnsSlack(w, c.peer, n)
	var addrs []string
	for a := range refused {
		addrs = append(addrs, a)
	}
	sort.Strings(addrs)
	for _, a := range addrs {
		fails := 0
		var last time.Duration
		for _, r := range w.recs {
			tg := w.targets[r.addr]
			if r.peer == c.peer && r.addr == a && r.end != 0 && r.end < c.ret && (!r.ok || (tg != nil && tg.script == sLie)) {
				fails++
				if r.endAt > last {
					last = r.endAt
				}
			}
		}
		if fails == 0 {
			continue // backoff-without-failure is reported by the eligibility oracle
		}
		if !c.forceDirect {
			length := swarm.BackoffBase + time.Duration(fails*fails)*swarm.BackoffCoef
			if length > swarm.BackoffMax {
				length = swarm.BackoffMax
			}
			if over := last + slack + length; c.invAt > over+time.Second {
				o.Violate("C05/backoff-refusal-after-backoff-ended", "%s (invoked %v) was told that %s is in back-off, but its last failed dial (of %d) ended at %v, so the back-off was over by %v at the latest",
					c.name(), c.invAt, a, fails, last, over)
			}
			continue
		}
		var ms []ma.Multiaddr
		tcps := 0
		for _, tg := range w.peers[c.peer].targets {
			ms = append(ms, ma.StringCast(tg.key))
			if tg.kind == tTCP {
				tcps++
			}
		}
		window := time.Second + slack + time.Duration(tcps)*swarm.PublicTCPDelay
		var maxDelay time.Duration
		for _, ad := range swarm.DefaultDialRanker(ms) {
			if ad.Delay > maxDelay {
				maxDelay = ad.Delay
			}
		}
		window += maxDelay
		inherited := false
		for _, x := range callers {
			if x != c && x.peer == c.peer && x.invoked && !x.forceDirect && x.inv < c.ret && x.invAt+window >= c.invAt {
				inherited = true
			}
		}
		if !inherited {
			o.Violate("C05/backoff-refusal-for-force-direct", "%s (WithForceDirectDial, invoked %v) was told that %s is in back-off; no caller without the flag was invoked within %v before it or while it waited",
				c.name(), c.invAt, a, window)
		}
	}
}

// (2b) a connection obtained while several callers wait releases all of them ("success answers every
// request interested in the address"): if caller A got a connection over a cleanly served address X at
// instant t, every caller of that peer invoked before t (hence attached to the same worker, or served
// from the connection table later) is released by t + name-resolution slack + 1 s.
// Weaker reading: asserted only when no dial of X had failed earlier in the run. A request stops being
// "interested" in X once X was refused by back-off (or failed) for it; if a later joiner's dial of X
// then succeeds, the unchanged code releases such a request only when its remaining addresses have
// finished (observed: 3 s later, with the connection). The statement does not bound that, so it is
// not asserted.
func checkSharedSuccess(o *common.Outcome, w *world, callers []*caller, enabled bool) {
	if !enabled {
		return
	}
	n := 0
	for _, c := range callers {
		if !c.probe {
			n++
		}
	}
	for _, a := range callers {
		tg := w.targets[a.connAddr]
		if a.probe || !a.returned || !a.ok || tg == nil || tg.script != sSucceed || tg.peer != a.peer {
			continue
		}
		failedBefore := false
		for _, r := range w.recs {
			if r.peer == a.peer && r.addr == a.connAddr && r.end != 0 && !r.ok && r.end < a.ret {
				failedBefore = true
			}
		}
		if failedBefore {
			continue
		}
		for _, b := range callers {
			if b == a || b.probe || b.peer != a.peer || !b.returned || b.invAt >= a.retAt || b.ret < a.ret {
				continue
			}
			if cr := w.conns[a.connID]; cr != nil && cr.disc != 0 && cr.disc < b.ret {
				continue // the connection A got vanished while B was still inside: B may need a new dial
			}
			o.Probe("shared-success-asserted")
			if b.retAt > a.retAt+dnsSlack(w, a.peer, n)+time.Second {
				o.Violate("C05/connection-obtained-but-caller-kept-waiting", "%s got a connection over %s at %v; %s (invoked %v, same peer) was waiting then and returned only at %v with: %v",
					a.name(), a.connAddr, a.retAt, b.name(), b.invAt, b.retAt, b.err)
			}
		}
	}
}

// (3c) a caller is answered when its last address has failed: if every eligible address has a
// failed dial that certainly belongs to the generation the caller is in (started at a later
// virtual instant than the invocation, shared context alive) the DialError is due at the end of
// the last of them; waiting on until the own limit is a lost answer.
func checkAnswered(o *common.Outcome, w *world, callers []*caller, enabled bool) {
	if !enabled {
		return
	}
	n := 0
	for _, c := range callers {
		if !c.probe {
			n++
		}
	}
	for _, c := range callers {
		if c.probe || !c.returned || c.ok {
			continue
		}
		ps := w.peers[c.peer]
		var last time.Duration
		complete, considered := true, 0
		for _, tg := range ps.targets {
			if c.forceDirect && tg.kind == tCircuit {
				continue
			}
			considered++
			found := false
			for _, r := range w.recs {
				if r.peer == c.peer && r.addr == tg.key && r.end != 0 && !r.cancelledAtStart && r.startAt > c.invAt && r.end < c.ret &&
					(!r.ok || tg.script == sLie) && !errors.Is(r.ctxErrAtEnd, context.Canceled) {
					found = true
					if r.endAt > last {
						last = r.endAt
					}
				}
			}
			if !found {
				complete = false
				break
			}
		}
		if !complete || considered == 0 {
			continue
		}
		o.Probe("answer-due-asserted")
		due := last + dnsSlack(w, c.peer, n) + time.Second
		if c.retAt > due {
			o.Violate("C05/all-addresses-failed-but-caller-kept-waiting", "%s (invoked %v): every eligible address of p%d had a failed dial of the live generation, the last one ended at %v, yet the caller returned only at %v with: %v",
				c.name(), c.invAt, c.peer, last, c.retAt, c.err)
		}
	}
}

// ---- oracles over the transport records: known addresses, (4) at most once, (5) caps ----------------

func checkRecords(o *common.Outcome, w *world, callers []*caller, perPeerCap, fdCap int, timeless bool) {
	for _, r := range w.recs {
		if r.peer < 0 {
			o.Violate("C05/dialed-unknown-peer", "a transport was asked to dial a peer nobody asked for: %s", r)
			continue
		}
		if !w.peers[r.peer].known[r.addr] {
			o.Violate("C05/dialed-unknown-address", "a transport was handed an address that is not an address of p%d: %s", r.peer, r)
		}
		if tg := w.targets[r.addr]; tg != nil && tg.kind != r.kind {
			o.Violate("C05/wrong-transport", "%s was handed to the %s transport", r.addr, kindName[r.kind])
		}
		if r.ok && r.kind == tTCP {
			if tg := w.targets[r.addr]; tg != nil && tg.script == sLie {
				// not a C05 violation by itself (the transport lied); the swarm must not hand it out: see (2)
				o.Probe("lying-transport-returned-conn")
			}
		}
	}
	// (5) caps at every start stamp
	for _, r := range w.recs {
		per, fd := 0, 0
		for _, x := range w.recs {
			if x.start <= r.start && (x.end == 0 || x.end > r.start) {
				if x.peer == r.peer {
					per++
				}
				if tg := w.targets[x.addr]; (tg != nil && tg.fd()) || (tg == nil && x.kind == tTCP) {
					fd++
				}
			}
		}
		if per > perPeerCap {
			o.Violate("C05/per-peer-cap-exceeded", "%d dials to p%d in flight at stamp %d, per-peer cap is %d (last started: %s)", per, r.peer, r.start, perPeerCap, r)
		}
		if tg := w.targets[r.addr]; fdCap > 0 && fd > fdCap && tg != nil && tg.fd() {
			o.Violate("C05/fd-cap-exceeded", "%d FD-consuming dials in flight at stamp %d, LIBP2P_SWARM_FD_LIMIT is %d (last started: %s)", fd, r.start, fdCap, r)
		}
	}
	// (4) at most once per address while a generation is alive
	if timeless {
		return
	}
	byAddr := map[string][]*dialRec{}
	var addrs []string
	for _, r := range w.recs {
		if r.cancelledAtStart || r.peer < 0 {
			continue
		}
		k := fmt.Sprintf("%d %s", r.peer, r.addr)
		if byAddr[k] == nil {
			addrs = append(addrs, k)
		}
		byAddr[k] = append(byAddr[k], r)
	}
	sort.Strings(addrs)
	for _, k := range addrs {
		rs := byAddr[k] // in start order
		for i := 1; i < len(rs); i++ {
			d1, d2 := rs[i-1], rs[i]
			boundary := false
			for _, c := range callers {
				if c.peer == d1.peer && c.returned && c.retAt >= d1.startAt && c.retAt <= d2.startAt {
					boundary = true
				}
			}
			// replacing a dead result is not a duplicate attempt: the earlier dial succeeded and the connection it
			// produced (Connected delivered after that dial returned) was gone before the second hand-over began
			replaced := false
			if d1.ok {
				for _, cr := range w.connOrder {
					if cr.peer == d1.peer && cr.addr == d1.addr && cr.seen > d1.end && cr.disc != 0 && cr.disc < d2.start {
						replaced = true
					}
				}
			}
			if replaced {
				o.Probe("address-redialed-after-its-connection-closed")
			}
			if !boundary && !replaced {
				o.Violate("C05/address-dialed-twice-in-generation/"+kindName[d1.kind], "no caller of p%d returned between %v and %v (so the worker that started the first dial was still alive, its context was not cancelled), yet the address was handed to the transport twice: [%s] and [%s]",
					d1.peer, d1.startAt, d2.startAt, d1, d2)
			}
		}
	}
}

// ---- reach probes -----------------------------------------------------------------------------------

func probes(o *common.Outcome, w *world, callers []*caller, perPeerCap, fdCap int) {
	for _, c := range callers {
		if c.probe || !c.returned {
			continue
		}
		o.Probe("outcome-" + strings.SplitN(c.outcome(), "(", 2)[0])
		var de *swarm.DialError
		if errors.As(c.err, &de) {
			for _, te := range de.DialErrors {
				if errors.Is(te.Cause, swarm.ErrDialBackoff) {
					o.Probe("backoff-refusal")
					break
				}
			}
		}
		if c.cancelled && c.cancelStamp < c.ret {
			o.Probe("caller-cancelled-while-waiting")
		}
		for _, r := range w.recs {
			if r.peer != c.peer || w.peers[c.peer].target(r.addr) == nil {
				continue
			}
			if r.start < c.inv && (r.end == 0 || r.end > c.inv) {
				o.Probe("caller-joined-while-dial-in-flight")
				break
			}
		}
		for _, r := range w.recs {
			if r.peer == c.peer && r.end != 0 && !r.ok && r.endAt == c.invAt && r.start < c.inv {
				o.Probe("caller-joined-at-instant-of-a-failure")
				break
			}
		}
		if c.hasOwnLimit {
			for _, r := range w.recs {
				if r.peer == c.peer && r.end != 0 && r.endAt == c.ownLimitAt && r.start > c.inv {
					o.Probe("deadline-coincides-with-dial-end")
					break
				}
			}
		}
		// a generation ended (this caller returned) while the per-peer or FD cap was saturated: jobs were waiting
		per, fd := 0, 0
		for _, r := range w.recs {
			if r.start < c.ret && (r.end == 0 || r.end > c.ret) {
				if r.peer == c.peer {
					per++
				}
				if tg := w.targets[r.addr]; tg != nil && tg.fd() {
					fd++
				}
			}
		}
		if !c.ok && (per >= perPeerCap || (fdCap > 0 && fd >= fdCap)) {
			o.Probe("caller-left-with-cap-saturated")
		}
	}
	perHit, fdHit := false, false
	for _, r := range w.recs {
		per, fd := 0, 0
		for _, x := range w.recs {
			if x.start <= r.start && (x.end == 0 || x.end > r.start) {
				if x.peer == r.peer {
					per++
				}
				if tg := w.targets[x.addr]; tg != nil && tg.fd() {
					fd++
				}
			}
		}
		if tg := w.targets[r.addr]; tg != nil && w.peers[tg.peer].target(r.addr) != nil {
			perHit = perHit || per == perPeerCap
			fdHit = fdHit || (fdCap > 0 && fd == fdCap && tg.fd())
			if r.kind == tTCP && tg.public && r.end != 0 && (tg.script == sSucceed || tg.script == sSilent || tg.script == sWrongPeer) {
				o.Probe("public-tcp-handshake-progress")
			}
			if tg.script == sWrongPeer && r.end != 0 {
				o.Probe("wrong-peer-answered")
			}
			if tg.script == sLie && r.end != 0 {
				o.Probe("transport-lied")
			}
		}
	}
	if perHit {
		o.Probe("per-peer-cap-reached")
	}
	if fdHit {
		o.Probe("fd-cap-reached")
	}
	if w.dnsCalls > 0 {
		o.Probe("dns-resolved")
	}
	if !w.quic {
		return
	}
	// QUIC stratum: several real transports for one peer
	for _, r := range w.recs {
		tg := w.targets[r.addr]
		if r.kind != tQUIC || tg == nil || r.end == 0 || w.peers[tg.peer].target(r.addr) == nil {
			continue
		}
		switch {
		case r.ok:
			o.Probe("quic-dial-succeeded")
			if tg.script == sLossyStart {
				o.Probe("quic-dial-succeeded-after-lost-datagrams")
			}
		case tg.script == sHang && r.ctxErrAtEnd == nil:
			o.Probe("quic-dead-address-handshake-timeout")
		case tg.script == sHang && errors.Is(r.ctxErrAtEnd, context.DeadlineExceeded):
			o.Probe("quic-dead-address-dial-timeout")
		}
		for _, x := range w.recs {
			if x.peer != r.peer || x.kind != tTCP || x.end == 0 {
				continue
			}
			if x.startAt > r.startAt && x.start < r.end {
				o.Probe("tcp-dial-staggered-behind-quic-in-flight")
			}
			// one transport wins, the dial on the other one is cancelled (every caller got the connection and left)
			if x.ok && !r.ok && errors.Is(r.ctxErrAtEnd, context.Canceled) && r.start < x.end && r.end > x.end {
				o.Probe("quic-dial-cancelled-when-tcp-won")
			}
			if r.ok && !x.ok && errors.Is(x.ctxErrAtEnd, context.Canceled) && x.start < r.end && x.end > r.end {
				o.Probe("tcp-dial-cancelled-when-quic-won")
			}
		}
	}
	for _, c := range callers {
		if c.probe || c.simConnect != 2 || !c.returned {
			continue
		}
		for _, r := range w.recs {
			if r.kind == tQUIC && r.peer == c.peer && r.start > c.inv && r.start < c.ret {
				o.Probe("quic-hole-punch-dial")
				break
			}
		}
	}
	for _, c := range callers {
		if tg := w.targets[c.connAddr]; c.ok && !c.probe && tg != nil && tg.kind == tQUIC {
			o.Probe("caller-got-quic-connection")
		}
	}
	for _, r := range w.recs {
		if r.kind == tQUIC && r.err != nil && strings.Contains(r.err.Error(), "already punching hole") {
			o.Probe("overlapping-hole-punch-turned-away")
		}
	}
}
