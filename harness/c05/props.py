# orchestrator configuration of the C05 check (loaded by tools/props.py)
from stack import FULL_STACK, FULL_DEPS, QUIC_STACK, QUIC_DEPS

SPEC = dict(
    pkg="./harness/c05",
    instrument=FULL_STACK + QUIC_STACK,
    deps=FULL_DEPS + QUIC_DEPS,
    level="exploration",
    level_text=("seeded search over schedules x address sets x outcome scripts x caller populations of a real dialing swarm "
                "on a simulated network: every lock, channel operation, select and goroutine start of dial_sync, dial_worker, "
                "limiter, swarm_dial, back-off, the TCP transport, upgrader, security and muxer is a scheduling decision; all "
                "timers (ranking delays, dial timeouts, dial-peer timeout, back-off) are virtual; oracles over the stamped "
                "history of transport Dial invocations and caller returns. Sampling, not proof."),
    level_note=("trusted: testing/synctest, the overlay rewrite, simnet's TCP model, the scripted stub transports (QUIC-v1, "
                "WebTransport, WebSocket, relay: they only fail or hang, never succeed) and the scripted DNS resolver; "
                "generations are recognised from outside through virtual time, so at-most-once / liveness / timing oracles "
                "are asserted only in runs without scheduler stalls; black-hole detection disabled (C20 covers it)"),
    technique="deterministic simulation: seeded lock-level scheduler over instrumented swarm stack on simnet, scripted per-address reachability, history oracles",
    design_ref="DESIGN.md section 5 (C05)",
    quick_s=50, thorough_s=600,
    rule=("one run = one tape: 'connections vanish' stratum (1/4 of runs without hole punching: D's connections are closed while "
          "callers are inside, by a Connected notifiee at once | after 1-30 ms, by a local or a remote close task at drawn "
          "instants; optionally the application re-dials from inside its Disconnected handler; fault conn-closed-while-callers-inside); "
          "stratum QUIC (1/4: real QUIC transport over simulated UDP with served / dead / wrong-peer / "
          "first-datagrams-lost addresses and drawn loss, duplication, reordering; half of them with hole punching: "
          "simultaneous-connect(server) callers punching towards a target that dials the dialer at instants around the end "
          "of the punch, dialer listening | dial-only with reuseport on | off, overlapping punches, real resource manager) | TCP + stubs; strata (exact|filters, all-fail, slow worker, back-off rejoin, stalls, insecure|noise, latency), per-peer cap 1-8, FD cap "
          "unset|1-4, two target peers with 0-8 / 0-3 addresses (TCP private/public/IPv6 with scripts succeed, refuse, black "
          "hole, accept-and-stall, reset/EOF/stall at the k-th I/O call, honest other peer, lying transport; QUIC-v1, "
          "WebTransport, WebSocket, relay stubs failing after a drawn delay or hanging; /dns4 names resolving to 0-2 "
          "addresses or duplicates; no-transport, unspecified, link-local, own and low-priority entries), 1-2 rounds of 1-5 "
          "callers with drawn start instants, deadlines, cancel instants, dial-peer timeouts and force-direct / "
          "simultaneous-connect / allow-limited flags, a seeded schedule; afterwards residue audit and token probes; "
          "non-trivial = at least one drawn address was handed to a transport; distinct = distinct (schedule hash, "
          "configuration, per-caller outcomes, per-address dial counts)"),
    probes=["caller-joined-while-dial-in-flight", "caller-joined-at-instant-of-a-failure", "caller-cancelled-while-waiting",
            "caller-left-with-cap-saturated", "backoff-refusal", "per-peer-cap-reached", "fd-cap-reached",
            "public-tcp-handshake-progress", "deadline-coincides-with-dial-end", "dial-started-with-dead-context",
            "wrong-peer-answered", "transport-lied", "dns-resolved", "liveness-asserted", "answer-due-asserted",
            "shared-success-asserted", "quic-dial-succeeded", "quic-dial-succeeded-after-lost-datagrams",
            "quic-dead-address-handshake-timeout", "quic-dead-address-dial-timeout", "tcp-dial-staggered-behind-quic-in-flight",
            "quic-dial-cancelled-when-tcp-won", "tcp-dial-cancelled-when-quic-won", "quic-hole-punch-dial",
            "caller-got-quic-connection", "caller-invoked-after-close-while-worker-alive",
            "caller-invoked-after-close-got-another-connection", "address-redialed-after-its-connection-closed", "hole-punch-got-the-inbound-connection", "hole-punch-gave-up-at-instant-of-target-dial",
            "hole-punch-served-at-instant-of-target-dial", "overlapping-hole-punch-turned-away", "target-dialed-dialer",
            "outcome-ok", "outcome-dial-error", "outcome-ctx-cancelled", "outcome-ctx-deadline"],
    real=["QUIC stratum: p2p/transport/quic, quicreuse, quic-go over simnet's UDP model — instrumented",
          "QUIC stratum: the dialing node's resource manager (real, infinite limits) — instrumented",
          "swarm: dial_sync, dial_worker, limiter, swarm_dial, dial_ranker, dial_error, back-off, conns — instrumented",
          "tcp transport dial path behind a recording wrapper, upgrader, insecure / noise, multistream, yamux — instrumented",
          "pstoremem, eventbus — instrumented", "target peers: real simhost nodes (swarm + listeners)"],
    stubs=["wire: simnet TCP model (refuse, black hole, silent listener, reset/EOF/stall faults, latency)",
           "scripted transport.Transport stubs for QUIC-v1 (TCP stratum only), WebTransport, WebSocket, p2p-circuit (fail after d | hang until ctx ends)",
           "wire (QUIC stratum): simnet UDP model with drawn loss / duplication / latency and a scripted filter",
           "scripted network.MultiaddrDNSResolver", "recording wrapper around the real TCP transport (may dial the wrong peer on 'transport-lies' addresses)"],
    assume=["crypto/rand and the global math/rand pinned per run in the QUIC stratum (simrand.Install, rand.Seed)",
            "virtual clock of testing/synctest", "the overlay rewrite preserves behaviour (./check overlaytest)",
            "without scheduler stalls a runnable task never lets virtual time pass (used to recognise worker generations)"],
)
ENABLED = True
