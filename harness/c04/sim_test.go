// C04 — every failed or finished connection/stream releases all it acquired.
//
// Message-level simulation of two real nodes (basic host, swarm, real TCP dial path / simnet
// listener wrapper, upgrader, Noise|TLS, optional PSK, yamux, REAL resource manager) with one
// fault per run placed by the tape: an I/O fault at call index k on either end of the raw
// connection, a gater rejection, a resource-manager refusal, a context cancellation or a
// Close() at I/O index k. After the attempt (and virtual time past every timeout) the
// resource manager readings, the raw endpoints and the goroutine set are audited.
package c04

import (
	"context"
	"fmt"
	"io"
	"sort"
	"strings"
	"testing"
	"time"

	"github.com/libp2p/go-libp2p/core/network"
	"github.com/libp2p/go-libp2p/core/peerstore"
	rcmgr "github.com/libp2p/go-libp2p/p2p/host/resource-manager"
	ma "github.com/multiformats/go-multiaddr"

	"verifsim/harness/common"
	"verifsim/simhook"
	"verifsim/simhost"
	"verifsim/simnet"
	"verifsim/simrt"
)

func TestSim(t *testing.T) { common.Main(t, common.Harness{Property: "C04", Run: run, Craft: craft}) }

// craft enumerates the fault-plan space for the thorough tier: the returned values are the first draws of
// run() in order (security, PSK, link mode, plan kind, side, then the plan's own draws). Position = run mod
// size; later passes over the space meet other schedules, payloads and PSK/link settings (those two come
// from the run index as well, so that both values of each are swept).
const maxCall = 70

func craft(run uint64) []uint32 {
	// stratum: 0 TCP, 1 QUIC only, 2 QUIC and TCP addresses both known, 3 WebTransport (raw values for Weighted(3,2,1,1))
	switch run % 4 {
	case 1:
		return append([]uint32{3}, craftQUIC(run/4)...)
	case 2:
		return append([]uint32{5}, craftQUIC(run/4)...)
	case 3:
		return append([]uint32{6}, craftQUIC(run/4)...)
	}
	return append([]uint32{0}, craftTCP(run/4)...)
}

// craftQUIC: plan kind (raw for Weighted(1,10,3,4,2,3)), side, plan draws; the background UDP faults and the payload
// stay with the PRNG.
func craftQUIC(run uint64) []uint32 {
	type pos struct{ kind, a, b, c uint32 }
	var space []pos
	for dir := uint32(0); dir < 3; dir++ {
		for k := uint32(0); k < maxDgram; k++ {
			for l := uint32(0); l < 3; l++ {
				space = append(space, pos{1, dir, k, l})
			}
		}
	}
	for h := uint32(0); h < 4; h++ {
		space = append(space, pos{11, h, 0, 0})
	}
	for site := uint32(0); site < uint32(len(rcSites)); site++ {
		for n := uint32(0); n < 3; n++ {
			space = append(space, pos{14, site, n, 0})
		}
	}
	for k := uint32(0); k < maxDgram; k++ {
		space = append(space, pos{18, k, 0, 0})
	}
	for tgt := uint32(0); tgt < 5; tgt++ {
		for k := uint32(0); k < maxDgram; k++ {
			space = append(space, pos{20, k, tgt, 0})
		}
	}
	n := uint64(len(space))
	p := space[run%n]
	onB := uint32((run / n) % 2)
	out := []uint32{p.kind, onB}
	switch p.kind {
	case 1:
		out = append(out, p.a, p.b, p.c)
	case 11:
		if onB == 1 && p.a >= 3 {
			p.a = 2
		}
		out = append(out, p.a)
	case 14:
		out = append(out, p.a, p.b)
	case 18:
		out = append(out, p.a)
	case 20:
		out = append(out, p.a, p.b)
	}
	return out
}

const maxDgram = 60

func craftTCP(run uint64) []uint32 {
	type pos struct{ kind, a, b uint32 } // kind = raw value for Weighted(1,10,3,4,2,3)
	var space []pos
	for io := uint32(0); io < uint32(len(ioKinds)); io++ {
		for k := uint32(0); k < maxCall; k++ {
			space = append(space, pos{1, io, k}) // weighted value 1 -> index 1 (io)
		}
	}
	for h := uint32(0); h < 4; h++ {
		space = append(space, pos{11, h, 0}) // gater
	}
	for site := uint32(0); site < uint32(len(rcSites)); site++ {
		for n := uint32(0); n < 3; n++ {
			space = append(space, pos{14, site, n}) // rcmgr
		}
	}
	for k := uint32(0); k < maxCall; k++ {
		space = append(space, pos{18, k, 0}) // cancel at call k
	}
	for tgt := uint32(0); tgt < 5; tgt++ {
		for k := uint32(0); k < maxCall; k++ {
			space = append(space, pos{20, k, tgt}) // close target at call k
		}
	}
	n := uint64(len(space))
	i := run % n
	variant := run / n
	p := space[i]
	secu := uint32(variant % 2)
	onB := uint32((variant / 2) % 2)
	psk := uint32(0)
	if (variant/4)%4 == 3 {
		psk = 3 // Chance(1,4) is true for the value 3
	}
	mode := uint32((variant / 16) % 2)
	out := []uint32{secu, psk, mode, p.kind, onB}
	switch p.kind {
	case 1:
		out = append(out, p.a, p.b)
	case 11:
		if onB == 1 && p.a >= 3 {
			p.a = 2
		}
		out = append(out, p.a)
	case 14:
		out = append(out, p.a, p.b)
	case 18:
		out = append(out, p.a)
	case 20:
		out = append(out, p.a, p.b)
	}
	return out
}

const echoProto = "/echo/1.0.0"

var ioKinds = []simnet.FaultKind{simnet.ReadErr, simnet.WriteErr, simnet.EOF, simnet.Reset, simnet.Stall}
var gaterHooksA = []string{"PeerDial", "AddrDial", "Secured", "Upgraded"}
var gaterHooksB = []string{"Accept", "Secured", "Upgraded"}
var rcSites = []string{"OpenConnection", "SetPeer", "ConnSpan", "ConnMemory", "OpenStream", "SetProtocol", "SetService", "StreamMemory"}

type plan struct {
	kind   int // 0 none, 1 io, 2 gater, 3 rcmgr, 4 cancel-at-io, 5 close-at-io
	io     simnet.FaultKind
	onB    bool // which node / end
	k      int  // I/O call index
	hook   string
	site   string
	n      int
	target int // close target: 0 peer conns on A, 1 listener on B, 2 whole host A, 3 whole host B, 4 peer conns on B
	// QUIC strata: kind 1 is a blackout of UDP datagrams — direction dir (0 A->B, 1 B->A, 2 both) from the k-th datagram
	// of the attempt in that direction on, for span datagrams (0 = for the rest of the run); kinds 4 and 5 count the
	// datagrams sent by the chosen side
	quic int // 0 TCP, 1 QUIC only, 2 QUIC and TCP addresses known, 3 WebTransport only
	dir  int
	span int
}

func (p plan) String() string {
	side := "A"
	if p.onB {
		side = "B"
	}
	switch p.kind {
	case 0:
		return "no fault"
	case 1:
		if p.quic != 0 {
			return fmt.Sprintf("udp blackout %s from datagram %d for %d (0 = for good)", [...]string{"A->B", "B->A", "both ways"}[p.dir], p.k, p.span)
		}
		return fmt.Sprintf("io %s at call %d on %s end", p.io, p.k, side)
	case 2:
		return fmt.Sprintf("gater %s rejects %s", side, p.hook)
	case 3:
		return fmt.Sprintf("rcmgr %s refuses %s #%d", side, p.site, p.n)
	case 4:
		return fmt.Sprintf("cancel ctx at call/datagram %d of %s end", p.k, side)
	case 5:
		return fmt.Sprintf("close target %d at call/datagram %d of %s end", p.target, p.k, side)
	}
	return "?"
}

func class(p plan) string {
	if p.quic != 0 {
		return [...]string{"", "quic/", "quic+tcp/", "webtransport/"}[p.quic] + class0(p)
	}
	return class0(p)
}

func class0(p plan) string {
	switch p.kind {
	case 1:
		if p.quic != 0 {
			return "udp-blackout"
		}
		return "io-" + p.io.String()
	case 2:
		return "gater-" + p.hook
	case 3:
		return "rcmgr-" + p.site
	case 4:
		return "cancel"
	case 5:
		return fmt.Sprintf("close-%d", p.target)
	}
	return "none"
}

func zeroStat(s network.ScopeStat) bool { return s == network.ScopeStat{} }

func statProblems(name string, rm network.ResourceManager) []string {
	if w, ok := rm.(*simhost.RefusingRcmgr); ok {
		rm = w.ResourceManager
	}
	st := rm.(rcmgr.ResourceManagerState).Stat()
	var out []string
	if !zeroStat(st.System) {
		out = append(out, fmt.Sprintf("%s system=%+v", name, st.System))
	}
	if !zeroStat(st.Transient) {
		out = append(out, fmt.Sprintf("%s transient=%+v", name, st.Transient))
	}
	var keys []string
	for k, v := range st.Services {
		if !zeroStat(v) {
			keys = append(keys, fmt.Sprintf("%s service %s=%+v", name, k, v))
		}
	}
	for k, v := range st.Protocols {
		if !zeroStat(v) {
			keys = append(keys, fmt.Sprintf("%s protocol %s=%+v", name, k, v))
		}
	}
	for k, v := range st.Peers {
		if !zeroStat(v) {
			keys = append(keys, fmt.Sprintf("%s peer %s=%+v", name, k.ShortString(), v))
		}
	}
	sort.Strings(keys)
	return append(out, keys...)
}

// goroutines returns the multiset of goroutine descriptors of the bubble, without the
// simulator's own tasks (connection pumps) and the harness.
func goroutines() map[string]int {
	out := map[string]int{}
	for _, g := range simrt.BubbleGoroutines() {
		if strings.Contains(g, "verifsim/") {
			continue
		}
		out[g]++
	}
	return out
}

func newGoroutines(base, now map[string]int) []string {
	var out []string
	for g, n := range now {
		if n > base[g] {
			out = append(out, fmt.Sprintf("%dx %s", n-base[g], g))
		}
	}
	sort.Strings(out)
	return out
}

func run(t *testing.T, tape *simrt.Tape) *common.Outcome {
	g := simrt.Gen{S: tape.G}
	o := &common.Outcome{}

	quic := g.Weighted(3, 2, 1, 1)
	if quic != 0 {
		return runQUIC(t, tape, g, o, quic)
	}
	secu := []string{"noise", "tls"}[g.Int(2)]
	usePSK := g.Chance(1, 4)
	mode := []simnet.LinkMode{simnet.Whole, simnet.Fragment}[g.Int(2)]
	if secu == "tls" {
		// TLS handshake message lengths depend on crypto/rand (ECDSA signature and serial sizes), which
		// Go does not let a test pin; with whole-queue deliveries the trace does not depend on them.
		mode = simnet.Whole
	}
	var p plan
	p.kind = g.Weighted(1, 10, 3, 4, 2, 3)
	p.onB = g.Bool()
	switch p.kind {
	case 1:
		p.io = ioKinds[g.Int(len(ioKinds))]
		p.k = 1 + g.Int(90)
	case 2:
		if p.onB {
			p.hook = gaterHooksB[g.Int(len(gaterHooksB))]
		} else {
			p.hook = gaterHooksA[g.Int(len(gaterHooksA))]
		}
	case 3:
		p.site = rcSites[g.Int(len(rcSites))]
		p.n = 1 + g.Int(3)
	case 4:
		p.k = 1 + g.Int(90)
	case 5:
		p.k = 1 + g.Int(90)
		p.target = g.Int(5)
	}
	payload := []int{64, 2000, 70000}[g.Weighted(3, 3, 1)]
	// listener side of the TCP transport: 0 = simhost's wrapper Listen, 1 = the real TcpTransport.Listen on a shared-TCP
	// connection manager (tcpreuse demultiplexing listener + sampledconn; not with a PSK)
	shared := g.Int(2) == 1 && !usePSK && simhook.TCPReuseSeam // without the overlay seam (see check: overlay_patch) the wrapper Listen is used
	// cold start (1 run in 4): no fault-free warm-up attempt — the planned fault hits the very FIRST contact of the two
	// nodes (first dial of the transport, first peer scope, identify's first run, lazily started workers). Without a
	// warm-up there is no goroutine baseline, so only the goroutine-left audit is dropped in these runs; the resource
	// manager, raw-connection and after-Close audits do not need one.
	cold := g.Int(4) == 3
	// shared-TCP runs: 0-2 inbound connections of ANOTHER kind reach B's listener first — an HTTP request line or a TLS
	// ClientHello on a port where only the libp2p TCP transport registered: the demultiplexer classifies them, finds no
	// listener for that kind and must give back what it took for them (scope, descriptor)
	foreign := 0
	if shared {
		foreign = g.Int(3)
	}
	foreignKind := g.Int(2)
	o.Logf("security=%s psk=%v link=%d payload=%d shared-tcp=%v cold-start=%v foreign-kind-connections=%d plan: %s", secu, usePSK, mode, payload, shared, cold, foreign, p)

	var psk []byte
	if usePSK {
		psk = make([]byte, 32)
		for i := range psk {
			psk[i] = byte(i)
		}
	}
	fired := false
	attemptOutcome := ""

	res := simrt.Run(t, simrt.Config{MaxSteps: 400000, IdleLimit: 24 * time.Hour, TraceCap: 100000}, tape.S, func() {
		n := simnet.New(tape.S, simnet.Config{Mode: mode})
		mk := func(seed int, ip string) (*simhost.Node, *simhost.RefusingRcmgr, *simhost.ScriptedGater) {
			real, err := rcmgr.NewResourceManager(rcmgr.NewFixedLimiter(rcmgr.InfiniteLimits), rcmgr.WithMetricsDisabled())
			if err != nil {
				o.Trouble = "rcmgr: " + err.Error()
				return nil, nil, nil
			}
			rw := simhost.NewRefusingRcmgr(real, "", 0)
			gt := simhost.NewScriptedGater("")
			nd, err := simhost.New(n, simhost.Opts{Key: simhost.DetKey(seed), IP: ip, Port: 4001, Security: secu, PSK: psk, SharedTCP: shared, Gater: gt, Rcmgr: rw, WithHost: true})
			if err != nil {
				o.Trouble = "node: " + err.Error()
				real.Close()
				return nil, nil, nil
			}
			return nd, rw, gt
		}
		a, rwA, gtA := mk(1, "10.0.0.1")
		if a == nil {
			return
		}
		b, rwB, gtB := mk(2, "10.0.0.2")
		if b == nil {
			a.Close()
			return
		}
		closedA, closedB := false, false
		closeA := func() {
			if !closedA {
				closedA = true
				a.Close()
			}
		}
		closeB := func() {
			if !closedB {
				closedB = true
				b.Close()
			}
		}
		defer closeA()
		defer closeB()
		b.Host.SetStreamHandler(echoProto, func(s network.Stream) {
			io.Copy(s, s)
			s.Close()
		})
		a.PS.AddAddrs(b.ID, []ma.Multiaddr{b.Addr}, peerstore.PermanentAddrTTL)

		attempt := func(ctx context.Context) string {
			if err := a.Host.Connect(ctx, b.AddrInfo()); err != nil {
				return "connect-failed"
			}
			s, err := a.Host.NewStream(ctx, b.ID, echoProto)
			if err != nil {
				return "stream-failed"
			}
			buf := make([]byte, payload)
			for i := range buf {
				buf[i] = byte(i * 7)
			}
			s.SetDeadline(time.Now().Add(40 * time.Second))
			errc := make(chan error, 1)
			go func() {
				_, err := s.Write(buf)
				if err == nil {
					err = s.CloseWrite()
				}
				errc <- err
			}()
			got, rerr := io.ReadAll(s)
			werr := <-errc
			if rerr != nil || werr != nil || len(got) != payload {
				s.Reset()
				return "echo-failed"
			}
			for i := range got {
				if got[i] != buf[i] {
					o.Violate("C04/echo-corrupted", "echo returned different bytes at offset %d", i)
					break
				}
			}
			s.Close()
			return "ok"
		}
		settle := func(d time.Duration) {
			simrt.WaitIdle()
			simrt.TimeSleep(d)
			simrt.WaitIdle()
		}
		closeConns := func() {
			if !closedA {
				for _, c := range a.Swarm.ConnsToPeer(b.ID) {
					c.Close()
				}
			}
			if !closedB {
				for _, c := range b.Swarm.ConnsToPeer(a.ID) {
					c.Close()
				}
			}
		}

		// warm-up: one fault-free attempt so that everything started lazily on first contact exists
		// before the baseline is taken
		var base map[string]int
		if !cold {
			ctx0, cancel0 := context.WithTimeout(context.Background(), 30*time.Second)
			if r := attempt(ctx0); r != "ok" {
				cancel0()
				o.Trouble = "warm-up attempt failed: " + r
				return
			}
			cancel0()
			settle(2 * time.Second)
			closeConns()
			settle(3 * time.Minute)
			if pr := append(statProblems("A", a.Rcmgr), statProblems("B", b.Rcmgr)...); len(pr) > 0 {
				o.Violate("C04/usage-after-clean-close", "after a fault-free connect/echo/close: %v", pr)
				return
			}
			base = goroutines()
		}
		for i := 0; i < foreign; i++ {
			fc, err := n.Dialer("10.0.0.9").DialContext(context.Background(), "tcp", "10.0.0.2:4001")
			if err != nil {
				o.Trouble = "foreign-kind dial: " + err.Error()
				return
			}
			if foreignKind == 0 {
				fc.Write([]byte("GET / HTTP/1.1\r\nHost: x\r\n\r\n"))
			} else {
				fc.Write([]byte{0x16, 0x03, 0x01, 0x00, 0x2a, 0x01, 0x00, 0x00, 0x26, 0x03, 0x03})
			}
			o.Fault("foreign-kind-connection")
			simrt.TimeSleep(time.Second)
			fc.Close()
		}
		warmConns := len(n.Conns())

		// arm the fault
		ctx, cancel := context.WithTimeout(context.Background(), 30*time.Second)
		defer cancel()
		switch p.kind {
		case 2:
			if p.onB {
				gtB.Reject = p.hook
			} else {
				gtA.Reject = p.hook
			}
		case 3:
			if p.onB {
				rwB.Arm(p.site, p.n)
			} else {
				rwA.Arm(p.site, p.n)
			}
		}
		n.OnConn(func(d, l *simnet.Conn) {
			if d.ID() != warmConns { // only the first raw connection of the attempt
				return
			}
			end := d
			if p.onB {
				end = l
			}
			switch p.kind {
			case 1:
				end.InjectFault(simnet.Fault{Kind: p.io, AtCall: p.k})
			case 4:
				end.SetOnCall(func(call int, _ bool) {
					if call == p.k {
						fired = true
						o.Fault("cancel")
						cancel()
					}
				})
			case 5:
				end.SetOnCall(func(call int, _ bool) {
					if call == p.k {
						fired = true
						o.Fault(fmt.Sprintf("close-%d", p.target))
						simrt.GoNamed("closer", func() {
							switch p.target {
							case 0:
								a.Swarm.ClosePeer(b.ID)
							case 1:
								b.Swarm.ListenClose(b.Addr)
							case 2:
								closeA()
							case 3:
								closeB()
							case 4:
								b.Swarm.ClosePeer(a.ID)
							}
						})
					}
				})
			}
		})
		attemptOutcome = attempt(ctx)
		cancel()
		o.Logf("attempt: %s", attemptOutcome)
		settle(2 * time.Second)
		// past accept (15 s), negotiation, dial and keep-alive timeouts
		settle(3 * time.Minute)
		// whatever happened to the stream, nothing opens streams any more: on connections that are still
		// open no stream may remain charged (a failed or finished stream releases what it acquired without
		// waiting for its connection to close)
		for _, nd := range []struct {
			name   string
			closed bool
			rm     network.ResourceManager
		}{{"A", closedA, a.Rcmgr}, {"B", closedB, b.Rcmgr}} {
			if nd.closed {
				continue
			}
			rm := nd.rm
			if w, ok := rm.(*simhost.RefusingRcmgr); ok {
				rm = w.ResourceManager
			}
			st := rm.(rcmgr.ResourceManagerState).Stat()
			if st.System.NumStreamsInbound != 0 || st.System.NumStreamsOutbound != 0 || st.Transient.NumStreamsInbound != 0 || st.Transient.NumStreamsOutbound != 0 {
				o.Violate("C04/streams-left-on-open-connection/"+class(p)+"/"+attemptOutcome, "%s: 3 virtual minutes after the attempt (%s, outcome %s) streams are still charged while the connection is open: system=%+v transient=%+v", nd.name, p, attemptOutcome, st.System, st.Transient)
			}
		}
		// a connection has two ends: three quiet minutes after the attempt (past every keep-alive, idle and
		// handshake timeout) an end that still exists while the other node has none is a connection that failed or
		// finished on one side without being closed (for QUIC there is no raw connection whose Close could be audited)
		if !closedA && !closedB {
			if na, nb := len(a.Swarm.ConnsToPeer(b.ID)), len(b.Swarm.ConnsToPeer(a.ID)); na != nb {
				o.Violate("C04/one-sided-connection/"+class(p)+"/"+attemptOutcome, "3 virtual minutes after the attempt (%s, outcome %s) A lists %d connection(s) to B and B lists %d to A", p, attemptOutcome, na, nb)
			}
		}
		closeConns()
		settle(3 * time.Minute)

		switch p.kind {
		case 1:
			for _, c := range n.Conns() {
				if len(c.Stats().Fired) > 0 {
					fired = true
				}
			}
		case 2:
			fired = gtA.Fired+gtB.Fired > 0
		case 3:
			fired = rwA.Fired+rwB.Fired > 0
		}
		if fired && p.kind != 4 && p.kind != 5 {
			o.Fault(class(p))
		}
		for k, v := range n.FaultsFired() {
			_ = k
			_ = v
		}

		// ---- audit ----------------------------------------------------------------------
		var problems []string
		if !closedA {
			problems = append(problems, statProblems("A", a.Rcmgr)...)
			if c := a.Swarm.ConnsToPeer(b.ID); len(c) > 0 {
				problems = append(problems, fmt.Sprintf("A still lists %d conns after Close", len(c)))
			}
		}
		if !closedB {
			problems = append(problems, statProblems("B", b.Rcmgr)...)
			if c := b.Swarm.ConnsToPeer(a.ID); len(c) > 0 {
				problems = append(problems, fmt.Sprintf("B still lists %d conns after Close", len(c)))
			}
		}
		if len(problems) > 0 {
			o.Violate("C04/usage-not-released/"+class(p)+"/"+attemptOutcome, "after %s (attempt %s), all connections closed and 6 virtual minutes: %v", p, attemptOutcome, problems)
		}
		for _, c := range n.Conns() {
			if !c.Stats().Closed {
				end := "listener"
				if c.IsDialer() {
					end = "dialer"
				}
				o.Violate("C04/raw-conn-not-closed/"+end+"/"+class(p)+"/"+attemptOutcome, "raw connection #%d (%s end) was never closed after %s (attempt %s)", c.ID(), end, p, attemptOutcome)
			}
		}
		if !closedA && !closedB && base != nil {
			if extra := newGoroutines(base, goroutines()); len(extra) > 0 {
				o.Violate("C04/goroutine-left/"+class(p)+"/"+attemptOutcome, "goroutines that did not exist before the attempt: %v", extra)
			}
		}
		// ---- shutdown -------------------------------------------------------------------
		closeA()
		closeB()
		simrt.WaitIdle()
		if c := a.Swarm.Conns(); len(c) > 0 {
			o.Violate("C04/conns-after-swarm-close", "A lists %d conns after Close", len(c))
		}
		if l := append(a.Swarm.ListenAddresses(), b.Swarm.ListenAddresses()...); len(l) > 0 {
			o.Violate("C04/listen-addrs-after-swarm-close", "listen addresses after Close: %v", l)
		}
		if pr := append(statProblems("A", rwA.ResourceManager), statProblems("B", rwB.ResourceManager)...); len(pr) > 0 {
			o.Violate("C04/usage-after-host-close/"+class(p), "after Host.Close: %v", pr)
		}
		for _, c := range n.Conns() {
			if !c.Stats().Closed {
				o.Violate("C04/raw-conn-open-after-host-close/"+class(p), "raw connection #%d still open after both hosts closed", c.ID())
			}
		}
		rwA.ResourceManager.Close()
		rwB.ResourceManager.Close()
	})
	o.Sched = res
	o.Virtual = res.Virtual
	o.Sig = fmt.Sprintf("%s|%v|%d|%s|%s|fired=%v|%v|%v", secu, usePSK, mode, p, attemptOutcome, fired, shared, cold)
	if cold && fired {
		o.Probe("cold-start-outcome-" + attemptOutcome)
	}
	if shared && fired {
		o.Probe("shared-tcp-outcome-" + attemptOutcome)
	}
	o.Nontrivial = fired
	if fired {
		o.Probe("outcome-" + attemptOutcome)
	}
	if res.Panic != "" {
		o.Violate("C04/panic", "%s", res.Panic)
	}
	if (res.Stuck || res.StepLimit) && o.Trouble == "" {
		o.Trouble = fmt.Sprintf("stuck=%v steplimit=%v", res.Stuck, res.StepLimit)
	}
	if len(res.Residue) > 0 && o.Trouble == "" {
		o.Violate("C04/residue-after-host-close/"+class(p), "goroutines alive after both hosts were closed: %v", res.Residue)
	}
	return o
}
