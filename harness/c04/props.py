# orchestrator configuration of the C04 check (loaded by tools/props.py)
from stack import FULL_STACK, FULL_DEPS

SPEC = dict(
    pkg="./harness/c04",
    instrument=FULL_STACK,
    deps=FULL_DEPS,
    level="fault_enumeration",
    level_text=("one fault per run placed at a drawn position of a real dial + accept + stream open + echo between two real "
                "nodes: I/O fault kinds x endpoint x call index, gater hook, resource-manager call site x n, context cancel "
                "and Close() at an I/O index; afterwards resource-manager readings of both REAL managers, Close on both raw "
                "endpoints and the goroutine set are audited. Positions are sampled in quick, swept in thorough."),
    level_note=("trusted: testing/synctest, simnet's TCP model (writes never block, EPIPE after peer close), the audit at "
                "quiescence after 6 virtual minutes; not simulated: OS sockets, tcpreuse, websocket/QUIC/WebTransport/WebRTC "
                "transports and their listeners"),
    technique="deterministic simulation with fault injection: fault position sweep over real upgrader/swarm/host stack on simnet",
    design_ref="DESIGN.md section 6 (C04)",
    quick_s=60, thorough_s=900,
    rule=("one run = one tape: security noise|tls, PSK on/off, link chunking whole|fragmented, payload 64|2000|70000 B and one "
          "fault plan; non-trivial = the planned fault actually fired; distinct = distinct (configuration, fault plan, attempt "
          "outcome)"),
    probes=["outcome-connect-failed", "outcome-stream-failed", "outcome-echo-failed", "outcome-ok"],
    real=["ALL of the following run as tasks of the seeded scheduler (instrumented: every lock, channel operation, select, go statement is a scheduling point)", "basic host, identify", "swarm (dial, listen, conns, streams)", "tcp transport dial path (WithDialerForAddr)",
          "upgrader + listener (gated accept, accept timeout, Upgrade)", "noise, tls, pnet (PSK)", "multistream-select", "yamux",
          "resource manager (real, infinite limits) behind a refusing wrapper", "pstoremem", "eventbus"],
    stubs=["wire: simnet TCP model", "scripted connection gater", "refusing resource-manager wrapper (delegates to the real one)"],
    assume=["virtual clock of testing/synctest", "6 virtual minutes exceed every timeout on these paths"],
)
