# orchestrator configuration of the C04 check (loaded by tools/props.py)
from stack import FULL_STACK, FULL_DEPS, QUIC_STACK, QUIC_DEPS, WT_STACK, WT_DEPS, TCPREUSE_STACK, TCPREUSE_ADD, TCPREUSE_PATCH

SPEC = dict(
    pkg="./harness/c04",
    instrument=FULL_STACK + QUIC_STACK + WT_STACK + TCPREUSE_STACK,
    overlay_add=TCPREUSE_ADD,
    overlay_patch=TCPREUSE_PATCH,
    deps=FULL_DEPS + QUIC_DEPS + WT_DEPS,
    level="fault_enumeration",
    level_text=("one fault per run placed at a drawn position of a real dial + accept + stream open + echo between two real "
                "nodes: I/O fault kinds x endpoint x call index, gater hook, resource-manager call site x n, context cancel "
                "and Close() at an I/O index; afterwards resource-manager readings of both REAL managers, Close on both raw "
                "endpoints and the goroutine set are audited. Positions are sampled in quick, swept in thorough. "
                "QUIC strata (half of the runs): the same attempt over the real QUIC transport (quicreuse + quic-go, instrumented) on a "
                "simulated UDP wire — QUIC only, QUIC and TCP addresses raced by the dial ranker, or WebTransport only (webtransport-go + http3, instrumented); planned fault = datagram blackout "
                "(direction x k-th datagram x span), gater hook, resource-manager site x n, cancel or Close() at the k-th datagram; "
                "random loss / duplication / reordering on top; reuseport on or off on the dialling node; audited in addition: "
                "no one-sided connection 3 minutes after the attempt, no UDP socket but the listening ones, none after Host.Close."),
    level_note=("trusted: testing/synctest, simnet's TCP model (writes never block, EPIPE after peer close), the audit at "
                "quiescence after 6 virtual minutes; not simulated: OS sockets, reuseport, websocket/WebRTC "
                "transports and their listeners; in QUIC strata TLS 1.3 uses the X25519 key share (GODEBUG tlsmlkem=0, see simrand)"),
    technique="deterministic simulation with fault injection: fault position sweep over real upgrader/swarm/host stack on simnet",
    design_ref="DESIGN.md section 6 (C04)",
    quick_s=60, thorough_s=900,
    rule=("stratum TCP | QUIC | QUIC+TCP | WebTransport drawn first; 1 run in 4 is a cold start (no fault-free warm-up: the fault hits the first contact; no goroutine baseline there); QUIC strata: plan, background UDP faults none|light|heavy, reuseport on|off, payload; TCP: "
          "one run = one tape: security noise|tls, PSK on/off, link chunking whole|fragmented, payload 64|2000|70000 B and one "
          "fault plan; non-trivial = the planned fault actually fired; distinct = distinct (configuration, fault plan, attempt "
          "outcome)"),
    probes=["outcome-connect-failed", "outcome-stream-failed", "outcome-echo-failed", "outcome-ok",
            "quic-outcome-connect-failed", "quic-outcome-stream-failed", "quic-outcome-echo-failed", "quic-outcome-ok",
            "cold-start-outcome-connect-failed", "cold-start-outcome-stream-failed", "cold-start-outcome-echo-failed", "cold-start-outcome-ok",
            "shared-tcp-outcome-connect-failed", "shared-tcp-outcome-stream-failed", "shared-tcp-outcome-echo-failed", "shared-tcp-outcome-ok",
            "webtransport-outcome-connect-failed", "webtransport-outcome-stream-failed", "webtransport-outcome-echo-failed", "webtransport-outcome-ok"],
    real=["ALL of the following run as tasks of the seeded scheduler (instrumented: every lock, channel operation, select, go statement is a scheduling point)", "basic host, identify", "swarm (dial, listen, conns, streams)", "tcp transport dial path (WithDialerForAddr)",
          "upgrader + listener (gated accept, accept timeout, Upgrade)", "noise, tls, pnet (PSK)", "multistream-select", "yamux",
          "half of the TCP runs without PSK: the real TcpTransport.Listen on a shared-TCP connection manager (tcpreuse demultiplexing listener, sampledconn) through an overlay-only seam",
          "QUIC strata: p2p/transport/quic, quicreuse, quic-go v0.59 (all instrumented), crypto/tls QUIC handshake (stdlib goroutine, hands over strictly)",
          "resource manager (real, infinite limits) behind a refusing wrapper", "pstoremem", "eventbus"],
    stubs=["wire: simnet TCP model", "wire: simnet UDP model (loss, duplication, reordering, scripted blackout)", "crypto/rand: seeded stream (simrand)", "scripted connection gater", "refusing resource-manager wrapper (delegates to the real one)"],
    assume=["virtual clock of testing/synctest", "6 virtual minutes exceed every timeout on these paths"],
)
