package c04

// QUIC strata of C04: the same two real nodes, but the connection is a real QUIC connection (p2p/transport/quic, quicreuse,
// quic-go — all tasks of the scheduler) over simnet's UDP wire. Stratum 1: the nodes listen on QUIC only. Stratum 2: A
// knows B's QUIC and TCP addresses, so the swarm's dial ranker races the two transports and the loser must give back
// what it took. Stratum 3: WebTransport only (p2p/transport/webtransport + webtransport-go + quic-go/http3 on the same
// connection manager: QUIC handshake pinned by certhash, HTTP/3 CONNECT, Noise on the first stream). One planned fault per run: a blackout of datagrams in one or both directions starting at the k-th
// datagram of the attempt (for a span or for good — connections then end by idle timeout), a gater rejection (the QUIC
// transport calls InterceptAccept / InterceptSecured itself), a resource-manager refusal, a context cancellation or a
// Close() at the k-th datagram; in two thirds of the runs random loss / duplication / reordering on top (after warm-up).
// The audit is the one of the TCP stratum; "raw connection closed" becomes "no UDP socket left after both hosts closed".

import (
	"context"
	"fmt"
	"io"
	"net"
	"os"
	"testing"
	"time"

	"github.com/libp2p/go-libp2p/core/network"
	"github.com/libp2p/go-libp2p/core/peer"
	"github.com/libp2p/go-libp2p/core/peerstore"
	rcmgr "github.com/libp2p/go-libp2p/p2p/host/resource-manager"
	"github.com/libp2p/go-libp2p/p2p/transport/quicreuse"
	ma "github.com/multiformats/go-multiaddr"

	"verifsim/harness/common"
	"verifsim/simhost"
	"verifsim/simnet"
	"verifsim/simrand"
	"verifsim/simrt"
)

func runQUIC(t *testing.T, tape *simrt.Tape, g simrt.Gen, o *common.Outcome, quic int) *common.Outcome {
	var p plan
	p.quic = quic
	p.kind = g.Weighted(1, 10, 3, 4, 2, 3)
	p.onB = g.Bool()
	switch p.kind {
	case 1:
		p.dir = g.Int(3)
		p.k = 1 + g.Int(maxDgram)
		p.span = []int{0, 3, 12}[g.Int(3)]
	case 2:
		if p.onB {
			p.hook = gaterHooksB[g.Int(len(gaterHooksB))]
		} else {
			p.hook = gaterHooksA[g.Int(len(gaterHooksA))]
		}
	case 3:
		p.site = rcSites[g.Int(len(rcSites))]
		p.n = 1 + g.Int(3)
	case 4:
		p.k = 1 + g.Int(maxDgram)
	case 5:
		p.k = 1 + g.Int(maxDgram)
		p.target = g.Int(5)
	}
	bg := g.Int(3) // background UDP faults after warm-up: 0 none, 1 light, 2 heavy
	// socket policy of the QUIC connection manager: 0 = dials reuse the listening socket (default), 1 = reuse disabled on
	// the dialling node (quicreuse.DisableReuseport: every dial opens a socket and a quic-go transport of its own, which
	// are then part of what the attempt acquired)
	noReuse := g.Int(2) == 1
	// simultaneous connect (QUIC-only stratum, 1 run in 4): A dials in the SERVER role of a hole punch (the transport sends
	// probe packets and waits for its own listener to hand it the connection B opens), B dials A at the same time; B's dial
	// starts after a drawn delay so that the punch's 5 s timeout, the planned fault and the arrival of B's connection meet
	punch := quic == 1 && g.Int(4) == 3
	punchDelay := []time.Duration{0, 50 * time.Millisecond, time.Second, 4900 * time.Millisecond, 4999 * time.Millisecond, 5 * time.Second, 5001 * time.Millisecond}[g.Int(7)]
	if !punch {
		punchDelay = 0
	} else {
		// the interesting ends of a hole punch are the ones that race with the arrival of the peer's connection: in two
		// thirds of the punch runs the plan becomes a cancellation or a Close of the punching host at an early datagram
		switch g.Int(3) {
		case 1:
			p = plan{quic: quic, kind: 4, onB: g.Bool(), k: 1 + g.Int(30)}
		case 2:
			p = plan{quic: quic, kind: 5, onB: g.Bool(), k: 1 + g.Int(30), target: []int{2, 0, 4}[g.Int(3)]}
		}
	}
	payload := []int{64, 2000, 70000}[g.Weighted(3, 3, 1)]
	cold := g.Int(4) == 3 // no warm-up attempt: the planned fault hits the first contact (see the TCP stratum); background UDP faults from the start
	if cold {
		o.Logf("cold start: no warm-up attempt")
	}
	if punch {
		o.Logf("simultaneous connect: A in the server role of a hole punch, B dials A after %v", punchDelay)
	}
	o.Logf("stratum=%s background=%d reuseport-disabled=%v payload=%d plan: %s", [...]string{"", "quic", "quic+tcp", "webtransport"}[quic], bg, noReuse, payload, p)
	restore := simrand.Install(uint64(payload + bg))
	defer restore()

	fired := false
	attemptOutcome := ""
	var udp map[string]int
	reuseTag := ""
	if noReuse {
		reuseTag = "reuseport-disabled/"
	}

	res := simrt.Run(t, simrt.Config{MaxSteps: 1500000, IdleLimit: 24 * time.Hour, TraceCap: 100000}, tape.S, func() {
		n := simnet.New(tape.S, simnet.Config{Mode: simnet.Fragment})
		mk := func(seed int, ip string) (*simhost.Node, *simhost.RefusingRcmgr, *simhost.ScriptedGater) {
			real, err := rcmgr.NewResourceManager(rcmgr.NewFixedLimiter(rcmgr.InfiniteLimits), rcmgr.WithMetricsDisabled())
			if err != nil {
				o.Trouble = "rcmgr: " + err.Error()
				return nil, nil, nil
			}
			rw := simhost.NewRefusingRcmgr(real, "", 0)
			gt := simhost.NewScriptedGater("")
			var reuse []quicreuse.Option
			if noReuse && seed == 1 {
				reuse = append(reuse, quicreuse.DisableReuseport())
			}
			nd, err := simhost.New(n, simhost.Opts{Key: simhost.DetKey(seed), IP: ip, Port: 4001, Security: "noise", QUIC: true, QUICReuse: reuse, WebTransport: quic == 3, NoQUICListen: quic == 3, NoTCPListen: quic == 1 || quic == 3, Gater: gt, Rcmgr: rw, WithHost: true})
			if err != nil {
				o.Trouble = "node: " + err.Error()
				real.Close()
				return nil, nil, nil
			}
			return nd, rw, gt
		}
		a, rwA, gtA := mk(1, "10.0.0.1")
		if a == nil {
			return
		}
		b, rwB, gtB := mk(2, "10.0.0.2")
		if b == nil {
			a.Close()
			return
		}
		closedA, closedB := false, false
		closeA := func() {
			if !closedA {
				closedA = true
				a.Close()
			}
		}
		closeB := func() {
			if !closedB {
				closedB = true
				b.Close()
			}
		}
		defer closeA()
		defer closeB()
		b.Host.SetStreamHandler(echoProto, func(s network.Stream) {
			io.Copy(s, s)
			s.Close()
		})
		target := peer.AddrInfo{ID: b.ID, Addrs: []ma.Multiaddr{b.QAddr}}
		if quic == 2 {
			target.Addrs = append(target.Addrs, b.Addr)
		}
		if quic == 3 {
			wta := b.WTAddr()
			if wta == nil {
				o.Trouble = "no webtransport listen address"
				return
			}
			target.Addrs = []ma.Multiaddr{wta}
		}
		a.PS.AddAddrs(b.ID, target.Addrs, peerstore.PermanentAddrTTL)

		attempt := func(ctx context.Context) string {
			if punch {
				bdone := make(chan error, 1)
				simrt.GoNamed("b-dials-a", func() {
					simrt.TimeSleep(punchDelay)
					bctx, bcancel := context.WithTimeout(context.Background(), 30*time.Second)
					defer bcancel()
					bdone <- b.Host.Connect(bctx, peer.AddrInfo{ID: a.ID, Addrs: []ma.Multiaddr{a.QAddr}})
				})
				err := a.Host.Connect(network.WithSimultaneousConnect(ctx, false, "c04"), target)
				berr := simrt.Recv("c04.bdone", bdone)
				if err != nil && berr != nil {
					return "connect-failed"
				}
				if err != nil {
					o.Probe("hole-punch-failed-while-peer-connected")
				}
			} else if err := a.Host.Connect(ctx, target); err != nil {
				return "connect-failed"
			}
			s, err := a.Host.NewStream(ctx, b.ID, echoProto)
			if err != nil {
				return "stream-failed"
			}
			buf := make([]byte, payload)
			for i := range buf {
				buf[i] = byte(i * 7)
			}
			s.SetDeadline(time.Now().Add(40 * time.Second))
			errc := make(chan error, 1)
			go func() {
				_, err := s.Write(buf)
				if err == nil {
					err = s.CloseWrite()
				}
				errc <- err
			}()
			got, rerr := io.ReadAll(s)
			werr := <-errc
			if rerr != nil || werr != nil || len(got) != payload {
				s.Reset()
				return "echo-failed"
			}
			for i := range got {
				if got[i] != buf[i] {
					o.Violate("C04/echo-corrupted", "echo returned different bytes at offset %d", i)
					break
				}
			}
			s.Close()
			return "ok"
		}
		settle := func(d time.Duration) {
			simrt.WaitIdle()
			simrt.TimeSleep(d)
			simrt.WaitIdle()
		}
		closeConns := func() {
			if !closedA {
				for _, c := range a.Swarm.ConnsToPeer(b.ID) {
					c.Close()
				}
			}
			if !closedB {
				for _, c := range b.Swarm.ConnsToPeer(a.ID) {
					c.Close()
				}
			}
		}

		// warm-up on a perfect wire
		var base map[string]int
		if !cold {
			ctx0, cancel0 := context.WithTimeout(context.Background(), 30*time.Second)
			if r := attempt(ctx0); r != "ok" {
				cancel0()
				o.Trouble = "warm-up attempt failed: " + r
				return
			}
			cancel0()
			settle(2 * time.Second)
			closeConns()
			settle(3 * time.Minute)
			if pr := append(statProblems("A", a.Rcmgr), statProblems("B", b.Rcmgr)...); len(pr) > 0 {
				o.Violate("C04/usage-after-clean-close/quic", "after a fault-free QUIC connect/echo/close: %v", pr)
				return
			}
			base = goroutines()
		}

		// arm the fault
		switch bg {
		case 1:
			n.SetUDP(simnet.UDPConfig{DropPermille: 30, Latencies: []time.Duration{0, time.Millisecond, 20 * time.Millisecond}})
		case 2:
			n.SetUDP(simnet.UDPConfig{DropPermille: 150, DupPermille: 50, Latencies: []time.Duration{0, 5 * time.Millisecond, 60 * time.Millisecond, 300 * time.Millisecond}})
		}
		ctx, cancel := context.WithTimeout(context.Background(), 30*time.Second)
		defer cancel()
		switch p.kind {
		case 2:
			if p.onB {
				gtB.Reject = p.hook
			} else {
				gtA.Reject = p.hook
			}
		case 3:
			if p.onB {
				rwB.Arm(p.site, p.n)
			} else {
				rwA.Arm(p.site, p.n)
			}
		}
		// the planned fault can only START while the attempt runs (keep-alive datagrams go on for as long as a
		// connection lives, so the k-th datagram may otherwise come minutes later, in the middle of the audit); a
		// blackout "for good" that started goes on, one with a span heals when the attempt is over
		cnt, armed, started := 0, true, false
		n.SetUDPFilter(func(from, to *net.UDPAddr, _ []byte) simnet.UDPVerdict {
			fromA := from.IP.Equal(net.ParseIP("10.0.0.1"))
			if !armed && !(p.kind == 1 && started && p.span == 0) {
				return simnet.UDPPass
			}
			switch p.kind {
			case 1:
				if p.dir == 0 && !fromA || p.dir == 1 && fromA {
					return simnet.UDPPass
				}
				cnt++
				if cnt >= p.k && (p.span == 0 || cnt < p.k+p.span) {
					started = true
					if !fired {
						fired = true
						o.Fault("udp-blackout")
					}
					return simnet.UDPDrop
				}
			case 4, 5:
				if fromA == p.onB {
					return simnet.UDPPass
				}
				cnt++
				if cnt != p.k {
					return simnet.UDPPass
				}
				fired = true
				if p.kind == 4 {
					o.Fault("cancel")
					cancel()
					return simnet.UDPPass
				}
				o.Fault(fmt.Sprintf("close-%d", p.target))
				simrt.GoNamed("closer", func() {
					switch p.target {
					case 0:
						a.Swarm.ClosePeer(b.ID)
					case 1:
						if quic == 3 {
							if wta := b.WTAddr(); wta != nil { // the listener's address carries the current certhashes
								b.Swarm.ListenClose(wta)
							}
						} else {
							b.Swarm.ListenClose(b.QAddr)
						}
					case 2:
						closeA()
					case 3:
						closeB()
					case 4:
						b.Swarm.ClosePeer(a.ID)
					}
				})
			}
			return simnet.UDPPass
		})
		attemptOutcome = attempt(ctx)
		cancel()
		o.Logf("attempt: %s", attemptOutcome)
		settle(2 * time.Second)
		armed = false
		// past handshake, idle (30 s), negotiation, dial and keep-alive timeouts
		if os.Getenv("C04_DEBUG") != "" {
			for i := 0; i < 18; i++ {
				simrt.TimeSleep(10 * time.Second)
				fmt.Printf("t=%v A conns=%d B conns=%d sockets=%v udp=%v\n", simrt.Now(), len(a.Swarm.ConnsToPeer(b.ID)), len(b.Swarm.ConnsToPeer(a.ID)), n.UDPSockets(), n.UDPCounts())
			}
		} else {
			settle(3 * time.Minute)
		}
		for _, nd := range []struct {
			name   string
			closed bool
			rm     network.ResourceManager
		}{{"A", closedA, a.Rcmgr}, {"B", closedB, b.Rcmgr}} {
			if nd.closed {
				continue
			}
			rm := nd.rm
			if w, ok := rm.(*simhost.RefusingRcmgr); ok {
				rm = w.ResourceManager
			}
			st := rm.(rcmgr.ResourceManagerState).Stat()
			if st.System.NumStreamsInbound != 0 || st.System.NumStreamsOutbound != 0 || st.Transient.NumStreamsInbound != 0 || st.Transient.NumStreamsOutbound != 0 {
				o.Violate("C04/streams-left-on-open-connection/"+class(p)+"/"+attemptOutcome, "%s: 3 virtual minutes after the attempt (%s, outcome %s) streams are still charged while the connection is open: system=%+v transient=%+v", nd.name, p, attemptOutcome, st.System, st.Transient)
			}
		}
		// a connection has two ends: three quiet minutes after the attempt (past every keep-alive, idle and
		// handshake timeout) an end that still exists while the other node has none is a connection that failed or
		// finished on one side without being closed (for QUIC there is no raw connection whose Close could be audited)
		if !closedA && !closedB {
			if na, nb := len(a.Swarm.ConnsToPeer(b.ID)), len(b.Swarm.ConnsToPeer(a.ID)); na != nb {
				if os.Getenv("C04_DEBUG") != "" {
					for _, gr := range simrt.BubbleGoroutines() {
						fmt.Println("GOROUTINE", gr)
					}
					for _, c := range a.Swarm.ConnsToPeer(b.ID) {
						fmt.Println("A CONN", c, c.IsClosed(), c.Stat())
					}
				}
				o.Violate("C04/one-sided-connection/"+class(p)+"/"+attemptOutcome, "3 virtual minutes after the attempt (%s, outcome %s) A lists %d connection(s) to B and B lists %d to A", p, attemptOutcome, na, nb)
			}
		}
		closeConns()
		settle(3 * time.Minute)

		switch p.kind {
		case 2:
			fired = gtA.Fired+gtB.Fired > 0
		case 3:
			fired = rwA.Fired+rwB.Fired > 0
		}
		if fired && p.kind != 1 && p.kind != 4 && p.kind != 5 {
			o.Fault(class0(p))
		}

		// ---- audit ----------------------------------------------------------------------
		var problems []string
		if !closedA {
			problems = append(problems, statProblems("A", a.Rcmgr)...)
			if c := a.Swarm.ConnsToPeer(b.ID); len(c) > 0 {
				problems = append(problems, fmt.Sprintf("A still lists %d conns after Close", len(c)))
			}
		}
		if !closedB {
			problems = append(problems, statProblems("B", b.Rcmgr)...)
			if c := b.Swarm.ConnsToPeer(a.ID); len(c) > 0 {
				problems = append(problems, fmt.Sprintf("B still lists %d conns after Close", len(c)))
			}
		}
		if len(problems) > 0 {
			o.Violate("C04/usage-not-released/"+class(p)+"/"+attemptOutcome, "after %s (attempt %s), all connections closed and 6 virtual minutes: %v", p, attemptOutcome, problems)
		}
		for _, c := range n.Conns() {
			if !c.Stats().Closed {
				end := "listener"
				if c.IsDialer() {
					end = "dialer"
				}
				o.Violate("C04/raw-conn-not-closed/"+end+"/"+class(p)+"/"+attemptOutcome, "raw TCP connection #%d (%s end) was never closed after %s (attempt %s)", c.ID(), end, p, attemptOutcome)
			}
		}
		if !closedA && !closedB {
			// every connection is closed: no socket but the listening ones may remain
			var extra []string
			for _, sk := range n.UDPSockets() {
				if sk != "10.0.0.1:4001" && sk != "10.0.0.2:4001" {
					extra = append(extra, sk)
				}
			}
			if socks := n.UDPSockets(); len(extra) > 0 {
				o.Violate("C04/udp-socket-left/"+reuseTag+class(p)+"/"+attemptOutcome, "6 virtual minutes after %s (attempt %s) with every connection closed, the open UDP sockets are %v (the listening ones are 10.0.0.1:4001 and 10.0.0.2:4001)", p, attemptOutcome, socks)
			}
			if extra := newGoroutines(base, goroutines()); base != nil && len(extra) > 0 {
				o.Violate("C04/goroutine-left/"+reuseTag+class(p)+"/"+attemptOutcome, "goroutines that did not exist before the attempt: %v", extra)
			}
		}
		// ---- shutdown -------------------------------------------------------------------
		closeA()
		closeB()
		simrt.WaitIdle()
		simrt.TimeSleep(time.Minute)
		simrt.WaitIdle()
		if c := a.Swarm.Conns(); len(c) > 0 {
			o.Violate("C04/conns-after-swarm-close", "A lists %d conns after Close", len(c))
		}
		if l := append(a.Swarm.ListenAddresses(), b.Swarm.ListenAddresses()...); len(l) > 0 {
			o.Violate("C04/listen-addrs-after-swarm-close", "listen addresses after Close: %v", l)
		}
		if pr := append(statProblems("A", rwA.ResourceManager), statProblems("B", rwB.ResourceManager)...); len(pr) > 0 {
			o.Violate("C04/usage-after-host-close/"+class(p), "after Host.Close: %v", pr)
		}
		for _, c := range n.Conns() {
			if !c.Stats().Closed {
				o.Violate("C04/raw-conn-open-after-host-close/"+class(p), "raw TCP connection #%d still open after both hosts closed", c.ID())
			}
		}
		if socks := n.UDPSockets(); len(socks) > 0 {
			o.Violate("C04/udp-socket-open-after-host-close/"+class(p), "UDP sockets still open a minute after both hosts (and their QUIC connection managers) were closed: %v", socks)
		}
		rwA.ResourceManager.Close()
		rwB.ResourceManager.Close()
		udp = n.UDPCounts()
	})
	o.Sched = res
	o.Virtual = res.Virtual
	for _, k := range []string{"udp-lost", "udp-duplicated", "udp-delayed"} {
		if udp[k] > 0 {
			o.Fault(k)
		}
	}
	o.Sig = fmt.Sprintf("quic%d|bg%d|%s|%s|fired=%v|%d|%v%v|%v", quic, bg, p, attemptOutcome, fired, udp["udp-lost"], punch, punchDelay, cold)
	if punch {
		o.Probe("hole-punch-" + attemptOutcome)
	}
	if cold && o.Nontrivial {
		o.Probe("cold-start-outcome-" + attemptOutcome)
	}
	o.Nontrivial = fired || udp["udp-lost"] > 0
	if o.Nontrivial {
		o.Probe("outcome-" + attemptOutcome)
		o.Probe([...]string{"", "quic", "quic", "webtransport"}[quic] + "-outcome-" + attemptOutcome)
	}
	if res.Panic != "" {
		o.Violate("C04/panic", "%s", res.Panic)
	}
	if (res.Stuck || res.StepLimit) && o.Trouble == "" {
		o.Trouble = fmt.Sprintf("stuck=%v steplimit=%v", res.Stuck, res.StepLimit)
	}
	if len(res.Residue) > 0 && o.Trouble == "" {
		o.Violate("C04/residue-after-host-close/"+class(p), "goroutines alive after both hosts were closed: %v", res.Residue)
	}
	return o
}
