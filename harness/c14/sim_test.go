// C14 — connection manager: trims only eligible peers, lowest value first; connection count and
// tag totals follow the notifications and tag operations under any interleaving.
// Lock/channel-level simulation of the real (instrumented) p2p/net/connmgr package; only its
// exported API is used.
//
// MUTATION LOG is at the end of this comment block (filled in after the sensitivity runs).
//
// Reading of the statement (weaker reading wherever it is ambiguous, guide rule 1/6):
//   - "connection count" / "connections of a peer" are the connections the manager was told about
//     by Connected and not yet by Disconnected (set semantics: duplicates change nothing). A
//     connection closed by a trim stays tracked until its Disconnected is delivered, exactly as with
//     the swarm; a later trim may close it again.
//   - A peer's grace period runs from the Connected notification that made its connection set
//     non-empty. age < grace = certainly inside, age > grace = certainly outside, age == grace is
//     asserted in neither direction. grace == 0: nobody is inside.
//   - Tags live as long as the manager tracks the peer: from the first tag operation / Connected
//     until the last tracked connection is Disconnected (GetTagInfo doc: "nil for an unknown peer";
//     connmgr's own tests TestTagPeerNonExistant/TestDisconnected). An entry that only holds early
//     tags (no connection) may be dropped once it is past the grace period (it is "eligible" and
//     has nothing to close); the model accepts nil then and forgets the tags.
//   - ForceTrim's own documentation says it ignores the grace period, so no grace oracle is applied
//     to forced trims; "eligible" for a forced trim = unprotected.
//   - Watermarks are positive (low = 0 or high = 0 silently disables trimming; not exercised).
//   - "kept" peer = has a tracked connection on which CloseWithError was never called up to the
//     trim's return; "closed" peer = CloseWithError was called on one of its connections by this trim.
//   - Under concurrency (and for background trims, whose start is not observable) a peer takes part
//     in a comparison only if no operation that can change the compared attribute overlaps the
//     trim window (stamps), and whole-population bounds are only asserted when no operation that
//     could add an eligible connection overlaps and no other trim overlaps (TrimOpenConns documents
//     that a call that finds a trim underway only waits for it).
package c14

import (
	"context"
	"fmt"
	"runtime"
	"sort"
	"strings"
	"testing"
	"time"

	"github.com/benbjohnson/clock"
	coreconnmgr "github.com/libp2p/go-libp2p/core/connmgr"
	"github.com/libp2p/go-libp2p/core/network"
	"github.com/libp2p/go-libp2p/core/peer"
	"github.com/libp2p/go-libp2p/p2p/net/connmgr"
	ma "github.com/multiformats/go-multiaddr"

	"verifsim/harness/common"
	"verifsim/simrt"
	"verifsim/simsync"
)

func TestSim(t *testing.T) {
	common.Main(t, common.Harness{Property: "C14", Run: run})
}

const inf = ^uint64(0)

// window kinds: what an operation on a peer may change
const (
	wAdd  = 1 << iota // may add a tracked connection
	wRem              // may remove a tracked connection
	wVal              // may change the peer's value
	wProt             // may change the peer's protection
	wLife             // may create/delete the peer entry (first-seen instant)
)

type win struct {
	inv, ret uint64
	kind     int
}

// mpeer is the reference model of one peer.
type mpeer struct {
	idx  int
	id   peer.ID
	name string

	conns     map[*sconn]time.Duration // tracked connections -> instant of the Connected notification
	tags      map[string]int           // plain tags
	dec       map[string]int           // decaying tags (by name)
	exists    bool                     // the manager has an entry (tags and/or connections)
	temp      bool                     // entry created by a tag operation, no connection yet
	firstSeen time.Duration
	prot      map[string]bool

	unc  bool // tags/value/first-seen are ambiguous (overlapping operations whose order decides the result)
	wins []*win
}

func (p *mpeer) value() int {
	v := 0
	for _, x := range p.tags {
		v += x
	}
	for _, x := range p.dec {
		v += x
	}
	return v
}

func (p *mpeer) inflight(mask int) bool {
	for i := len(p.wins) - 1; i >= 0; i-- {
		if w := p.wins[i]; w.ret == inf && w.kind&mask != 0 && !w.forever() {
			return true
		}
	}
	return false
}

// forever windows (inv set, never returned on purpose) are marked with kind bit 1<<16.
const wForever = 1 << 16

func (w *win) forever() bool { return w.kind&wForever != 0 }

// changed reports whether an operation of one of the kinds in mask overlaps [a,b].
func (p *mpeer) changed(mask int, a, b uint64) bool {
	for _, w := range p.wins {
		if w.kind&mask != 0 && w.inv < b && w.ret > a {
			return true
		}
	}
	return false
}

func (p *mpeer) sortedConns() []*sconn {
	l := make([]*sconn, 0, len(p.conns))
	for c := range p.conns {
		l = append(l, c)
	}
	sort.Slice(l, func(i, j int) bool { return l[i].idx < l[j].idx })
	return l
}

// sconn is the stub connection: it records CloseWithError and, like the swarm, has Disconnected
// delivered to the manager later from another task (or synchronously, as connmgr's own tests do).
type sconn struct {
	network.Conn
	h       *H
	idx     int
	mp      *mpeer
	addr    ma.Multiaddr
	dir     network.Direction
	streams int
	opened  time.Time
	delay   time.Duration
	sync    bool // Disconnected is delivered from inside CloseWithError

	tracked    bool   // model: Connected delivered and not yet Disconnected
	everConn   bool   // Connected was delivered at least once
	closedAt   uint64 // stamp of the first CloseWithError (0 = never)
	firstRemIn uint64 // stamp of the first Disconnected invocation (0 = never)
	nClose     int
}

func (c *sconn) RemotePeer() peer.ID           { c.h.touch(); return c.mp.id }
func (c *sconn) LocalPeer() peer.ID            { return peer.ID("local") }
func (c *sconn) RemoteMultiaddr() ma.Multiaddr { c.h.touch(); return c.addr }
func (c *sconn) LocalMultiaddr() ma.Multiaddr  { return c.h.localAddr }
func (c *sconn) ID() string                    { return fmt.Sprintf("c%d", c.idx) }
func (c *sconn) IsClosed() bool                { return c.closedAt != 0 }
func (c *sconn) Stat() network.ConnStats {
	c.h.touch()
	return network.ConnStats{Stats: network.Stats{Direction: c.dir, Opened: c.opened}, NumStreams: c.streams}
}
func (c *sconn) Close() error { return c.CloseWithError(0) }
func (c *sconn) CloseWithError(code network.ConnErrorCode) error {
	h := c.h
	h.touch()
	rec := h.trimByGid[curGid()]
	if rec == nil {
		rec = h.bgTrim()
	}
	if rec.snap == nil {
		h.snapshot(rec)
	}
	st := simrt.Stamp()
	rec.closes = append(rec.closes, closeRec{c: c, stamp: st, at: h.now()})
	rec.last = st
	c.nClose++
	if code != network.ConnGarbageCollected {
		h.o.Probe("close-code-not-gc")
	}
	if c.closedAt != 0 {
		h.o.Probe("closed-again-while-still-tracked")
		return nil
	}
	c.closedAt = st
	if c.sync {
		h.o.Probe("sync-delivery")
		h.disconnected(c, "sync-delivery")
		return nil
	}
	h.pending.Add(1)
	simrt.GoNamed(fmt.Sprintf("deliver-c%d", c.idx), func() {
		defer h.pending.Done()
		if c.delay > 0 {
			simrt.TimeSleep(c.delay)
		}
		h.disconnected(c, "delivery")
	})
	return nil
}

func curGid() int64 {
	var buf [64]byte
	n := runtime.Stack(buf[:], false)
	var id int64
	for _, b := range buf[len("goroutine "):n] {
		if b < '0' || b > '9' {
			break
		}
		id = id*10 + int64(b-'0')
	}
	return id
}

type closeRec struct {
	c     *sconn
	stamp uint64
	at    time.Duration
}

type psnap struct {
	value     int
	unc       bool
	prot      bool
	exists    bool
	temp      bool
	firstSeen time.Duration
	conns     []*sconn
}

const (
	kTrim = iota
	kForce
	kBg
)

var kindName = []string{"TrimOpenConns", "ForceTrim", "background-trim"}

type trimRec struct {
	kind       int
	who        string
	inv, ret   uint64 // window in stamps (background: start of the virtual instant .. last close)
	last       uint64 // stamp of the last close
	invT, retT time.Duration
	precise    bool // window is known to contain the whole trim
	count      int  // model connection count at the snapshot
	snap       []psnap
	closes     []closeRec
}

type cntTracker struct{ lo, hi int }

type dtagSpec struct {
	name     string
	mult     int
	decayK   int
	bumpK    int
	interval time.Duration
}

// H is the state of one run.
type H struct {
	o  *common.Outcome
	t0 time.Time

	cm        *connmgr.BasicConnMgr
	nf        network.Notifiee
	low, high int
	grace     time.Duration
	silence   time.Duration
	resol     time.Duration
	stall     int
	localAddr ma.Multiaddr

	peers  []*mpeer
	byID   map[peer.ID]*mpeer
	conns  []*sconn
	dspecs []*dtagSpec
	dtags  []coreconnmgr.DecayingTag

	count    int // model: tracked connections
	addIn    int // in-flight operations that may add one
	remIn    int // in-flight operations that may remove one
	trackers []*cntTracker

	concurrent bool
	trims      []*trimRec
	trimByGid  map[int64]*trimRec
	bgCur      *trimRec
	pending    simsync.WaitGroup

	lastT     time.Duration
	instStart uint64

	mutations int
	sig       strings.Builder
}

func (h *H) now() time.Duration { return time.Since(h.t0) }

// touch notes the first stamp of every virtual instant at which the harness sees anything.
func (h *H) touch() {
	if n := h.now(); n > h.lastT || h.instStart == 0 {
		h.lastT = n
		h.instStart = simrt.Stamp()
	}
}

func (h *H) cntChanged() {
	lo, hi := h.count-h.remIn, h.count+h.addIn
	for _, t := range h.trackers {
		if lo < t.lo {
			t.lo = lo
		}
		if hi > t.hi {
			t.hi = hi
		}
	}
}

func (h *H) inGraceAt(p *psnap, at time.Duration) bool {
	return h.grace > 0 && at-p.firstSeen < h.grace
}
func (h *H) pastGraceAt(p *psnap, at time.Duration) bool {
	return h.grace == 0 || at-p.firstSeen > h.grace
}

// begin opens the window of an operation on a peer and flags order-dependent overlaps.
func (h *H) begin(mp *mpeer, kind int) *win {
	h.touch()
	h.tempRisk(mp)
	if kind&wRem != 0 && mp.inflight(wVal|wAdd) || kind&(wVal|wAdd) != 0 && mp.inflight(wRem) {
		// a Disconnected that may delete the entry races with a tag operation / Connected:
		// which tags survive and when the peer was first seen depends on the order
		if !mp.unc {
			h.o.Probe("order-dependent-overlap")
		}
		mp.unc = true
	}
	w := &win{inv: simrt.Stamp(), ret: inf, kind: kind}
	mp.wins = append(mp.wins, w)
	if kind&wAdd != 0 {
		h.addIn++
	}
	if kind&wRem != 0 {
		h.remIn++
	}
	h.cntChanged()
	return w
}

// end closes the window; apply updates the model and runs between the operation's return and
// the return stamp, with no scheduling point in between.
func (h *H) end(w *win, apply func()) {
	h.touch()
	if w.kind&wAdd != 0 {
		h.addIn--
	}
	if w.kind&wRem != 0 {
		h.remIn--
	}
	if apply != nil {
		apply()
	}
	h.cntChanged()
	w.ret = simrt.Stamp()
}

// tempRisk: in the concurrent phase an entry that only holds early tags and is past the grace
// period may be dropped by any trim at an instant the harness cannot observe.
func (h *H) tempRisk(mp *mpeer) {
	if h.concurrent && mp.exists && mp.temp && h.now()-mp.firstSeen >= h.grace && !mp.unc {
		mp.unc = true
		h.o.Probe("early-tag-entry-droppable-under-concurrency")
	}
}

// ---- model updates ---------------------------------------------------------------------

func (h *H) ensure(mp *mpeer) {
	if !mp.exists {
		mp.exists, mp.temp, mp.firstSeen = true, true, h.now()
	}
}

func (h *H) mConnected(c *sconn) {
	mp := c.mp
	if c.tracked {
		return
	}
	if len(mp.conns) == 0 {
		if !mp.exists || mp.temp {
			mp.firstSeen = h.now()
		}
		mp.exists, mp.temp = true, false
	}
	c.tracked, c.everConn = true, true
	mp.conns[c] = h.now()
	h.count++
	h.mutations++
}

func (h *H) mDisconnected(c *sconn) {
	mp := c.mp
	if !c.tracked {
		return
	}
	c.tracked = false
	delete(mp.conns, c)
	h.count--
	h.mutations++
	if len(mp.conns) == 0 {
		mp.exists, mp.temp = false, false
		mp.tags = map[string]int{}
		mp.dec = map[string]int{}
	}
}

// ---- operations on the manager ---------------------------------------------------------

func (h *H) connected(c *sconn) {
	w := h.begin(c.mp, wAdd|wLife)
	h.nf.Connected(nil, c)
	h.end(w, func() { h.mConnected(c) })
}

func (h *H) disconnected(c *sconn, why string) {
	if c.firstRemIn == 0 {
		h.touch()
		c.firstRemIn = simrt.Stamp()
	}
	w := h.begin(c.mp, wRem|wLife|wVal)
	h.nf.Disconnected(nil, c)
	h.end(w, func() { h.mDisconnected(c) })
}

func (h *H) snapshot(rec *trimRec) {
	rec.count = h.count
	rec.snap = make([]psnap, len(h.peers))
	for i, mp := range h.peers {
		h.tempRisk(mp)
		rec.snap[i] = psnap{value: mp.value(), unc: mp.unc, prot: len(mp.prot) > 0, exists: mp.exists, temp: mp.temp,
			firstSeen: mp.firstSeen, conns: mp.sortedConns()}
	}
}

func (h *H) bgTrim() *trimRec {
	n := h.now()
	if h.bgCur != nil && h.stall == 0 && h.bgCur.invT == n {
		return h.bgCur
	}
	rec := &trimRec{kind: kBg, who: "background", inv: h.instStart, invT: n, precise: h.stall == 0}
	if h.stall != 0 {
		// with stalls a background trim may have started at any earlier instant and two trims may
		// share an instant: every close is its own record with a window from the start of the run
		rec.inv = 0
	}
	h.bgCur = rec
	h.trims = append(h.trims, rec)
	h.o.Probe("background-trim-closed")
	return rec
}

func (h *H) trim(kind int, who string) {
	h.touch()
	rec := &trimRec{kind: kind, who: who, precise: true, invT: h.now()}
	h.snapshot(rec)
	h.trims = append(h.trims, rec)
	gid := curGid()
	h.trimByGid[gid] = rec
	rec.inv = simrt.Stamp()
	if kind == kTrim {
		h.cm.TrimOpenConns(context.Background())
	} else {
		h.cm.ForceTrim()
	}
	h.touch()
	rec.ret = simrt.Stamp()
	rec.retT = h.now()
	delete(h.trimByGid, gid)
}
