// C14 — connection manager: trims only eligible peers, lowest value first; connection count and
// tag totals follow the notifications and tag operations under any interleaving.
// Lock/channel-level simulation of the real (instrumented) p2p/net/connmgr package; only its
// exported API is used.
//
// FINDING (genuine; fixed in /repo by 6dd3d62, see known_findings.json "fixed"; classes C14/entry-forgotten
// and, when the peer is re-connected before the next check, C14/peer-conns/forgotten; later symptom
// C14/conn-count/too-high):
// getConnsToClose prunes an early-tag ("temp") candidate with delete(s.peers, inf.id) (connmgr.go:526)
// without checking that the candidate is still the entry stored under that id. The background loop calls
// cm.trim() without the trim mutex, so it can overlap a TrimOpenConns call; both collect the same temp
// entry E1; the first prunes it; Connected(p, c) (or TagPeer) then creates a fresh entry E2; the second
// trim reaches its stale E1 (still temp, no connections) and deletes E2 by id. The manager forgets a
// connection it was told about: GetTagInfo(p) = nil, no trim (not even ForceTrim) can select it, and
// its Disconnected finds no entry and does not decrement connCount (drift for ever). With
// `if s.peers[inf.id] == inf { delete(...) }` 124 000 runs are clean.
//
// MUTATION LOG (sensitivity; each mutation applied alone to a private copy of the instrumented
// overlay, never to /repo; 6 workers, budget 25-40 s; "runs" = runs executed by all workers until
// every worker had its first violation minimised):
//
//	required by DESIGN.md / the task
//	M1  getConnsToClose: grace comparison inverted (!firstSeen.After)      -> closed-in-grace, left-above-low, lower-valued-kept, entry-forgotten (1st run of every worker)
//	M2  getConnsToClose: protected check dropped                           -> closed-protected/TrimOpenConns and /background-trim (16 runs)
//	M3  SortByValueAndStreams: left.value > right.value                    -> lower-valued-kept/TrimOpenConns and /background-trim (9 runs)
//	M4a Disconnected: connCount.Add(-1) removed                            -> conn-count/too-high (7 runs)
//	M4b Disconnected: extra connCount.Add(-1) for an untracked connection  -> conn-count/too-low (8 runs)
//	M5  UpsertTag: value not updated                                       -> tag-total/value (6 runs)
//	M6  getConnsToCloseEmergency: protected peers not skipped in phase 1   -> forced-protected-before-unprotected (22 runs)
//	M7  getConnsToClose: target = ncandidates-low-1                        -> left-above-low/TrimOpenConns and /background-trim (11 runs)
//	additional
//	M8  Connected: duplicate notification counted                          -> conn-count/too-high
//	M9  decayer: bump not added to value                                   -> tag-total/value
//	M10 Connected: firstSeen not refreshed when an early-tag entry converts-> first-seen
//	M11 getConnsToClose: grace period halved                               -> closed-in-grace
//	M13 UntagPeer / M14 decay tick / M21 TagPeer: value not (or wrongly) updated -> tag-total/value
//	M16 getConnsToClose: all three comparisons use low-1                   -> closed-at-or-below-low/TrimOpenConns
//	M17 ForceTrim: target = count-low+1                                    -> closed-at-or-below-low/ForceTrim
//	M18 Disconnected: entry kept after the last connection                 -> tag-total/tags, first-seen
//	M19 Protect: replaces the tag set / M22 Unprotect: leaves an empty set -> protect-result
//	M20 getConnsToClose: one connection per selected peer                  -> left-above-low
//	MC2 Connected: connCount load / scheduling point / store (visible under concurrency only)
//	                                                                       -> conn-count/sampled, conn-count/too-low (about 100 runs)
//	MC4 TagPeer: value read, segment lock released, value written (concurrency only: races with the decayer)
//	                                                                       -> tag-total/value (about 500-700 runs)
//	not caught, equivalent mutants: M12 "count <= low" early return removed, M15 "ncandidates < low" early
//	return removed (target <= 0 in both cases, so nothing is selected anyway).
//	Tree before 6dd3d62: only the finding above (about 1 run in 2 000-5 000); nothing else in >150 000 runs.
//	seeded changes evaluated by the coordinator (scratch worktree + VERIF_REPO, 8 workers)
//	S2  decayer tick: "value += after - v.Value" also when the decay function removes the tag with after != 0
//	    (missed while the harness decay functions only removed at exactly 0; now the exported presets and an
//	    overshooting function are drawn, bump deltas -2..6)                 -> tag-total/value, lower-valued-kept/*
//	S3a UpsertTag: callback run outside the segment lock, stale old value applied (missed while the callback
//	    had no scheduling point and every peer had one writer)              -> tag-total/value-vs-tags (every worker, <= 250 runs each)
//	clock-jump mutants (private overlay copies, 8 workers, 30 s; every worker caught each)
//	MJ1  grace measured on monotonic time (wall at construction + time.Since): blind to jumps
//	                                                                       -> left-above-low/*, lower-valued-kept/* (jump runs only)
//	MJ2a getConnsToClose uses the Now() read by the previous trim           -> left-above-low/*, lower-valued-kept/*
//	MJ2b Now() cached and refreshed once per second of monotonic time (invisible without a jump)
//	                                                                       -> left-above-low/TrimOpenConns, lower-valued-kept/TrimOpenConns
//	MJ3  decayer: nextTick never advanced (decays at every resolution tick) -> decay/more-often-than-wall-time
//	S3b Unprotect: read-locked fast path working on the set fetched before the write lock (three-way race of
//	    Protect/Unprotect callers on one peer)                              -> protect-state (sampled and at quiescence),
//	    closed-protected/TrimOpenConns (about 1 run in 1 500: 6 of 8 workers within 30 s)
//
// Not part of C14 but recorded (probe forcetrim-left-above-low-overall; C14_FORCETRIM_DOC=1 turns it into
// class C14/doc/forcetrim-left-above-low): ForceTrim's documentation promises "down to the low watermark"
// and "if after closing all unprotected connections we still have more than lowWaterMark connections,
// it'll close protected connections"; getConnsToCloseEmergency compares len(selected) with the already
// decremented target (connmgr.go:425), e.g. low=4, protected p0 with 7 connections, unprotected p1 (1) and
// p2 (2): ForceTrim closes 3 and leaves 7.
//
// Reading of the statement (weaker reading wherever it is ambiguous, guide rule 1/6):
//   - "connection count" / "connections of a peer" are the connections the manager was told about
//     by Connected and not yet by Disconnected (set semantics: duplicates change nothing). A
//     connection closed by a trim stays tracked until its Disconnected is delivered, exactly as with
//     the swarm; a later trim may close it again.
//   - A peer's grace period runs from the Connected notification that made its connection set
//     non-empty. age < grace = certainly inside, age > grace = certainly outside, age == grace is
//     asserted in neither direction. grace == 0: nobody is inside.
//   - Tags live as long as the manager tracks the peer: from the first tag operation / Connected
//     until the last tracked connection is Disconnected (GetTagInfo doc: "nil for an unknown peer";
//     connmgr's own tests TestTagPeerNonExistant/TestDisconnected). An entry that only holds early
//     tags (no connection) may be dropped once it is past the grace period (it is "eligible" and
//     has nothing to close); the model accepts nil then and forgets the tags.
//   - ForceTrim's own documentation says it ignores the grace period, so no grace oracle is applied
//     to forced trims; "eligible" for a forced trim = unprotected.
//   - Watermarks are positive (low = 0 or high = 0 silently disables trimming; not exercised).
//   - "kept" peer = has a tracked connection on which CloseWithError was never called up to the
//     trim's return; "closed" peer = CloseWithError was called on one of its connections by this trim.
//   - Protection under concurrent callers is judged from the history of Protect/Unprotect calls alone:
//     a tag is "certainly set" over [a,b] if some Protect(tag) returned before a and every Unprotect(tag)
//     either returned before that Protect was invoked or was invoked after b; "certainly unset" if every
//     Protect(tag) invoked before b is followed by an Unprotect(tag) invoked after it returned and
//     returned before a. A peer with a certainly-set tag during a whole trim call must not be closed by a
//     regular/background trim, IsProtected must report a certainly-set tag (sampled between operations and
//     at quiescence) and must not report a certainly-unset one at quiescence; a "kept eligible" peer must be
//     certainly unprotected for the whole call. With one caller per peer this is the exact model.
//   - GetTagInfo(p).Value must equal the sum of GetTagInfo(p).Tags at every quiescent instant, whatever
//     the history (every tag operation updates tag and total together) — this is the only tag oracle for
//     peers written by several tasks (shared-peer mode), whose tag values depend on the linearisation.
//   - UpsertTag's callback is caller code and may take time: it contains 0-3 scheduling points.
//   - CLOCK JUMPS (fault stratum, drawn right after the stratum, one run in three): the manager's and the
//     decayer's injected clock is jumpClock — Now()/Since()/Until() = bubble time + an offset that jumps
//     forward (1 s, 30 s, grace-1 s, grace+1 s, 10 min, 3 h) at drawn points of the history, while
//     tickers/timers stay on bubble time (nothing fires during a jump, everything armed before is late by
//     it): suspend/resume. Every time-dependent clause is judged in WALL time: first-seen instants,
//     connection times, "inside the grace period" (at the wall time of the close; a peer is a kept eligible
//     one if it was past the grace period in wall time when the trim was invoked — background trims: at the
//     start of the instant), early-tag entries droppable from grace in wall time. The statement says nothing
//     about the silence period or about how late the background trim or a decay tick may be: probes only
//     (decay-applied-after-clock-jump, eligible-only-by-wall-time-after-clock-jump,
//     closed-peer-eligible-only-by-wall-time). Decay (Decayer documentation: the function is called "at the
//     interval supplied when registering the tag"), weakest sound reading: the k-th application of a tag's
//     decay function to one peer's value needs k whole intervals of wall time since the tag was registered
//     (never more often than wall time allows; late or skipped is allowed), and the value reported is the
//     one the function returned (tag-total/tags).
//     The manager reads its clock somewhere between an operation's invocation and its return; if another
//     task jumps the clock inside that window (UpsertTag creates the entry and reads the clock BEFORE it
//     calls the — yielding — callback) the instants the operation records lie anywhere between the two wall
//     times: the peer is then treated as ambiguous (no grace / kept-eligible / early-tag-in-grace / first-seen
//     assertion until it is re-synchronised at quiescence; probe clock-jump-during-operation). A model that
//     stamped with the return time raised a false C14/entry-forgotten once in 477 000 runs of the thorough
//     tier (seed 2000004 run 132206: UpsertTag(p1) at wall +40s, +30s jump inside its callback, trim at
//     +1m12s legitimately prunes the 32 s old early-tag entry, grace 20 s).
//   - Under concurrency (and for background trims, whose start is not observable) a peer takes part
//     in a comparison only if no operation that can change the compared attribute overlaps the
//     trim window (stamps), and whole-population bounds are only asserted when no operation that
//     could add an eligible connection overlaps and no other trim overlaps (TrimOpenConns documents
//     that a call that finds a trim underway only waits for it).
package c14

import (
	"context"
	"fmt"
	"os"
	"runtime"
	"sort"
	"strings"
	"testing"
	"time"

	"github.com/benbjohnson/clock"
	coreconnmgr "github.com/libp2p/go-libp2p/core/connmgr"
	"github.com/libp2p/go-libp2p/core/network"
	"github.com/libp2p/go-libp2p/core/peer"
	"github.com/libp2p/go-libp2p/p2p/net/connmgr"
	ma "github.com/multiformats/go-multiaddr"

	"verifsim/harness/common"
	"verifsim/simrt"
	"verifsim/simsync"
)

func TestSim(t *testing.T) {
	common.Main(t, common.Harness{Property: "C14", Run: run})
}

const inf = ^uint64(0)

// window kinds: what an operation on a peer may change
const (
	wAdd  = 1 << iota // may add a tracked connection
	wRem              // may remove a tracked connection
	wVal              // may change the peer's value
	wProt             // may change the peer's protection
	wLife             // may create/delete the peer entry (first-seen instant)
)

type win struct {
	inv, ret uint64
	kind     int
	mp       *mpeer
	off0     time.Duration // sum of the clock jumps when the operation was invoked
	jumped   bool          // the clock jumped while the operation was in flight
}

// mpeer is the reference model of one peer.
type mpeer struct {
	idx  int
	id   peer.ID
	name string

	conns     map[*sconn]time.Duration // tracked connections -> instant of the Connected notification
	tags      map[string]int           // plain tags
	dec       map[string]int           // decaying tags (by name)
	exists    bool                     // the manager has an entry (tags and/or connections)
	temp      bool                     // entry created by a tag operation, no connection yet
	firstSeen time.Duration
	fsOff     time.Duration // sum of the clock jumps when firstSeen was taken (reach probes only)
	prot      map[string]bool

	unc      bool // tags/value/first-seen are ambiguous (overlapping operations whose order decides the result)
	popsSeen int
	shared   bool // several tasks operate on this peer in the concurrent phase (shared-peer mode)
	wins     []*win
	pops     []*pop // every Protect/Unprotect call on the peer, with its window
}

// pop is one Protect/Unprotect call.
type pop struct {
	tag      string
	protect  bool
	inv, ret uint64
}

// tagCertainlySet: some Protect(tag) returned before a, and every Unprotect(tag) either returned before
// that Protect was invoked or was invoked after b — the tag is set during the whole of [a,b] whatever
// the linearisation of the calls.
func (p *mpeer) tagCertainlySet(tag string, a, b uint64) bool {
	for _, A := range p.pops {
		if !A.protect || A.tag != tag || A.ret >= a {
			continue
		}
		ok := true
		for _, U := range p.pops {
			if U.protect || U.tag != tag {
				continue
			}
			if !(U.ret < A.inv || U.inv > b) {
				ok = false
				break
			}
		}
		if ok {
			return true
		}
	}
	return false
}

// tagCertainlyUnset: every Protect(tag) invoked before b is followed by an Unprotect(tag) that was invoked
// after the Protect returned and returned before a.
func (p *mpeer) tagCertainlyUnset(tag string, a, b uint64) bool {
	for _, A := range p.pops {
		if !A.protect || A.tag != tag || A.inv > b {
			continue
		}
		ok := false
		for _, U := range p.pops {
			if !U.protect && U.tag == tag && U.inv > A.ret && U.ret < a {
				ok = true
				break
			}
		}
		if !ok {
			return false
		}
	}
	return true
}

var protTags = []string{"a", "b", "c"}

// certProt: the peer holds at least one protection tag during the whole of [a,b] by every linearisation.
func (p *mpeer) certProt(a, b uint64) bool {
	for _, t := range protTags {
		if p.tagCertainlySet(t, a, b) {
			return true
		}
	}
	return false
}

// certUnprot: the peer holds no protection tag at any moment of [a,b] by every linearisation.
func (p *mpeer) certUnprot(a, b uint64) bool {
	for _, t := range protTags {
		if !p.tagCertainlyUnset(t, a, b) {
			return false
		}
	}
	return true
}

func (p *mpeer) value() int {
	v := 0
	for _, x := range p.tags {
		v += x
	}
	for _, x := range p.dec {
		v += x
	}
	return v
}

func (p *mpeer) inflight(mask int) bool {
	for i := len(p.wins) - 1; i >= 0; i-- {
		if w := p.wins[i]; w.ret == inf && w.kind&mask != 0 && !w.forever() {
			return true
		}
	}
	return false
}

// forever windows (inv set, never returned on purpose) are marked with kind bit 1<<16.
const wForever = 1 << 16

func (w *win) forever() bool { return w.kind&wForever != 0 }

// changed reports whether an operation of one of the kinds in mask overlaps [a,b].
func (p *mpeer) changed(mask int, a, b uint64) bool {
	for _, w := range p.wins {
		if w.kind&mask != 0 && w.inv < b && w.ret > a {
			return true
		}
	}
	return false
}

func (p *mpeer) sortedConns() []*sconn {
	l := make([]*sconn, 0, len(p.conns))
	for c := range p.conns {
		l = append(l, c)
	}
	sort.Slice(l, func(i, j int) bool { return l[i].idx < l[j].idx })
	return l
}

// sconn is the stub connection: it records CloseWithError and, like the swarm, has Disconnected
// delivered to the manager later from another task (or synchronously, as connmgr's own tests do).
type sconn struct {
	network.Conn
	h       *H
	idx     int
	mp      *mpeer
	addr    ma.Multiaddr
	dir     network.Direction
	streams int
	opened  time.Time
	delay   time.Duration
	sync    bool // Disconnected is delivered from inside CloseWithError

	tracked    bool   // model: Connected delivered and not yet Disconnected
	everConn   bool   // Connected was delivered at least once
	closedAt   uint64 // stamp of the first CloseWithError (0 = never)
	firstRemIn uint64 // stamp of the first Disconnected invocation (0 = never)
	nClose     int
	timeUnc    bool // the clock jumped during its Connected: the recorded connection time is not known exactly
}

func (c *sconn) RemotePeer() peer.ID           { c.h.touch(); return c.mp.id }
func (c *sconn) LocalPeer() peer.ID            { return peer.ID("local") }
func (c *sconn) RemoteMultiaddr() ma.Multiaddr { c.h.touch(); return c.addr }
func (c *sconn) LocalMultiaddr() ma.Multiaddr  { return c.h.localAddr }
func (c *sconn) ID() string                    { return fmt.Sprintf("c%d", c.idx) }
func (c *sconn) IsClosed() bool                { return c.closedAt != 0 }
func (c *sconn) Stat() network.ConnStats {
	c.h.touch()
	return network.ConnStats{Stats: network.Stats{Direction: c.dir, Opened: c.opened}, NumStreams: c.streams}
}
func (c *sconn) Close() error { return c.CloseWithError(0) }
func (c *sconn) CloseWithError(code network.ConnErrorCode) error {
	h := c.h
	h.touch()
	rec := h.trimByGid[curGid()]
	if rec == nil {
		rec = h.bgTrim()
	}
	if rec.snap == nil {
		h.snapshot(rec)
	}
	st := simrt.Stamp()
	rec.closes = append(rec.closes, closeRec{c: c, stamp: st, at: h.now()})
	rec.last = st
	c.nClose++
	if code != network.ConnGarbageCollected {
		h.o.Probe("close-code-not-gc")
	}
	if c.closedAt != 0 {
		h.o.Probe("closed-again-while-still-tracked")
		return nil
	}
	c.closedAt = st
	if c.sync {
		h.o.Probe("sync-delivery")
		h.disconnected(c, "sync-delivery")
		return nil
	}
	h.pending.Add(1)
	h.nPending++
	simrt.GoNamed(fmt.Sprintf("deliver-c%d", c.idx), func() {
		defer h.pending.Done()
		defer func() { h.nPending-- }()
		if c.delay > 0 {
			simrt.TimeSleep(c.delay)
		}
		h.disconnected(c, "delivery")
	})
	return nil
}

func curGid() int64 {
	var buf [64]byte
	n := runtime.Stack(buf[:], false)
	var id int64
	for _, b := range buf[len("goroutine "):n] {
		if b < '0' || b > '9' {
			break
		}
		id = id*10 + int64(b-'0')
	}
	return id
}

type closeRec struct {
	c     *sconn
	stamp uint64
	at    time.Duration
}

type psnap struct {
	value     int
	unc       bool
	exists    bool
	temp      bool
	firstSeen time.Duration
	fsOff     time.Duration // sum of the clock jumps when firstSeen was taken (reach probes only)
	conns     []*sconn
}

const (
	kTrim = iota
	kForce
	kBg
)

var kindName = []string{"TrimOpenConns", "ForceTrim", "background-trim"}

type trimRec struct {
	kind       int
	who        string
	inv, ret   uint64        // window in stamps (background: start of the virtual instant .. last close)
	last       uint64        // stamp of the last close
	invT, retT time.Duration // wall time
	monoT      time.Duration // background trims: bubble time of the instant
	off        time.Duration // sum of the clock jumps at the snapshot (reach probes only)
	precise    bool          // window is known to contain the whole trim
	count      int           // model connection count at the snapshot
	snap       []psnap
	closes     []closeRec
}

type cntTracker struct{ lo, hi int }

type dtagSpec struct {
	name     string
	mult     int
	decayK   int
	bumpK    int
	interval time.Duration
}

// H is the state of one run.
type H struct {
	o  *common.Outcome
	t0 time.Time

	cm        *connmgr.BasicConnMgr
	nf        network.Notifiee
	low, high int
	grace     time.Duration
	silence   time.Duration
	resol     time.Duration
	stall     int
	localAddr ma.Multiaddr

	peers  []*mpeer
	byID   map[peer.ID]*mpeer
	conns  []*sconn
	dspecs []*dtagSpec
	dtags  []coreconnmgr.DecayingTag

	count    int // model: tracked connections
	addIn    int // in-flight operations that may add one
	remIn    int // in-flight operations that may remove one
	trackers []*cntTracker

	concurrent bool
	trims      []*trimRec
	trimByGid  map[int64]*trimRec
	bgCur      *trimRec
	pending    simsync.WaitGroup
	nPending   int

	lastT         time.Duration // bubble time of the current instant
	instStart     uint64
	instStartWall time.Duration
	offset        time.Duration // sum of the clock jumps so far
	jumps         bool          // fault stratum: clock jumps are injected in this run
	nDecay        map[string]int

	mutations    int
	storm        bool // protect-storm sub-mode: no sampled connection reads between the operations (they dilute the races)
	finalCompare bool
	sig          strings.Builder
	forgot       map[*mpeer]bool // peers whose tracked connections the manager demonstrably lost (reported by compare)
}

// now is WALL time since the start of the run: what the manager's injected clock reads (bubble time plus
// the clock jumps so far). Every time-dependent clause is judged in wall time.
func (h *H) now() time.Duration { return time.Since(h.t0) + h.offset }

// mono is the bubble's time since the start of the run: what timers and tickers run on.
func (h *H) mono() time.Duration { return time.Since(h.t0) }

// touch notes the first stamp (and the wall time) of every virtual instant at which the harness sees anything.
func (h *H) touch() {
	if n := h.mono(); n > h.lastT || h.instStart == 0 {
		h.lastT = n
		h.instStart = simrt.Stamp()
		h.instStartWall = h.now()
	}
}

// jumpClock is the wall clock of a process that gets suspended and resumed: Now()/Since()/Until() read
// bubble time plus an offset that only ever jumps forward; everything that creates timers and tickers is the
// bubble's clock unchanged, so nothing fires during a jump and whatever was armed before is late by it.
type jumpClock struct {
	clock.Clock
	h *H
}

func (c jumpClock) Now() time.Time                  { return time.Now().Add(c.h.offset) }
func (c jumpClock) Since(t time.Time) time.Duration { return c.Now().Sub(t) }
func (c jumpClock) Until(t time.Time) time.Duration { return t.Sub(c.Now()) }

func (h *H) cntChanged() {
	lo, hi := h.count-h.remIn, h.count+h.addIn
	for _, t := range h.trackers {
		if lo < t.lo {
			t.lo = lo
		}
		if hi > t.hi {
			t.hi = hi
		}
	}
}

func (h *H) inGraceAt(p *psnap, at time.Duration) bool {
	return h.grace > 0 && at-p.firstSeen < h.grace
}
func (h *H) pastGraceAt(p *psnap, at time.Duration) bool {
	return h.grace == 0 || at-p.firstSeen > h.grace
}

// begin opens the window of an operation on a peer and flags order-dependent overlaps.
func (h *H) begin(mp *mpeer, kind int) *win {
	h.touch()
	h.tempRisk(mp)
	if h.concurrent && mp.shared && kind&(wVal|wAdd|wRem) != 0 {
		mp.unc = true // several tasks write the same peer: the model cannot follow tags / first-seen
	}
	if kind&wRem != 0 && mp.inflight(wVal|wAdd) || kind&(wVal|wAdd) != 0 && mp.inflight(wRem) {
		// a Disconnected that may delete the entry races with a tag operation / Connected:
		// which tags survive and when the peer was first seen depends on the order
		if !mp.unc {
			h.o.Probe("order-dependent-overlap")
		}
		mp.unc = true
	}
	w := &win{inv: simrt.Stamp(), ret: inf, kind: kind, mp: mp, off0: h.offset}
	mp.wins = append(mp.wins, w)
	if kind&wAdd != 0 {
		h.addIn++
	}
	if kind&wRem != 0 {
		h.remIn++
	}
	h.cntChanged()
	return w
}

// end closes the window; apply updates the model and runs between the operation's return and
// the return stamp, with no scheduling point in between.
func (h *H) end(w *win, apply func()) {
	h.touch()
	if w.kind&wAdd != 0 {
		h.addIn--
	}
	if w.kind&wRem != 0 {
		h.remIn--
	}
	if apply != nil {
		apply()
	}
	if h.offset != w.off0 {
		// Another task jumped the clock while this operation was in flight: the manager read the clock
		// somewhere between invocation and return, so every instant this operation records (first seen of
		// a new entry, connection time) lies anywhere between the two wall times. The model does not guess.
		w.jumped = true
		if w.kind&(wVal|wAdd|wLife) != 0 && w.mp != nil {
			if !w.mp.unc {
				h.o.Probe("clock-jump-during-operation")
			}
			w.mp.unc = true
		}
	}
	h.cntChanged()
	w.ret = simrt.Stamp()
}

// tempRisk: in the concurrent phase an entry that only holds early tags and is past the grace
// period may be dropped by any trim at an instant the harness cannot observe.
func (h *H) tempRisk(mp *mpeer) {
	if h.concurrent && mp.exists && mp.temp && h.now()-mp.firstSeen >= h.grace && !mp.unc {
		mp.unc = true
		h.o.Probe("early-tag-entry-droppable-under-concurrency")
	}
}

// ---- model updates ---------------------------------------------------------------------

func (h *H) ensure(mp *mpeer) {
	if !mp.exists {
		mp.exists, mp.temp, mp.firstSeen, mp.fsOff = true, true, h.now(), h.offset
	}
}

func (h *H) mConnected(c *sconn) {
	mp := c.mp
	if c.tracked {
		return
	}
	if len(mp.conns) == 0 {
		if !mp.exists || mp.temp {
			mp.firstSeen, mp.fsOff = h.now(), h.offset
		}
		mp.exists, mp.temp = true, false
	}
	c.tracked, c.everConn = true, true
	mp.conns[c] = h.now()
	h.count++
	h.mutations++
}

func (h *H) mDisconnected(c *sconn) {
	mp := c.mp
	if !c.tracked {
		return
	}
	c.tracked = false
	delete(mp.conns, c)
	h.count--
	h.mutations++
	if len(mp.conns) == 0 {
		mp.exists, mp.temp = false, false
		mp.tags = map[string]int{}
		mp.dec = map[string]int{}
	}
}

// ---- operations on the manager ---------------------------------------------------------

func (h *H) connected(c *sconn) {
	w := h.begin(c.mp, wAdd|wLife)
	h.nf.Connected(nil, c)
	h.end(w, func() { h.mConnected(c) })
	if w.jumped {
		c.timeUnc = true
	}
}

func (h *H) disconnected(c *sconn, why string) {
	if c.firstRemIn == 0 {
		h.touch()
		c.firstRemIn = simrt.Stamp()
	}
	w := h.begin(c.mp, wRem|wLife|wVal)
	h.nf.Disconnected(nil, c)
	h.end(w, func() { h.mDisconnected(c) })
}

// flush waits (in virtual time) until every pending Disconnected was delivered and the instant is quiescent.
func (h *H) flush() {
	for {
		h.pending.Wait()
		simrt.WaitIdle()
		if h.nPending == 0 {
			return
		}
	}
}

func (h *H) snapshot(rec *trimRec) {
	rec.count = h.count
	rec.off = h.offset
	rec.snap = make([]psnap, len(h.peers))
	for i, mp := range h.peers {
		h.tempRisk(mp)
		rec.snap[i] = psnap{value: mp.value(), unc: mp.unc, exists: mp.exists, temp: mp.temp,
			firstSeen: mp.firstSeen, fsOff: mp.fsOff, conns: mp.sortedConns()}
	}
}

func (h *H) bgTrim() *trimRec {
	n := h.mono()
	if h.bgCur != nil && h.stall == 0 && h.bgCur.monoT == n {
		return h.bgCur
	}
	// the trim read the clock at or after the start of this instant: judge eligibility at that wall time
	rec := &trimRec{kind: kBg, who: "background", inv: h.instStart, invT: h.instStartWall, monoT: n, precise: h.stall == 0}
	if h.stall != 0 {
		// with stalls a background trim may have started at any earlier instant and two trims may
		// share an instant: every close is its own record with a window from the start of the run
		rec.inv = 0
	}
	h.bgCur = rec
	h.trims = append(h.trims, rec)
	h.o.Probe("background-trim-closed")
	return rec
}

func (h *H) trim(kind int, who string) {
	h.touch()
	rec := &trimRec{kind: kind, who: who, precise: true, invT: h.now()}
	h.snapshot(rec)
	h.trims = append(h.trims, rec)
	gid := curGid()
	h.trimByGid[gid] = rec
	rec.inv = simrt.Stamp()
	if kind == kTrim {
		h.cm.TrimOpenConns(context.Background())
	} else {
		h.cm.ForceTrim()
	}
	h.touch()
	rec.ret = simrt.Stamp()
	rec.retT = h.now()
	delete(h.trimByGid, gid)
}

// ---- workload ----------------------------------------------------------------------------

const (
	opConnect = iota
	opConnectDup
	opDisconnect
	opDisconnectDup
	opTag
	opUntag
	opUpsert
	opBump
	opRemove
	opProtect
	opUnprotect
	opSleep
	opTrim
	opForce
	opRead
	opCheckLimit
	opJump
	nOps
)

var opWeights = []int{10, 2, 4, 2, 6, 2, 3, 3, 1, 3, 2, 6, 5, 2, 1, 1, 3}

type op struct {
	kind, peer, a, b, c int
}

// sharedWeights: shared-peer mode — several tasks write the same peers' tags and protection sets.
// No duplicate notifications there (a duplicate Connected racing a Disconnected of the same connection
// would make the tracked set itself order-dependent).
var sharedWeights = []int{3, 0, 2, 0, 5, 3, 8, 2, 0, 8, 8, 2, 5, 1, 1, 0, 1}

// protectStormWeights: shared-peer mode dominated by Protect/Unprotect calls of several tasks on one peer.
var protectStormWeights = []int{2, 0, 1, 0, 2, 1, 3, 1, 0, 12, 12, 1, 4, 1, 1, 0, 0}

func genOps(g simrt.Gen, n int, peers []int, weights []int) []op {
	ops := make([]op, n)
	for i := range ops {
		ops[i] = op{kind: g.Weighted(weights...), peer: peers[g.Int(len(peers))], a: g.Int(24), b: g.Int(8), c: g.Int(6)}
	}
	return ops
}

var delays = []time.Duration{0, 0, 1500 * time.Millisecond, 4500 * time.Millisecond, 12500 * time.Millisecond, 31500 * time.Millisecond}

func (h *H) sleepTable() []time.Duration {
	// the last entry sleeps to the next tick of the background trim loop (ticks at multiples of the
	// silence period after construction), so that operations race with a background trim
	t := []time.Duration{time.Second, 5 * time.Second, h.grace, h.grace + time.Second, h.silence, 2*h.silence + time.Second, h.resol, 90 * time.Second,
		h.silence - h.mono()%h.silence}
	for i, d := range t {
		if d <= 0 {
			t[i] = time.Second
		}
	}
	return t
}

func (h *H) newConn(mp *mpeer, o op) *sconn {
	c := &sconn{h: h, idx: len(h.conns), mp: mp, opened: time.Now(), streams: o.b % 3, delay: delays[o.c%len(delays)], sync: o.c%len(delays) == 1}
	c.dir = network.DirOutbound
	if o.b&4 != 0 {
		c.dir = network.DirInbound
	}
	c.addr = ma.StringCast(fmt.Sprintf("/ip4/10.0.%d.%d/tcp/4001", mp.idx, c.idx))
	h.conns = append(h.conns, c)
	return c
}

// exec runs one operation; who names the issuing task.
func (h *H) exec(who string, i int, o op) {
	mp := h.peers[o.peer]
	cm := h.cm
	logf := func(format string, a ...any) {
		h.o.Logf("%s#%d @%v %s", who, i, h.now(), fmt.Sprintf(format, a...))
	}
	if h.concurrent {
		if len(h.o.Violations) > 0 {
			return
		}
		// (shared peers: after the operation only — every read is a scheduling point that makes the
		// multi-call races between the writers less likely)
		if !mp.shared {
			h.sampledCheck(mp, fmt.Sprintf("before %s#%d", who, i))
		}
		defer func() { h.sampledCheck(mp, fmt.Sprintf("after %s#%d", who, i)) }()
	}
	switch o.kind {
	case opConnect:
		c := h.newConn(mp, o)
		logf("Connected(%s, c%d dir=%v streams=%d delay=%v sync=%v)", mp.name, c.idx, c.dir, c.streams, c.delay, c.sync)
		h.connected(c)
	case opConnectDup:
		l := mp.sortedConns()
		if len(l) == 0 {
			logf("skip duplicate Connected(%s): no tracked connection", mp.name)
			return
		}
		c := l[o.a%len(l)]
		logf("Connected(%s, c%d) duplicate", mp.name, c.idx)
		h.o.Probe("duplicate-connected")
		h.connected(c)
	case opDisconnect:
		l := mp.sortedConns()
		if len(l) == 0 {
			logf("skip Disconnected(%s): no tracked connection", mp.name)
			return
		}
		c := l[o.a%len(l)]
		logf("Disconnected(%s, c%d)", mp.name, c.idx)
		h.disconnected(c, "remote")
	case opDisconnectDup:
		// a connection of the peer that is not tracked: already disconnected, or never connected
		var l []*sconn
		for _, c := range h.conns {
			if c.mp == mp && !c.tracked && c.everConn {
				l = append(l, c)
			}
		}
		var c *sconn
		if len(l) == 0 {
			c = h.newConn(mp, o)
			logf("Disconnected(%s, c%d) never connected", mp.name, c.idx)
		} else {
			c = l[o.a%len(l)]
			logf("Disconnected(%s, c%d) duplicate", mp.name, c.idx)
		}
		h.o.Probe("duplicate-disconnected")
		h.disconnected(c, "dup")
	case opTag:
		tag, val := fmt.Sprintf("t%d", o.b%3), o.a-5
		logf("TagPeer(%s, %s, %d)", mp.name, tag, val)
		w := h.begin(mp, wVal)
		cm.TagPeer(mp.id, tag, val)
		h.end(w, func() { h.ensure(mp); mp.tags[tag] = val; h.mutations++ })
	case opUntag:
		tag := fmt.Sprintf("t%d", o.b%3)
		logf("UntagPeer(%s, %s)", mp.name, tag)
		w := h.begin(mp, wVal)
		cm.UntagPeer(mp.id, tag)
		h.end(w, func() {
			if mp.exists {
				delete(mp.tags, tag)
			}
		})
	case opUpsert:
		tag := fmt.Sprintf("t%d", o.b%3)
		f := func(v int) int { return v + o.a - 3 }
		desc := fmt.Sprintf("v%+d", o.a-3)
		if o.c%3 == 2 {
			f = func(v int) int { return 2*v + 1 }
			desc = "2v+1"
		}
		ny := (o.a + o.b) % 4
		logf("UpsertTag(%s, %s, %s) callback yields %d times", mp.name, tag, desc, ny)
		var saw, calls int
		w := h.begin(mp, wVal)
		cm.UpsertTag(mp.id, tag, func(v int) int {
			saw = v
			calls++
			// caller-supplied code may take time: scheduling points inside the callback
			for k := 0; k < ny; k++ {
				simrt.Yield("c14.upsert-callback")
			}
			return f(v)
		})
		h.end(w, func() {
			h.ensure(mp)
			if calls != 1 {
				h.o.Violate("C14/upsert-calls", "UpsertTag(%s,%s) called the upsert function %d times", mp.name, tag, calls)
			} else if !mp.unc && saw != mp.tags[tag] {
				h.o.Violate("C14/tag-total/upsert-saw", "UpsertTag(%s,%s) passed %d to the upsert function, the tag operations so far imply %d", mp.name, tag, saw, mp.tags[tag])
			}
			mp.tags[tag] = f(mp.tags[tag])
			h.mutations++
		})
	case opBump:
		if len(h.dtags) == 0 {
			logf("skip Bump: no decaying tag")
			return
		}
		k := o.b % len(h.dtags)
		delta := o.a%9 - 2 // -2..6: negative values make DecayLinear/DecayFixed remove with a non-zero result
		logf("Bump(%s, %s, %d)", h.dspecs[k].name, mp.name, delta)
		if err := h.dtags[k].Bump(mp.id, delta); err != nil {
			h.o.Trouble = "Bump: " + err.Error()
		}
		// the effect is applied by the decayer and recorded by the bump function (bumpFn below)
	case opRemove:
		if len(h.dtags) == 0 {
			logf("skip Remove: no decaying tag")
			return
		}
		k := o.b % len(h.dtags)
		name := h.dspecs[k].name
		logf("Remove(%s, %s)", name, mp.name)
		if h.concurrent {
			// applied asynchronously at an unobservable instant, unordered with queued bumps
			w := h.begin(mp, wVal|wForever)
			_ = w
			mp.unc = true
			if err := h.dtags[k].Remove(mp.id); err != nil {
				h.o.Trouble = "Remove: " + err.Error()
			}
			return
		}
		w := h.begin(mp, wVal)
		if err := h.dtags[k].Remove(mp.id); err != nil {
			h.o.Trouble = "Remove: " + err.Error()
		}
		simrt.WaitIdle()
		h.end(w, func() { h.ensure(mp); delete(mp.dec, name) })
	case opProtect:
		tag := string(rune('a' + o.b%3))
		logf("Protect(%s, %s)", mp.name, tag)
		w := h.begin(mp, wProt)
		po := &pop{tag: tag, protect: true, inv: w.inv, ret: inf}
		mp.pops = append(mp.pops, po)
		cm.Protect(mp.id, tag)
		h.end(w, func() { mp.prot[tag] = true })
		po.ret = w.ret
	case opUnprotect:
		tag := string(rune('a' + o.b%3))
		w := h.begin(mp, wProt)
		po := &pop{tag: tag, inv: w.inv, ret: inf}
		mp.pops = append(mp.pops, po)
		still := cm.Unprotect(mp.id, tag)
		h.end(w, func() { delete(mp.prot, tag) })
		po.ret = w.ret
		logf("Unprotect(%s, %s) = %v", mp.name, tag, still)
		if h.concurrent && mp.shared {
			// other tasks protect/unprotect the same peer: results are not predictable; two reads as extra scheduling
			cm.IsProtected(mp.id, string(rune('a'+o.a%3)))
			return
		}
		if still != (len(mp.prot) > 0) {
			h.o.Violate("C14/protect-result", "Unprotect(%s,%s) = %v, protection tags left in the model: %v", mp.name, tag, still, keys(mp.prot))
		}
		q := string(rune('a' + o.a%3))
		if got := cm.IsProtected(mp.id, q); got != mp.prot[q] {
			h.o.Violate("C14/protect-result", "IsProtected(%s,%s) = %v, model %v", mp.name, q, got, mp.prot[q])
		}
		if got := cm.IsProtected(mp.id, ""); got != (len(mp.prot) > 0) {
			h.o.Violate("C14/protect-result", "IsProtected(%s,\"\") = %v, model tags %v", mp.name, got, keys(mp.prot))
		}
	case opSleep:
		tab := h.sleepTable()
		d := tab[o.a%len(tab)]
		logf("sleep %v", d)
		simrt.TimeSleep(d)
	case opTrim:
		if h.concurrent && o.c%2 == 1 {
			// race the explicit trim with the background loop's trim (which does not take the trim mutex)
			d := h.silence - h.mono()%h.silence
			logf("sleep %v to the next background tick", d)
			simrt.TimeSleep(d)
		}
		logf("TrimOpenConns (model count=%d low=%d)", h.count, h.low)
		h.trim(kTrim, who)
	case opForce:
		logf("ForceTrim (model count=%d low=%d)", h.count, h.low)
		h.trim(kForce, who)
	case opRead:
		tr := &cntTracker{lo: h.count - h.remIn, hi: h.count + h.addIn}
		h.trackers = append(h.trackers, tr)
		info := cm.GetInfo()
		for k, x := range h.trackers {
			if x == tr {
				h.trackers = append(h.trackers[:k], h.trackers[k+1:]...)
				break
			}
		}
		logf("GetInfo().ConnCount = %d (model bounds %d..%d)", info.ConnCount, tr.lo, tr.hi)
		if info.ConnCount < tr.lo || info.ConnCount > tr.hi {
			h.o.Violate("C14/conn-count/sampled", "GetInfo().ConnCount = %d outside what the notifications delivered or in flight allow (%d..%d)", info.ConnCount, tr.lo, tr.hi)
		}
		if info.LowWater != h.low || info.HighWater != h.high || info.GracePeriod != h.grace {
			h.o.Violate("C14/info-config", "GetInfo() = %+v, configured low=%d high=%d grace=%v", info, h.low, h.high, h.grace)
		}
	case opJump:
		if !h.jumps {
			logf("sleep 1s (no clock jumps in this run)")
			simrt.TimeSleep(time.Second)
			return
		}
		tab := []time.Duration{time.Second, 30 * time.Second, h.grace - time.Second, h.grace + time.Second, 10 * time.Minute, 3 * time.Hour}
		d := tab[o.a%len(tab)]
		if d <= 0 {
			d = time.Second
		}
		h.offset += d
		h.o.Fault("clock-jump")
		logf("CLOCK JUMP +%v (suspend/resume: Now() jumps, no timer fires); wall is now +%v, timers are at +%v", d, h.now(), h.mono())
	case opCheckLimit:
		lim := h.high - 1 + o.a%3
		err := cm.CheckLimit(limiter(lim))
		logf("CheckLimit(%d) = %v", lim, err)
		if (err != nil) != (h.high > lim) {
			h.o.Violate("C14/check-limit", "CheckLimit(%d) = %v with high watermark %d", lim, err, h.high)
		}
	}
}

type limiter int

func (l limiter) GetConnLimit() int { return int(l) }

func keys(m map[string]bool) []string {
	l := make([]string, 0, len(m))
	for k := range m {
		l = append(l, k)
	}
	sort.Strings(l)
	return l
}

// ---- decaying tags: harness-supplied deterministic functions, which also are the instants at
// which the decayer applies a change (the segment lock is held and the value is stored right
// after the function returns, with no scheduling point in between).

// Decay functions: the exported presets plus harness ones. Several REMOVE the tag while returning
// a non-zero "after" (DecayFixed crossing zero, DecayLinear on negative values, "overshoot"): on
// removal the tag's whole current value leaves the peer's total, whatever "after" says.
var decayNames = []string{"v-1 (rm at <=0)", "v/2 (rm at <=0)", "DecayFixed(3)", "DecayLinear(0.5)", "DecayNone", "DecayExpireWhenInactive(-25s)", "v-4, rm when <2 (overshoot)"}
var bumpNames = []string{"v+d", "min(v+d,9)", "BumpOverwrite", "BumpSumBounded(-5,12)"}

func (h *H) decayFn(sp *dtagSpec) coreconnmgr.DecayFn {
	var inner coreconnmgr.DecayFn
	switch sp.decayK {
	case 0:
		inner = func(v coreconnmgr.DecayingValue) (int, bool) { return v.Value - 1, v.Value-1 <= 0 }
	case 1:
		inner = func(v coreconnmgr.DecayingValue) (int, bool) { return v.Value / 2, v.Value/2 <= 0 }
	case 2:
		inner = coreconnmgr.DecayFixed(3)
	case 3:
		inner = coreconnmgr.DecayLinear(0.5)
	case 4:
		inner = coreconnmgr.DecayNone()
	case 5:
		// removes iff the value was visited within the last 25 s of (virtual) time, else sets it to 0
		inner = coreconnmgr.DecayExpireWhenInactive(-25 * time.Second)
	default:
		inner = func(v coreconnmgr.DecayingValue) (int, bool) { return v.Value - 4, v.Value-4 < 2 }
	}
	return func(v coreconnmgr.DecayingValue) (int, bool) {
		h.touch()
		after, rm := inner(v)
		h.o.Probe("decay-tick-applied")
		// Decayer documentation: the decay function is called "at the interval supplied when registering the
		// tag". Weakest sound reading under late ticks (clock jumps): never more often than elapsed WALL time
		// allows — the k-th application to one peer's value needs k whole intervals since the tag was
		// registered (at the start of the run). How late a tick may be is not stated: a probe.
		key := string(v.Peer) + "/" + sp.name
		h.nDecay[key]++
		if k := h.nDecay[key]; time.Duration(k)*sp.interval > h.now() {
			name := string(v.Peer)
			if mp := h.byID[v.Peer]; mp != nil {
				name = mp.name
			}
			h.o.Violate("C14/decay/more-often-than-wall-time", "decay function of %s (interval %v) called for the %d. time for %s at wall +%v", sp.name, sp.interval, k, name, h.now())
		} else if h.offset > 0 {
			h.o.Probe("decay-applied-after-clock-jump") // its tick was armed before the jump: late by the jump in wall time
		}
		if rm && after != 0 {
			h.o.Probe("decay-removed-with-nonzero-after")
		}
		h.applied(v.Peer, sp, v.Value, after, rm, "decay")
		return after, rm
	}
}

func (h *H) bumpFn(sp *dtagSpec) coreconnmgr.BumpFn {
	var inner coreconnmgr.BumpFn
	switch sp.bumpK {
	case 0:
		inner = coreconnmgr.BumpSumUnbounded()
	case 1:
		inner = func(v coreconnmgr.DecayingValue, delta int) int {
			if v.Value+delta > 9 {
				return 9
			}
			return v.Value + delta
		}
	case 2:
		inner = coreconnmgr.BumpOverwrite()
	default:
		inner = coreconnmgr.BumpSumBounded(-5, 12)
	}
	return func(v coreconnmgr.DecayingValue, delta int) int {
		h.touch()
		after := inner(v, delta)
		h.o.Probe("bump-applied")
		h.applied(v.Peer, sp, v.Value, after, false, "bump")
		return after
	}
}

func (h *H) applied(id peer.ID, sp *dtagSpec, saw, after int, rm bool, what string) {
	mp := h.byID[id]
	if mp == nil {
		h.o.Violate("C14/tag-total/foreign-peer", "%s function of %s called for unknown peer %q", what, sp.name, string(id))
		return
	}
	h.tempRisk(mp)
	if mp.inflight(wRem) {
		// a Disconnected that may delete the entry is in flight: what the decayer saw depends on the order
		if !mp.unc {
			h.o.Probe("order-dependent-overlap")
		}
		mp.unc = true
	}
	if !mp.unc && saw != mp.dec[sp.name] {
		h.o.Violate("C14/tag-total/"+what+"-saw", "%s of %s for %s saw value %d, the operations so far imply %d (@%v)", what, sp.name, mp.name, saw, mp.dec[sp.name], h.now())
	}
	st := simrt.Stamp()
	mp.wins = append(mp.wins, &win{inv: st, ret: st, kind: wVal})
	h.ensure(mp)
	if rm {
		delete(mp.dec, sp.name)
	} else {
		mp.dec[sp.name] = after
	}
	h.mutations++
}

// ---- observation against the model at a quiescent instant ------------------------------------

func (h *H) wantTags(mp *mpeer) map[string]int {
	m := map[string]int{}
	for k, v := range mp.tags {
		m[k] = v
	}
	for k, v := range mp.dec {
		m[k] = v
	}
	return m
}

func fmtTags(m map[string]int) string {
	l := make([]string, 0, len(m))
	for k, v := range m {
		l = append(l, fmt.Sprintf("%s=%d", k, v))
	}
	sort.Strings(l)
	return "{" + strings.Join(l, " ") + "}"
}

func sameTags(a, b map[string]int) bool {
	if len(a) != len(b) {
		return false
	}
	for k, v := range a {
		if w, ok := b[k]; !ok || w != v {
			return false
		}
	}
	return true
}

// sampledCheck may be called by any task at any time: it asserts only what holds whatever else is in
// flight. Connections are added by the peer's owner only (sequentially) and removed only by a
// Disconnected, so every tracked connection for which no Disconnected was ever begun must be
// listed; an entry that only holds early tags and is still inside the grace period cannot vanish.
func (h *H) sampledCheck(mp *mpeer, when string) {
	// protection: a tag that is set by every linearisation during the whole read must be reported
	// (peers written by one task only are covered exactly by the checks in exec)
	for _, t := range protTags {
		if !mp.shared {
			break
		}
		h.touch()
		inv := simrt.Stamp()
		if !mp.tagCertainlySet(t, inv, inv) {
			continue
		}
		got := h.cm.IsProtected(mp.id, t)
		h.touch()
		ret := simrt.Stamp()
		if !mp.tagCertainlySet(t, inv, ret) {
			continue
		}
		h.o.Probe("sampled-protect-check")
		if !got {
			h.o.Violate("C14/protect-state", "%s: IsProtected(%s,%s) = false, but by every linearisation of the Protect/Unprotect calls the tag was set during the whole read", when, mp.name, t)
			return
		}
	}
	if h.storm {
		return
	}
	var cand []*sconn
	for _, c := range mp.sortedConns() {
		if c.firstRemIn == 0 {
			cand = append(cand, c)
		}
	}
	tagsOnly := len(mp.conns) == 0 && mp.exists && mp.temp && !mp.unc && len(mp.tags) > 0 && h.grace > 0 && !mp.inflight(wVal|wAdd|wRem)
	if len(cand) == 0 && !tagsOnly {
		return
	}
	wt := fmtTags(mp.tags)
	h.touch()
	inv := simrt.Stamp()
	obs := h.cm.GetTagInfo(mp.id)
	h.touch()
	ret := simrt.Stamp()
	// only what was true during the whole read counts
	var must []string
	for _, c := range cand {
		if c.firstRemIn == 0 {
			must = append(must, c.addr.String())
		}
	}
	tagsOnly = tagsOnly && !mp.unc && !mp.changed(wVal|wAdd|wRem|wLife, inv, ret) && h.now()-mp.firstSeen < h.grace
	if len(must) == 0 && !tagsOnly {
		return
	}
	h.o.Probe("sampled-peer-check")
	if obs == nil {
		h.forgot[mp] = true
		h.o.Violate("C14/entry-forgotten", "%s: GetTagInfo(%s) = nil, but %v were Connected and no Disconnected was begun for them; early tags %s first seen +%v (now +%v, grace %v)", when, mp.name, must, wt, mp.firstSeen, h.now(), h.grace)
		return
	}
	for _, a := range must {
		if _, ok := obs.Conns[a]; !ok {
			h.forgot[mp] = true
			var g []string
			for x := range obs.Conns {
				g = append(g, x)
			}
			sort.Strings(g)
			h.o.Violate("C14/peer-conns/forgotten", "%s: GetTagInfo(%s).Conns = %v lacks %s, which was Connected and for which no Disconnected was begun", when, mp.name, g, a)
			return
		}
	}
}

// compare checks GetInfo().ConnCount and GetTagInfo of every peer against the model. It must be
// called at a quiescent instant. when names the point in the history (for the detail only).
func (h *H) compare(when string) {
	if got := h.cm.GetInfo().ConnCount; got != h.count {
		class := "C14/conn-count/too-high"
		if got < h.count {
			class = "C14/conn-count/too-low"
		}
		h.o.Violate(class, "%s: GetInfo().ConnCount = %d, the Connected/Disconnected notifications delivered so far imply %d", when, got, h.count)
	}
	for _, mp := range h.peers {
		obs := h.cm.GetTagInfo(mp.id)
		// connections first: they never depend on the order of overlapping operations
		want := map[string]time.Duration{}
		timeUnc := map[string]bool{}
		for c, at := range mp.conns {
			want[c.addr.String()] = at
			timeUnc[c.addr.String()] = c.timeUnc
		}
		ngot := 0
		if obs != nil {
			ngot = len(obs.Conns)
		}
		bad := ngot != len(want)
		if obs != nil {
			for a := range obs.Conns {
				if _, ok := want[a]; !ok {
					bad = true
				}
			}
		}
		if bad {
			var g []string
			if obs != nil {
				for a := range obs.Conns {
					g = append(g, a)
				}
			}
			sort.Strings(g)
			w := make([]string, 0)
			for a := range want {
				w = append(w, a)
			}
			sort.Strings(w)
			class := "C14/peer-conns/unknown-conn"
			if len(g) < len(w) {
				// the manager no longer knows a connection it was told about and not told to forget
				class = "C14/peer-conns/forgotten"
				if obs == nil {
					class = "C14/entry-forgotten"
				}
				h.forgot[mp] = true
			}
			h.o.Violate(class, "%s: GetTagInfo(%s).Conns = %v, notifications imply %v", when, mp.name, g, w)
			continue
		}
		if obs != nil && h.stall == 0 {
			for a, at := range obs.Conns {
				if at.Sub(h.t0) != want[a] && !timeUnc[a] {
					h.o.Violate("C14/peer-conns/time", "%s: GetTagInfo(%s).Conns[%s] = +%v, Connected was delivered at +%v", when, mp.name, a, at.Sub(h.t0), want[a])
				}
			}
		}
		// protection state: what every linearisation of the completed Protect/Unprotect calls agrees on
		if len(mp.pops) != mp.popsSeen || h.finalCompare {
			mp.popsSeen = len(mp.pops)
			now := simrt.Stamp()
			anySet, allUnset := false, true
			for _, t := range protTags {
				set, unset := mp.tagCertainlySet(t, now, now), mp.tagCertainlyUnset(t, now, now)
				anySet = anySet || set
				allUnset = allUnset && unset
				if !set && !unset {
					continue
				}
				if got := h.cm.IsProtected(mp.id, t); got != set {
					h.o.Violate("C14/protect-state", "%s: IsProtected(%s,%s) = %v, but by every linearisation of the completed Protect/Unprotect calls the tag is %s", when, mp.name, t, got, map[bool]string{true: "set", false: "not set"}[set])
				}
			}
			if anySet || allUnset {
				if got := h.cm.IsProtected(mp.id, ""); got != anySet {
					h.o.Violate("C14/protect-state", "%s: IsProtected(%s,\"\") = %v, but by every linearisation of the completed Protect/Unprotect calls the peer holds %s", when, mp.name, got, map[bool]string{true: "a protection tag", false: "no protection tag"}[anySet])
				}
			}
		}
		// the cached total must be the sum of the tags the manager itself reports, whatever the history was
		if obs != nil {
			sum := 0
			for _, v := range obs.Tags {
				sum += v
			}
			if obs.Value != sum {
				h.o.Violate("C14/tag-total/value-vs-tags", "%s: GetTagInfo(%s).Value = %d, but its Tags %s sum to %d", when, mp.name, obs.Value, fmtTags(obs.Tags), sum)
				continue
			}
		}
		if mp.unc {
			if h.concurrent {
				continue
			}
			// sequential stratum: the ambiguity is over, adopt what the manager settled on
			h.o.Probe("resync-after-order-dependent-overlap")
			mp.tags, mp.dec = map[string]int{}, map[string]int{}
			if obs == nil {
				if len(mp.conns) == 0 {
					mp.exists, mp.temp = false, false
				}
			} else {
				for k, v := range obs.Tags {
					if strings.HasPrefix(k, "d") {
						mp.dec[k] = v
					} else {
						mp.tags[k] = v
					}
				}
				mp.exists = true
				mp.temp = len(mp.conns) == 0
				mp.firstSeen = obs.FirstSeen.Sub(h.t0)
			}
			mp.unc = false
			continue
		}
		wt := h.wantTags(mp)
		if obs == nil {
			if len(mp.conns) == 0 && len(wt) == 0 {
				mp.exists, mp.temp = false, false
				continue
			}
			if len(mp.conns) == 0 && h.now()-mp.firstSeen >= h.grace {
				// entry with early tags only, past the grace period: may be dropped
				h.o.Probe("early-tag-entry-dropped")
				mp.exists, mp.temp = false, false
				mp.tags, mp.dec = map[string]int{}, map[string]int{}
				continue
			}
			h.o.Violate("C14/entry-forgotten", "%s: GetTagInfo(%s) = nil, model: conns=%d tags=%s first seen +%v (now +%v, grace %v)", when, mp.name, len(mp.conns), fmtTags(wt), mp.firstSeen, h.now(), h.grace)
			continue
		}
		if !sameTags(obs.Tags, wt) {
			if len(mp.conns) == 0 && len(obs.Tags) == 0 && h.now()-mp.firstSeen >= h.grace {
				h.o.Probe("early-tag-entry-dropped")
				mp.tags, mp.dec = map[string]int{}, map[string]int{}
				mp.firstSeen = obs.FirstSeen.Sub(h.t0)
				continue
			}
			h.o.Violate("C14/tag-total/tags", "%s: GetTagInfo(%s).Tags = %s, the tag operations so far imply %s", when, mp.name, fmtTags(obs.Tags), fmtTags(wt))
			continue
		}
		if obs.Value != mp.value() {
			h.o.Violate("C14/tag-total/value", "%s: GetTagInfo(%s).Value = %d, the tags %s sum to %d", when, mp.name, obs.Value, fmtTags(wt), mp.value())
		}
		if len(mp.conns) > 0 && h.stall == 0 && obs.FirstSeen.Sub(h.t0) != mp.firstSeen {
			h.o.Violate("C14/first-seen", "%s: GetTagInfo(%s).FirstSeen = +%v, the first Connected of the tracked set was delivered at +%v", when, mp.name, obs.FirstSeen.Sub(h.t0), mp.firstSeen)
		}
	}
}

// ---- one run -----------------------------------------------------------------------------------

func run(t *testing.T, tape *simrt.Tape) *common.Outcome {
	g := simrt.Gen{S: tape.G}
	o := &common.Outcome{}
	h := &H{o: o, byID: map[peer.ID]*mpeer{}, trimByGid: map[int64]*trimRec{}, forgot: map[*mpeer]bool{}}

	// stratum first
	concurrent := g.Weighted(3, 2) == 1
	h.jumps = g.Chance(1, 3) // fault stratum drawn right after the stratum: clock jumps or none
	h.nDecay = map[string]int{}
	h.low = g.Range(1, 4)
	h.high = h.low + g.Int(5)
	h.grace = []time.Duration{0, 10 * time.Second, 20 * time.Second, time.Minute}[g.Int(4)]
	h.silence = []time.Duration{10 * time.Second, 5 * time.Second, 30 * time.Second}[g.Int(3)]
	h.resol = []time.Duration{time.Minute, 10 * time.Second, 30 * time.Second}[g.Int(3)]
	nPeers := g.Range(2, 8)
	for i := 0; i < nPeers; i++ {
		// the last byte selects the manager's segment: let some peers share one
		seg := g.Int(3)
		mp := &mpeer{idx: i, name: fmt.Sprintf("p%d", i), id: peer.ID(fmt.Sprintf("peer-%c%c", 'A'+i, 'x'+seg)),
			conns: map[*sconn]time.Duration{}, tags: map[string]int{}, dec: map[string]int{}, prot: map[string]bool{}}
		h.peers = append(h.peers, mp)
		h.byID[mp.id] = mp
	}
	nD := g.Int(3)
	for i := 0; i < nD; i++ {
		h.dspecs = append(h.dspecs, &dtagSpec{name: fmt.Sprintf("d%d", i), mult: g.Range(1, 2), decayK: g.Int(len(decayNames)), bumpK: g.Int(len(bumpNames))})
	}
	all := make([]int, nPeers)
	for i := range all {
		all[i] = i
	}
	var prefix []op
	var plans [][]op
	var sharedSet []int
	if !concurrent {
		prefix = genOps(g, g.Range(20, 80), all, opWeights)
	} else {
		prefix = genOps(g, g.Range(5, 30), all, opWeights)
		nT := g.Range(2, 4)
		// no stalls (h.stall stays 0): every stall lets several background/decayer ticks fire, each of which
		// costs hundreds of scheduling steps (256 segment locks), each step being a new chance to stall —
		// the run diverges. Timers still race with ready work at the instants where tasks wake together.
		// shared-peer mode (drawn): every task operates on the same one or two peers
		sw := sharedWeights
		if g.Chance(1, 2) {
			if g.Bool() {
				sw = protectStormWeights
				h.storm = true
			}
			nShared := g.Range(1, 2)
			if nShared > nPeers {
				nShared = nPeers
			}
			for i := 0; i < nShared; i++ {
				sharedSet = append(sharedSet, i)
			}
		}
		for k := 0; k < nT; k++ {
			if sharedSet != nil {
				plans = append(plans, genOps(g, g.Range(5, 20), sharedSet, sw))
				continue
			}
			// every peer is operated on by one task only (its operations are sequential); trims,
			// deliveries of Disconnected, the decayer and the background loop run concurrently
			var own []int
			for i := 0; i < nPeers; i++ {
				if i%nT == k {
					own = append(own, i)
				}
			}
			if len(own) == 0 {
				own = []int{k % nPeers}
				// would share a peer with another task: give it trims and sleeps only (below)
				ops := genOps(g, g.Range(5, 20), own, opWeights)
				for i := range ops {
					switch ops[i].kind {
					case opSleep, opTrim, opForce, opRead, opCheckLimit, opJump:
					default:
						ops[i].kind = opTrim
					}
				}
				plans = append(plans, ops)
				continue
			}
			plans = append(plans, genOps(g, g.Range(5, 20), own, opWeights))
		}
	}
	stratum := map[bool]string{false: "sequential", true: "concurrent"}[concurrent]
	if sharedSet != nil {
		stratum = fmt.Sprintf("concurrent/shared-peers(%d)", len(sharedSet))
	}
	if h.jumps {
		stratum += "+clock-jumps"
	}
	o.Logf("stratum=%s low=%d high=%d grace=%v silence=%v resolution=%v peers=%d decaying-tags=%d stall=%d",
		stratum, h.low, h.high, h.grace, h.silence, h.resol, nPeers, nD, h.stall)
	for _, mp := range h.peers {
		o.Logf(" %s id=%q", mp.name, string(mp.id))
	}
	for _, sp := range h.dspecs {
		o.Logf(" %s interval=%dx resolution decay=%s bump=%s", sp.name, sp.mult, decayNames[sp.decayK], bumpNames[sp.bumpK])
	}

	finished := false
	res := simrt.Run(t, simrt.Config{StallPermille: h.stall, MaxSteps: 600000, IdleLimit: 3 * time.Hour}, tape.S, func() {
		h.t0 = time.Now()
		h.localAddr = ma.StringCast("/ip4/10.9.9.9/tcp/4001")
		cm, err := connmgr.NewConnManager(h.low, h.high,
			connmgr.WithGracePeriod(h.grace), connmgr.WithSilencePeriod(h.silence), connmgr.WithClock(jumpClock{clock.New(), h}),
			connmgr.DecayerConfig(&connmgr.DecayerCfg{Resolution: h.resol, Clock: jumpClock{clock.New(), h}}))
		if err != nil {
			o.Trouble = "NewConnManager: " + err.Error()
			return
		}
		h.cm, h.nf = cm, cm.Notifee()
		for _, sp := range h.dspecs {
			sp.interval = time.Duration(sp.mult) * h.resol
			dt, err := cm.RegisterDecayingTag(sp.name, sp.interval, h.decayFn(sp), h.bumpFn(sp))
			if err != nil {
				o.Trouble = "RegisterDecayingTag: " + err.Error()
				return
			}
			h.dtags = append(h.dtags, dt)
		}
		for i, op := range prefix {
			h.exec("main", i, op)
			simrt.WaitIdle()
			h.compare(fmt.Sprintf("after main#%d", i))
			if len(o.Violations) > 0 || o.Trouble != "" {
				break
			}
		}
		if concurrent && len(o.Violations) == 0 && o.Trouble == "" {
			h.concurrent = true
			for _, i := range sharedSet {
				h.peers[i].shared = true
			}
			var wg simsync.WaitGroup
			for k, plan := range plans {
				wg.Add(1)
				name := fmt.Sprintf("w%d", k)
				simrt.GoNamed(name, func() {
					defer wg.Done()
					for i, op := range plan {
						h.exec(name, i, op)
					}
				})
			}
			wg.Wait()
		}
		// let every pending Disconnected be delivered and every queued bump be applied, compare; then
		// one last trim at a quiescent instant (every oracle applies to it, whatever the history was)
		h.concurrent = false
		h.finalCompare = true
		h.flush()
		if len(o.Violations) == 0 && o.Trouble == "" {
			h.compare("at the end")
		}
		if len(o.Violations) == 0 && o.Trouble == "" {
			o.Logf("main @%v final TrimOpenConns (model count=%d low=%d)", h.now(), h.count, h.low)
			h.trim(kTrim, "main-final")
			h.flush()
			h.compare("after the final trim")
		}
		h.touch()
		if err := cm.Close(); err != nil {
			o.Trouble = "Close: " + err.Error()
		}
		finished = true
	})
	o.Sched = res
	o.Virtual = res.Virtual
	if res.Panic != "" {
		if strings.Contains(res.Panic, "harness/c14") && !strings.Contains(res.Panic, "p2p/net/connmgr") {
			o.Trouble = "harness panic: " + firstLines(res.Panic, 8)
		} else {
			o.Violate("C14/panic", "%s", firstLines(res.Panic, 14))
		}
		return o
	}
	if res.StepLimit {
		o.Trouble = "step limit"
		return o
	}
	if o.Trouble != "" {
		return o
	}
	if res.Stuck || !finished {
		o.Violate("C14/deadlock", "run did not finish: stuck=%v residue=%v", res.Stuck, res.Residue)
		return o
	}
	if len(res.Residue) > 0 {
		o.Trouble = fmt.Sprintf("goroutines left after Close: %v", res.Residue)
		return o
	}
	h.checkTrims()
	fmt.Fprintf(&h.sig, "|count=%d", h.count)
	for _, mp := range h.peers {
		fmt.Fprintf(&h.sig, "|%s:%d/%d/%v", mp.name, len(mp.conns), mp.value(), len(mp.prot) > 0)
	}
	o.Sig = h.sig.String()
	return o
}

func firstLines(s string, n int) string {
	l := strings.Split(s, "\n")
	if len(l) > n {
		l = l[:n]
	}
	return strings.Join(l, " | ")
}

// ---- per-trim oracles (evaluated after the run, when every window is closed) -----------------

func (h *H) checkTrims() {
	o := h.o
	closedSomething := false
	for _, r := range h.trims {
		if r.kind == kBg {
			r.ret = r.last
			r.retT = r.closes[len(r.closes)-1].at
		}
	}
	for ti, r := range h.trims {
		name := kindName[r.kind]
		// signature and trace
		ids := make([]string, len(r.closes))
		for i, c := range r.closes {
			ids[i] = fmt.Sprintf("c%d(%s)", c.c.idx, c.c.mp.name)
		}
		fmt.Fprintf(&h.sig, "|%d:%s", r.kind, strings.Join(ids, ","))
		o.Logf("trim %d %s by %s window=[%d,%d] @%v..%v count=%d closed=%v", ti, name, r.who, r.inv, r.ret, r.invT, r.retT, r.count, ids)
		if len(r.closes) == 0 {
			if r.count <= h.low {
				o.Probe("trim-noop-at-or-below-low")
			} else {
				o.Probe("trim-noop-above-low")
			}
			// a trim that closes nothing still has to respect the bound (oracle d below)
		} else {
			closedSomething = true
			o.Probe("trim-closed")
		}
		alone := true
		for _, x := range h.trims {
			if x != r && x.inv < r.ret && x.ret > r.inv {
				alone = false
			}
		}
		if !alone {
			o.Probe("overlapping-trims")
		}
		anyChanged := func(mask int) bool {
			for _, mp := range h.peers {
				if mp.changed(mask, r.inv, r.ret) {
					return true
				}
			}
			return false
		}
		if anyChanged(wAdd | wRem | wVal | wProt) {
			o.Probe("operations-overlapping-a-trim")
		}
		// first close per peer, closed set
		firstClose := map[*mpeer]uint64{}
		closedHere := map[*sconn]bool{}
		for _, c := range r.closes {
			closedHere[c.c] = true
			if _, ok := firstClose[c.c.mp]; !ok {
				firstClose[c.c.mp] = c.stamp
			}
		}
		tracked := func(mp *mpeer, c *sconn) bool {
			for _, x := range r.snap[mp.idx].conns {
				if x == c {
					return true
				}
			}
			return false
		}
		// (a) nothing closed when the count is at or below the low watermark
		// (background trims are snapshotted at their first close: removals in the window would hide a higher count)
		if len(r.closes) > 0 && r.precise && r.count <= h.low && !anyChanged(wAdd) && (r.kind != kBg || !anyChanged(wRem)) {
			o.Violate("C14/closed-at-or-below-low/"+name, "trim %d (%s): %d connections tracked (low watermark %d) and none being added, but it closed %v", ti, name, r.count, h.low, ids)
		}
		// (b) per closed connection
		for _, c := range r.closes {
			mp := c.c.mp
			s := &r.snap[mp.idx]
			if r.precise && !mp.changed(wAdd|wRem, r.inv, c.stamp) && !tracked(mp, c.c) {
				o.Violate("C14/closed-untracked-conn/"+name, "trim %d (%s) closed c%d of %s, which the notifications delivered before the trim do not track", ti, name, c.c.idx, mp.name)
				continue
			}
			if r.kind == kForce {
				continue
			}
			if mp.certProt(r.inv, r.ret) {
				o.Violate("C14/closed-protected/"+name, "trim %d (%s) closed c%d of %s, which held a protection tag during the whole call by every linearisation of the Protect/Unprotect calls", ti, name, c.c.idx, mp.name)
			}
			if len(s.conns) > 0 && !s.unc && !mp.changed(wAdd|wRem|wLife, r.inv, c.stamp) && h.inGraceAt(s, c.at) {
				o.Violate("C14/closed-in-grace/"+name, "trim %d (%s) closed c%d of %s at +%v: first seen +%v, grace period %v", ti, name, c.c.idx, mp.name, c.at, s.firstSeen, h.grace)
			}
		}
		// kept peers: certainly eligible during the whole window, with a tracked connection that was never closed
		type kept struct {
			mp   *mpeer
			open int
		}
		var keptElig []kept
		if r.precise {
			for _, mp := range h.peers {
				s := &r.snap[mp.idx]
				if len(s.conns) == 0 || s.unc || !mp.certUnprot(r.inv, r.ret) || h.forgot[mp] || mp.changed(wAdd|wRem|wLife, r.inv, r.ret) {
					continue
				}
				if r.kind != kForce && !h.pastGraceAt(s, r.invT) {
					continue
				}
				open := 0
				for _, c := range s.conns {
					if c.closedAt == 0 || c.closedAt > r.ret {
						open++
					}
				}
				if open > 0 {
					keptElig = append(keptElig, kept{mp, open})
				}
			}
		}
		// (c) no closed peer has a higher value than a kept eligible one
		for _, mp := range h.peers {
			fc, ok := firstClose[mp]
			if !ok || !r.precise {
				continue
			}
			s := &r.snap[mp.idx]
			if s.unc || mp.changed(wVal, r.inv, fc) {
				continue
			}
			if r.kind == kForce && !mp.certUnprot(r.inv, fc) {
				continue
			}
			for _, k := range keptElig {
				q := &r.snap[k.mp.idx]
				if k.mp == mp || k.mp.changed(wVal, r.inv, r.ret) {
					continue
				}
				o.Probe("value-order-compared")
				if q.value < s.value {
					o.Violate("C14/lower-valued-kept/"+name, "trim %d (%s) closed %s (value %d) and kept eligible %s (value %d, %d open connections)", ti, name, mp.name, s.value, k.mp.name, q.value, k.open)
				}
			}
		}
		// (d) at most low-watermark connections left among the eligible peers
		// (kept peers were certainly unprotected for the whole window, i.e. candidates when the trim collected them;
		// protection changes of other peers do not enter the trim's arithmetic)
		if r.precise && alone && !anyChanged(wAdd) {
			left := 0
			var who []string
			for _, k := range keptElig {
				// only connections nobody started to disconnect
				n := 0
				for _, c := range r.snap[k.mp.idx].conns {
					if (c.closedAt == 0 || c.closedAt > r.ret) && (c.firstRemIn == 0 || c.firstRemIn > r.ret) {
						n++
					}
				}
				if n > 0 {
					left += n
					who = append(who, fmt.Sprintf("%s:%d", k.mp.name, n))
				}
			}
			o.Probe("left-bound-checked")
			if left > h.low {
				o.Violate("C14/left-above-low/"+name, "trim %d (%s): %d open connections left among eligible peers %v, low watermark %d (tracked before: %d)", ti, name, left, who, h.low, r.count)
			}
		}
		// (e) a forced trim closes a protected peer only if every unprotected one was selected
		if r.kind == kForce {
			var protClosed *mpeer
			for mp := range firstClose {
				if mp.certProt(r.inv, r.ret) && (protClosed == nil || mp.idx < protClosed.idx) {
					protClosed = mp
				}
			}
			if protClosed != nil {
				o.Probe("forced-trim-closed-protected")
				for _, mp := range h.peers {
					s := &r.snap[mp.idx]
					if !mp.certUnprot(r.inv, r.ret) || len(s.conns) == 0 || h.forgot[mp] || mp.changed(wAdd|wRem, r.inv, r.ret) {
						continue
					}
					for _, c := range s.conns {
						if c.closedAt == 0 || c.closedAt > r.ret {
							o.Violate("C14/forced-protected-before-unprotected", "trim %d (ForceTrim) closed protected %s while c%d of unprotected %s was never closed", ti, protClosed.name, c.idx, mp.name)
							break
						}
					}
				}
			}
			// documentation of ForceTrim (not part of the C14 statement): "trims down to the low watermark"
			if alone && !anyChanged(wAdd|wRem) && len(r.snap) > 0 {
				left := 0
				for _, s := range r.snap {
					for _, c := range s.conns {
						if !closedHere[c] {
							left++
						}
					}
				}
				if left > h.low {
					o.Probe("forcetrim-left-above-low-overall")
					o.Logf("  note: trim %d (ForceTrim) left %d of %d tracked connections un-selected, low watermark %d (its documentation says \"down to the low watermark\"; not part of C14)", ti, left, r.count, h.low)
					if os.Getenv("C14_FORCETRIM_DOC") != "" {
						// off by default: ForceTrim's documentation, not the C14 statement
						o.Violate("C14/doc/forcetrim-left-above-low", "trim %d (ForceTrim) selected %v and left %d of %d tracked connections, low watermark %d", ti, ids, left, r.count, h.low)
					}
				}
			}
		}
		// reach probes
		if r.kind != kForce && r.count > h.low {
			for _, mp := range h.peers {
				s := &r.snap[mp.idx]
				if len(s.conns) > 0 && mp.certProt(r.inv, r.ret) {
					o.Probe("trim-with-protected-peer-above-low")
				}
				if len(s.conns) > 0 && h.inGraceAt(s, r.invT) {
					o.Probe("trim-with-peer-in-grace-above-low")
				}
				if len(s.conns) > 0 && h.grace > 0 && h.pastGraceAt(s, r.invT) && (r.invT-r.off)-(s.firstSeen-s.fsOff) < h.grace {
					// past the grace period in wall time only: timers have not seen that much time pass
					o.Probe("eligible-only-by-wall-time-after-clock-jump")
					if firstClose[mp] != 0 {
						o.Probe("closed-peer-eligible-only-by-wall-time")
					}
				}
				if len(s.conns) > 1 && firstClose[mp] != 0 {
					o.Probe("multi-conn-peer-closed")
				}
			}
		}
	}
	o.Nontrivial = closedSomething && h.mutations >= 2
}
