# orchestrator configuration of the C14 check (loaded by tools/props.py)
SPEC = dict(
    pkg="./harness/c14",
    instrument=["./p2p/net/connmgr"],
    level="exploration",
    level_text=("seeded search over operation histories x schedules of the real connection manager (BasicConnMgr + decayer on "
                "the bubble clock) under a scheduler that owns every lock, channel operation, select and map iteration of the "
                "package; a reference model written from the statement (tracked connections, tag totals, protection sets, "
                "first-seen instants) is compared after every operation in the sequential stratum and at quiescence in the "
                "concurrent one; per-trim oracles over stamped CloseWithError calls. Sampling, not proof."),
    level_note=("trusted: testing/synctest, the overlay rewrite (validated by the package's own tests through ./check overlaytest), "
                "the harness model and oracles; Go's unseedable select/map order is replaced inside the instrumented package. "
                "Scheduler stalls are not used (each stall lets whole trim/decay ticks of 256 segment locks run, which diverges); "
                "timers race with ready work only at instants where several tasks wake together. Watermarks are positive."),
    technique="deterministic simulation: seeded lock/channel-level scheduler over instrumented connmgr, reference model + trim oracles",
    design_ref="DESIGN.md section 5 (C14)",
    quick_s=40, thorough_s=400,
    rule=("one run = one tape: stratum drawn first (sequential 3 : concurrent 2), then the fault stratum (clock jumps in one run of three: the injected clock's Now() jumps forward by 1 s / 30 s / grace-1 s / grace+1 s / 10 min / 3 h at drawn points while timers and tickers stay on bubble time; all time-dependent oracles are in wall time); configuration low 1-4, high low..low+4, grace "
          "0/10s/20s/1min, silence 5/10/30s, decayer resolution 10s/30s/1min, 2-8 peers over 1-3 manager segments, 0-2 decaying "
          "tags whose decay/bump functions are the exported presets (DecayFixed, DecayLinear, DecayNone, DecayExpireWhenInactive, BumpSumUnbounded/Bounded, BumpOverwrite) or harness ones, several of which remove a tag while returning a non-zero value; bump deltas -2..6; sequential: 20-80 operations (Connected incl. several per peer and duplicates, "
          "Disconnected incl. duplicates and never-connected, TagPeer/UntagPeer/UpsertTag, Bump/Remove, Protect/Unprotect/IsProtected "
          "with 3 tags, sleeps across grace/silence/resolution, TrimOpenConns, ForceTrim, GetInfo, CheckLimit) each followed by a "
          "model comparison at quiescence; concurrent: sequential prefix of 5-30 operations, then 2-4 tasks with 5-20 operations "
          "each on disjoint peers plus trims by every task (half of them slept to the next background tick), the background trim loop, the decayer and the delayed deliveries of "
          "Disconnected (0-31.5 s after CloseWithError, or synchronously); in half of the concurrent runs (shared-peer mode) all tasks operate on the same one or two peers instead "
          "(TagPeer/UntagPeer/UpsertTag on 3 tag names, Protect/Unprotect on 3 tag names, Connected/Disconnected, trims; a "
          "protect-storm sub-mode is dominated by Protect/Unprotect), with oracles that hold for every linearisation "
          "(Value == sum of Tags, protection certainly set/unset from the call history); UpsertTag callbacks contain 0-3 "
          "scheduling points; both strata end with a flush, a model comparison, one "
          "last TrimOpenConns at a quiescent instant and another comparison; non-trivial = at least one trim closed a connection "
          "and >=2 operations changed model state; distinct = distinct (scheduler decision hash, per-trim closed connections, "
          "final per-peer connections/value/protection)"),
    probes=["trim-closed", "trim-noop-at-or-below-low", "trim-noop-above-low", "trim-with-protected-peer-above-low",
            "trim-with-peer-in-grace-above-low", "multi-conn-peer-closed", "closed-again-while-still-tracked",
            "background-trim-closed", "forced-trim-closed-protected", "forcetrim-left-above-low-overall",
            "value-order-compared", "left-bound-checked", "overlapping-trims", "operations-overlapping-a-trim",
            "duplicate-connected", "duplicate-disconnected", "sync-delivery", "bump-applied", "decay-tick-applied", "decay-removed-with-nonzero-after",
            "early-tag-entry-dropped", "order-dependent-overlap", "resync-after-order-dependent-overlap", "sampled-peer-check", "sampled-protect-check", "decay-applied-after-clock-jump",
            "eligible-only-by-wall-time-after-clock-jump", "closed-peer-eligible-only-by-wall-time",
            "clock-jump-during-operation"],
    real=["p2p/net/connmgr (instrumented: sync->simsync, go->simrt.Go, select, map ranges): BasicConnMgr, decayer, background trim loop",
          "benbjohnson/clock.New() on the synctest bubble clock, wrapped so that Now()/Since()/Until() add the clock-jump offset"],
    stubs=["network.Conn (records CloseWithError with stamps; Disconnected delivered later by another task, or synchronously)"],
    assume=["synctest fake clock and quiescence detection (Go 1.25.7)",
            "the overlay rewrite preserves behaviour (checked by ./check overlaytest C14)",
            "tags live as long as the manager tracks the peer; early-tag entries past the grace period may be dropped",
            "ForceTrim is exempt from the grace period (its own documentation)",
            "clock jumps are forward only; timers/tickers are monotonic (late by the jump), Now() is wall time"],
)
