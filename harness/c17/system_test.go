// C17, system stratum: what a real host ADVERTISES, produced by real observers.
//
// A real host H (simhost: swarm, TCP + QUIC (+ WebTransport on the same UDP port in a quarter of the runs), real
// identify, real basic host whose address manager — p2p/host/basic/addrs_manager.go, the property's second code
// anchor — asks the real observedaddrs.Manager) has a PRIVATE address behind a source NAT (simnet.SetNAT) with one
// public IP. 3-10 real observer hosts with public addresses: several on one IPv4 address (different ports), IPv6
// observers in the same /56 but different /64s and in different /56s (the whole run is IPv4 or IPv6: drawn); 0-2
// "LAN" nodes that reach H's private TCP address directly and therefore see — and report — the private address; one
// probe node that is only dialled over TCP to read what H's identify SENDS.
//
// Operations, in drawn order, each followed by a settle and a check: H dials an observer over QUIC (the dial leaves
// from the listen socket, so the connection's local address is the listen address and the NAT maps it port-preserving:
// the observer sees <public>:4001), over WebTransport (same socket), over TCP (ephemeral source port: the connection
// does not arrive at / leave from a listen address, its report never counts); an observer dials H's mapped QUIC
// endpoint (inbound at the listen address); both dial at once (two connections to one peer); a LAN node dials H's
// private TCP listen address; H closes a peer or one connection; the observer closes; the observer's node shuts down;
// the probe node is dialled. Epilogue: every observer goes away, nothing public may remain.
//
// Ground truth (owned by the harness, read at the quiescent instant): H's swarm says which connections are open and
// what their local and remote addresses are; the observer's swarm says what IT sees as H's address on that connection
// (conn.RemoteMultiaddr() on the far side — cross-checked against simnet's NAT mapping table); H's event bus says on
// which connections identify completed. The reference count is the statement's:
//
//	count(L, X) = number of distinct observer groups (remote IPv4 address, or remote IPv6 /56, as H sees the
//	              connection's remote address) among H's currently open, identified connections whose local thin waist
//	              is L's and on which the observer sees X.
//
// Oracle, at every check, for H.Host.Addrs(), H.Host.AllAddrs(), the ListenAddrs of the identify message a probe node
// received, and (to tell the two anchors apart) the Manager's own AddrsFor(L):
//
//	C17/system/<what>-not-allowed/<why>   an address that is not one of H's own listen addresses is advertised although
//	                                      fewer than ActivationThresh groups report it for that listen address
//	                                      (<why>: closed-connection-counted | same-group-counted-twice |
//	                                      not-at-listen-address | below-threshold | unknown-address)
//	C17/system/<what>-missing             an address with >= ActivationThresh groups (and in every admissible top three)
//	                                      is not advertised
//	C17/system/<what>-cap                 more than three observed addresses attributable to one listen address
//	<what> = host | alladdrs | identify-sent | manager
//
// Reports of LAN nodes are for the private address, so they never add to the public one's count: "reports from
// observers that see H's private address never make a public address appear" is the not-allowed oracle.
//
// Settle and the withdrawal bound: after an operation the harness waits for IdentifyWait on each of H's open
// connections, then lets 11 s of virtual time pass (lossless wire, zero latency), then WaitIdle. Why 11 s: a close is
// delivered at once (CONNECTION_CLOSE / FIN are not lost here), the Manager withdraws inside the swarm's Disconnected
// notification and records inside its worker as soon as it is scheduled (no timer), and the only periodic step between
// the Manager and what the host advertises is the address manager's recompute every addrChangeTickrInterval = 5 s
// (p2p/host/basic/addrs_manager.go); 11 s = two periods + 1 s slack. So "withdrawn within 11 s after the close".
//
// Variants (bit 5 of the stratum draw; the settled variant draws nothing new, so its tapes keep their meaning):
//   - settled: warm start (H alone for 11 s, checked), then settle + check after EVERY operation. By construction no
//     operation ever meets an identify exchange in flight, a withdrawal the host has not yet recomputed, or a recompute in
//     progress, and H's first connection always happens on a host that has been idle for 11 s.
//   - unsettled: after about half of the operations (drawn; at most 5 in a row because the documented worker queue holds 16
//     observations) there is no IdentifyWait, no settle and no check — the next operation follows at once or after a drawn
//     1 ms .. 6 s, so it lands anywhere in the 5 s recompute period and meets identify in flight (H or the observer closes
//     during the exchange: the report arrives on a closed connection; probe sys-identify-completed-on-conn-closed-before-settle);
//     in half of these runs the start is cold: H is built last and the first operation follows in the same instant. The
//     oracle is judged at the settled instants only (and always in the epilogue).
//
// What the harness calls only to observe, and what those calls do (audit 2026-09-26): BasicHost.Addrs()/AllAddrs() read the
// address manager's currentAddrs under its read lock — they neither recompute nor trigger the background loop;
// Manager.AddrsFor/Addrs read under the read lock and only memoise the joined multiaddr per observer set;
// Swarm.Conns/ConnsToPeer/ListenAddresses, Conn.IsClosed/Stat, simnet.NATMappings are reads. IDService.IdentifyWait is NOT a
// pure read — it starts identify if nobody has — but identify's own Connected notifiee has already called it before DialPeer
// returns, so the harness is at most a second waiter; what it did do in the settled variant is make every operation wait
// for every exchange, which is why the unsettled variant exists. The harness's extra subscriber on H's bus (buffer 2048,
// drained at settled instants) only adds a sink to the identify-completed emitter.
//
// Not reachable here: more than one observed address per listen address (the NAT has one public IP and the mapping
// is port-preserving), hence the cap and the ordering are only exercised by the Manager-level strata.
package c17

import (
	"context"
	"fmt"
	"hash/fnv"
	"sort"
	"strings"
	"testing"
	"time"

	"github.com/libp2p/go-libp2p/core/event"
	"github.com/libp2p/go-libp2p/core/network"
	"github.com/libp2p/go-libp2p/core/peer"
	"github.com/libp2p/go-libp2p/core/peerstore"
	basichost "github.com/libp2p/go-libp2p/p2p/host/basic"
	"github.com/libp2p/go-libp2p/p2p/host/eventbus"
	"github.com/libp2p/go-libp2p/p2p/host/observedaddrs"
	ma "github.com/multiformats/go-multiaddr"
	manet "github.com/multiformats/go-multiaddr/net"

	"verifsim/harness/common"
	"verifsim/simhost"
	"verifsim/simnet"
	"verifsim/simrand"
	"verifsim/simrt"
	"verifsim/simsync"
)

// settleTime: see the header (two recompute periods of the host's address manager + slack).
const settleTime = 11 * time.Second

// lazyOAM hands the host's address manager the real observedaddrs.Manager, which can only be built once the
// swarm exists (simhost builds swarm and host in one call). Pure delegation.
type lazyOAM struct{ m *observedaddrs.Manager }

func (l *lazyOAM) Addrs(minObservers int) []ma.Multiaddr {
	if l.m == nil {
		return nil
	}
	return l.m.Addrs(minObservers)
}
func (l *lazyOAM) AddrsFor(local ma.Multiaddr) []ma.Multiaddr {
	if l.m == nil {
		return nil
	}
	return l.m.AddrsFor(local)
}

// twOf is the thin waist (IP, tcp|udp, port) of an address as text, "" if it has none.
func twOf(a ma.Multiaddr) string {
	if len(a) < 2 {
		return ""
	}
	if c0, c1 := a[0].Code(), a[1].Code(); (c0 != ma.P_IP4 && c0 != ma.P_IP6) || (c1 != ma.P_TCP && c1 != ma.P_UDP) {
		return ""
	}
	return a[:2].String()
}

// groupOfAddr: one observer group per IPv4 address, one per IPv6 /56 (the statement).
func groupOfAddr(a ma.Multiaddr) string {
	ip, err := manet.ToIP(a)
	if err != nil {
		return "?" + a.String()
	}
	if v4 := ip.To4(); v4 != nil {
		return "4/" + v4.String()
	}
	return fmt.Sprintf("6/%x/56", []byte(ip.To16()[:7]))
}

type sysNode struct {
	name  string
	nd    *simhost.Node
	lan   bool
	dead  bool
	group string
}

// crec is what the harness knows about one connection of H.
type crec struct {
	id         string
	peer       string
	dir        string
	ltw        string // local thin waist on H
	xtw        string // what the far side sees as H's thin waist (ground truth)
	group      string
	identified bool   // identify completed on it (H's event bus)
	carried    string // thin waist of the ObservedAddr the identify event carried
	open       bool
	everOpen   bool // seen open at a settled instant
}

func runSystem(t *testing.T, tape *simrt.Tape, g simrt.Gen, o *common.Outcome, unsettled bool) *common.Outcome {
	thresh := []int{4, 2, 3}[g.Weighted(3, 3, 1)]
	v6 := g.Chance(1, 3)
	wt := g.Chance(1, 4)
	nObs := g.Range(3, 10)
	nLAN := g.Weighted(2, 2, 1)
	nOps := g.Range(3, 16)
	// unsettled variant only (the settled variant draws nothing new, its tapes keep their meaning): cold start
	cold := unsettled && g.Chance(1, 2)

	fam, hPriv, hPub, probeIP := "ip4", "10.0.0.1", "5.5.5.5", "7.7.7.7"
	if v6 {
		fam, hPriv, hPub, probeIP = "ip6", "fd00::1", "2600:1::5", "2600:7::7"
	}
	type obsSpec struct {
		ip   string
		port int
	}
	var specs []obsSpec
	perIP := map[string]int{}
	pool := min(nObs, 6)
	for i := 0; i < nObs; i++ {
		k := g.Int(pool)
		var s obsSpec
		if !v6 {
			// several observers on one IPv4 address: same IP, different ports
			s.ip = fmt.Sprintf("1.2.3.%d", 1+k)
			s.port = 4001 + perIP[s.ip]
			perIP[s.ip]++
		} else {
			// several observers in one /56: 2600:2:0:kSS::1, SS = a different /64 each
			key := fmt.Sprint(k)
			perIP[key]++
			s.ip = fmt.Sprintf("2600:2:0:%x%02x::1", k, perIP[key])
			s.port = 4001
		}
		specs = append(specs, s)
	}
	o.Logf("stratum=system thresh=%d family=%s webtransport=%v observers=%d lan=%d ops=%d unsettled=%v cold=%v", thresh, fam, wt, nObs, nLAN, nOps, unsettled, cold)

	prevThresh := observedaddrs.ActivationThresh
	observedaddrs.ActivationThresh = thresh
	defer func() { observedaddrs.ActivationThresh = prevThresh }()
	restore := simrand.Install(17)
	defer restore()

	sig := fnv.New64a()
	finished := false
	var sawActive, sawWithdrawn bool
	var lateRecs []*crec

	res := simrt.Run(t, simrt.Config{MaxSteps: 6_000_000, IdleLimit: time.Hour}, tape.S, func() {
		n := simnet.New(tape.G, simnet.Config{})
		n.SetNAT(hPriv, hPub)
		var h *simhost.Node
		var mgr *observedaddrs.Manager
		var hsub event.Subscription
		buildH := func() bool {
			lazy := &lazyOAM{}
			var err error
			h, err = simhost.New(n, simhost.Opts{Key: simhost.DetKey(1), IP: hPriv, Port: 4001, QUIC: true, WebTransport: wt, WithHost: true,
				HostOpts: &basichost.HostOpts{ObservedAddrsManager: lazy}})
			if err != nil {
				o.Trouble = "host H: " + err.Error()
				h = nil
				return false
			}
			mgr, err = observedaddrs.NewManager(h.Bus, h.Swarm)
			if err != nil {
				o.Trouble = "NewManager: " + err.Error()
				return false
			}
			mgr.Start(h.Swarm)
			lazy.m = mgr
			hsub, err = h.Bus.Subscribe(new(event.EvtPeerIdentificationCompleted), eventbus.BufSize(2048))
			if err != nil {
				o.Trouble = "subscribe: " + err.Error()
				return false
			}
			return true
		}
		closeH := func() {
			if hsub != nil {
				hsub.Close()
			}
			if h != nil {
				h.Close()
			}
			if mgr != nil {
				mgr.Close()
			}
		}
		// warm (the settled variant, and half of the unsettled one): H exists first and gets 11 s of its own before anything
		// connects. cold: H is built LAST and the first operation follows at once — H's first connection, identify's first
		// run, the Manager's first observation and the address manager's first recomputes all happen on a host that was
		// started in the same instant.
		if !cold && !buildH() {
			closeH()
			return
		}

		var nodes []*sysNode // observers, then LAN nodes
		byPeer := map[peer.ID]*sysNode{}
		closeAll := func() {
			for _, x := range nodes {
				if !x.dead {
					x.nd.Close()
					x.dead = true
				}
			}
		}
		for i, s := range specs {
			nd, err := simhost.New(n, simhost.Opts{Key: simhost.DetKey(10 + i), IP: s.ip, Port: s.port, QUIC: true, WebTransport: wt, WithHost: true})
			if err != nil {
				o.Trouble = "observer: " + err.Error()
				closeAll()
				closeH()
				return
			}
			x := &sysNode{name: fmt.Sprintf("O%d", i), nd: nd, group: groupOfAddr(nd.Addr)}
			nodes = append(nodes, x)
			byPeer[nd.ID] = x
			o.Logf(" %s %s:%d group=%s", x.name, s.ip, s.port, x.group)
		}
		for j := 0; j < nLAN; j++ {
			ip := fmt.Sprintf("10.0.0.%d", 2+j)
			if v6 {
				ip = fmt.Sprintf("fd00::%x", 2+j)
			}
			nd, err := simhost.New(n, simhost.Opts{Key: simhost.DetKey(40 + j), IP: ip, Port: 4001, WithHost: true})
			if err != nil {
				o.Trouble = "lan node: " + err.Error()
				closeAll()
				closeH()
				return
			}
			x := &sysNode{name: fmt.Sprintf("LAN%d", j), nd: nd, lan: true, group: groupOfAddr(nd.Addr)}
			nodes = append(nodes, x)
			byPeer[nd.ID] = x
			o.Logf(" %s %s (reaches H's private address)", x.name, ip)
		}
		probe, err := simhost.New(n, simhost.Opts{Key: simhost.DetKey(60), IP: probeIP, Port: 4001, WithHost: true})
		if err != nil {
			o.Trouble = "probe node: " + err.Error()
			closeAll()
			closeH()
			return
		}
		psub, err := probe.Bus.Subscribe(new(event.EvtPeerIdentificationCompleted), eventbus.BufSize(256))
		if err != nil {
			o.Trouble = "subscribe: " + err.Error()
			return
		}
		if cold && !buildH() {
			closeAll()
			probe.Close()
			closeH()
			return
		}

		// ---- ground truth ----------------------------------------------------------------------
		recs := map[network.Conn]*crec{}
		recOf := func(c network.Conn) *crec {
			r := recs[c]
			if r == nil {
				r = &crec{id: c.ID()}
				recs[c] = r
			}
			return r
		}
		sortedRecs := func() []*crec {
			l := make([]*crec, 0, len(recs))
			for _, r := range recs {
				l = append(l, r)
			}
			sort.Slice(l, func(i, j int) bool { return l[i].id < l[j].id })
			return l
		}
		natOf := func(proto, privTW string) string { // "tcp 10.0.0.1:40001 -> 5.5.5.5:40001"
			for _, m := range n.NATMappings() {
				f := strings.Fields(m)
				if len(f) == 4 && f[0] == proto {
					if a, err := netToTW(fam, proto, f[1]); err == nil && a == privTW {
						if b, err := netToTW(fam, proto, f[3]); err == nil {
							return b
						}
					}
				}
			}
			return ""
		}
		drain := func() {
			for {
				rc := simrt.RecvCase(hsub.Out())
				if simrt.Select("c17.drain", true, rc) != 0 {
					return
				}
				v, ok := rc.Val2()
				if !ok {
					return
				}
				evt := v.(event.EvtPeerIdentificationCompleted)
				r := recOf(evt.Conn)
				r.identified = true
				if evt.ObservedAddr != nil {
					r.carried = twOf(evt.ObservedAddr)
				}
			}
		}
		settle := func() {
			ids := h.Host.IDService()
			conns := h.Swarm.Conns()
			sort.Slice(conns, func(i, j int) bool { return conns[i].ID() < conns[j].ID() })
			for _, c := range conns {
				simrt.Recv("c17.idwait", ids.IdentifyWait(c))
			}
			simrt.TimeSleep(settleTime)
			simrt.WaitIdle()
			drain()
			// refresh the records from both swarms
			open := map[network.Conn]bool{}
			for _, c := range h.Swarm.Conns() {
				if c.IsClosed() {
					continue
				}
				open[c] = true
				r := recOf(c)
				r.open, r.everOpen = true, true
				r.ltw = twOf(c.LocalMultiaddr())
				r.group = groupOfAddr(c.RemoteMultiaddr())
				r.dir = c.Stat().Direction.String()
				proto := "tcp"
				if strings.Contains(r.ltw, "/udp/") {
					proto = "udp"
				}
				x := natOf(proto, r.ltw)
				if x == "" {
					x = r.ltw // no translation on the path: the far side sees the local address
				}
				far := byPeer[c.RemotePeer()]
				var farNode *simhost.Node
				if far != nil {
					r.peer = far.name
					if !far.dead {
						farNode = far.nd
					}
				} else if c.RemotePeer() == probe.ID {
					r.peer = "probe"
					farNode = probe
				}
				if farNode != nil {
					seen := map[string]bool{}
					for _, oc := range farNode.Swarm.ConnsToPeer(h.ID) {
						if twOf(oc.LocalMultiaddr()) == twOf(c.RemoteMultiaddr()) {
							seen[twOf(oc.RemoteMultiaddr())] = true
						}
					}
					if len(seen) == 0 {
						o.Probe("sys-half-open")
					} else if !seen[x] || len(seen) > 1 {
						o.Trouble = fmt.Sprintf("ground truth disagrees: NAT table says %s sees H's %s as %s, its swarm says %v", r.peer, r.ltw, x, sortedKeys(seen))
					}
				}
				r.xtw = x
				if r.identified && r.carried != "" && r.carried != x {
					o.Trouble = fmt.Sprintf("identify on %s carried %s but the observer sees %s", r.id, r.carried, x)
				}
				if !r.identified {
					o.Probe("sys-open-conn-without-identify")
				}
			}
			for c, r := range recs {
				if !open[c] {
					r.open = false
				}
			}
		}

		type listenAddr struct{ text, tw, rest string }
		listens := func() []listenAddr {
			var l []listenAddr
			for _, a := range h.Swarm.ListenAddresses() {
				if tw := twOf(a); tw != "" {
					l = append(l, listenAddr{a.String(), tw, strings.TrimPrefix(a.String(), tw)})
				}
			}
			sort.Slice(l, func(i, j int) bool { return l[i].text < l[j].text })
			return l
		}
		type how struct{ withClosed, perConn, anyLocal bool }
		count := func(hw how, ltw string) map[string]int {
			sets := map[string]map[string]bool{}
			for _, r := range sortedRecs() {
				if (!r.open && !hw.withClosed) || !r.identified || r.xtw == "" || (r.ltw != ltw && !hw.anyLocal) {
					continue
				}
				who := r.group
				if hw.perConn {
					who = r.id
				}
				if sets[r.xtw] == nil {
					sets[r.xtw] = map[string]bool{}
				}
				sets[r.xtw][who] = true
			}
			out := map[string]int{}
			for x, s := range sets {
				out[x] = len(s)
			}
			return out
		}
		why := func(ltw, x string) string {
			switch {
			case count(how{withClosed: true}, ltw)[x] >= thresh:
				return "closed-connection-counted"
			case count(how{perConn: true}, ltw)[x] >= thresh:
				return "same-group-counted-twice"
			case count(how{anyLocal: true}, ltw)[x] >= thresh:
				return "not-at-listen-address"
			}
			return "below-threshold"
		}
		// judge checks one advertised list. ls fixes the listen addresses (own addresses are not "observed").
		judge := func(at, what string, addrs []ma.Multiaddr, ls []listenAddr) (public []string) {
			own := map[string]bool{}
			for _, l := range ls {
				own[l.text] = true
			}
			have := map[string]bool{}
			for _, a := range addrs {
				have[a.String()] = true
			}
			exclusive := map[string]int{}
			for _, a := range sortedKeys(have) {
				if own[a] {
					continue
				}
				public = append(public, a)
				okFor, reason := 0, "unknown-address"
				for _, l := range ls {
					x, ok := strings.CutSuffix(a, l.rest)
					if !ok || strings.Count(x, "/") != 4 {
						continue
					}
					if count(how{}, l.tw)[x] >= thresh {
						okFor++
						exclusive[l.text]++
					} else if reason == "unknown-address" || reason == "below-threshold" {
						reason = why(l.tw, x)
					}
				}
				if okFor == 0 {
					o.Violate("C17/system/"+what+"-not-allowed/"+reason, "%s: %s lists %s, which fewer than %d observer groups on open connections report for any listen address; connections: %s", at, what, a, thresh, describe(sortedRecs(), false))
				}
			}
			for _, l := range ls {
				cnt := count(how{}, l.tw)
				if exclusive[l.text] > 3 { // H's listen addresses have pairwise different suffixes: attribution is unambiguous
					o.Violate("C17/system/"+what+"-cap", "%s: %s lists %d observed addresses for %s", at, what, exclusive[l.text], l.text)
				}
				for x, c := range cnt {
					if c < thresh {
						continue
					}
					ge := 0
					for y, d := range cnt {
						if y != x && d >= thresh && d >= c {
							ge++
						}
					}
					if a := x + l.rest; ge < 3 && !own[a] && !have[a] {
						o.Violate("C17/system/"+what+"-missing", "%s: %s lacks %s although %d observer groups on open connections report %s for %s (threshold %d); got %v; connections: %s", at, what, a, c, x, l.text, thresh, sortedKeys(have), describe(sortedRecs(), false))
					}
				}
			}
			return public
		}
		prevPublic := false
		check := func(at string) {
			if o.Trouble != "" {
				return
			}
			ls := listens()
			pub := judge(at, "host", h.Host.Addrs(), ls)
			judge(at, "alladdrs", h.Host.AllAddrs(), ls)
			for _, l := range ls {
				// the Manager's own answer for this listen address, judged against the same reference: tells a defect of
				// the Manager from one of the host's address manager
				judge(at, "manager", append(mgr.AddrsFor(ma.StringCast(l.text)), ma.StringCast(l.text)), []listenAddr{l})
			}
			fmt.Fprintf(sig, "%s=%v;", at, pub)
			if len(pub) > 0 {
				sawActive = true
			} else if prevPublic {
				sawWithdrawn = true
				o.Probe("sys-public-address-withdrawn")
			}
			prevPublic = len(pub) > 0
			// probes from the reference
			for _, l := range ls {
				for _, c := range count(how{}, l.tw) {
					if c == thresh-1 {
						o.Probe("sys-at-threshold-minus-1")
					}
					if c >= thresh {
						o.Probe("sys-at-or-above-threshold")
					}
				}
				pc, gc := count(how{perConn: true}, l.tw), count(how{}, l.tw)
				for x := range pc {
					if pc[x] > gc[x] {
						o.Probe("sys-one-group-several-connections")
					}
				}
			}
			o.Logf("  %s: advertised beyond own listen addresses: %v; open: %s", at, pub, describe(sortedRecs(), true))
		}

		// ---- operations ---------------------------------------------------------------------------
		dial := func(from *simhost.Node, to peer.ID, addr ma.Multiaddr) error {
			from.PS.ClearAddrs(to)
			from.PS.AddAddrs(to, []ma.Multiaddr{addr}, peerstore.PermanentAddrTTL)
			ctx, cancel := context.WithTimeout(context.Background(), 30*time.Second)
			defer cancel()
			_, err := from.Swarm.DialPeer(ctx, to)
			return err
		}
		connected := func(x *sysNode) bool { return h.Swarm.Connectedness(x.nd.ID) == network.Connected }
		pick := func(pred func(*sysNode) bool) *sysNode {
			var c []*sysNode
			for _, x := range nodes {
				if !x.dead && pred(x) {
					c = append(c, x)
				}
			}
			if len(c) == 0 {
				return nil
			}
			return c[g.Int(len(c))]
		}
		mappedQUIC := func() ma.Multiaddr { // H's QUIC listen socket as the outside sees it, once it has sent anything
			if x := natOf("udp", twOf(h.QAddr)); x != "" {
				return ma.StringCast(x + "/quic-v1")
			}
			return nil
		}
		logErr := func(what string, err error) {
			if err != nil {
				o.Logf("   %s failed: %v", what, firstLines(err.Error(), 2))
				o.Probe("sys-dial-failed")
			}
		}
		nProbe := 0
		streak := 0 // operations since the last settled instant
		step := func(i int) {
			at := fmt.Sprintf("op%d", i)
			kind := g.Weighted(9, 2, 2, 1, 2, 3, 2, 1, 2, 1)
			fmt.Fprintf(sig, "k%d;", kind)
			switch kind {
			case 0, 8: // H dials an observer over QUIC / WebTransport: leaves from the listen socket
				x := pick(func(x *sysNode) bool { return !x.lan && !connected(x) })
				if x == nil {
					return
				}
				target := x.nd.QAddr
				if kind == 8 && wt {
					target = x.nd.WTAddr()
					o.Probe("sys-webtransport-dial")
				}
				o.Logf("%s: H dials %s at %s", at, x.name, target)
				logErr("dial", dial(h, x.nd.ID, target))
			case 1: // over TCP: ephemeral source port, never counts
				x := pick(func(x *sysNode) bool { return !x.lan && !connected(x) })
				if x == nil {
					return
				}
				o.Logf("%s: H dials %s at %s (TCP, ephemeral source port)", at, x.name, x.nd.Addr)
				o.Probe("sys-tcp-outbound")
				logErr("dial", dial(h, x.nd.ID, x.nd.Addr))
			case 2: // an observer dials H's mapped QUIC endpoint
				pubQ := mappedQUIC()
				x := pick(func(x *sysNode) bool { return !x.lan && !connected(x) })
				if x == nil || pubQ == nil {
					return
				}
				o.Logf("%s: %s dials H at %s (mapped endpoint)", at, x.name, pubQ)
				o.Probe("sys-inbound-through-nat")
				logErr("dial", dial(x.nd, h.ID, pubQ))
			case 3: // both at once: usually two connections to one peer
				pubQ := mappedQUIC()
				x := pick(func(x *sysNode) bool { return !x.lan && !connected(x) })
				if x == nil || pubQ == nil {
					return
				}
				o.Logf("%s: H and %s dial each other at once", at, x.name)
				o.Probe("sys-simultaneous-connect")
				var wg simsync.WaitGroup
				wg.Add(2)
				simrt.GoNamed("dial-out", func() { defer wg.Done(); logErr("dial", dial(h, x.nd.ID, x.nd.QAddr)) })
				simrt.GoNamed("dial-in", func() { defer wg.Done(); logErr("dial", dial(x.nd, h.ID, pubQ)) })
				wg.Wait()
			case 4: // a LAN node dials H's private TCP listen address and reports the private address
				x := pick(func(x *sysNode) bool { return x.lan && !connected(x) })
				if x == nil {
					return
				}
				o.Logf("%s: %s dials H at %s (private address)", at, x.name, h.Addr)
				o.Probe("sys-lan-observer")
				logErr("dial", dial(x.nd, h.ID, h.Addr))
			case 5: // H closes a peer, or one of several connections to it
				x := pick(connected)
				if x == nil {
					return
				}
				if cs := h.Swarm.ConnsToPeer(x.nd.ID); len(cs) > 1 && g.Bool() {
					sort.Slice(cs, func(i, j int) bool { return cs[i].ID() < cs[j].ID() })
					o.Logf("%s: H closes one of %d connections to %s", at, len(cs), x.name)
					cs[0].Close()
				} else {
					o.Logf("%s: H closes %s", at, x.name)
					h.Swarm.ClosePeer(x.nd.ID)
				}
			case 6:
				x := pick(connected)
				if x == nil {
					return
				}
				o.Logf("%s: %s closes H", at, x.name)
				x.nd.Swarm.ClosePeer(h.ID)
			case 7:
				x := pick(func(x *sysNode) bool { return true })
				if x == nil {
					return
				}
				o.Logf("%s: %s shuts down", at, x.name)
				o.Probe("sys-observer-shutdown")
				x.nd.Close()
				x.dead = true
			case 9: // what H's identify sends: a fresh connection to the probe node (TCP: does not add an observer)
				nProbe++
				if streak > 0 { // the reference the message is judged against must be a settled one
					settle()
					check(at + "(before probe)")
					streak = 0
				}
				o.Logf("%s: H dials the probe node", at)
				if err := dial(h, probe.ID, probe.Addr); err != nil {
					logErr("dial", err)
					return
				}
				for _, pc := range probe.Swarm.ConnsToPeer(h.ID) {
					simrt.Recv("c17.idwait", probe.Host.IDService().IdentifyWait(pc))
				}
				simrt.WaitIdle()
				ls := listens()
				got := 0
				for {
					rc := simrt.RecvCase(psub.Out())
					if simrt.Select("c17.drain", true, rc) != 0 {
						break
					}
					if v, ok := rc.Val2(); ok {
						if evt := v.(event.EvtPeerIdentificationCompleted); evt.Peer == h.ID {
							got++
							judge(at, "identify-sent", evt.ListenAddrs, ls)
						}
					}
				}
				if got > 0 {
					o.Probe("sys-identify-sent-checked")
				}
				h.Swarm.ClosePeer(probe.ID)
			}
			// Unsettled variant: after half of the operations the harness does NOT wait for identify, for the Manager or for
			// the host's recompute — the next operation follows at once or after a short drawn sleep (so that it lands
			// anywhere in the 5 s recompute period), meets identify exchanges in flight (close during identify: the report
			// arrives on a closed connection), withdrawals not yet reflected by the host, and is itself not observed by the
			// harness. The oracle is judged at the settled instants only. At most 5 unsettled operations in a row (<= 10
			// identify exchanges): the documented worker queue holds 16 observations, and a dropped observation would make
			// "missing" fire for a documented behaviour.
			if unsettled && streak < 5 {
				if m := g.Weighted(4, 3, 3); m != 0 {
					streak++
					o.Probe("sys-operation-not-settled")
					if m == 2 {
						d := []time.Duration{time.Millisecond, 100 * time.Millisecond, 2 * time.Second, 4900 * time.Millisecond, 5 * time.Second, 6 * time.Second}[g.Int(6)]
						o.Logf("   (no settle; %v pass)", d)
						simrt.TimeSleep(d)
					} else {
						o.Logf("   (no settle)")
					}
					return
				}
			}
			streak = 0
			settle()
			check(at)
		}
		if !cold {
			settle()
			check("start")
		} else {
			o.Probe("sys-cold-start")
		}
		for i := 0; i < nOps && o.Trouble == "" && len(o.Violations) == 0; i++ {
			step(i)
		}
		// ---- epilogue: every observer goes away; after the bound nothing public may remain ----------
		if o.Trouble == "" {
			o.Logf("epilogue: every observer and LAN node shuts down")
			closeAll()
			settle()
			check("end")
		}
		lateRecs = sortedRecs()
		closeAll()
		psub.Close()
		probe.Close()
		closeH()
		simrt.TimeSleep(10 * time.Second)
		finished = true
	})
	o.Sched = res
	o.Virtual = res.Virtual
	if res.Panic != "" {
		o.Violate("C17/panic", "%s", firstLines(res.Panic, 14))
		return o
	}
	if o.Trouble != "" {
		return o
	}
	if res.StepLimit {
		o.Trouble = "step limit (system stratum)"
		return o
	}
	if res.Stuck || !finished {
		o.Trouble = fmt.Sprintf("system stratum did not finish: stuck=%v deadlock=%s", res.Stuck, firstLines(res.Deadlock, 4))
		return o
	}
	if len(res.Residue) > 0 {
		o.Probe("sys-residue")
	}
	if sawActive {
		o.Probe("sys-public-address-advertised")
	}
	for _, r := range lateRecs {
		if r.identified && !r.everOpen {
			o.Probe("sys-identify-completed-on-conn-closed-before-settle")
		}
	}
	o.Nontrivial = sawActive
	_ = sawWithdrawn
	o.Sig = fmt.Sprintf("sys%x", sig.Sum64())
	return o
}

// netToTW turns "10.0.0.1:4001" / "[fd00::1]:4001" into "/ip4/10.0.0.1/tcp/4001".
func netToTW(fam, proto, hostport string) (string, error) {
	i := strings.LastIndexByte(hostport, ':')
	if i < 0 {
		return "", fmt.Errorf("bad host:port %q", hostport)
	}
	ip := strings.Trim(hostport[:i], "[]")
	a, err := ma.NewMultiaddr(fmt.Sprintf("/%s/%s/%s/%s", fam, ip, proto, hostport[i+1:]))
	if err != nil {
		return "", err
	}
	return a.String(), nil
}

func describe(recs []*crec, openOnly bool) string {
	var b strings.Builder
	for _, r := range recs {
		if openOnly && !r.open {
			continue
		}
		st := "open"
		if !r.open {
			st = "closed"
		}
		id := "identified"
		if !r.identified {
			id = "no-identify"
		}
		fmt.Fprintf(&b, "[%s %s %s local=%s seen-as=%s group=%s %s %s] ", r.id, r.peer, r.dir, r.ltw, r.xtw, r.group, st, id)
	}
	return b.String()
}
