// C17 — observed addresses are advertised only with enough independent observers.
//
// The real observedaddrs.Manager (NewManager/Start/Close, its event handler and worker, the NAT-type
// ticker on the bubble clock) on the real event bus, over a stub network.Network (listen addresses,
// notifiee registry) and stub network.Conn values (LocalMultiaddr/RemoteMultiaddr/IsClosed). Both
// packages are instrumented (props.py: instrument=[observedaddrs, eventbus]): the Manager's goroutines
// are tasks of the simulator and every lock, channel operation and select in them is a scheduling
// point decided by the schedule stream; in the burst and race strata every stub callback yields too.
//
// Strata (drawn first; one draw whose low three bits keep the former paced:burst:race = 3:2:3 choice, see run()):
//   - paced: one harness task; after every event simrt.WaitIdle(), then the exact comparison.
//   - burst: one harness task issues 2-45 events without waiting (a third of the bursts with the worker
//     held inside a stub callback so that the observation queue overflows); subset relation only,
//     sampled in the middle of the burst, with the queue held, and at quiescence after it.
//   - race: identify-completed for connection c and the close of c (mark closed + Disconnected) are
//     issued back to back from two tasks, 1-3 such pairs at once, optionally a third task reading
//     Addrs/AddrsFor meanwhile; on purpose the pair's (local, observed) address first gets
//     threshold-1 live observer groups. The schedule decides e.g. whether the closer runs between
//     the worker's checks and its locked write. Subset relation at quiescence (and for the reader).
//   - system (a quarter of the runs; system_test.go): no stubs — a real NATed host with real identify, real
//     observers on real (simulated-wire) QUIC/WebTransport/TCP connections, and the oracle on what the HOST
//     advertises (p2p/host/basic/addrs_manager.go) and sends in identify. See the header of system_test.go.
//
// The first three strata feed the Manager synthetic events over stub connections (all observation classes,
// several observed addresses per listen address, cap and ordering); the system stratum has the real producers
// and the real consumer but only the observations a NAT with one public IP produces.
//
// In every stratum the epilogue closes every connection and nothing may remain reported.
//
// Reference model (written from the property statement, see model.count): for a local listen
// address L and an external thin-waist address X,
//
//	count(L,X) = number of distinct observer groups (one per IPv4 address, one per IPv6 /56) among
//	             the currently open connections whose local address has the thin waist of L and
//	             whose current countable report is X.
//
// Readings taken where the statement is silent or loose. Each follows the package's own documentation
// (comments on thinWaist, observerSetCacheSize, appendInferredAddrs, hasConsistentTransport, Addrs, and the
// WebTransport cases of TestObservedAddrsManager); where two readings differ in what they demand, the one
// that demands less of the Manager was taken:
//   - "for that local listen address" is read per thin waist (IP, tcp|udp, port): listen addresses
//     sharing a waist (QUIC + WebTransport, TCP + WS) pool their observers, and the reported
//     address is the observed waist followed by the listen address's own suffix.
//   - "transport inconsistent with the local address" is read at the thin waist (ip4|ip6 and
//     tcp|udp differ); an observed /quic-v1 on a /webtransport connection of the same waist counts.
//   - "arriving at a listen address" is read as "the connection's local thin waist is the thin
//     waist of a listen address" whatever the direction (the Manager cannot see the direction; a
//     QUIC or reuseport dial leaves from the listen socket).
//   - a report that never counts (loopback, NAT64, relayed, inconsistent, nil) is ignored
//     entirely: it does not withdraw the connection's previous countable report. The strict
//     reading ("withdrawn when it changes", whatever it changes to) would be stronger than what
//     manager.go does; reported to the orchestrating agent as an ambiguity, not asserted.
//   - ties in "most-observed first" and at the cap of three may be broken either way.
//
// Oracles (violation classes):
//
//	C17/reported-not-allowed/<why>   AddrsFor(L) / Addrs(min) contains an address whose count is below the
//	                                 threshold (for AddrsFor also: L is the local address of a connection that
//	                                 did not arrive at a listen address, or "/p2p-circuit"). <why> is a diagnosis
//	                                 by counterfactual recount, not part of the judgement:
//	                                 same-group-counted-twice | closed-connection-counted | replaced-report-counted |
//	                                 uncountable-report-counted/<class> | below-threshold | unknown-address.
//	                                 Asserted at every compared instant of both strata; in the burst stratum
//	                                 (after each burst, with the queue held, and at sampled instants in the middle
//	                                 of a burst) against the upper-bound model in which a still-open connection may
//	                                 be credited with any countable report it ever made, because the full worker
//	                                 queue may have dropped the replacement.
//	C17/missing                      paced stratum, quiescent: fewer than min(3, |allowed|) reported by AddrsFor(L),
//	                                 or Addrs(min) lacks an address that is in every admissible top three.
//	C17/not-most-observed            paced: an allowed address with strictly more observers than a reported one is absent.
//	C17/order                        paced: AddrsFor(L) is not non-increasing in observer count (ties free).
//	C17/cap                          more than three per local address (always).
//	C17/leak-after-all-closed        anything still reported after every connection closed (both strata).
//	C17/panic, C17/stuck, C17/residue
//
// Addrs(min) is judged as a set (the same address may legitimately come from two listen addresses that differ
// only in their waist): every element must be allowed for at least one listen address, the number of distinct
// allowed elements cannot exceed the sum over listen addresses of min(3, allowed), elements attributable to a
// single listen address are at most three, and min <= 0 means ActivationThresh (doc comment of Addrs).
//
// Sensitivity (2026-09-25): manager.go replaced through -overlay, one mutation at a time, one worker, seed 1,
// budget 30 s. Every mutation was caught, all within 2 s / 17 runs. First violation class of the first failing run:
//
//	M1  observer keyed by IP:port (getObserver returns the whole remote address)  C17/order (miscount), then reported-not-allowed/same-group-counted-twice
//	M2  no withdrawal on close (removeConn returns early)                         C17/reported-not-allowed/closed-connection-counted, C17/leak-after-all-closed
//	M3  threshold ">=" -> ">"                                                    C17/missing
//	M4  threshold lowered by one                                                  C17/reported-not-allowed/below-threshold
//	M5  previous observation not removed when it changes                          C17/reported-not-allowed/replaced-report-counted, C17/leak-after-all-closed
//	M6  /56 grouping -> /128                                                      C17/reported-not-allowed/same-group-counted-twice
//	M7  loopback filter removed                                                   C17/reported-not-allowed/uncountable-report-counted/loopback
//	M8  cap of three removed                                                      C17/cap
//	M9  ordering reversed                                                         C17/missing (Addrs), C17/order, C17/not-most-observed
//	M10 hasConsistentTransport always true                                        C17/reported-not-allowed/uncountable-report-counted/inconsistent-ipversion | -transport
//	M11 listen-address check removed                                              C17/reported-not-allowed/uncountable-report-counted/not-at-listen-address (AddrsFor of the foreign local address)
//	M12 IsClosed check removed (late identify on a closed connection)             C17/reported-not-allowed/closed-connection-counted, C17/leak-after-all-closed
//	M13 NAT64 filter removed                                                      C17/reported-not-allowed/uncountable-report-counted/nat64
//	M14 relay filter removed                                                      C17/reported-not-allowed/uncountable-report-counted/relayed
//	M16 observer multiplicity ignored on withdrawal (ObservedBy[o] = 0)           C17/missing
//	M17 AddrsFor uses threshold 1                                                 C17/reported-not-allowed/below-threshold
//	M18 replacement removes from the wrong local waist                            C17/reported-not-allowed/replaced-report-counted
//
//	M19 IsClosed guard moved out of the lock, to the top of shouldRecordObservation   C17/reported-not-allowed/closed-connection-counted, C17/leak-after-all-closed
//	    (seeded change; needs check -> close + Disconnected -> locked write)           race stratum, also burst stratum once instrumented; missed by the
//	                                                                                   former operation-level build whose goroutines ran free
//
// System stratum alone (C17_ONLY=system, VERIF_REPO worktree, 8 workers, 40 s; 2026-09-26):
//
//	addrs_manager.go: observed addresses appended without the threshold (Addrs(1) appended)   caught  C17/system/host-not-allowed/below-threshold (manager-* clean)
//	addrs_manager.go: stale local address list kept when it shrinks                           caught  C17/system/host-not-allowed/closed-connection-counted (manager-* clean)
//	manager.go: threshold lowered by one / ">" instead of ">="                                caught  C17/system/{manager,host}-not-allowed/below-threshold / -missing
//	manager.go: observers grouped by /64 (seeded C17-2)                                       caught  C17/system/*-not-allowed/same-group-counted-twice (IPv6 runs)
//	manager.go: connections re-keyed by remote address (seeded C17b-1)                        caught  C17/system/*-missing (two connections to one peer, one closes)
//	manager.go: removal on close skipped                                                      caught  C17/system/*-not-allowed/closed-connection-counted
//	manager.go: IsClosed guard removed altogether (M12)                                       caught by the UNSETTLED system variant only (close during identify)
//	manager.go: IsClosed guard moved out of the lock (M19)                                    MISSED by the system stratum alone (needs the drawn identify-vs-close
//	                                                                                          race at threshold-1; caught by the race and burst strata)
//
// Missed: none overall. Not tried because equivalent: dropping the "same observation again" early return (remove + add nets to zero).
// M1-M18 were re-run through the instrumented path (VERIF_REPO worktree, 4 workers, 12 s): all caught. In the
// burst and race strata the <why> label is less specific (several counterfactuals can explain one address).
package c17

import (
	"fmt"
	"hash/fnv"
	"os"
	"sort"
	"strings"
	"sync/atomic"
	"testing"
	"time"

	"github.com/libp2p/go-libp2p/core/event"
	"github.com/libp2p/go-libp2p/core/network"
	"github.com/libp2p/go-libp2p/core/peer"
	"github.com/libp2p/go-libp2p/p2p/host/eventbus"
	"github.com/libp2p/go-libp2p/p2p/host/observedaddrs"
	ma "github.com/multiformats/go-multiaddr"

	"verifsim/harness/common"
	"verifsim/simrt"
	"verifsim/simsync"
)

func TestSim(t *testing.T) { common.Main(t, common.Harness{Property: "C17", Run: run}) }

// ---------------------------------------------------------------------------------------------
// address universe
// ---------------------------------------------------------------------------------------------

const certhash = "/certhash/uEgNmb28"
const relaySuffix = "/p2p/QmYyQSo1c1Ym7orWxLYvCrM2EmxFTANf8wXmmE7DWjhx5N/p2p-circuit"

// transport kinds of a connection / listen address
const (
	kTCP = iota
	kWS
	kQUIC
	kWT
)

var kindName = []string{"tcp", "ws", "quic", "wt"}
var kindUpper = []string{"", "/ws", "/quic-v1", "/quic-v1/webtransport"}

// tw is a thin waist: IP, tcp|udp, port.
type tw struct {
	v6   bool
	ip   string
	udp  bool
	port int
}

var canonCache = map[string]string{}

// canon is the canonical text of a multiaddr (what Multiaddr.String() prints).
func canon(s string) string {
	if c, ok := canonCache[s]; ok {
		return c
	}
	c := ma.StringCast(s).String()
	canonCache[s] = c
	return c
}

func (t tw) String() string {
	ipp, tp := "ip4", "tcp"
	if t.v6 {
		ipp = "ip6"
	}
	if t.udp {
		tp = "udp"
	}
	return canon(fmt.Sprintf("/%s/%s/%s/%d", ipp, t.ip, tp, t.port))
}

type listenEntry struct {
	kind    int
	w       tw
	ifaceIP string // non-empty: w.ip is unspecified and resolves to this interface address
}

func (e listenEntry) rest() string {
	if e.kind == kWT {
		return kindUpper[kWT] + certhash
	}
	return kindUpper[e.kind]
}

// entry 0 is always present; the others are drawn.
var listenMenu = []listenEntry{
	{kind: kTCP, w: tw{false, "192.168.1.5", false, 4001}},
	{kind: kQUIC, w: tw{false, "192.168.1.5", true, 4001}},
	{kind: kWT, w: tw{false, "192.168.1.5", true, 4001}},             // shares the waist of the QUIC listener
	{kind: kQUIC, w: tw{false, "0.0.0.0", true, 4002}, ifaceIP: "192.168.1.5"},
	{kind: kWS, w: tw{false, "192.168.1.5", false, 4001}},            // shares the waist of the TCP listener
	{kind: kTCP, w: tw{true, "2001:db8:1::5", false, 4001}},
	{kind: kQUIC, w: tw{true, "::", true, 4001}, ifaceIP: "2001:db8:1::5"},
	{kind: kWT, w: tw{true, "::", true, 4001}, ifaceIP: "2001:db8:1::5"},
}

var extIPs = map[bool][]string{false: {"5.6.7.8", "5.6.7.9", "9.9.9.9"}, true: {"2001:db8:ee::1", "2001:db8:ee::2", "2001:db8:ef::1"}}
var extPorts = []int{4001, 31000, 31001, 31002}

// observation classes
const (
	oConsistent    = iota // public, same thin-waist protocols as the local address, same upper transport
	oOtherUpper           // public, same thin-waist protocols, the sibling transport of the waist (quic<->webtransport, tcp<->ws)
	oLoopback             // never counts
	oNAT64                // never counts
	oRelayed              // never counts
	oInconsistentT        // tcp<->udp swapped: never counts
	oInconsistentI        // ip4<->ip6 swapped: never counts
	oNil                  // no observed address in the identify response
	nObsClasses
)

var obsClassName = []string{"consistent", "other-upper", "loopback", "nat64", "relayed", "inconsistent-transport", "inconsistent-ipversion", "nil"}

// ---------------------------------------------------------------------------------------------
// stubs
// ---------------------------------------------------------------------------------------------

type stubConn struct {
	network.Conn // nil: any method the Manager is not supposed to need panics
	id           int
	local        ma.Multiaddr
	remote       ma.Multiaddr
	closed       atomic.Bool
	isClosedN    atomic.Int64
	gate         chan struct{} // plug connection: LocalMultiaddr blocks the caller (the worker) until the gate opens
}

// stubYield makes every callback of the stubs a scheduling point (burst and race strata): with the
// instrumented build the Manager's goroutines are tasks of the simulator, so another task (a closer)
// can be scheduled between any two steps of the worker that is recording an observation.
// Runs are sequential within a process, so a package variable set by run() is enough.
var stubYield bool

func yield(site string) {
	if stubYield {
		simrt.Yield(site)
	}
}

func (c *stubConn) LocalMultiaddr() ma.Multiaddr {
	if c.gate != nil {
		simrt.Recv("stub.gate", (<-chan struct{})(c.gate))
	}
	yield("stub.LocalMultiaddr")
	return c.local
}
func (c *stubConn) RemoteMultiaddr() ma.Multiaddr { yield("stub.RemoteMultiaddr"); return c.remote }
func (c *stubConn) IsClosed() bool {
	c.isClosedN.Add(1)
	yield("stub.IsClosed")
	v := c.closed.Load()
	yield("stub.IsClosed+")
	return v
}
func (c *stubConn) ID() string                    { return fmt.Sprintf("c%d", c.id) }
func (c *stubConn) String() string                { return fmt.Sprintf("c%d", c.id) }

type stubNet struct {
	network.Network
	listen    []ma.Multiaddr
	iface     []ma.Multiaddr
	notifiees []network.Notifiee
}

// fresh slices on every call, like the swarm: the Manager appends to and overwrites the result
func (n *stubNet) ListenAddresses() []ma.Multiaddr {
	yield("stub.ListenAddresses")
	return append([]ma.Multiaddr(nil), n.listen...)
}
func (n *stubNet) InterfaceListenAddresses() ([]ma.Multiaddr, error) {
	yield("stub.InterfaceListenAddresses")
	return append([]ma.Multiaddr(nil), n.iface...), nil
}
func (n *stubNet) Notify(f network.Notifiee) { n.notifiees = append(n.notifiees, f) }
func (n *stubNet) StopNotify(f network.Notifiee) {
	for i, x := range n.notifiees {
		if x == f {
			n.notifiees = append(n.notifiees[:i], n.notifiees[i+1:]...)
			return
		}
	}
}

// ---------------------------------------------------------------------------------------------
// reference model
// ---------------------------------------------------------------------------------------------

type mconn struct {
	id       int
	stub     *stubConn
	kind     int
	lw       tw     // local thin waist
	lwKey    string // canonical text of lw
	eligible bool   // local thin waist is the thin waist of a listen address
	group    string // observer group: the IPv4 address, or the IPv6 /56
	open     bool
	vote     string            // thin waist of the current countable report ("" = none)
	ever     map[string]bool   // every countable report made while open
	invalid  map[string]string // thin waist of every report that never counts -> class name
	desc     string
}

type localAddr struct {
	text  string // canonical text of the listen address
	addr  ma.Multiaddr
	twKey string
	rest  string
}

type model struct {
	conns  []*mconn
	locals []localAddr     // unique listen addresses (as listened and as resolved to interfaces)
	others []localAddr     // local addresses of connections that did not arrive at a listen address (and "/p2p-circuit"): nothing may ever be reported for them
	lwSet  map[string]bool // thin waists of the listen addresses
	thresh int
}

// what counts, as a set of switches: the zero value is the statement, each switch relaxes one clause
type counting struct {
	ever        bool // every countable report a connection made while open, not only the current one
	perConn     bool // connections instead of observer groups
	withClosed  bool // closed connections keep vouching
	withInvalid bool // reports that never count do count (uncountable classes, connections not at a listen address)
}

// count returns, for one local thin waist, observed thin waist -> number of vouching groups.
func (m *model) count(how counting, lwKey string) map[string]int {
	sets := map[string]map[string]bool{}
	for _, c := range m.conns {
		if c.lwKey != lwKey || (!c.open && !how.withClosed) || (!c.eligible && !how.withInvalid) {
			continue
		}
		who := c.group
		if how.perConn {
			who = fmt.Sprint(c.id)
		}
		add := func(x string) {
			if sets[x] == nil {
				sets[x] = map[string]bool{}
			}
			sets[x][who] = true
		}
		if how.ever {
			for x := range c.ever {
				add(x)
			}
		} else if c.vote != "" {
			add(c.vote)
		}
		if how.withInvalid {
			for x := range c.invalid {
				add(x)
			}
		}
	}
	out := make(map[string]int, len(sets))
	for x, s := range sets {
		out[x] = len(s)
	}
	return out
}

// why diagnoses a reported address that the model does not allow, by counterfactual recount (label only).
func (m *model) why(base counting, l localAddr, x string, thr int) string {
	h := base
	h.perConn = true
	if m.count(h, l.twKey)[x] >= thr {
		return "same-group-counted-twice"
	}
	h = base
	h.withClosed = true
	if m.count(h, l.twKey)[x] >= thr {
		return "closed-connection-counted"
	}
	if !base.ever {
		h = base
		h.ever = true
		if m.count(h, l.twKey)[x] >= thr {
			return "replaced-report-counted"
		}
	}
	h = base
	h.withInvalid = true
	if m.count(h, l.twKey)[x] >= thr {
		var names []string
		for _, c := range m.conns {
			if c.lwKey == l.twKey && c.open {
				if n, ok := c.invalid[x]; ok {
					names = append(names, n)
				}
			}
		}
		if len(names) == 0 {
			return "uncountable-report-counted"
		}
		sort.Strings(names)
		return "uncountable-report-counted/" + names[0]
	}
	return "below-threshold"
}

// ---------------------------------------------------------------------------------------------
// one run
// ---------------------------------------------------------------------------------------------

func run(t *testing.T, tape *simrt.Tape) *common.Outcome {
	g := simrt.Gen{S: tape.G}
	o := &common.Outcome{}

	// Stratum first. One draw: its low three bits choose paced | burst | race with weights 3:2:3 exactly as before the
	// system stratum existed (Weighted(3,2,3) is "value mod 8"), bits 3-4 == 11 (a quarter of the tapes) select the system
	// stratum instead; every other tape — and every minimised tape, whose values are small — keeps its meaning.
	r := g.Int(1 << 30)
	stratum := 0 // 0 paced, 1 burst, 2 race, 3 system
	switch v := r % 8; {
	case v >= 5:
		stratum = 2
	case v >= 3:
		stratum = 1
	}
	if (r>>3)%4 == 3 {
		stratum = 3
	}
	if only := os.Getenv("C17_ONLY"); only != "" { // sensitivity runs of a single stratum (never set by ./check)
		for i, name := range []string{"paced", "burst", "race", "system"} {
			if name == only {
				stratum = i
			}
		}
	}
	if stratum == 3 {
		// bit 5 of the same draw: settled (as before: IdentifyWait + 11 s + check after EVERY operation, warm start) |
		// unsettled (drawn: no settle after about half of the operations, cold start in half of the runs)
		return runSystem(t, tape, g, o, (r>>5)%2 == 1 || os.Getenv("C17_UNSETTLED") != "")
	}
	burst, race := stratum == 1, stratum == 2
	stubYield = stratum != 0
	defer func() { stubYield = false }()
	thresh := []int{4, 2, 3, 1}[g.Weighted(3, 3, 1, 1)]
	var entries []listenEntry
	for i, e := range listenMenu {
		if i == 0 || g.Chance(1, 2) {
			entries = append(entries, e)
		}
	}
	circuit := g.Chance(1, 2)
	nOps := g.Range(1, 70)

	m := &model{lwSet: map[string]bool{}, thresh: thresh}
	sn := &stubNet{}
	addLocal := func(w tw, rest string, iface bool) {
		text := canon(w.String() + rest)
		a := ma.StringCast(text)
		if iface {
			sn.iface = append(sn.iface, a)
		} else {
			sn.listen = append(sn.listen, a)
		}
		m.lwSet[w.String()] = true
		for _, l := range m.locals {
			if l.text == text {
				return
			}
		}
		m.locals = append(m.locals, localAddr{text: text, addr: a, twKey: w.String(), rest: rest})
	}
	for _, e := range entries {
		addLocal(e.w, e.rest(), false)
	}
	for _, e := range entries { // InterfaceListenAddresses: specific ones as they are, unspecified ones resolved
		w := e.w
		if e.ifaceIP != "" {
			w.ip = e.ifaceIP
		}
		addLocal(w, e.rest(), true)
	}
	if circuit {
		// the relay listener reports "/p2p-circuit": a listen address without a thin waist, for which nothing can be observed
		c := ma.StringCast("/p2p-circuit")
		sn.listen = append(sn.listen, c)
		sn.iface = append(sn.iface, c)
		m.others = append(m.others, localAddr{text: "/p2p-circuit", addr: c})
	}
	o.Logf("stratum=%s thresh=%d ops=%d", []string{"paced", "burst", "race"}[stratum], thresh, nOps)
	for _, a := range sn.listen {
		o.Logf(" listen %s", a)
	}
	for _, a := range sn.iface {
		o.Logf(" iface  %s", a)
	}

	prevThresh := observedaddrs.ActivationThresh
	observedaddrs.ActivationThresh = thresh
	defer func() { observedaddrs.ActivationThresh = prevThresh }()

	sig := fnv.New64a()
	finished := false
	var (
		sawActive, sawCapCand, sawCapCandMin1, sawTie, sawDeact, sawDupGroup, sawSharedWaist bool
		withdrawals, expectedRecords, checks                                                int
		prevAllowed                                                                          = map[string]bool{}
	)

	res := simrt.Run(t, simrt.Config{MaxSteps: 200000, IdleLimit: time.Hour}, tape.S, func() {
		bus := eventbus.NewBus()
		mgr, err := observedaddrs.NewManager(bus, sn)
		if err != nil {
			o.Trouble = "NewManager: " + err.Error()
			return
		}
		mgr.Start(sn)
		if len(sn.notifiees) != 1 {
			o.Trouble = "Manager did not register a notifiee"
			mgr.Close()
			return
		}
		em, err := bus.Emitter(new(event.EvtPeerIdentificationCompleted))
		if err != nil {
			o.Trouble = "emitter: " + err.Error()
			mgr.Close()
			return
		}

		// ---- oracle -------------------------------------------------------------------------
		// checkList checks one AddrsFor(L) answer against counts cnt.
		checkList := func(where string, l localAddr, got []ma.Multiaddr, cnt map[string]int, thr int, exact bool) {
			seen := map[string]bool{}
			prev := 1 << 30
			minC := 1 << 30
			for _, a := range got {
				r := a.String()
				if seen[r] {
					continue // the statement says nothing about repetitions: the cap below still counts them
				}
				seen[r] = true
				x, ok := strings.CutSuffix(r, l.rest)
				c := cnt[x]
				if !ok || c < thr {
					why := "unknown-address"
					if ok {
						why = m.why(counting{ever: !exact}, l, x, thr)
					}
					o.Violate("C17/reported-not-allowed/"+why, "%s reports %s: %d observer group(s), threshold %d", where, r, c, thr)
					continue
				}
				if exact && c > prev {
					o.Violate("C17/order", "%s: %s (%d observers) listed after an address with %d: %v", where, r, c, prev, got)
				}
				prev = c
				if c < minC {
					minC = c
				}
			}
			if len(got) > 3 {
				o.Violate("C17/cap", "%s reports %d addresses: %v", where, len(got), got)
			}
			if !exact {
				return
			}
			allowed := 0
			for _, c := range cnt {
				if c >= thr {
					allowed++
				}
			}
			if len(seen) < min(3, allowed) {
				o.Violate("C17/missing", "%s reports %v but %d addresses have >= %d observer groups: %v", where, got, allowed, thr, fmtCounts(cnt, thr))
				return
			}
			for x, c := range cnt {
				if c >= thr && !seen[x+l.rest] && c > minC {
					o.Violate("C17/not-most-observed", "%s reports %v but not %s with %d observers: %v", where, got, x+l.rest, c, fmtCounts(cnt, thr))
				}
			}
		}
		// checkAddrs checks one Addrs(min) answer (all listen addresses together, attribution ambiguous:
		// set semantics, see the comment on top).
		checkAddrs := func(where string, got []ma.Multiaddr, mode counting, thr int, exact bool) {
			distinct := map[string]bool{}
			for _, a := range got {
				distinct[a.String()] = true
			}
			capSum, covered := 0, 0
			exclusive := map[string]int{}
			cover := map[string][]int{}
			must := map[string]bool{}
			for li, l := range m.locals {
				cnt := m.count(mode, l.twKey)
				allowed := 0
				for x, c := range cnt {
					if c < thr {
						continue
					}
					allowed++
					cover[x+l.rest] = append(cover[x+l.rest], li)
					ge := 0
					for y, d := range cnt {
						if y != x && d >= thr && d >= c {
							ge++
						}
					}
					if ge < 3 {
						must[x+l.rest] = true
					}
				}
				capSum += min(3, allowed)
			}
			for _, r := range sortedKeys(distinct) {
				cv := cover[r]
				if len(cv) == 0 {
					why := "unknown-address"
					for _, l := range m.locals {
						if x, ok := strings.CutSuffix(r, l.rest); ok && strings.Count(x, "/") == 4 {
							why = m.why(mode, l, x, thr)
							if why != "below-threshold" {
								break
							}
						}
					}
					o.Violate("C17/reported-not-allowed/"+why, "%s reports %s which no listen address has with >= %d observer groups", where, r, thr)
					continue
				}
				covered++
				if len(cv) == 1 {
					exclusive[m.locals[cv[0]].text]++
				}
			}
			if covered > capSum { // addresses that are not allowed at all were already reported above
				o.Violate("C17/cap", "%s reports %d distinct allowed addresses, at most %d possible with 3 per listen address: %v", where, covered, capSum, got)
			}
			for _, l := range sortedKeysInt(exclusive) {
				if exclusive[l] > 3 {
					o.Violate("C17/cap", "%s reports %d addresses attributable only to %s: %v", where, exclusive[l], l, got)
				}
			}
			if exact {
				for _, r := range sortedKeys(must) {
					if !distinct[r] {
						o.Violate("C17/missing", "%s lacks %s which is among the three most observed of its listen address (threshold %d): got %v", where, r, thr, got)
					}
				}
			}
		}
		compare := func(at string, exact bool) {
			checks++
			// exact: the statement. Otherwise the upper bound: a still-open connection may be credited with any
			// countable report it ever made, because a replacement may have been dropped by the full queue.
			mode := counting{ever: !exact}
			nowAllowed := map[string]bool{}
			for _, l := range m.locals {
				// the Manager is asked first, the model is read afterwards: while other tasks run (samples in the
				// middle of a race) reports are added to the model before they are emitted and a connection stops
				// counting in the model only after Disconnected has returned, so the later model view is the superset
				got := mgr.AddrsFor(l.addr)
				cnt := m.count(mode, l.twKey)
				checkList(fmt.Sprintf("%s AddrsFor(%s)", at, l.text), l, got, cnt, thresh, exact)
				if exact {
					fmt.Fprintf(sig, "F%s=%v;", l.text, got)
				}
				// probes
				allowed, atMin := 0, map[int]int{}
				for x, c := range cnt {
					if c >= thresh {
						allowed++
						atMin[c]++
						nowAllowed[l.twKey+"|"+x] = true
					}
				}
				if allowed > 0 {
					sawActive = true
				}
				if allowed > 3 {
					sawCapCand = true
					var cs []int
					for _, c := range cnt {
						if c >= thresh {
							cs = append(cs, c)
						}
					}
					sort.Sort(sort.Reverse(sort.IntSlice(cs)))
					if cs[2] == cs[3] {
						sawTie = true
					}
				}
				if len(cnt) > 3 {
					sawCapCandMin1 = true
				}
			}
			for _, l := range m.others {
				// not a listen address: no report on such a connection counts, so nothing can be activated for it
				got := mgr.AddrsFor(l.addr)
				checkList(fmt.Sprintf("%s AddrsFor(%s)", at, l.text), l, got, m.count(mode, l.twKey), thresh, exact)
			}
			for k := range prevAllowed {
				if !nowAllowed[k] {
					sawDeact = true
				}
			}
			prevAllowed = nowAllowed
			for _, mn := range []int{0, 1, 2, thresh + 1} {
				thr := mn
				if thr <= 0 {
					thr = thresh // documented: minObservers <= 0 means ActivationThresh
				}
				got := mgr.Addrs(mn)
				checkAddrs(fmt.Sprintf("%s Addrs(%d)", at, mn), got, mode, thr, exact)
				if exact {
					ss := make([]string, len(got))
					for i, a := range got {
						ss[i] = a.String()
					}
					sort.Strings(ss)
					fmt.Fprintf(sig, "A%d=%v;", mn, ss)
				}
			}
			if !exact {
				// distinctness of burst runs: the model's view only (what the Manager kept depends on drops)
				for _, l := range m.locals {
					fmt.Fprintf(sig, "U%s=%s;", l.text, fmtCounts(m.count(mode, l.twKey), 1))
				}
			}
		}

		// ---- operations ---------------------------------------------------------------------
		pickEntry := func() listenEntry {
			if g.Chance(1, 2) {
				return entries[g.Int(len(entries))]
			}
			return entries[0]
		}
		nGroups := func(v6 bool) int { return map[bool]int{false: 6, true: 4}[v6] }
		groupName := func(v6 bool, gi int) string {
			if !v6 {
				return fmt.Sprintf("4/1.2.3.%d", 1+gi%6)
			}
			return fmt.Sprintf("6/2001:db8:a:%x00::/56", gi%4)
		}
		remoteFor := func(v6 bool, gi int) (ip, group string) {
			if !v6 {
				return fmt.Sprintf("1.2.3.%d", 1+gi%6), groupName(v6, gi)
			}
			p := gi % 4 // /56 = 2001:db8:a:0p00::/56 ; subnet byte and host vary inside it
			ip = fmt.Sprintf("2001:db8:a:%x%02x::%x", p, 1+g.Int(2), 1+g.Int(2))
			return ip, groupName(v6, gi)
		}
		openConn := func(e listenEntry, lw tw, gi int, how string) *mconn {
			rip, group := remoteFor(lw.v6, gi)
			rw := tw{lw.v6, rip, lw.udp, []int{4001, 4002}[g.Int(2)]}
			c := &mconn{id: len(m.conns), kind: e.kind, lw: lw, lwKey: lw.String(), group: group, open: true,
				ever: map[string]bool{}, invalid: map[string]string{}}
			c.eligible = m.lwSet[c.lwKey]
			c.stub = &stubConn{id: c.id, local: ma.StringCast(lw.String() + kindUpper[e.kind]), remote: ma.StringCast(rw.String() + kindUpper[e.kind])}
			c.desc = fmt.Sprintf("c%d[%s %s <- %s grp=%s listen=%v]", c.id, how, c.stub.local, c.stub.remote, group, c.eligible)
			m.conns = append(m.conns, c)
			o.Logf("open %s", c.desc)
			if !c.eligible {
				o.Probe("conn-not-at-listen-address")
				text := c.stub.local.String()
				known := false
				for _, l := range m.others {
					known = known || l.text == text
				}
				if !known {
					m.others = append(m.others, localAddr{text: text, addr: c.stub.local, twKey: c.lwKey, rest: kindUpper[e.kind]})
				}
			}
			return c
		}
		drawLocal := func(e listenEntry) (tw, string) {
			lw := e.w
			switch g.Weighted(6, 1, 1, 2) {
			case 0:
				if e.ifaceIP != "" && g.Bool() {
					lw.ip = e.ifaceIP
				}
				return lw, "inbound"
			case 1:
				lw.port = 5555
				return lw, "inbound-other-port"
			case 2:
				lw.ip = map[bool]string{false: "10.9.9.9", true: "fd00::9"}[lw.v6]
				return lw, "inbound-other-ip"
			default:
				if !lw.udp && g.Bool() {
					lw.port = 50000 + g.Int(3) // ephemeral source port of a TCP dial
					return lw, "outbound-ephemeral"
				}
				return lw, "outbound-from-listen-socket"
			}
		}
		observedAt := func(c *mconn, class, ipi, pi int) (ma.Multiaddr, string) {
			v6, udp := c.lw.v6, c.lw.udp
			ip := extIPs[v6][ipi]
			port := extPorts[pi]
			upper := kindUpper[c.kind]
			switch class {
			case oOtherUpper:
				upper = kindUpper[c.kind^1]
			case oLoopback:
				ip = map[bool]string{false: "127.0.0.1", true: "::1"}[v6]
			case oNAT64:
				if !v6 {
					o.Probe("nat64-on-ip4-local") // also ip-version inconsistent
				}
				v6, ip = true, "64:ff9b::506:708"
			case oInconsistentT:
				udp = !udp
				upper = map[bool]string{false: "", true: "/quic-v1"}[udp]
			case oInconsistentI:
				v6 = !v6
				ip = extIPs[v6][0]
			case oNil:
				return nil, ""
			}
			x := tw{v6, ip, udp, port}
			s := x.String() + upper
			if class == oRelayed {
				s += relaySuffix
			}
			return ma.StringCast(s), x.String()
		}
		drawObserved := func(c *mconn, class int) (ma.Multiaddr, string) {
			ipi := g.Weighted(6, 2, 1)
			return observedAt(c, class, ipi, g.Weighted(6, 2, 1, 1))
		}
		lastEventConn := -1
		// report: identify completes on c with an observed address drawn beforehand (no draw happens in here, so
		// it can run in a task of its own)
		report := func(c *mconn, class int, obs ma.Multiaddr, x string) {
			o.Logf("identify c%d observed=%v (%s)%s", c.id, obs, obsClassName[class], map[bool]string{true: "", false: " [connection already closed]"}[c.open])
			countable := class == oConsistent || class == oOtherUpper
			if countable && c.eligible {
				expectedRecords++
			}
			if !c.open {
				o.Probe("late-identify-on-closed-conn")
				if countable && c.eligible {
					// closed connections are skipped by every count except the "closed-connection-counted"
					// counterfactual of why(): this only feeds the label
					c.vote = x
					c.ever[x] = true
				}
			} else if countable && c.eligible {
				if c.vote != "" && c.vote != x {
					withdrawals++
					o.Probe("report-replaced")
				}
				if c.vote == x {
					o.Probe("report-repeated")
				}
				c.vote = x
				c.ever[x] = true
				if class == oOtherUpper {
					o.Probe("sibling-transport-report")
				}
			} else if countable {
				c.invalid[x] = "not-at-listen-address"
				o.Probe("report-on-conn-not-at-listen-address")
			} else {
				if x != "" {
					c.invalid[x] = obsClassName[class]
				}
				if c.vote != "" {
					o.Probe("uncountable-report-after-countable")
				}
				o.Probe("uncountable-" + obsClassName[class])
			}
			fmt.Fprintf(sig, "I%d:%v;", c.id, obs)
			lastEventConn = c.id
			if err := em.Emit(event.EvtPeerIdentificationCompleted{Peer: peer.ID(fmt.Sprintf("peer-%d", c.id)), Conn: c.stub, ObservedAddr: obs}); err != nil {
				o.Trouble = "emit: " + err.Error()
			}
		}
		identify := func(c *mconn, class int) {
			obs, x := drawObserved(c, class)
			report(c, class, obs, x)
		}
		disconnect := func(c *mconn) {
			o.Logf("close c%d", c.id)
			if c.vote != "" {
				withdrawals++
			}
			if burst && lastEventConn == c.id {
				o.Probe("close-right-after-identify")
			}
			fmt.Fprintf(sig, "D%d;", c.id)
			c.stub.closed.Store(true) // the swarm marks the connection closed, then notifies
			for _, nf := range append([]network.Notifiee(nil), sn.notifiees...) {
				nf.Disconnected(sn, c.stub)
			}
			c.open = false // only now: until Disconnected has returned the Manager may still count it
		}
		openConns := func() []*mconn {
			var l []*mconn
			for _, c := range m.conns {
				if c.open {
					l = append(l, c)
				}
			}
			return l
		}
		closedConns := func() []*mconn {
			var l []*mconn
			for _, c := range m.conns {
				if !c.open {
					l = append(l, c)
				}
			}
			return l
		}
		drawClass := func() int { return g.Weighted(12, 2, 1, 1, 1, 1, 1, 1) }

		inBurst := false
		after := func(at string) { // called after every event
			if o.Trouble != "" {
				return
			}
			if stratum == 0 {
				simrt.WaitIdle()
				compare(at, true)
				return
			}
			if inBurst && g.Chance(1, 6) {
				// sampled instant in the middle of a burst: the subset relation holds at every instant
				compare(at+"(mid-burst)", false)
			}
		}
		step := func(i int) {
			at := fmt.Sprintf("op%d", i)
			open := openConns()
			kind := g.Weighted(4, 8, 2, 3, 1, 1)
			if len(open) == 0 && (kind == 1 || kind == 2) {
				kind = 0
			}
			switch kind {
			case 0: // a connection arrives (or is dialled); identify usually follows
				e := pickEntry()
				lw, how := drawLocal(e)
				c := openConn(e, lw, g.Int(12), how)
				if g.Chance(3, 4) {
					identify(c, drawClass())
					after(at)
				}
			case 1: // identify (again) on an open connection: repeated, changed or uncountable report
				identify(open[g.Int(len(open))], drawClass())
				after(at)
			case 2:
				disconnect(open[g.Int(len(open))])
				after(at)
			case 3: // wave: k peers from consecutive groups connect to one listen address and report one address
				e := pickEntry()
				lw := e.w
				if e.ifaceIP != "" && g.Bool() {
					lw.ip = e.ifaceIP
				}
				k, start := g.Range(2, 5), g.Int(12)
				ipi, pi := g.Weighted(6, 2, 1), g.Weighted(6, 2, 1, 1)
				for j := 0; j < k; j++ {
					c := openConn(e, lw, start+j, "inbound")
					x := tw{lw.v6, extIPs[lw.v6][ipi], lw.udp, extPorts[pi]}
					obs := ma.StringCast(x.String() + kindUpper[e.kind])
					o.Logf("identify c%d observed=%v (consistent)", c.id, obs)
					expectedRecords++
					c.vote = x.String()
					c.ever[c.vote] = true
					fmt.Fprintf(sig, "I%d:%v;", c.id, obs)
					lastEventConn = c.id
					em.Emit(event.EvtPeerIdentificationCompleted{Peer: peer.ID(fmt.Sprintf("peer-%d", c.id)), Conn: c.stub, ObservedAddr: obs})
					after(fmt.Sprintf("%s.%d", at, j))
				}
			case 4: // identify completes on a connection that has already closed
				cl := closedConns()
				if len(cl) == 0 {
					return
				}
				identify(cl[g.Int(len(cl))], drawClass())
				after(at)
			case 5: // a virtual minute passes: the NAT-type ticker fires and walks the same maps
				o.Logf("sleep 61s")
				simrt.TimeSleep(61 * time.Second)
				o.Probe("nat-type-tick")
				after(at)
			}
		}

		// raceEpisode: identify-completed for a connection and the close of that same connection are issued back
		// to back from two tasks (1-3 such pairs on different connections, optionally a third task reading
		// Addrs/AddrsFor meanwhile). With the instrumented build every lock, channel operation and stub callback
		// of the Manager is a scheduling point, so the schedule stream decides e.g. whether the closer runs
		// between the worker's checks and its locked write. On purpose the pair's (local, observed) address is
		// first brought to threshold-1 live observer groups, so that one wrongly kept observer activates it.
		// Whatever the interleaving, at quiescence the connection is closed and must not count.
		type actor struct {
			c                *mconn
			class            int
			obs              ma.Multiaddr
			x                string
			doReport, doClose bool
			preR, preC       int
		}
		raceEpisode := func(i int) {
			at := fmt.Sprintf("race@op%d", i)
			var actors []*actor
			taken := map[int]bool{}
			for p, nPairs := 0, g.Range(1, 3); p < nPairs; p++ {
				a := &actor{}
				var cands []*mconn
				for _, c := range openConns() {
					if c.eligible && !taken[c.id] {
						cands = append(cands, c)
					}
				}
				if len(cands) > 0 && g.Chance(1, 3) {
					// a connection that may already vouch for something: replacement against close
					a.c = cands[g.Int(len(cands))]
					a.class = drawClass()
					a.obs, a.x = drawObserved(a.c, a.class)
				} else {
					e := pickEntry()
					lw := e.w
					if e.ifaceIP != "" && g.Bool() {
						lw.ip = e.ifaceIP
					}
					ipi, pi := g.Weighted(6, 2, 1), g.Weighted(6, 2, 1, 1)
					x := tw{lw.v6, extIPs[lw.v6][ipi], lw.udp, extPorts[pi]}.String()
					have := map[string]bool{}
					for _, c := range m.conns {
						if c.open && c.eligible && c.lwKey == lw.String() && c.ever[x] {
							have[c.group] = true
						}
					}
					var free []int
					ng := nGroups(lw.v6)
					for k, start := 0, g.Int(ng); k < ng; k++ {
						if gi := (start + k) % ng; !have[groupName(lw.v6, gi)] {
							free = append(free, gi)
						}
					}
					if len(free) == 0 {
						continue // every group already vouches for it
					}
					racer := free[0]
					free = free[1:]
					for len(have) < thresh-1 && len(free) > 0 {
						f := openConn(e, lw, free[0], "inbound")
						obs, fx := observedAt(f, oConsistent, ipi, pi)
						report(f, oConsistent, obs, fx)
						have[f.group] = true
						free = free[1:]
					}
					if len(have) == thresh-1 {
						o.Probe("race-at-threshold-minus-1")
					}
					a.c = openConn(e, lw, racer, "inbound")
					a.class = g.Weighted(6, 1) // consistent | sibling transport of the waist
					a.obs, a.x = observedAt(a.c, a.class, ipi, pi)
				}
				taken[a.c.id] = true
				switch g.Weighted(6, 1, 1) {
				case 0:
					a.doReport, a.doClose = true, true
				case 1:
					a.doReport = true
				case 2:
					a.doClose = true
				}
				a.preR, a.preC = g.Int(3), g.Int(3)
				actors = append(actors, a)
			}
			reader := g.Chance(1, 3)
			simrt.WaitIdle() // the filler reports are recorded
			var wg simsync.WaitGroup
			for ai, a := range actors {
				if a.doReport {
					wg.Add(1)
					simrt.GoNamed(fmt.Sprintf("identify%d", ai), func() {
						defer wg.Done()
						for k := 0; k < a.preR; k++ {
							simrt.Yield("race.pre")
						}
						report(a.c, a.class, a.obs, a.x)
					})
				}
				if a.doClose {
					wg.Add(1)
					simrt.GoNamed(fmt.Sprintf("closer%d", ai), func() {
						defer wg.Done()
						for k := 0; k < a.preC; k++ {
							simrt.Yield("race.pre")
						}
						disconnect(a.c)
					})
				}
				if a.doReport && a.doClose {
					o.Probe("identify-vs-close-race")
				}
			}
			if reader {
				wg.Add(1)
				simrt.GoNamed("reader", func() {
					defer wg.Done()
					simrt.Yield("race.pre")
					compare(at+"(mid-race)", false)
				})
			}
			wg.Wait()
			simrt.WaitIdle()
			compare(at, false)
		}

		if stratum == 0 {
			for i := 0; i < nOps && o.Trouble == "" && len(o.Violations) == 0; i++ {
				step(i)
			}
		} else if race {
			for i := 0; i < nOps && o.Trouble == "" && len(o.Violations) == 0; {
				// prelude: a few operations by the main task, unpaced, to vary the state the race starts from
				n := g.Range(0, 6)
				inBurst = true
				for j := 0; j < n; j++ {
					step(i)
					i++
				}
				inBurst = false
				raceEpisode(i)
				i += 3
			}
		} else {
			for i := 0; i < nOps && o.Trouble == "" && len(o.Violations) == 0; {
				n := g.Range(2, 12)
				stall := g.Chance(1, 3)
				var gate chan struct{}
				if stall {
					// the worker goroutine is held inside the stub (a descheduled / slow worker) so that the
					// queue between the event handler and the worker fills up; everything else keeps running
					n = g.Range(8, 45)
					gate = make(chan struct{})
					plug := &stubConn{id: -1, local: ma.StringCast("/dns4/plug.invalid/tcp/1"), remote: ma.StringCast("/ip4/1.2.3.250/tcp/1"), gate: gate}
					o.Logf("burst of %d with stalled worker", n)
					em.Emit(event.EvtPeerIdentificationCompleted{Peer: "plug", Conn: plug, ObservedAddr: ma.StringCast("/ip4/5.6.7.8/tcp/4001")})
					simrt.WaitIdle() // the worker now sits in plug.LocalMultiaddr()
					o.Fault("worker-stalled")
				} else {
					o.Logf("burst of %d", n)
				}
				inBurst = true
				for j := 0; j < n && i < nOps+40; j++ {
					step(i)
					i++
				}
				inBurst = false
				simrt.WaitIdle()
				if stall {
					compare(fmt.Sprintf("op%d(queue held)", i), false)
					close(gate)
					simrt.WaitIdle()
				}
				compare(fmt.Sprintf("op%d(after burst)", i), false)
			}
		}

		// ---- epilogue: everything closes, everything must be withdrawn -----------------------
		if o.Trouble == "" {
			simrt.WaitIdle()
			for _, c := range openConns() {
				disconnect(c)
			}
			simrt.WaitIdle()
			for _, l := range m.locals {
				if got := mgr.AddrsFor(l.addr); len(got) != 0 {
					o.Violate("C17/leak-after-all-closed", "every connection is closed but AddrsFor(%s) = %v", l.text, got)
				}
			}
			if got := mgr.Addrs(1); len(got) != 0 {
				o.Violate("C17/leak-after-all-closed", "every connection is closed but Addrs(1) = %v", got)
			}
			var calls int64
			for _, c := range m.conns {
				calls += c.stub.isClosedN.Load()
			}
			if int(calls) < expectedRecords {
				for k := int(calls); k < expectedRecords; k++ {
					o.Fault("observation-dropped-queue-full")
				}
			}
		}
		em.Close()
		mgr.Close()
		if len(sn.notifiees) != 0 {
			o.Violate("C17/residue", "notifiee still registered after Close")
		}
		finished = true
	})
	o.Sched = res
	o.Virtual = res.Virtual

	if res.Panic != "" {
		o.Violate("C17/panic", "%s", firstLines(res.Panic, 12))
		return o
	}
	if o.Trouble != "" {
		return o
	}
	if res.StepLimit {
		o.Trouble = "step limit"
		return o
	}
	if res.Stuck || !finished {
		o.Violate("C17/stuck", "run did not finish: stuck=%v residue=%v", res.Stuck, res.Residue)
		return o
	}
	if len(res.Residue) > 0 {
		o.Violate("C17/residue", "goroutines left after Close: %v", res.Residue)
	}

	// run-level probes
	groupsOf := map[string]map[string]int{} // lw|vote -> group -> conns (over the whole run, last votes)
	kindsOf := map[string]map[int]bool{}
	for _, c := range m.conns {
		if !c.eligible {
			continue
		}
		for x := range c.ever {
			k := c.lwKey + "|" + x
			if groupsOf[k] == nil {
				groupsOf[k] = map[string]int{}
				kindsOf[k] = map[int]bool{}
			}
			groupsOf[k][c.group]++
			kindsOf[k][c.kind] = true
		}
	}
	for k, gs := range groupsOf {
		for grp, n := range gs {
			if n > 1 {
				sawDupGroup = true
				if strings.HasPrefix(grp, "6/") {
					o.Probe("same-v6-56-twice")
				} else {
					o.Probe("same-v4-ip-twice")
				}
			}
		}
		if len(kindsOf[k]) > 1 {
			sawSharedWaist = true
		}
	}
	flag := func(b bool, name string) {
		if b {
			o.Probe(name)
		}
	}
	flag(sawActive, "address-activated")
	flag(sawDeact, "address-deactivated")
	flag(sawCapCand, "more-than-3-candidates")
	flag(sawCapCandMin1, "more-than-3-candidates-min1")
	flag(sawTie, "tie-at-cap")
	flag(sawDupGroup, "duplicate-observer-group")
	flag(sawSharedWaist, "shared-thin-waist-pooled")
	o.Nontrivial = sawActive && withdrawals > 0
	fmt.Fprintf(sig, "n=%d", checks)
	o.Sig = fmt.Sprintf("%x", sig.Sum64())
	return o
}

func fmtCounts(cnt map[string]int, thr int) string {
	var l []string
	for x, c := range cnt {
		if c >= thr {
			l = append(l, fmt.Sprintf("%s=%d", x, c))
		}
	}
	sort.Strings(l)
	return "{" + strings.Join(l, " ") + "}"
}

func sortedKeys(m map[string]bool) []string {
	l := make([]string, 0, len(m))
	for k := range m {
		l = append(l, k)
	}
	sort.Strings(l)
	return l
}

func sortedKeysInt(m map[string]int) []string {
	l := make([]string, 0, len(m))
	for k := range m {
		l = append(l, k)
	}
	sort.Strings(l)
	return l
}

func firstLines(s string, n int) string {
	l := strings.Split(s, "\n")
	if len(l) > n {
		l = l[:n]
	}
	return strings.Join(l, " | ")
}
