package c17

import (
	"context"
	"fmt"
	"os"
	"testing"
	"time"

	"github.com/libp2p/go-libp2p/core/peerstore"
	basichost "github.com/libp2p/go-libp2p/p2p/host/basic"
	"github.com/libp2p/go-libp2p/p2p/host/observedaddrs"
	ma "github.com/multiformats/go-multiaddr"

	"verifsim/simhost"
	"verifsim/simnet"
	"verifsim/simrand"
	"verifsim/simrt"
)

// TestDebugSystem prints what a NATed host advertises while observers connect and leave (C17_DEBUG=v4|v6).
func TestDebugSystem(t *testing.T) {
	fam := os.Getenv("C17_DEBUG")
	if fam == "" {
		t.Skip()
	}
	tape := simrt.NewTape(1, "dbg", 0)
	defer simrand.Install(1)()
	res := simrt.Run(t, simrt.Config{MaxSteps: 5_000_000}, tape.S, func() {
		n := simnet.New(tape.G, simnet.Config{})
		priv, pub := "10.0.0.1", "5.5.5.5"
		obsIP := func(i int) string { return fmt.Sprintf("1.2.3.%d", 1+i) }
		if fam == "v6" {
			priv, pub = "fd00::1", "2600:1::5"
			obsIP = func(i int) string { return fmt.Sprintf("2600:2:0:%x01::1", i) }
		}
		n.SetNAT(priv, pub)
		lazy := &lazyOAM{}
		wt := os.Getenv("C17_WT") != ""
		h, err := simhost.New(n, simhost.Opts{Key: simhost.DetKey(1), IP: priv, Port: 4001, QUIC: true, WebTransport: wt, WithHost: true,
			HostOpts: &basichost.HostOpts{ObservedAddrsManager: lazy}})
		if err != nil {
			fmt.Println("H:", err)
			return
		}
		mgr, _ := observedaddrs.NewManager(h.Bus, h.Swarm)
		mgr.Start(h.Swarm)
		lazy.m = mgr
		var obs []*simhost.Node
		for i := 0; i < 5; i++ {
			o, err := simhost.New(n, simhost.Opts{Key: simhost.DetKey(10 + i), IP: obsIP(i), Port: 4001, QUIC: true, WithHost: true})
			if err != nil {
				fmt.Println("O:", err)
				return
			}
			obs = append(obs, o)
		}
		show := func(what string) {
			fmt.Printf("t=%v %s\n   Addrs=%v\n   mgr.Addrs(1)=%v\n", simrt.Now(), what, h.Host.Addrs(), mgr.Addrs(1))
		}
		show("start")
		for i, ob := range obs {
			target := ob.QAddr
			if i == 4 {
				target = ob.Addr
			}
			h.PS.AddAddrs(ob.ID, []ma.Multiaddr{target}, peerstore.PermanentAddrTTL)
			ctx, cancel := context.WithTimeout(context.Background(), 30*time.Second)
			c, err := h.Swarm.DialPeer(ctx, ob.ID)
			cancel()
			if err != nil {
				fmt.Println("dial", i, err)
				continue
			}
			simrt.Recv("idwait", h.Host.IDService().IdentifyWait(c))
			for _, oc := range ob.Swarm.ConnsToPeer(h.ID) {
				fmt.Println("  O sees H as", oc.RemoteMultiaddr(), " H local", c.LocalMultiaddr(), "H remote", c.RemoteMultiaddr())
			}
			simrt.TimeSleep(11 * time.Second)
			simrt.WaitIdle()
			show(fmt.Sprintf("after connect %d", i))
		}
		fmt.Println("mappings", n.NATMappings())
		h.Swarm.ClosePeer(obs[0].ID)
		simrt.TimeSleep(11 * time.Second)
		show("after close 0")
		obs[1].Swarm.ClosePeer(h.ID)
		simrt.TimeSleep(11 * time.Second)
		show("after remote close 1")
		// observer dials H through the mapped endpoint
		ipp := "ip4"
		if fam == "v6" {
			ipp = "ip6"
		}
		pubA := ma.StringCast(fmt.Sprintf("/%s/%s/udp/4001/quic-v1", ipp, pub))
		obs[0].PS.AddAddrs(h.ID, []ma.Multiaddr{pubA}, peerstore.PermanentAddrTTL)
		ctx, cancel := context.WithTimeout(context.Background(), 30*time.Second)
		_, err = obs[0].Swarm.DialPeer(ctx, h.ID)
		cancel()
		fmt.Println("dial back:", err)
		simrt.TimeSleep(11 * time.Second)
		for _, c := range h.Swarm.ConnsToPeer(obs[0].ID) {
			fmt.Println("  H inbound local", c.LocalMultiaddr(), "remote", c.RemoteMultiaddr(), c.Stat().Direction)
		}
		show("after dial back")
		for _, ob := range obs {
			ob.Close()
		}
		simrt.TimeSleep(40 * time.Second)
		show("after all observers closed")
		h.Close()
		mgr.Close()
		simrt.TimeSleep(10 * time.Second)
	})
	fmt.Println("steps", res.Steps, "virtual", res.Virtual, "panic", res.Panic, "stuck", res.Stuck, "residue", res.Residue)
}
