# orchestrator configuration of the C17 check (loaded by tools/props.py)
from stack import FULL_STACK, FULL_DEPS, QUIC_STACK, QUIC_DEPS, WT_STACK, WT_DEPS

SPEC = dict(
    pkg="./harness/c17",
    instrument=FULL_STACK + QUIC_STACK + WT_STACK,  # includes ./p2p/host/observedaddrs, ./p2p/host/basic, ./p2p/host/eventbus, identify
    deps=FULL_DEPS + QUIC_DEPS + WT_DEPS,
    level="exploration",
    level_text=("seeded search over histories x schedules: connections, identify-completed events and disconnects fed to the "
                "real (instrumented) observedaddrs.Manager and event bus under a scheduler that owns every lock, channel "
                "operation and select of both packages; after every event (paced stratum), burst (burst stratum, optionally "
                "with the worker held so that the queue overflows) or identify-versus-close race issued from two tasks (race "
                "stratum) Addrs(min) and AddrsFor(local) are compared with a reference count recomputed from the history of "
                "currently open connections. A fourth, system stratum (a quarter of the runs) has no stubs: a real NATed host "
                "(simhost: swarm, TCP + QUIC (+ WebTransport), identify, basic host + its address manager + the Manager) and 3-10 "
                "real observer hosts on the simulated wire; the oracle is on what the HOST advertises (Addrs, AllAddrs, the "
                "identify message a probe node receives) against a reference computed from both swarms and the NAT table. "
                "Sampling, not proof."),
    level_note=("trusted: testing/synctest quiescence detection, go-multiaddr parsing/printing, the reference model in the "
                "harness (written from the property statement; readings taken where the statement is silent are listed at "
                "the top of harness/c17/sim_test.go), the overlay rewrite (validated by the packages' own tests through "
                "./check overlaytest C17). Equality is asserted at quiescent instants of the paced stratum only; in the "
                "burst and race strata only the subset relation against an upper-bound model is asserted because the "
                "worker queue may drop observations."),
    technique=("deterministic simulation: seeded lock/channel-level scheduler over the instrumented stack; Manager-level strata "
               "with stub network/connections, system stratum with real hosts behind a simulated source NAT; reference-count oracle"),
    design_ref="DESIGN.md section 6 (C17)",
    quick_s=30, thorough_s=300,
    rule=("one run = one tape: stratum (paced | burst | race | system), for the first three: ActivationThresh in {4,2,3,1}, 1-11 listen addresses drawn from "
          "TCP/WS/QUIC/WebTransport on IPv4 and IPv6 (QUIC+WebTransport and TCP+WS sharing a thin waist, unspecified "
          "listeners with their interface resolution), then 1-70 operations: a connection arrives at a listen address / "
          "another port / another IP or is dialled (ephemeral port or listen socket) from a population of 6 IPv4 addresses "
          "x 2 ports and 4 IPv6 /56s x 2 subnets x 2 hosts; identify completes on an open or an already closed connection "
          "with an observed address of class consistent | sibling transport of the same waist | loopback | NAT64 | relayed "
          "| tcp<->udp inconsistent | ip4<->ip6 inconsistent | nil over 3 external IPs x 4 ports; a wave of 2-5 peers "
          "reporting one address; disconnect; a virtual minute (NAT-type ticker); in the race stratum episodes of 1-3 "
          "(identify task, closer task) pairs on one connection each, the pair's address first brought to threshold-1 "
          "live observer groups, optionally a concurrent reader task; plus a seeded schedule that decides every lock "
          "acquisition, channel operation, select and (burst/race) stub callback of the Manager. Epilogue: every connection closes and "
          "nothing may remain reported. non-trivial = some address reached the activation threshold and at least one "
          "counted report was withdrawn (close or replacement); distinct = distinct (operation sequence, every "
          "Addrs/AddrsFor answer) in the paced stratum, (operation sequence, model counts) in the burst and race strata. System stratum: ActivationThresh in {4,2,3}, IPv4 or IPv6, WebTransport "
          "or not, host H on a private address behind a NAT with one public IP, 3-10 observers (several on one IPv4 address "
          "with different ports / several in one IPv6 /56 in different /64s), 0-2 LAN nodes that see H's private address, a "
          "probe node; 3-16 operations (H dials over QUIC | WebTransport | TCP, observer dials H's mapped QUIC endpoint, both "
          "at once, LAN node dials the private TCP address, H closes a peer or one connection, observer closes, observer node "
          "shuts down, probe dial), each followed by IdentifyWait on every open connection + 11 s virtual (two recompute "
          "periods of the host's address manager + slack) + WaitIdle and the check; in the unsettled variant (half of the "
          "system runs) about half of the operations are followed by nothing or by a drawn 1 ms..6 s instead (at most 5 in a "
          "row, judged at settled instants only) and half of those runs start cold (H built last, first operation in the same "
          "instant); non-trivial = a public address was "
          "advertised at some check; distinct = (operations, advertised public addresses at every check)"),
    probes=["address-activated", "address-deactivated", "more-than-3-candidates", "tie-at-cap", "duplicate-observer-group",
            "same-v4-ip-twice", "same-v6-56-twice", "shared-thin-waist-pooled", "sibling-transport-report",
            "report-replaced", "report-repeated", "uncountable-report-after-countable", "conn-not-at-listen-address",
            "report-on-conn-not-at-listen-address",
            "sys-public-address-advertised", "sys-public-address-withdrawn", "sys-at-threshold-minus-1",
            "sys-at-or-above-threshold", "sys-one-group-several-connections", "sys-lan-observer", "sys-tcp-outbound",
            "sys-inbound-through-nat", "sys-simultaneous-connect", "sys-webtransport-dial", "sys-identify-sent-checked",
            "sys-observer-shutdown", "sys-operation-not-settled", "sys-cold-start",
            "sys-identify-completed-on-conn-closed-before-settle", "sys-open-conn-without-identify",
            "late-identify-on-closed-conn", "close-right-after-identify", "identify-vs-close-race",
            "race-at-threshold-minus-1", "nat-type-tick",
            "uncountable-loopback", "uncountable-nat64", "uncountable-relayed", "uncountable-inconsistent-transport",
            "uncountable-inconsistent-ipversion", "uncountable-nil"],
    real=["system stratum: swarm, TCP/QUIC/WebTransport transports, identify, basic host and its address manager "
          "(p2p/host/basic/addrs_manager.go), observedaddrs.Manager, quic-go, yamux, multistream — all instrumented",
          "p2p/host/observedaddrs.Manager via NewManager/Start/Close (event handler, worker, NAT-type ticker on the bubble clock; "
          "instrumented: sync->simsync, go->simrt.Go, channel ops, select, map ranges)",
          "p2p/host/eventbus (EvtPeerIdentificationCompleted subscription, stateful NAT emitter; instrumented likewise)"],
    stubs=["(paced, burst, race strata only; the system stratum has none besides simnet's wire and NAT) network.Network: ListenAddresses/InterfaceListenAddresses (fixed per run), Notify/StopNotify registry; "
           "Disconnected is delivered synchronously (by the closing task) after the connection is marked closed; every "
           "callback is a scheduling point in the burst and race strata",
           "network.Conn: LocalMultiaddr/RemoteMultiaddr/IsClosed only; a 'plug' connection whose LocalMultiaddr blocks "
           "holds the worker goroutine to fill the observation queue (burst stratum)"],
    assume=["synctest fake clock and quiescence detection (Go 1.25.7)",
            "the overlay rewrite preserves behaviour (checked by ./check overlaytest C17)",
            "the swarm marks a connection closed before it delivers Disconnected (as swarm.Conn.doClose does)",
            "listen addresses do not change during a run",
            "system stratum: lossless zero-latency wire, one NAT public IP with endpoint-independent port-preserving mapping "
            "(simnet.SetNAT): at most one observed address per listen address, so cap and ordering are exercised only by the "
            "Manager-level strata; withdrawal bound 11 s = 2 x addrChangeTickrInterval + 1 s",
            "system stratum: simrand pins crypto/rand (QUIC connection ids, TLS randoms)"],
)
