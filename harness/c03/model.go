// Reference ledger of the C03 harness.
//
// The ledger is written from the property statement, the interface documentation in
// core/network/rcmgr.go and the package documentation of p2p/host/resource-manager (README.md,
// docs/allowlist.md), not from the implementation's control flow. It consists of
//
//   - holders ("nodes"): connections, streams, spans and the direct reservations made through
//     View* in a top level scope, each with the amount it holds itself, and
//   - for every holder the list of scopes that constrain it according to the documented life
//     cycle (constraint set).
//
// The reading a scope must show is, by the statement, the sum over all open holders whose
// constraint set contains the scope; it is recomputed from scratch after every operation.
//
// Documented life cycle used here:
//
//	connection  {conn, transient, system}  --SetPeer(p)-->  {conn, peer p, system}
//	            allow-listed variant (taken when the normal scopes refuse and the endpoint matches
//	            the allow list, docs/allowlist.md): {conn, allowlistedTransient, allowlistedSystem}
//	            --SetPeer(p), p allowed--> {conn, peer p, allowlistedSystem}
//	            --SetPeer(p), p not allowed--> transferred to the normal scopes: {conn, peer p, system}
//	stream      {stream, peer, transient, system} --SetProtocol(q)--> {stream, peer, q.peer, q, system}
//	            --SetService(s)--> + {s.peer, s}
//	span        its own scope + the chain of its owner (a span whose owner, or an owner further up, is
//	            closed is cut off: the doc comment of resourceScope says spans "can outlive their
//	            parents"; what it holds is then charged to the scopes below the closed one only)
//	direct      View{System,Transient,Service,Protocol,Peer} reservation: {scope, system}
//	GC          an unused (no connection, stream or span attached) peer or protocol scope is collected
//	            once per minute; what was reserved directly in it is void (DESIGN.md C03 soundness note)
//
// Readings that are weaker than a literal reading of the statement (HARNESS_GUIDE rule 1/6):
//
//	W1 priority: the doc comment of ReserveMemory ("will fail if the available memory is less than
//	   (1+prio)/256 of the scope limit") and of the priority constants ("reservation if the scope
//	   memory utilization is at 40% or less") is read as "admitted iff usage after the reservation
//	   <= limit*(1+prio)/256" in every constraining scope (the property's mechanism text says the
//	   same). A limit of MaxInt64 is "unlimited" (limit_defaults.go: Unlimited64), whatever the priority.
//	W2 re-parenting (SetPeer/SetProtocol/SetService) moves what the holder already holds; nothing in
//	   the documentation scales that by a priority, so the plain limit applies (ReservationPriorityAlways).
//	W3 an allow-listed connection whose peer turns out not to be allow-listed is "transferred to the
//	   normal system and peer scope" (allowlist.md). The implementation also requires room in the
//	   normal transient scope during the transfer; a refusal caused only by the transient scope is
//	   accepted (either answer is legal). When the transfer itself succeeded and only the peer scope
//	   refused, the connection may legally remain either in its previous (allow-listed) set or in the
//	   normal {transient, system} set: both are "charged exactly once in a consistent set of scopes".
//	W4 per-subnet limiter: grouping and precedence as documented on WithNetworkPrefixLimit /
//	   WithLimitPerSubnet (a configured network prefix takes precedence over the per-subnet default;
//	   nested network prefixes are not generated because the documentation does not say whether the
//	   outer prefix counts the inner one's connections). Allow-listed endpoints are excluded from
//	   oracle (f): their cap is derived from the allow-listed system limit, and the allow-listed retry
//	   path does not hold a limiter slot. The model mirrors that only to keep later predictions exact;
//	   a divergence there is counted (probe), never reported as a violation.
//	W5 when the per-subnet limiter and a scope limit would both refuse an OpenConnection, either error
//	   is accepted (the order of the two checks is not documented).
//	W6 a span has no limit of its own in the model: it is created with its owner's limit and holds a
//	   subset of what the owner holds, so the owner's check implies it.
//	W7 operations on a closed scope (ReserveMemory, BeginSpan) must fail with some error and change
//	   nothing; the error is not required to wrap the resource-limit sentinel (network.ErrResourceScopeClosed).
package c03

import (
	"fmt"
	"math"
	"math/bits"
	"net/netip"

	"github.com/libp2p/go-libp2p/core/network"
	"github.com/libp2p/go-libp2p/core/peer"
	"github.com/libp2p/go-libp2p/core/protocol"
	rcmgr "github.com/libp2p/go-libp2p/p2p/host/resource-manager"
	ma "github.com/multiformats/go-multiaddr"
	mh "github.com/multiformats/go-multihash"
)

// resources -----------------------------------------------------------------------------------

const (
	rConnsIn = iota
	rConnsOut
	rStreamsIn
	rStreamsOut
	rFD
	rMem
	nRes
)

var resName = [nRes]string{"conns-in", "conns-out", "streams-in", "streams-out", "fd", "memory"}

type vec [nRes]int64

func (v vec) isZero() bool { return v == vec{} }

func (v vec) String() string {
	return fmt.Sprintf("{conns %d/%d streams %d/%d fd %d mem %d}", v[rConnsIn], v[rConnsOut], v[rStreamsIn], v[rStreamsOut], v[rFD], v[rMem])
}

func statVec(s network.ScopeStat) vec {
	return vec{int64(s.NumConnsInbound), int64(s.NumConnsOutbound), int64(s.NumStreamsInbound), int64(s.NumStreamsOutbound), int64(s.NumFD), s.Memory}
}

// universe ------------------------------------------------------------------------------------

const (
	nPeers  = 3
	nProtos = 3
	nSvcs   = 2
)

// indices of the fixed scopes
const (
	sSystem     = 0
	sTransient  = 1
	sASystem    = 2
	sATransient = 3
	sSvc0       = 4                        // + svc
	sProto0     = sSvc0 + nSvcs            // + proto
	sPeer0      = sProto0 + nProtos        // + peer
	sSvcPeer0   = sPeer0 + nPeers          // + svc*nPeers + peer
	sProtoPeer0 = sSvcPeer0 + nSvcs*nPeers // + proto*nPeers + peer
	nFixed      = sProtoPeer0 + nProtos*nPeers
)

func svcIdx(s int) int          { return sSvc0 + s }
func protoIdx(q int) int        { return sProto0 + q }
func peerIdx(p int) int         { return sPeer0 + p }
func svcPeerIdx(s, p int) int   { return sSvcPeer0 + s*nPeers + p }
func protoPeerIdx(q, p int) int { return sProtoPeer0 + q*nPeers + p }

// className is the scope class used as discriminator of violation classes.
func className(idx int) string {
	switch {
	case idx == sSystem:
		return "system"
	case idx == sTransient:
		return "transient"
	case idx == sASystem:
		return "allowlisted-system"
	case idx == sATransient:
		return "allowlisted-transient"
	case idx < sProto0:
		return "service"
	case idx < sPeer0:
		return "protocol"
	case idx < sSvcPeer0:
		return "peer"
	case idx < sProtoPeer0:
		return "service-peer"
	case idx < nFixed:
		return "protocol-peer"
	}
	return "holder"
}

func scopeLabel(idx int) string {
	switch {
	case idx < sSvc0:
		return className(idx)
	case idx < sProto0:
		return fmt.Sprintf("svc%d", idx-sSvc0)
	case idx < sPeer0:
		return fmt.Sprintf("proto%d", idx-sProto0)
	case idx < sSvcPeer0:
		return fmt.Sprintf("P%d", idx-sPeer0)
	case idx < sProtoPeer0:
		k := idx - sSvcPeer0
		return fmt.Sprintf("svc%d.P%d", k/nPeers, k%nPeers)
	case idx < nFixed:
		k := idx - sProtoPeer0
		return fmt.Sprintf("proto%d.P%d", k/nPeers, k%nPeers)
	}
	return fmt.Sprintf("node%d", idx-nFixed)
}

type endpoint struct {
	name  string
	addr  ma.Multiaddr
	ip    netip.Addr // invalid: endpoint without IP
	allow int        // 0 not allow-listed, 1 allow-listed IP (any peer), 2 allow-listed IP + peer allowPeer
}

const allowPeer = 1 // the peer of the allow-listed IP+peer pair

var endpointSpecs = []struct {
	s     string
	ip    string
	allow int
}{
	{"/ip4/10.0.1.1/tcp/4001", "10.0.1.1", 0},                       // first /24
	{"/ip4/10.0.1.2/tcp/4001", "10.0.1.2", 0},                       // first /24, other host
	{"/ip4/10.0.2.1/udp/4001/quic-v1", "10.0.2.1", 0},               // second /24
	{"/ip6/2001:db8:0:1::1/tcp/4001", "2001:db8:0:1::1", 0},         // inside 2001:db8::/56
	{"/ip6/2001:db8:0:2::1/udp/4001/quic-v1", "2001:db8:0:2::1", 0}, // same /56, other /64
	{"/ip6/2001:db8:1:100::1/tcp/4001", "2001:db8:1:100::1", 0},     // outside that /56 (and /48)
	{"/ip6/::ffff:10.0.1.3/tcp/4001", "::ffff:10.0.1.3", 0},         // IPv4-mapped IPv6: an IPv6 address for net/netip
	{"/ip4/9.9.9.8/tcp/4001", "9.9.9.8", 1},                         // allow-listed IP
	{"/ip4/9.9.9.9/tcp/4001", "9.9.9.9", 2},                         // allow-listed IP + peer pair
	{"/ip4/127.0.0.1/tcp/4001", "127.0.0.1", 0},                     // loopback
	{"/dns4/example.com/tcp/443", "", 0},                            // endpoint without IP
}

type subRule struct{ bits, cap int }

func (r subRule) String() string { return fmt.Sprintf("/%d<=%d", r.bits, r.cap) }

type pfxRule struct {
	pfx     netip.Prefix
	cap     int
	derived bool // added by the manager for an allow-listed network (cap not configured)
}

func (r pfxRule) String() string {
	c := fmt.Sprint(r.cap)
	if r.cap == math.MaxInt {
		c = "max"
	}
	if r.derived {
		c += " (derived)"
	}
	return r.pfx.String() + "<=" + c
}

type config struct {
	lim    [nFixed]rcmgr.BaseLimit
	conn   rcmgr.BaseLimit
	stream rcmgr.BaseLimit

	peers  [nPeers]peer.ID
	protos [nProtos]protocol.ID
	svcs   [nSvcs]string
	eps    []endpoint
	allow  []ma.Multiaddr

	sub4, sub6 []subRule
	np4, np6   []pfxRule // explicit network prefix limits; nil = package defaults (loopback unlimited)
	explicit4  bool
	explicit6  bool

	partial rcmgr.PartialLimitConfig
}

func mustAddr(s string) ma.Multiaddr {
	m, err := ma.NewMultiaddr(s)
	if err != nil {
		panic(err)
	}
	return m
}

func newUniverse() *config {
	c := &config{}
	for i := range c.peers {
		h, err := mh.Sum([]byte(fmt.Sprintf("c03-peer-%d", i)), mh.SHA2_256, -1)
		if err != nil {
			panic(err)
		}
		c.peers[i] = peer.ID(h)
	}
	for i := range c.protos {
		c.protos[i] = protocol.ID(fmt.Sprintf("/c03/proto/%d", i))
	}
	for i := range c.svcs {
		c.svcs[i] = fmt.Sprintf("svc%d", i)
	}
	for _, e := range endpointSpecs {
		ep := endpoint{name: e.s, addr: mustAddr(e.s), allow: e.allow}
		if e.ip != "" {
			ep.ip = netip.MustParseAddr(e.ip)
		}
		c.eps = append(c.eps, ep)
		switch e.allow {
		case 1:
			c.allow = append(c.allow, mustAddr("/ip4/"+e.ip))
		case 2:
			c.allow = append(c.allow, mustAddr("/ip4/"+e.ip+"/p2p/"+c.peers[allowPeer].String()))
		}
	}
	return c
}

// peerAllowed: docs/allowlist.md — an allow-list entry without peer id admits any peer from that
// address; an entry with a peer id admits that peer only.
func (c *config) peerAllowed(ep, p int) bool {
	switch c.eps[ep].allow {
	case 1:
		return true
	case 2:
		return p == allowPeer
	}
	return false
}

// limits --------------------------------------------------------------------------------------

func unlimitedMem(l int64) bool { return l == math.MaxInt64 }

// memThreshold = floor(limit*(1+prio)/256), computed in 128 bits.
func memThreshold(limit int64, prio uint8) uint64 {
	hi, lo := bits.Mul64(uint64(limit), uint64(prio)+1)
	return hi<<56 | lo>>8
}

// room reports whether a scope with limit l and usage used admits delta (memory judged with
// priority prio). On refusal it names the resource that lacks room.
func room(l *rcmgr.BaseLimit, used, delta vec, prio uint8) (bool, int) {
	if !unlimitedMem(l.Memory) {
		u := used[rMem]
		if u < 0 {
			u = 0
		}
		if uint64(u)+uint64(delta[rMem]) > memThreshold(l.Memory, prio) {
			return false, rMem
		}
	}
	if delta[rStreamsIn] > 0 && used[rStreamsIn]+delta[rStreamsIn] > int64(l.StreamsInbound) {
		return false, rStreamsIn
	}
	if delta[rStreamsOut] > 0 && used[rStreamsOut]+delta[rStreamsOut] > int64(l.StreamsOutbound) {
		return false, rStreamsOut
	}
	if delta[rStreamsIn]+delta[rStreamsOut] > 0 && used[rStreamsIn]+used[rStreamsOut]+delta[rStreamsIn]+delta[rStreamsOut] > int64(l.Streams) {
		if delta[rStreamsIn] > 0 {
			return false, rStreamsIn
		}
		return false, rStreamsOut
	}
	if delta[rConnsIn] > 0 && used[rConnsIn]+delta[rConnsIn] > int64(l.ConnsInbound) {
		return false, rConnsIn
	}
	if delta[rConnsOut] > 0 && used[rConnsOut]+delta[rConnsOut] > int64(l.ConnsOutbound) {
		return false, rConnsOut
	}
	if delta[rConnsIn]+delta[rConnsOut] > 0 && used[rConnsIn]+used[rConnsOut]+delta[rConnsIn]+delta[rConnsOut] > int64(l.Conns) {
		if delta[rConnsIn] > 0 {
			return false, rConnsIn
		}
		return false, rConnsOut
	}
	if delta[rFD] > 0 && used[rFD]+delta[rFD] > int64(l.FD) {
		return false, rFD
	}
	return true, -1
}

// overLimit checks oracle (b) on a reading: 0 <= usage <= limit for every resource.
func overLimit(l *rcmgr.BaseLimit, v vec) (bool, int) {
	if !unlimitedMem(l.Memory) && v[rMem] > l.Memory {
		return true, rMem
	}
	if v[rStreamsIn] > int64(l.StreamsInbound) {
		return true, rStreamsIn
	}
	if v[rStreamsOut] > int64(l.StreamsOutbound) {
		return true, rStreamsOut
	}
	if v[rStreamsIn]+v[rStreamsOut] > int64(l.Streams) {
		return true, rStreamsIn
	}
	if v[rConnsIn] > int64(l.ConnsInbound) {
		return true, rConnsIn
	}
	if v[rConnsOut] > int64(l.ConnsOutbound) {
		return true, rConnsOut
	}
	if v[rConnsIn]+v[rConnsOut] > int64(l.Conns) {
		return true, rConnsIn
	}
	if v[rFD] > int64(l.FD) {
		return true, rFD
	}
	return false, -1
}

// per-subnet limiter (oracle f) -----------------------------------------------------------------

// governing returns the index of the configured network prefix that governs ip (-1: per-subnet
// defaults apply). Prefix lists are sorted most specific first, as documented.
func governing(rules []pfxRule, ip netip.Addr) int {
	for i, r := range rules {
		if r.pfx.Contains(ip) {
			return i
		}
	}
	return -1
}

func (c *config) rulesFor(ip netip.Addr) ([]pfxRule, []subRule) {
	if ip.Is6() {
		return c.np6, c.sub6
	}
	return c.np4, c.sub4
}

// limiterAdmits: would one more connection from ip stay within every cap, given the addresses of
// the open connections that hold a limiter slot?
func (c *config) limiterAdmits(ip netip.Addr, open []netip.Addr) bool {
	np, sub := c.rulesFor(ip)
	if g := governing(np, ip); g >= 0 {
		n := 0
		for _, o := range open {
			if o.Is6() == ip.Is6() && governing(np, o) == g {
				n++
			}
		}
		return n+1 <= np[g].cap
	}
	for _, s := range sub {
		pfx, err := ip.Prefix(s.bits)
		if err != nil {
			return false
		}
		n := 0
		for _, o := range open {
			if o.Is6() != ip.Is6() || governing(np, o) >= 0 {
				continue
			}
			if op, err := o.Prefix(s.bits); err == nil && op == pfx {
				n++
			}
		}
		if n+1 > s.cap {
			return false
		}
	}
	return true
}

// groupsOver lists the configured groups in which the number of addresses in open exceeds the cap
// (oracle f, evaluated on the connections the implementation actually admitted).
func (c *config) groupsOver(open []netip.Addr) []string {
	var out []string
	for fam := 0; fam < 2; fam++ {
		np, sub := c.np4, c.sub4
		if fam == 1 {
			np, sub = c.np6, c.sub6
		}
		cnt := make([]int, len(np))
		for _, o := range open {
			if (fam == 1) != o.Is6() {
				continue
			}
			if g := governing(np, o); g >= 0 {
				cnt[g]++
			}
		}
		for i, r := range np {
			if !r.derived && cnt[i] > r.cap {
				out = append(out, fmt.Sprintf("%v: %d open > cap %d", r.pfx, cnt[i], r.cap))
			}
		}
		for _, s := range sub {
			seen := map[netip.Prefix]int{}
			var order []netip.Prefix
			for _, o := range open {
				if (fam == 1) != o.Is6() || governing(np, o) >= 0 {
					continue
				}
				p, err := o.Prefix(s.bits)
				if err != nil {
					continue
				}
				if _, ok := seen[p]; !ok {
					order = append(order, p)
				}
				seen[p]++
			}
			for _, p := range order {
				if seen[p] > s.cap {
					out = append(out, fmt.Sprintf("%v: %d open > cap %d", p, seen[p], s.cap))
				}
			}
		}
	}
	return out
}

// nodes (holders) -----------------------------------------------------------------------------

const (
	kTop = iota // direct reservations in a top level scope (through View*)
	kConn
	kStream
	kSpan
)

const (
	plNormal = iota
	plAllow
	plNowhere // only reached by adopting the implementation's answer for finding F5
)

type node struct {
	kind   int
	id     int // index in ledger.nodes
	sidx   int // index of the node's own scope
	name   string
	closed bool
	parent *node // spans: owner
	kids   []*node

	base vec   // what the holder is in itself (1 connection [+1 fd] / 1 stream)
	mem  int64 // memory reserved directly on this node's handle and still held

	// connections
	ep       int
	place    int
	peer     int  // connections and streams; -1 = none
	counted  bool // holds a slot of the per-subnet limiter
	poisoned bool // F5 fired on it: no further SetPeer is generated

	// stratum C only: the placement of a connection from an allow-listed endpoint is not visible
	// to its caller; spRefused lists the peers of refused SetPeer calls
	ambig     bool
	spTried   bool
	spRefused []int

	// streams
	proto, svc int

	// implementation handle
	conn   network.ConnManagementScope
	stream network.StreamManagementScope
	span   network.ResourceScopeSpan
}

type ledger struct {
	cfg   *config
	nodes []*node
	top   [nFixed]*node // top level nodes by scope index (nil where View* cannot reach)
	off   [][nRes]int64 // absorbed discrepancies per scope index (zero unless a violation was reported)
}

func newLedger(cfg *config) *ledger {
	l := &ledger{cfg: cfg}
	add := func(idx int) {
		n := &node{kind: kTop, sidx: idx, name: "direct(" + scopeLabel(idx) + ")", peer: -1, proto: -1, svc: -1}
		l.top[idx] = n
		l.addNode(n)
	}
	add(sSystem)
	add(sTransient)
	for s := 0; s < nSvcs; s++ {
		add(svcIdx(s))
	}
	for q := 0; q < nProtos; q++ {
		add(protoIdx(q))
	}
	for p := 0; p < nPeers; p++ {
		add(peerIdx(p))
	}
	return l
}

func (l *ledger) addNode(n *node) {
	n.id = len(l.nodes)
	if n.kind != kTop {
		n.sidx = nFixed + n.id
	}
	l.nodes = append(l.nodes, n)
	for len(l.off) < nFixed+len(l.nodes) {
		l.off = append(l.off, [nRes]int64{})
	}
}

func (l *ledger) nScopes() int { return nFixed + len(l.nodes) }

// limitOf returns the configured limit of a scope (nil for spans and direct-reservation nodes'
// private indices, which have none of their own).
func (l *ledger) limitOf(idx int) *rcmgr.BaseLimit {
	if idx < nFixed {
		return &l.cfg.lim[idx]
	}
	n := l.nodes[idx-nFixed]
	switch n.kind {
	case kConn:
		return &l.cfg.conn
	case kStream:
		return &l.cfg.stream
	}
	return nil
}

// edges: the scopes (other than its own) that constrain a connection, stream or top level scope,
// in the order the implementation charges them (the order matters for probe names only).
func (l *ledger) edges(n *node) []int {
	switch n.kind {
	case kTop:
		if n.sidx == sSystem {
			return nil
		}
		return []int{sSystem}
	case kConn:
		switch n.place {
		case plNormal:
			if n.peer >= 0 {
				return []int{peerIdx(n.peer), sSystem}
			}
			return []int{sTransient, sSystem}
		case plAllow:
			if n.peer >= 0 {
				return []int{peerIdx(n.peer), sASystem}
			}
			return []int{sATransient, sASystem}
		}
		return nil
	case kStream:
		switch {
		case n.proto < 0:
			return []int{peerIdx(n.peer), sTransient, sSystem}
		case n.svc < 0:
			return []int{peerIdx(n.peer), protoPeerIdx(n.proto, n.peer), protoIdx(n.proto), sSystem}
		}
		return []int{peerIdx(n.peer), protoPeerIdx(n.proto, n.peer), svcPeerIdx(n.svc, n.peer), protoIdx(n.proto), svcIdx(n.svc), sSystem}
	}
	return nil
}

// chain lists the scopes charged by something held directly in n, innermost first. intact is
// false when n or an owner above it is closed (the chain is cut below the closed scope).
func (l *ledger) chain(n *node) (idx []int, intact bool) {
	for {
		if n.closed {
			return idx, false
		}
		idx = append(idx, n.sidx)
		if n.kind != kSpan {
			return append(idx, l.edges(n)...), true
		}
		n = n.parent
	}
}

// root returns the connection, stream or top level node a span hangs off (following owners).
func root(n *node) *node {
	for n.kind == kSpan {
		n = n.parent
	}
	return n
}

// expected computes, for every scope, the sum of what the open holders charged to it hold, plus
// absorbed discrepancies.
func (l *ledger) expected() []vec {
	exp := make([]vec, l.nScopes())
	for _, n := range l.nodes {
		if n.closed {
			continue
		}
		amt := n.base
		amt[rMem] += n.mem
		if amt.isZero() {
			continue
		}
		ch, _ := l.chain(n)
		for _, i := range ch {
			for r := 0; r < nRes; r++ {
				exp[i][r] += amt[r]
			}
		}
	}
	for i := range exp {
		for r := 0; r < nRes; r++ {
			exp[i][r] += l.off[i][r]
		}
	}
	return exp
}

// total is what n's own scope reads: everything held in n and in its open descendants.
func (l *ledger) total(n *node) vec {
	if n.closed {
		return vec{}
	}
	t := n.base
	t[rMem] += n.mem
	for _, k := range n.kids {
		kt := l.total(k)
		for r := 0; r < nRes; r++ {
			t[r] += kt[r]
		}
	}
	return t
}

// firstFull returns the position in idx of the first scope without room for delta (-1: all have room).
func (l *ledger) firstFull(exp []vec, idx []int, delta vec, prio uint8) (pos int, res int) {
	for k, i := range idx {
		lim := l.limitOf(i)
		if lim == nil {
			continue
		}
		if ok, r := room(lim, exp[i], delta, prio); !ok {
			return k, r
		}
	}
	return -1, -1
}

// outstanding is the memory held by all holders together (the generator keeps it below MaxInt64
// so that an unlimited scope never wraps around).
func (l *ledger) outstanding() uint64 {
	var s uint64
	for _, n := range l.nodes {
		s += uint64(n.mem)
	}
	return s
}

// countedIPs lists the addresses of open connections that hold a limiter slot.
func (l *ledger) countedIPs() []netip.Addr {
	var out []netip.Addr
	for _, n := range l.nodes {
		if n.kind == kConn && !n.closed && n.counted {
			out = append(out, l.cfg.eps[n.ep].ip)
		}
	}
	return out
}

// openPlainIPs lists the addresses of all open connections from endpoints that are not allow-listed.
func (l *ledger) openPlainIPs() []netip.Addr {
	var out []netip.Addr
	for _, n := range l.nodes {
		if n.kind == kConn && !n.closed {
			if e := l.cfg.eps[n.ep]; e.ip.IsValid() && e.allow == 0 {
				out = append(out, e.ip)
			}
		}
	}
	return out
}

// gc applies the documented collection of unused peer and protocol scopes and reports how many
// direct reservations were forfeited and how many scopes with direct memory survived because in use.
func (l *ledger) gc() (forfeited, kept int) {
	usedPeer := [nPeers]bool{}
	usedProto := [nProtos]bool{}
	for _, n := range l.nodes {
		if n.closed {
			continue
		}
		switch n.kind {
		case kConn:
			if n.peer >= 0 {
				usedPeer[n.peer] = true
			}
		case kStream:
			usedPeer[n.peer] = true
			if n.proto >= 0 {
				usedProto[n.proto] = true
			}
		case kSpan:
			if p := n.parent; p.kind == kTop {
				if p.sidx >= sPeer0 && p.sidx < sPeer0+nPeers {
					usedPeer[p.sidx-sPeer0] = true
				}
				if p.sidx >= sProto0 && p.sidx < sProto0+nProtos {
					usedProto[p.sidx-sProto0] = true
				}
			}
		}
	}
	for p := 0; p < nPeers; p++ {
		t := l.top[peerIdx(p)]
		if t.mem > 0 {
			if usedPeer[p] {
				kept++
			} else {
				t.mem = 0
				forfeited++
			}
		}
	}
	for q := 0; q < nProtos; q++ {
		t := l.top[protoIdx(q)]
		if t.mem > 0 {
			if usedProto[q] {
				kept++
			} else {
				t.mem = 0
				forfeited++
			}
		}
	}
	return
}
