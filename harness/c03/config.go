package c03

import (
	"fmt"
	"math"
	"net/netip"
	"sort"

	"github.com/libp2p/go-libp2p/core/network"
	"github.com/libp2p/go-libp2p/core/peer"
	"github.com/libp2p/go-libp2p/core/protocol"
	rcmgr "github.com/libp2p/go-libp2p/p2p/host/resource-manager"
	"github.com/libp2p/go-libp2p/x/rate"

	"verifsim/simrt"
)

// Limit menus. Index 0 is the simplest choice (unlimited), so that a minimised tape has no
// limits except the ones that matter.
var (
	intMenu = []int{math.MaxInt, 1000, 4, 2, 1, 0}
	memMenu = []int64{math.MaxInt64, 1 << 40, 1 << 16, 300, 2, 1, 0, math.MaxInt64 - 1, math.MaxInt64/2 + 7, 1 << 57}

	intWeights = [3][]int{{5, 4, 1, 0, 0, 0}, {3, 3, 3, 2, 2, 1}, {1, 1, 3, 3, 3, 2}}
	memWeights = [3][]int{{5, 3, 1, 0, 0, 0, 0, 1, 1, 1}, {2, 2, 3, 3, 1, 1, 1, 1, 1, 1}, {1, 1, 2, 3, 2, 2, 2, 1, 1, 1}}
)

func drawInt(g simrt.Gen, profile int) int {
	v := intMenu[g.Weighted(intWeights[profile]...)]
	if v == 4 {
		v = 3 + g.Int(3) // "small"
	}
	return v
}

// drawLimit draws the limit table of one scope class. outer scopes (system, transient) are open more
// often than inner ones, otherwise most histories would consist of refusals at the first edge.
func drawLimit(g simrt.Gen, outer bool) rcmgr.BaseLimit {
	profile := g.Weighted(4, 3, 2) // open, mixed, tight
	if outer {
		profile = g.Weighted(6, 3, 1)
	}
	return rcmgr.BaseLimit{
		Streams:         drawInt(g, profile),
		StreamsInbound:  drawInt(g, profile),
		StreamsOutbound: drawInt(g, profile),
		Conns:           drawInt(g, profile),
		ConnsInbound:    drawInt(g, profile),
		ConnsOutbound:   drawInt(g, profile),
		FD:              drawInt(g, profile),
		Memory:          memMenu[g.Weighted(memWeights[profile]...)],
	}
}

var capMenu = []int{8, 2, 1}

func drawConfig(g simrt.Gen) *config {
	c := newUniverse()
	c.lim[sSystem] = drawLimit(g, true)
	c.lim[sTransient] = drawLimit(g, true)
	c.lim[sASystem] = drawLimit(g, false)
	c.lim[sATransient] = drawLimit(g, false)
	svcDef, svcPeerDef := drawLimit(g, false), drawLimit(g, false)
	protoDef, protoPeerDef := drawLimit(g, false), drawLimit(g, false)
	peerDef := drawLimit(g, false)
	c.conn = drawLimit(g, true)
	c.stream = drawLimit(g, true)

	p := rcmgr.PartialLimitConfig{
		System:               c.lim[sSystem].ToResourceLimits(),
		Transient:            c.lim[sTransient].ToResourceLimits(),
		AllowlistedSystem:    c.lim[sASystem].ToResourceLimits(),
		AllowlistedTransient: c.lim[sATransient].ToResourceLimits(),
		ServiceDefault:       svcDef.ToResourceLimits(),
		ServicePeerDefault:   svcPeerDef.ToResourceLimits(),
		ProtocolDefault:      protoDef.ToResourceLimits(),
		ProtocolPeerDefault:  protoPeerDef.ToResourceLimits(),
		PeerDefault:          peerDef.ToResourceLimits(),
		Conn:                 c.conn.ToResourceLimits(),
		Stream:               c.stream.ToResourceLimits(),
	}
	// specific limits for the first service / protocol / peer, so that scopes of one class differ
	for s := 0; s < nSvcs; s++ {
		c.lim[svcIdx(s)] = svcDef
		for q := 0; q < nPeers; q++ {
			c.lim[svcPeerIdx(s, q)] = svcPeerDef
		}
	}
	for q := 0; q < nProtos; q++ {
		c.lim[protoIdx(q)] = protoDef
		for r := 0; r < nPeers; r++ {
			c.lim[protoPeerIdx(q, r)] = protoPeerDef
		}
	}
	for q := 0; q < nPeers; q++ {
		c.lim[peerIdx(q)] = peerDef
	}
	if g.Chance(1, 3) {
		l := drawLimit(g, false)
		c.lim[svcIdx(0)] = l
		p.Service = map[string]rcmgr.ResourceLimits{c.svcs[0]: l.ToResourceLimits()}
	}
	if g.Chance(1, 4) {
		l := drawLimit(g, false)
		for q := 0; q < nPeers; q++ {
			c.lim[svcPeerIdx(0, q)] = l
		}
		p.ServicePeer = map[string]rcmgr.ResourceLimits{c.svcs[0]: l.ToResourceLimits()}
	}
	if g.Chance(1, 3) {
		l := drawLimit(g, false)
		c.lim[protoIdx(0)] = l
		p.Protocol = map[protocol.ID]rcmgr.ResourceLimits{c.protos[0]: l.ToResourceLimits()}
	}
	if g.Chance(1, 4) {
		l := drawLimit(g, false)
		for q := 0; q < nPeers; q++ {
			c.lim[protoPeerIdx(0, q)] = l
		}
		p.ProtocolPeer = map[protocol.ID]rcmgr.ResourceLimits{c.protos[0]: l.ToResourceLimits()}
	}
	if g.Chance(1, 3) {
		l := drawLimit(g, false)
		c.lim[peerIdx(0)] = l
		p.Peer = map[peer.ID]rcmgr.ResourceLimits{c.peers[0]: l.ToResourceLimits()}
	}
	c.partial = p

	// per-subnet limiter
	switch g.Int(3) {
	case 0:
		c.sub4 = []subRule{{24, capMenu[g.Int(3)]}}
	case 1:
		c.sub4 = []subRule{{32, capMenu[g.Int(3)]}}
	case 2:
		c.sub4 = []subRule{{32, capMenu[1+g.Int(2)]}, {24, capMenu[g.Int(2)]}}
	}
	switch g.Int(3) {
	case 0:
		c.sub6 = []subRule{{56, capMenu[g.Int(3)]}}
	case 1:
		c.sub6 = []subRule{{64, capMenu[g.Int(3)]}}
	case 2:
		c.sub6 = []subRule{{56, capMenu[1+g.Int(2)]}, {48, capMenu[g.Int(2)]}}
	}
	// network prefixes: package defaults (loopback unlimited) or an explicit list, with or without
	// loopback, optionally one whole /24 (v4) or /48 (v6) with its own cap. Never nested (W4).
	if g.Chance(1, 2) {
		c.explicit4 = true
		if g.Bool() {
			c.np4 = append(c.np4, pfxRule{pfx: netip.MustParsePrefix("127.0.0.0/8"), cap: math.MaxInt})
		}
		if g.Bool() {
			c.np4 = append(c.np4, pfxRule{pfx: netip.MustParsePrefix("10.0.2.0/24"), cap: capMenu[g.Int(3)]})
		}
	} else {
		c.np4 = []pfxRule{{pfx: netip.MustParsePrefix("127.0.0.0/8"), cap: math.MaxInt}}
	}
	if g.Chance(1, 2) {
		c.explicit6 = true
		if g.Bool() {
			c.np6 = append(c.np6, pfxRule{pfx: netip.MustParsePrefix("2001:db8:1::/48"), cap: capMenu[g.Int(3)]})
		}
	} else {
		c.np6 = []pfxRule{{pfx: netip.MustParsePrefix("::1/128"), cap: math.MaxInt}}
	}
	// the manager registers every allow-listed network (entries without peer id) as a network prefix
	// whose cap is the allow-listed system connection limit (derived, W4)
	for _, e := range c.eps {
		if e.allow == 1 {
			c.np4 = append(c.np4, pfxRule{pfx: netip.PrefixFrom(e.ip, 32), cap: c.lim[sASystem].Conns, derived: true})
		}
	}
	sort.SliceStable(c.np4, func(i, j int) bool { return c.np4[i].pfx.Bits() > c.np4[j].pfx.Bits() })
	sort.SliceStable(c.np6, func(i, j int) bool { return c.np6[i].pfx.Bits() > c.np6[j].pfx.Bits() })
	return c
}

func (c *config) describe() []string {
	var out []string
	f := func(name string, l rcmgr.BaseLimit) {
		out = append(out, fmt.Sprintf(" limit %-14s %s", name, limStr(l)))
	}
	f("system", c.lim[sSystem])
	f("transient", c.lim[sTransient])
	f("allow-system", c.lim[sASystem])
	f("allow-transient", c.lim[sATransient])
	for s := 0; s < nSvcs; s++ {
		f(scopeLabel(svcIdx(s)), c.lim[svcIdx(s)])
		f(scopeLabel(svcPeerIdx(s, 0)), c.lim[svcPeerIdx(s, 0)])
	}
	for q := 0; q < nProtos; q++ {
		f(scopeLabel(protoIdx(q)), c.lim[protoIdx(q)])
		f(scopeLabel(protoPeerIdx(q, 0)), c.lim[protoPeerIdx(q, 0)])
	}
	for p := 0; p < nPeers; p++ {
		f(scopeLabel(peerIdx(p)), c.lim[peerIdx(p)])
	}
	f("conn", c.conn)
	f("stream", c.stream)
	out = append(out, fmt.Sprintf(" subnets v4=%v v6=%v prefixes v4=%v (explicit=%v) v6=%v (explicit=%v)", c.sub4, c.sub6, c.np4, c.explicit4, c.np6, c.explicit6))
	return out
}

func nstr(n int) string {
	if n == math.MaxInt {
		return "max"
	}
	return fmt.Sprint(n)
}

func mstr(n int64) string {
	switch {
	case n == math.MaxInt64:
		return "max"
	case n == math.MaxInt64-1:
		return "max-1"
	case n == math.MaxInt64/2+7:
		return "max/2+7"
	case n > 1<<20 && n&(n-1) == 0:
		k := 0
		for m := n; m > 1; m >>= 1 {
			k++
		}
		return fmt.Sprintf("2^%d", k)
	}
	return fmt.Sprint(n)
}

func limStr(l rcmgr.BaseLimit) string {
	return fmt.Sprintf("streams %s (in %s, out %s) conns %s (in %s, out %s) fd %s mem %s",
		nstr(l.Streams), nstr(l.StreamsInbound), nstr(l.StreamsOutbound), nstr(l.Conns), nstr(l.ConnsInbound), nstr(l.ConnsOutbound), nstr(l.FD), mstr(l.Memory))
}

// build creates the real resource manager for this configuration (exported API only).
func (c *config) build(rep rcmgr.TraceReporter) (network.ResourceManager, error) {
	limiter := rcmgr.NewFixedLimiter(c.partial.Build(rcmgr.ConcreteLimitConfig{}))
	if err := c.verifyLimiter(limiter); err != nil {
		return nil, err
	}
	var sub4, sub6 []rcmgr.ConnLimitPerSubnet
	for _, s := range c.sub4 {
		sub4 = append(sub4, rcmgr.ConnLimitPerSubnet{PrefixLength: s.bits, ConnCount: s.cap})
	}
	for _, s := range c.sub6 {
		sub6 = append(sub6, rcmgr.ConnLimitPerSubnet{PrefixLength: s.bits, ConnCount: s.cap})
	}
	opts := []rcmgr.Option{
		rcmgr.WithMetricsDisabled(),
		rcmgr.WithConnRateLimiters(&rate.Limiter{}), // rate limiting off: not part of the property
		rcmgr.WithAllowlistedMultiaddrs(c.allow),
		rcmgr.WithLimitPerSubnet(sub4, sub6),
		rcmgr.WithTraceReporter(rep),
	}
	var np4, np6 []rcmgr.NetworkPrefixLimit
	if c.explicit4 {
		np4 = []rcmgr.NetworkPrefixLimit{}
		for _, r := range c.np4 {
			if !r.derived {
				np4 = append(np4, rcmgr.NetworkPrefixLimit{Network: r.pfx, ConnCount: r.cap})
			}
		}
	}
	if c.explicit6 {
		np6 = []rcmgr.NetworkPrefixLimit{}
		for _, r := range c.np6 {
			if !r.derived {
				np6 = append(np6, rcmgr.NetworkPrefixLimit{Network: r.pfx, ConnCount: r.cap})
			}
		}
	}
	if np4 != nil || np6 != nil {
		opts = append(opts, rcmgr.WithNetworkPrefixLimit(np4, np6))
	}
	return rcmgr.NewResourceManager(limiter, opts...)
}

// verifyLimiter is a harness self-check: the limits the manager will use must be the ones the
// ledger uses (a mismatch is harness trouble, never a violation).
func (c *config) verifyLimiter(l rcmgr.Limiter) error {
	eq := func(name string, got rcmgr.Limit, want rcmgr.BaseLimit) error {
		g := rcmgr.BaseLimit{
			Streams: got.GetStreamTotalLimit(), StreamsInbound: got.GetStreamLimit(network.DirInbound), StreamsOutbound: got.GetStreamLimit(network.DirOutbound),
			Conns: got.GetConnTotalLimit(), ConnsInbound: got.GetConnLimit(network.DirInbound), ConnsOutbound: got.GetConnLimit(network.DirOutbound),
			FD: got.GetFDLimit(), Memory: got.GetMemoryLimit(),
		}
		if g != want {
			return fmt.Errorf("limiter %s = %+v, ledger uses %+v", name, g, want)
		}
		return nil
	}
	checks := []error{
		eq("system", l.GetSystemLimits(), c.lim[sSystem]),
		eq("transient", l.GetTransientLimits(), c.lim[sTransient]),
		eq("allow-system", l.GetAllowlistedSystemLimits(), c.lim[sASystem]),
		eq("allow-transient", l.GetAllowlistedTransientLimits(), c.lim[sATransient]),
		eq("conn", l.GetConnLimits(), c.conn),
		eq("stream", l.GetStreamLimits(c.peers[0]), c.stream),
	}
	for s := 0; s < nSvcs; s++ {
		checks = append(checks, eq("svc", l.GetServiceLimits(c.svcs[s]), c.lim[svcIdx(s)]), eq("svcpeer", l.GetServicePeerLimits(c.svcs[s]), c.lim[svcPeerIdx(s, 0)]))
	}
	for q := 0; q < nProtos; q++ {
		checks = append(checks, eq("proto", l.GetProtocolLimits(c.protos[q]), c.lim[protoIdx(q)]), eq("protopeer", l.GetProtocolPeerLimits(c.protos[q]), c.lim[protoPeerIdx(q, 0)]))
	}
	for p := 0; p < nPeers; p++ {
		checks = append(checks, eq("peer", l.GetPeerLimits(c.peers[p]), c.lim[peerIdx(p)]))
	}
	for _, e := range checks {
		if e != nil {
			return e
		}
	}
	return nil
}
