package c03

import (
	"fmt"
	"math"
	"time"

	"github.com/libp2p/go-libp2p/core/network"

	"verifsim/simrt"
)

// Stratum S: one caller, exact predictions. Every operation is (1) predicted from the ledger,
// (2) executed on the real manager, (3) its outcome compared with the prediction (oracle c),
// (4) applied to the ledger as the implementation answered, and (5) every reading compared with
// the ledger sums (oracles a, b, d).

const always = network.ReservationPriorityAlways

func (w *world) opTag(s string, ok bool) {
	if ok {
		w.sig.WriteString(s + "+,")
	} else {
		w.sig.WriteString(s + "-,")
	}
}

// checkRefusalError: a refusal for lack of room must wrap the resource-limit sentinel.
func (w *world) checkRefusalError(op, desc string, err error) {
	if !isLimitErr(err) {
		w.violate("C03/refusal-error-not-sentinel/"+op, "%s refused with %q, which does not wrap network.ErrResourceLimitExceeded", desc, err)
	}
}

// admission compares the implementation's answer with the exact prediction (oracle c). full is the
// scope the ledger says lacks room (-1: all have room).
func (w *world) admission(op, desc string, admitted bool, full, res int) {
	switch {
	case admitted && full >= 0:
		w.violate(fmt.Sprintf("C03/admission/admitted-without-room/%s/%s/%s", op, w.classOfIdx(full), resName[res]),
			"%s was admitted although %s[%s] has no room for it (%s)", desc, w.classOfIdx(full), w.labelOfIdx(full), resName[res])
	case !admitted && full < 0:
		w.violate("C03/admission/refused-with-room/"+op, "%s was refused although every constraining scope has room", desc)
	}
}

func (w *world) newNode(n *node) *node {
	n.proto, n.svc = -1, -1
	if n.kind != kStream && n.kind != kConn {
		n.peer = -1
	}
	w.led.addNode(n)
	return n
}

// OpenConnection ----------------------------------------------------------------------------------

func (w *world) opOpenConn(in, usefd bool, epi int) *node {
	e := &w.cfg.eps[epi]
	desc := fmt.Sprintf("OpenConnection(%s, fd=%v, %s)", dirName(in), usefd, e.name)
	delta := connDelta(in, usefd)
	exp := w.led.expected()

	limOK := true
	if e.ip.IsValid() {
		limOK = w.cfg.limiterAdmits(e.ip, w.led.countedIPs())
	}
	// the new connection scope itself (usage 0) and the normal / allow-listed scopes
	ownOK, ownRes := room(&w.cfg.conn, vec{}, delta, always)
	posN, resN := w.led.firstFull(exp, []int{sTransient, sSystem}, delta, always)
	posA, _ := w.led.firstFull(exp, []int{sATransient, sASystem}, delta, always)
	allowCapable := e.ip.IsValid() && e.allow != 0
	normalOK := ownOK && posN < 0
	allowOK := allowCapable && ownOK && posA < 0
	scopesOK := normalOK || allowOK

	h, err := w.rm.OpenConnection(dirOf(in), usefd, e.addr)
	admitted := err == nil
	w.opTag("oc", admitted)

	var n *node
	if admitted {
		n = w.newNode(&node{kind: kConn, name: fmt.Sprintf("c%d", len(w.led.nodes)), base: delta, ep: epi, peer: -1, conn: h})
		n.name = fmt.Sprintf("c%d", n.id)
		if normalOK || !allowCapable {
			n.place = plNormal
		} else {
			n.place = plAllow
		}
		n.counted = e.ip.IsValid() && n.place == plNormal
		w.changed++
	}
	outcome := "admitted"
	switch {
	case admitted && n.place == plAllow:
		outcome = "admitted (allow-listed scopes)"
	case !admitted && isLimitErr(err):
		outcome = "refused (limit): " + err.Error()
	case !admitted:
		outcome = "refused (other): " + err.Error()
	}
	w.o.Logf("%s -> %s", desc, outcome)

	// oracle (c) and (f)
	switch {
	case !limOK && !scopesOK:
		// both the limiter and a scope refuse: any error (W5)
		if admitted {
			w.violate("C03/admission/admitted-without-room/openconn/subnet-and-scope", "%s admitted although the subnet is at its cap and a scope is full", desc)
		} else {
			w.o.Probe("subnet-cap-refusal")
			w.refused++
		}
	case !limOK:
		if admitted {
			if e.allow == 0 {
				w.violate("C03/subnet-cap-exceeded", "%s admitted although its subnet is at the configured cap (open: %v)", desc, w.led.countedIPs())
			} else {
				w.o.Probe("allowlisted-limiter-divergence")
			}
		} else if isLimitErr(err) {
			w.violate("C03/admission/refused-with-room/openconn", "%s refused with the limit sentinel although every scope has room (the subnet is at its cap: a limiter refusal was expected)", desc)
		} else {
			w.o.Probe("subnet-cap-refusal")
			w.refused++
		}
	case admitted && !scopesOK:
		full, res := sSystem, resN
		if !ownOK {
			full, res = -2, ownRes
		} else if posN >= 0 {
			full = []int{sTransient, sSystem}[posN]
		}
		if full == -2 {
			w.violate("C03/admission/admitted-without-room/openconn/conn/"+resName[res], "%s admitted although the connection limit %s has no room", desc, limStr(w.cfg.conn))
		} else {
			w.admission("openconn", desc, true, full, res)
		}
	case !admitted && scopesOK:
		if isLimitErr(err) {
			w.admission("openconn", desc, false, -1, -1)
		} else if e.allow == 0 {
			w.violate("C03/subnet-limiter/refused-below-cap", "%s refused by the per-subnet limiter (%q) although the subnet is below its cap (open: %v)", desc, err, w.led.countedIPs())
		} else {
			w.o.Probe("allowlisted-limiter-divergence")
		}
	case !admitted:
		w.checkRefusalError("openconn", desc, err)
		w.refused++
		k := 0
		switch {
		case !ownOK:
			k = 0
		case allowCapable && posA >= 0:
			k = 1 + posA
			w.o.Probe("allowlisted-refused")
		default:
			k = 1 + posN
		}
		w.o.Probe(edgeProbe(k))
	}
	if admitted && n.place == plAllow {
		w.o.Probe("allowlisted-admission")
	}

	ctx := auditCtx{op: "openconn", desc: desc, refused: !admitted, view: []int{sSystem, sTransient}, focus: n}
	if admitted && allowCapable {
		other := plAllow
		if n.place == plAllow {
			other = plNormal
		}
		w.settle(ctx, n, []hypothesis{{
			apply: func(n *node) { n.place = other; n.counted = other == plNormal },
			class: "C03/admission/allowlisted-placement",
			note:  fmt.Sprintf("the connection was charged to the %s scopes although the documentation selects the other set", []string{"normal", "allow-listed"}[other]),
		}})
	} else {
		w.audit(ctx)
	}
	// oracle (f) on the connections the implementation holds open
	if over := w.cfg.groupsOver(w.led.openPlainIPs()); len(over) > 0 {
		w.violate("C03/subnet-cap-exceeded", "after %s: %v", desc, over)
	}
	return n
}

func dirName(in bool) string {
	if in {
		return "in"
	}
	return "out"
}

// SetPeer -----------------------------------------------------------------------------------------

func (w *world) opSetPeer(n *node, p int) {
	desc := fmt.Sprintf("%s.SetPeer(P%d)", n.name, p)
	if n.peer >= 0 {
		err := n.conn.SetPeer(w.peerID(p))
		w.opTag("sp!", err == nil)
		w.o.Logf("%s on an attached connection -> %v", desc, err)
		if err == nil {
			w.violate("C03/reparent-twice-accepted/setpeer", "%s accepted although the connection is already attached to P%d", desc, n.peer)
		}
		w.audit(auditCtx{op: "setpeer", desc: desc, refused: true, reparent: true, focus: n})
		return
	}
	stat := w.led.total(n)
	exp := w.led.expected()
	peerOK, peerRes := room(&w.cfg.lim[peerIdx(p)], exp[peerIdx(p)], stat, always)
	transfer := n.place == plAllow && !w.cfg.peerAllowed(n.ep, p)
	sysOK, transOK := true, true
	var sysRes, transRes int
	if transfer {
		sysOK, sysRes = room(&w.cfg.lim[sSystem], exp[sSystem], stat, always)
		transOK, transRes = room(&w.cfg.lim[sTransient], exp[sTransient], stat, always)
	}

	err := n.conn.SetPeer(w.peerID(p))
	admitted := err == nil
	w.opTag("sp", admitted)
	w.o.Logf("%s [holds %v, allow-listed=%v transfer=%v] -> %v", desc, stat, n.place == plAllow, transfer, errStr(err))

	ctx := auditCtx{op: "setpeer", desc: desc, refused: !admitted, reparent: true, view: []int{sSystem, sTransient, peerIdx(p)}, focus: n}
	if admitted {
		w.changed++
		switch {
		case !peerOK:
			w.admission("setpeer", desc, true, peerIdx(p), peerRes)
		case !sysOK:
			w.admission("setpeer", desc, true, sSystem, sysRes)
		}
		if transfer {
			n.place = plNormal
			w.o.Probe("allowlisted-transfer-ok")
		} else if n.place == plAllow {
			w.o.Probe("allowlisted-setpeer-stays")
		}
		n.peer = p
		w.audit(ctx)
		return
	}
	// refused
	w.o.Probe("refused-setpeer")
	w.refused++
	w.checkRefusalError("setpeer", desc, err)
	if !transfer {
		if peerOK {
			w.admission("setpeer", desc, false, -1, -1)
		}
		w.audit(ctx)
		return
	}
	w.o.Probe("allowlisted-transfer-refused")
	ctx.op = "setpeer-allowlisted"
	if peerOK && sysOK && transOK {
		w.admission("setpeer-allowlisted", desc, false, -1, -1)
	}
	_ = transRes
	// Legal states after the refusal (W3): the previous, allow-listed set; or, when the transfer to
	// the normal scopes had room and only the peer scope refused, the normal unattached set.
	// Known illegal state (finding F5): charged nowhere.
	var alts []hypothesis
	if sysOK && transOK {
		alts = append(alts, hypothesis{apply: func(n *node) { n.place = plNormal; w.o.Probe("allowlisted-transfer-then-peer-refused") },
			note: "the connection was transferred to the normal scopes before the peer scope refused (W3)"})
	}
	alts = append(alts, hypothesis{
		apply: func(n *node) { n.place = plNowhere; n.poisoned = true },
		class: "C03/refused-reparent-inconsistent/setpeer-allowlisted",
		note: fmt.Sprintf("the refused SetPeer released the connection (holding %v) from the allow-listed scopes without charging it anywhere: "+
			"it is still open but constrained by no scope (F5)", stat),
	})
	w.settle(ctx, n, alts)
}

func errStr(err error) string {
	if err == nil {
		return "ok"
	}
	if isLimitErr(err) {
		return "refused (limit): " + err.Error()
	}
	return "refused (other): " + err.Error()
}

// OpenStream --------------------------------------------------------------------------------------

func (w *world) opOpenStream(p int, in bool) *node {
	desc := fmt.Sprintf("OpenStream(P%d, %s)", p, dirName(in))
	delta := streamDelta(in)
	exp := w.led.expected()
	ownOK, ownRes := room(&w.cfg.stream, vec{}, delta, always)
	edges := []int{peerIdx(p), sTransient, sSystem}
	pos, res := w.led.firstFull(exp, edges, delta, always)

	h, err := w.rm.OpenStream(w.peerID(p), dirOf(in))
	admitted := err == nil
	w.opTag("os", admitted)
	w.o.Logf("%s -> %s", desc, errStr(err))
	var n *node
	if admitted {
		n = w.newNode(&node{kind: kStream, base: delta, peer: p, stream: h})
		n.name = fmt.Sprintf("s%d", n.id)
		w.changed++
	}
	switch {
	case admitted && !ownOK:
		w.violate("C03/admission/admitted-without-room/openstream/stream/"+resName[ownRes], "%s admitted although the stream limit %s has no room", desc, limStr(w.cfg.stream))
	case admitted && pos >= 0:
		w.admission("openstream", desc, true, edges[pos], res)
	case !admitted && ownOK && pos < 0:
		w.admission("openstream", desc, false, -1, -1)
	case !admitted:
		w.checkRefusalError("openstream", desc, err)
		w.refused++
		if !ownOK {
			w.o.Probe(edgeProbe(0))
		} else {
			w.o.Probe(edgeProbe(1 + pos))
		}
	}
	w.audit(auditCtx{op: "openstream", desc: desc, refused: !admitted, view: []int{sSystem, sTransient, peerIdx(p)}, focus: n})
	return n
}

// SetProtocol / SetService ------------------------------------------------------------------------

func (w *world) opSetProtocol(n *node, q int) {
	desc := fmt.Sprintf("%s.SetProtocol(proto%d)", n.name, q)
	if n.proto >= 0 {
		err := n.stream.SetProtocol(w.protoID(q))
		w.opTag("sq!", err == nil)
		w.o.Logf("%s on a stream that has a protocol -> %v", desc, err)
		if err == nil {
			w.violate("C03/reparent-twice-accepted/setprotocol", "%s accepted although the stream is already attached to proto%d", desc, n.proto)
		}
		w.audit(auditCtx{op: "setprotocol", desc: desc, refused: true, reparent: true, focus: n})
		return
	}
	stat := w.led.total(n)
	exp := w.led.expected()
	targets := []int{protoIdx(q), protoPeerIdx(q, n.peer)}
	pos, res := w.led.firstFull(exp, targets, stat, always)

	err := n.stream.SetProtocol(w.protoID(q))
	admitted := err == nil
	w.opTag("sq", admitted)
	w.o.Logf("%s [holds %v] -> %s", desc, stat, errStr(err))
	ctx := auditCtx{op: "setprotocol", desc: desc, refused: !admitted, reparent: true, view: []int{sSystem, sTransient, protoIdx(q), peerIdx(n.peer)}, focus: n}
	if admitted {
		w.changed++
		if pos >= 0 {
			w.admission("setprotocol", desc, true, targets[pos], res)
		}
		n.proto = q
	} else {
		w.refused++
		w.o.Probe("refused-setprotocol")
		if pos == 1 {
			w.o.Probe("refused-setprotocol-at-peer-protocol")
		}
		w.checkRefusalError("setprotocol", desc, err)
		if pos < 0 {
			w.admission("setprotocol", desc, false, -1, -1)
		}
	}
	w.audit(ctx)
}

func (w *world) opSetService(n *node, s int) {
	desc := fmt.Sprintf("%s.SetService(svc%d)", n.name, s)
	if n.svc >= 0 || n.proto < 0 {
		err := n.stream.SetService(w.cfg.svcs[s])
		w.opTag("ss!", err == nil)
		w.o.Logf("%s on a stream with service=%d protocol=%d -> %v", desc, n.svc, n.proto, err)
		if err == nil {
			w.violate("C03/reparent-twice-accepted/setservice", "%s accepted although the stream has service %d / protocol %d", desc, n.svc, n.proto)
		}
		w.audit(auditCtx{op: "setservice", desc: desc, refused: true, reparent: true, focus: n})
		return
	}
	stat := w.led.total(n)
	exp := w.led.expected()
	targets := []int{svcIdx(s), svcPeerIdx(s, n.peer)}
	pos, res := w.led.firstFull(exp, targets, stat, always)

	err := n.stream.SetService(w.cfg.svcs[s])
	admitted := err == nil
	w.opTag("ss", admitted)
	w.o.Logf("%s [holds %v] -> %s", desc, stat, errStr(err))
	ctx := auditCtx{op: "setservice", desc: desc, refused: !admitted, reparent: true, view: []int{sSystem, svcIdx(s), protoIdx(n.proto), peerIdx(n.peer)}, focus: n}
	if admitted {
		w.changed++
		if pos >= 0 {
			w.admission("setservice", desc, true, targets[pos], res)
		}
		n.svc = s
	} else {
		w.refused++
		w.o.Probe("refused-setservice")
		if pos == 1 {
			w.o.Probe("refused-setservice-at-peer-service")
		}
		w.checkRefusalError("setservice", desc, err)
		if pos < 0 {
			w.admission("setservice", desc, false, -1, -1)
		}
	}
	w.audit(ctx)
}

// ReserveMemory / ReleaseMemory -------------------------------------------------------------------

func (w *world) viewOf(n *node) []int {
	v := []int{sSystem, sTransient}
	r := root(n)
	switch r.kind {
	case kTop:
		v = append(v, r.sidx)
	case kConn:
		if r.peer >= 0 {
			v = append(v, peerIdx(r.peer))
		}
	case kStream:
		v = append(v, peerIdx(r.peer))
		if r.proto >= 0 {
			v = append(v, protoIdx(r.proto))
		}
		if r.svc >= 0 {
			v = append(v, svcIdx(r.svc))
		}
	}
	return v
}

func (w *world) opReserve(n *node, size int64, prio uint8) {
	desc := fmt.Sprintf("%s.ReserveMemory(%d, prio %d)", n.name, size, prio)
	ch, intact := w.led.chain(n)
	exp := w.led.expected()
	delta := vec{}
	delta[rMem] = size
	pos, res := w.led.firstFull(exp, ch, delta, prio)

	err := w.implReserve(n, size, prio)
	admitted := err == nil
	w.opTag("rm", admitted)
	w.o.Logf("%s -> %s", desc, errStr(err))
	ctx := auditCtx{op: "reservememory", desc: desc, refused: !admitted, view: w.viewOf(n), focus: n}
	if !intact {
		// W7: the scope or one of its owners is closed
		w.o.Probe("reserve-on-closed-scope")
		if admitted {
			w.violate("C03/closed-scope-accepted/reservememory", "%s accepted although the scope (or an owner) is closed", desc)
		}
		w.audit(ctx)
		return
	}
	if admitted {
		if size > 0 {
			w.changed++
		}
		if pos >= 0 {
			w.admission("reservememory", desc, true, ch[pos], res)
		}
		n.mem += size
	} else {
		w.refused++
		w.checkRefusalError("reservememory", desc, err)
		if pos < 0 {
			w.admission("reservememory", desc, false, -1, -1)
		} else {
			depth := 0
			for m := n; m.kind == kSpan; m = m.parent {
				depth++
			}
			if k := pos - depth; k >= 0 {
				w.o.Probe(edgeProbe(k))
			}
			if p2, _ := w.led.firstFull(exp, ch, delta, always); p2 < 0 {
				w.o.Probe("priority-scaled-refusal")
			}
			if uint64(exp[ch[pos]][rMem])+uint64(size) > math.MaxInt64 {
				w.o.Probe("memory-near-overflow-refusal")
			}
		}
	}
	rd := w.audit(ctx)
	if admitted {
		// oracle (b), priority rule at admission: usage after the reservation <= limit*(1+prio)/256
		for _, i := range ch {
			lim := w.led.limitOf(i)
			if lim == nil || unlimitedMem(lim.Memory) || !rd.have[i] {
				continue
			}
			if v := rd.imp[i][rMem]; v > 0 && uint64(v) > memThreshold(lim.Memory, prio) {
				w.violate("C03/bound/priority/"+w.classOfIdx(i), "after %s: %s[%s] holds %d bytes > limit %d * (1+%d)/256 = %d",
					desc, w.classOfIdx(i), w.labelOfIdx(i), v, lim.Memory, prio, memThreshold(lim.Memory, prio))
			}
		}
	}
}

func (w *world) opRelease(n *node, size int64) {
	desc := fmt.Sprintf("%s.ReleaseMemory(%d of %d)", n.name, size, n.mem)
	w.implRelease(n, size)
	w.opTag("rl", true)
	w.o.Logf("%s", desc)
	n.mem -= size
	if size > 0 {
		w.changed++
	}
	w.audit(auditCtx{op: "releasememory", desc: desc, view: w.viewOf(n), focus: n})
}

// BeginSpan / Done --------------------------------------------------------------------------------

func (w *world) opBeginSpan(n *node) *node {
	desc := fmt.Sprintf("%s.BeginSpan()", n.name)
	sp, err := w.implBeginSpan(n)
	w.opTag("bs", err == nil)
	w.o.Logf("%s -> %v", desc, errStr(err))
	var k *node
	if n.closed {
		w.o.Probe("reserve-on-closed-scope")
		if err == nil {
			w.violate("C03/closed-scope-accepted/beginspan", "%s accepted although the scope is closed", desc)
		}
	} else if err != nil {
		w.violate("C03/admission/refused-with-room/beginspan", "%s refused with %q although the scope is open", desc, err)
	}
	if err == nil {
		k = w.newNode(&node{kind: kSpan, parent: n, span: sp})
		k.name = fmt.Sprintf("%s/sp%d", n.name, k.id)
		n.kids = append(n.kids, k)
	}
	w.audit(auditCtx{op: "beginspan", desc: desc, refused: err != nil, focus: n})
	return k
}

func (w *world) opDone(n *node) {
	desc := fmt.Sprintf("%s.Done()", n.name)
	if n.closed {
		desc += " (again)"
		w.o.Probe("done-repeated")
	} else if n.kind == kSpan {
		if _, intact := w.led.chain(n.parent); !intact {
			desc += " (owner closed)"
			w.o.Probe("done-on-closed-owner")
		}
	}
	held := w.led.total(n)
	w.implDone(n)
	w.opTag("dn", true)
	w.o.Logf("%s [held %v]", desc, held)
	if !n.closed {
		n.closed = true
		if !held.isZero() {
			w.changed++
		}
	}
	w.audit(auditCtx{op: "done", desc: desc, view: w.viewOf(n), focus: n})
	if n.kind == kConn {
		if over := w.cfg.groupsOver(w.led.openPlainIPs()); len(over) > 0 {
			w.violate("C03/subnet-cap-exceeded", "after %s: %v", desc, over)
		}
	}
}

// clock / GC ----------------------------------------------------------------------------------------

func (w *world) opAdvance(d time.Duration) {
	before := w.now / time.Minute
	simrt.TimeSleep(d)
	w.now += d
	desc := fmt.Sprintf("clock +%v (t=%v)", d, w.now)
	if w.now/time.Minute > before {
		f, k := w.led.gc()
		desc += fmt.Sprintf(": scope GC ran (forfeited %d direct reservations, %d kept)", f, k)
		for ; f > 0; f-- {
			w.o.Probe("gc-forfeits-direct-reservation")
		}
		for ; k > 0; k-- {
			w.o.Probe("gc-keeps-used-scope")
		}
	}
	w.sig.WriteString("t,")
	w.o.Logf("%s", desc)
	w.audit(auditCtx{op: "gc", desc: desc})
}
