package c03

import (
	"errors"
	"fmt"
	"sort"
	"strings"
	"time"

	"github.com/libp2p/go-libp2p/core/network"
	"github.com/libp2p/go-libp2p/core/peer"
	"github.com/libp2p/go-libp2p/core/protocol"
	rcmgr "github.com/libp2p/go-libp2p/p2p/host/resource-manager"

	"verifsim/harness/common"
)

// shadow keeps, per fixed scope, the last values the manager reported through the exported
// TraceReporter interface. It is the only way to read the allow-listed system/transient scopes
// and the per-peer sub-scopes of services and protocols, which Stat() and View* do not expose
// (the property lists trace events as an observation point). Every scope that Stat() does expose
// is cross-checked against its shadow after every operation; after a disagreement the hidden
// scopes are not read any more in that run (see read).
type shadow struct {
	idx    map[string]int
	val    [nFixed]vec
	events int
}

func newShadow(c *config) *shadow {
	s := &shadow{idx: map[string]int{
		"system": sSystem, "transient": sTransient, "allowlistedSystem": sASystem, "allowlistedTransient": sATransient,
	}}
	for i, sv := range c.svcs {
		s.idx["service:"+sv] = svcIdx(i)
		for p, id := range c.peers {
			s.idx[fmt.Sprintf("service:%s.peer:%s", sv, id)] = svcPeerIdx(i, p)
		}
	}
	for i, q := range c.protos {
		s.idx[fmt.Sprintf("protocol:%s", q)] = protoIdx(i)
		for p, id := range c.peers {
			s.idx[fmt.Sprintf("protocol:%s.peer:%s", q, id)] = protoPeerIdx(i, p)
		}
	}
	for p, id := range c.peers {
		s.idx[fmt.Sprintf("peer:%s", id)] = peerIdx(p)
	}
	return s
}

// ConsumeEvent is called synchronously by the manager, under its trace lock.
func (s *shadow) ConsumeEvent(e rcmgr.TraceEvt) {
	s.events++
	i, ok := s.idx[e.Name]
	if !ok {
		return
	}
	v := &s.val[i]
	switch e.Type {
	case rcmgr.TraceCreateScopeEvt, rcmgr.TraceDestroyScopeEvt:
		*v = vec{}
	case rcmgr.TraceReserveMemoryEvt, rcmgr.TraceBlockReserveMemoryEvt, rcmgr.TraceReleaseMemoryEvt:
		v[rMem] = e.Memory
	case rcmgr.TraceAddStreamEvt, rcmgr.TraceBlockAddStreamEvt, rcmgr.TraceRemoveStreamEvt:
		v[rStreamsIn], v[rStreamsOut] = int64(e.StreamsIn), int64(e.StreamsOut)
	case rcmgr.TraceAddConnEvt, rcmgr.TraceBlockAddConnEvt, rcmgr.TraceRemoveConnEvt:
		v[rConnsIn], v[rConnsOut], v[rFD] = int64(e.ConnsIn), int64(e.ConnsOut), int64(e.FD)
	}
}

// world = the real manager + the ledger + the comparison machinery shared by both strata.
type world struct {
	o   *common.Outcome
	cfg *config
	led *ledger
	rm  network.ResourceManager
	st  rcmgr.ResourceManagerState
	sh  *shadow
	now time.Duration

	nviol   int
	nAudits int

	shadowSuspect bool // the trace shadow disagreed with Stat() on a visible scope
	viewCreating  bool // observe through ViewService/ViewProtocol/ViewPeer too (they create scopes): drawn per run
	changed       int  // operations that changed the ledger
	refused       int  // operations refused for lack of room

	activeClients int // stratum C: clients with at least one admitted operation
	sig           strings.Builder
}

const maxViolationsPerRun = 6

func (w *world) violate(class, format string, a ...any) {
	w.nviol++
	if w.nviol <= maxViolationsPerRun {
		w.o.Violate(class, format, a...)
	}
}

func isLimitErr(err error) bool { return errors.Is(err, network.ErrResourceLimitExceeded) }

func nodeClass(n *node) string {
	switch n.kind {
	case kConn:
		return "conn"
	case kStream:
		return "stream"
	case kSpan:
		return "span"
	}
	return className(n.sidx)
}

func (w *world) classOfIdx(idx int) string {
	if idx < nFixed {
		return className(idx)
	}
	return nodeClass(w.led.nodes[idx-nFixed])
}

func (w *world) labelOfIdx(idx int) string {
	if idx < nFixed {
		return scopeLabel(idx)
	}
	return w.led.nodes[idx-nFixed].name
}

// reading ---------------------------------------------------------------------------------------

type readings struct {
	imp  []vec
	have []bool
}

// viewStat reads one fixed scope through View*.
func (w *world) viewStat(idx int) (vec, bool) {
	var st network.ScopeStat
	switch {
	case idx == sSystem:
		w.rm.ViewSystem(func(s network.ResourceScope) error { st = s.Stat(); return nil })
	case idx == sTransient:
		w.rm.ViewTransient(func(s network.ResourceScope) error { st = s.Stat(); return nil })
	case idx >= sSvc0 && idx < sProto0:
		w.rm.ViewService(w.cfg.svcs[idx-sSvc0], func(s network.ServiceScope) error { st = s.Stat(); return nil })
	case idx >= sProto0 && idx < sPeer0:
		w.rm.ViewProtocol(w.cfg.protos[idx-sProto0], func(s network.ProtocolScope) error { st = s.Stat(); return nil })
	case idx >= sPeer0 && idx < sSvcPeer0:
		w.rm.ViewPeer(w.cfg.peers[idx-sPeer0], func(s network.PeerScope) error { st = s.Stat(); return nil })
	default:
		return vec{}, false
	}
	return statVec(st), true
}

// read collects every reading the public API gives: Stat() for system, transient, services,
// protocols and peers (a scope missing from a map reads zero), View* for the scopes in view,
// the handles of connections, streams and spans, and the trace shadow for the hidden scopes.
//
// focus limits the handle readings to one holder's family (its root and everything below it);
// nil reads every handle ever created, open or closed.
func (w *world) read(view []int, focus *node) readings {
	n := w.led.nScopes()
	rd := readings{imp: make([]vec, n), have: make([]bool, n)}
	st := w.st.Stat()
	rd.imp[sSystem], rd.have[sSystem] = statVec(st.System), true
	rd.imp[sTransient], rd.have[sTransient] = statVec(st.Transient), true
	known := 0
	for i, s := range w.cfg.svcs {
		v, ok := st.Services[s]
		if ok {
			known++
		}
		rd.imp[svcIdx(i)], rd.have[svcIdx(i)] = statVec(v), true
	}
	if len(st.Services) != known {
		var extra []string
		for k := range st.Services {
			extra = append(extra, k)
		}
		sort.Strings(extra)
		w.violate("C03/phantom-scope/service", "Stat().Services has keys outside the universe: %v", extra)
	}
	known = 0
	for i, q := range w.cfg.protos {
		v, ok := st.Protocols[q]
		if ok {
			known++
		}
		rd.imp[protoIdx(i)], rd.have[protoIdx(i)] = statVec(v), true
	}
	if len(st.Protocols) != known {
		var extra []string
		for k := range st.Protocols {
			extra = append(extra, string(k))
		}
		sort.Strings(extra)
		w.violate("C03/phantom-scope/protocol", "Stat().Protocols has keys outside the universe: %v", extra)
	}
	known = 0
	for i, p := range w.cfg.peers {
		v, ok := st.Peers[p]
		if ok {
			known++
		}
		rd.imp[peerIdx(i)], rd.have[peerIdx(i)] = statVec(v), true
	}
	if len(st.Peers) != known {
		var extra []string
		for k := range st.Peers {
			extra = append(extra, k.String())
		}
		sort.Strings(extra)
		w.violate("C03/phantom-scope/peer", "Stat().Peers has keys outside the universe: %v", extra)
	}
	// trace shadow: hidden scopes, and cross-check of the visible ones
	for i := 0; i < nFixed; i++ {
		if rd.have[i] {
			// Stat() is authoritative where it exists. A shadow that disagrees with it (never seen on
			// the unchanged tree; happens when an accounting defect changes a scope without emitting
			// an event) means the hidden scopes cannot be read in this run any more: their readings
			// are dropped from then on, discrepancies on the visible scopes are still reported.
			if rd.imp[i] != w.sh.val[i] && !w.shadowSuspect {
				w.shadowSuspect = true
				w.o.Probe("trace-shadow-dropped")
				w.o.Logf("    (trace shadow of %s = %v but Stat() = %v: hidden scopes are not read any more in this run)", scopeLabel(i), w.sh.val[i], rd.imp[i])
			}
			continue
		}
		if !w.shadowSuspect {
			rd.imp[i], rd.have[i] = w.sh.val[i], true
		}
	}
	for _, i := range view {
		// OBSERVER EFFECT: Stat(), the handles' Stat() and ViewSystem/ViewTransient only take locks and
		// read. ViewService/ViewProtocol/ViewPeer are different: they go through get*Scope, which
		// CREATES the scope when it does not exist (e.g. after GC collected it, or after a SetPeer that
		// was refused before it reached the peer scope) and takes/drops a reference. Read after every
		// operation they would make sure that no workload operation is ever the first to (re)create a
		// service/protocol/peer scope. Whether these three are used for observation is therefore drawn
		// per run (world.viewCreating); without them the same scopes are still read through Stat().
		if i >= sSvc0 && !w.viewCreating {
			continue
		}
		if v, ok := w.viewStat(i); ok && v != rd.imp[i] {
			w.violate("C03/stat-inconsistent/"+className(i), "View(%s).Stat() = %v but ResourceManagerState.Stat() = %v", scopeLabel(i), v, rd.imp[i])
		}
	}
	{
		var fam *node
		if focus != nil {
			fam = root(focus)
		}
		for _, nd := range w.led.nodes {
			if fam != nil && root(nd) != fam {
				continue
			}
			switch nd.kind {
			case kConn:
				rd.imp[nd.sidx], rd.have[nd.sidx] = statVec(nd.conn.Stat()), true
			case kStream:
				rd.imp[nd.sidx], rd.have[nd.sidx] = statVec(nd.stream.Stat()), true
			case kSpan:
				rd.imp[nd.sidx], rd.have[nd.sidx] = statVec(nd.span.Stat()), true
			}
		}
	}
	return rd
}

// comparison ------------------------------------------------------------------------------------

type diff struct {
	idx, res  int
	got, want int64
}

// expectedAll: ledger sums for every scope; a holder's own scope reads the total of the holder.
func (w *world) expectedAll() []vec {
	exp := w.led.expected()
	return exp
}

func (w *world) diffs(rd readings) []diff {
	exp := w.expectedAll()
	var out []diff
	for i := range rd.imp {
		if !rd.have[i] {
			continue
		}
		for r := 0; r < nRes; r++ {
			if rd.imp[i][r] != exp[i][r] {
				out = append(out, diff{i, r, rd.imp[i][r], exp[i][r]})
			}
		}
	}
	return out
}

func (w *world) describe(ds []diff) string {
	var b strings.Builder
	for k, d := range ds {
		if k == 6 {
			fmt.Fprintf(&b, " ... (%d more)", len(ds)-k)
			break
		}
		fmt.Fprintf(&b, " %s[%s].%s reads %d, ledger sum %d;", w.classOfIdx(d.idx), w.labelOfIdx(d.idx), resName[d.res], d.got, d.want)
	}
	return b.String()
}

// absorb adopts the implementation's readings (finding-masking rule, DESIGN 2.7): the discrepancy
// has been reported once; later comparisons are made relative to it.
func (w *world) absorb(ds []diff) {
	for _, d := range ds {
		w.led.off[d.idx][d.res] += d.got - d.want
	}
}

type auditCtx struct {
	op       string // operation kind, used in classes
	desc     string // decoded operation, used in details
	refused  bool
	reparent bool
	final    bool
	view     []int
	focus    *node // the holder operated on (nil: none in particular)
}

// bounds: oracle (b) on the implementation's own readings, independent of the ledger.
func (w *world) bounds(rd readings, desc string) {
	for i := range rd.imp {
		if !rd.have[i] {
			continue
		}
		for r := 0; r < nRes; r++ {
			if rd.imp[i][r] < 0 {
				w.violate(fmt.Sprintf("C03/bound/negative/%s/%s", w.classOfIdx(i), resName[r]), "after %s: %s[%s].%s reads %d", desc, w.classOfIdx(i), w.labelOfIdx(i), resName[r], rd.imp[i][r])
			}
		}
		if lim := w.led.limitOf(i); lim != nil {
			if over, r := overLimit(lim, rd.imp[i]); over {
				w.violate(fmt.Sprintf("C03/bound/over-limit/%s/%s", w.classOfIdx(i), resName[r]), "after %s: %s[%s] reads %v, limit %s", desc, w.classOfIdx(i), w.labelOfIdx(i), rd.imp[i], limStr(*lim))
			}
		}
	}
}

func (w *world) report(ctx auditCtx, ds []diff) {
	if len(ds) == 0 {
		return
	}
	d := ds[0]
	var class string
	switch {
	case ctx.final:
		class = fmt.Sprintf("C03/nonzero-after-last-done/%s/%s", w.classOfIdx(d.idx), resName[d.res])
	case ctx.refused && ctx.reparent:
		class = "C03/refused-reparent-inconsistent/" + ctx.op
	case ctx.refused:
		class = "C03/refusal-changed-state/" + ctx.op
	default:
		class = fmt.Sprintf("C03/ledger-mismatch/%s/%s", w.classOfIdx(d.idx), resName[d.res])
	}
	w.violate(class, "after %s:%s", ctx.desc, w.describe(ds))
	w.absorb(ds)
}

// audit = read everything, check bounds, compare with the ledger, report and absorb.
//
// Stat() (every system/transient/service/protocol/peer scope), the trace shadow (hidden scopes), the
// View* reading of the scopes the operation touched and the handles of the holder family operated on
// are read after every operation; the handles of all other holders (open or closed) after every 2nd
// operation and at the end: each is one more lock acquisition = scheduling point, and they cannot
// change without the operation touching them.
func (w *world) audit(ctx auditCtx) readings {
	rd := w.observe(&ctx)
	w.bounds(rd, ctx.desc)
	w.report(ctx, w.diffs(rd))
	return rd
}

func (w *world) observe(ctx *auditCtx) readings {
	w.nAudits++
	if ctx.final || w.nAudits%2 == 0 {
		return w.read(ctx.view, nil)
	}
	if ctx.focus == nil {
		return w.read(ctx.view, noHolder) // the operation created or touched no holder
	}
	return w.read(ctx.view, ctx.focus)
}

var noHolder = &node{kind: kTop}

// hypothesis: an alternative state of one node that would also be a legal (class "") or a known
// illegal (class != "") answer of the implementation.
type hypothesis struct {
	apply func(n *node)
	class string
	note  string
}

// settle compares the readings with the primary expectation and, if they differ, with each
// alternative; the first that matches is adopted. If none matches the primary expectation stands
// and the discrepancy is reported by class.
func (w *world) settle(ctx auditCtx, n *node, alts []hypothesis) readings {
	rd := w.observe(&ctx)
	w.bounds(rd, ctx.desc)
	ds := w.diffs(rd)
	if len(ds) == 0 {
		return rd
	}
	saved := *n
	for _, h := range alts {
		h.apply(n)
		if len(w.diffs(rd)) == 0 {
			if h.class != "" {
				w.violate(h.class, "after %s: %s; with the documented outcome the readings would differ:%s", ctx.desc, h.note, w.describe(ds))
			} else if h.note != "" {
				w.o.Logf("    (%s)", h.note)
			}
			return rd
		}
		*n = saved
	}
	w.report(ctx, ds)
	return rd
}

// operations on the real manager ------------------------------------------------------------------

func (w *world) peerID(p int) peer.ID      { return w.cfg.peers[p] }
func (w *world) protoID(q int) protocol.ID { return w.cfg.protos[q] }
func dirOf(in bool) network.Direction {
	if in {
		return network.DirInbound
	}
	return network.DirOutbound
}

// viewScope runs f on a top level scope obtained through a fresh View* call (handles of top level
// scopes are never retained: they may be collected).
func (w *world) viewScope(idx int, f func(s network.ResourceScope) error) error {
	switch {
	case idx == sSystem:
		return w.rm.ViewSystem(f)
	case idx == sTransient:
		return w.rm.ViewTransient(f)
	case idx >= sSvc0 && idx < sProto0:
		return w.rm.ViewService(w.cfg.svcs[idx-sSvc0], func(s network.ServiceScope) error { return f(s) })
	case idx >= sProto0 && idx < sPeer0:
		return w.rm.ViewProtocol(w.cfg.protos[idx-sProto0], func(s network.ProtocolScope) error { return f(s) })
	case idx >= sPeer0 && idx < sSvcPeer0:
		return w.rm.ViewPeer(w.cfg.peers[idx-sPeer0], func(s network.PeerScope) error { return f(s) })
	}
	panic("viewScope: not a viewable scope")
}

func (w *world) implReserve(n *node, size int64, prio uint8) error {
	switch n.kind {
	case kTop:
		return w.viewScope(n.sidx, func(s network.ResourceScope) error { return s.ReserveMemory(int(size), prio) })
	case kConn:
		return n.conn.ReserveMemory(int(size), prio)
	case kStream:
		return n.stream.ReserveMemory(int(size), prio)
	}
	return n.span.ReserveMemory(int(size), prio)
}

func (w *world) implRelease(n *node, size int64) {
	switch n.kind {
	case kTop:
		w.viewScope(n.sidx, func(s network.ResourceScope) error { s.ReleaseMemory(int(size)); return nil })
	case kConn:
		n.conn.ReleaseMemory(int(size))
	case kStream:
		n.stream.ReleaseMemory(int(size))
	default:
		n.span.ReleaseMemory(int(size))
	}
}

func (w *world) implBeginSpan(n *node) (sp network.ResourceScopeSpan, err error) {
	switch n.kind {
	case kTop:
		err = w.viewScope(n.sidx, func(s network.ResourceScope) error {
			var e error
			sp, e = s.BeginSpan()
			return e
		})
		return
	case kConn:
		return n.conn.BeginSpan()
	case kStream:
		return n.stream.BeginSpan()
	}
	return n.span.BeginSpan()
}

func (w *world) implDone(n *node) {
	switch n.kind {
	case kConn:
		n.conn.Done()
	case kStream:
		n.stream.Done()
	case kSpan:
		n.span.Done()
	}
}

func connDelta(in, usefd bool) vec {
	var d vec
	if in {
		d[rConnsIn] = 1
	} else {
		d[rConnsOut] = 1
	}
	if usefd {
		d[rFD] = 1
	}
	return d
}

func streamDelta(in bool) vec {
	var d vec
	if in {
		d[rStreamsIn] = 1
	} else {
		d[rStreamsOut] = 1
	}
	return d
}

func edgeProbe(k int) string {
	if k > 6 {
		k = 6
	}
	return fmt.Sprintf("refusal-at-edge-%d", k)
}
