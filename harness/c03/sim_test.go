package c03

import (
	"fmt"
	"net/netip"
	"testing"

	"github.com/libp2p/go-libp2p/core/peer"
	ma "github.com/multiformats/go-multiaddr"
	manet "github.com/multiformats/go-multiaddr/net"
	mh "github.com/multiformats/go-multihash"
)

func TestBuild(t *testing.T) {
	for _, s := range []string{"/ip4/10.0.1.1/tcp/1", "/ip6/::ffff:10.0.1.3/tcp/1", "/ip6/2001:db8:0:1::1/udp/1/quic-v1", "/dns4/example.com/tcp/443", "/ip4/127.0.0.1/tcp/1", "/ip6/::1/tcp/1"} {
		m, err := ma.NewMultiaddr(s)
		if err != nil {
			fmt.Println(s, "ERR", err)
			continue
		}
		ip, err := manet.ToIP(m)
		if err != nil {
			fmt.Println(s, "->", m, "ToIP err", err)
			continue
		}
		a, ok := netip.AddrFromSlice(ip)
		fmt.Println(s, "->", m, len(ip), a, ok, a.Is4(), a.Is6(), a.Is4In6())
	}
	h, _ := mh.Sum([]byte("peer-0"), mh.SHA2_256, -1)
	p := peer.ID(h)
	fmt.Println(p.String())
	q, err := peer.Decode(p.String())
	fmt.Println(q == p, err)
	m, err := ma.NewMultiaddr("/ip4/9.9.9.9/p2p/" + p.String())
	fmt.Println(m, err)
}
