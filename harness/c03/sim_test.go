// C03 — resource manager: usage equals the sum of holders and never exceeds limits.
//
// The real p2p/host/resource-manager package (instrumented: every scope lock is a scheduling
// point) is driven through its exported API only and compared with the reference ledger of
// model.go (read its header first: life cycle, weaker readings W1-W7). Two strata, drawn first:
//
//	S  sequential histories, exact (seq.go, seq_run.go): 20-80 operations; every operation is
//	   predicted from the ledger, executed, and then the full Stat(), the View* reading of the
//	   touched scopes, the connection/stream/span handles and the trace shadow of the scopes the
//	   public Stat API does not expose are compared with the ledger sums.
//	C  concurrent schedules (conc.go): 2-4 client tasks + an auditor under the seeded lock-level
//	   scheduler (optionally with stalls, so that the GC ticker fires in the middle); bounds at
//	   sampled instants, exact conservation at quiescence, zero after the concurrent closing phase.
//
// Observation and set-up (audited for observer effects and warm-up artefacts):
//
//   - Stat(), ConnManagementScope/StreamManagementScope/span .Stat(), ViewSystem and ViewTransient only
//     lock and read. ViewService/ViewProtocol/ViewPeer create the scope if it is missing and take a
//     reference; used as an observation after every operation they would always re-create a collected
//     (or never created) scope before the next workload operation could. Half of the runs (drawn)
//     therefore observe without them; direct reservations and spans on top level scopes, which are
//     workload, still go through View*. Nothing else the harness calls to observe changes state: GC is
//     only triggered by the manager's own ticker, i.e. by workload clock advances / scheduler stalls,
//     and the auditor task of stratum C uses Stat(), handle Stat() and the trace shadow only.
//   - There is no warm-up: the first operation on the fresh manager is drawn like every other one (it
//     may be refused, hit the per-subnet limiter, be an allow-listed fallback, or race with the first
//     operations of other clients in stratum C); limiter tables, peer/protocol/service scopes and the
//     per-peer sub-scope maps are created lazily by whichever workload operation comes first.
//
// Oracles and violation classes (DESIGN.md C03 a-f):
//
//	(a) C03/ledger-mismatch/<scope-class>/<resource>      a reading differs from the ledger sum
//	(b) C03/bound/negative|over-limit/<class>/<resource>, C03/bound/priority/<class>
//	(c) C03/admission/admitted-without-room/<op>/<class>/<resource>, C03/admission/refused-with-room/<op>,
//	    C03/refusal-error-not-sentinel/<op>, C03/refusal-changed-state/<op>,
//	    C03/closed-scope-accepted/<op>, C03/admission/allowlisted-placement
//	(d) C03/refused-reparent-inconsistent/<setpeer|setprotocol|setservice|setpeer-allowlisted>,
//	    C03/reparent-twice-accepted/<op>
//	(e) C03/nonzero-after-last-done/<class>/<resource>, C03/subnet-not-released
//	(f) C03/subnet-cap-exceeded, C03/subnet-limiter/refused-below-cap
//	    C03/panic, C03/deadlock, C03/phantom-scope/<class>, C03/stat-inconsistent/<class>
//
// Known finding F5 (DESIGN.md section 9) has its own class,
// C03/refused-reparent-inconsistent/setpeer-allowlisted: a SetPeer that is refused while an
// allow-listed connection is being transferred to the normal scopes leaves the connection open but
// charged to no scope. When it fires the ledger adopts the implementation's answer for that one
// connection (placement "nowhere"), no further SetPeer is generated for it (what the implementation
// does with such a connection afterwards is follow-on damage of the same defect: a later successful
// SetPeer releases from the transient scope, and its Done from the system scope, what other
// connections hold) and everything else in the run keeps being checked.
//
// SENSITIVITY. Each mutation was applied alone to a copy of the instrumented overlay (never to
// /repo) and run for 20-25 s on 4 workers; "first" is the class reported first, others followed.
// All were caught; none was missed.
//
//	scope.go  reserveMemoryForEdges: undo of the charged prefix removed     -> refusal-changed-state/reservememory, ledger-mismatch/*/memory, bound/negative
//	scope.go  reserveMemoryForEdges: undo stops one edge short                -> refusal-changed-state/reservememory
//	scope.go  addStreamForEdges: undo removed                                 -> refusal-changed-state/openstream
//	scope.go  addConnForEdges: undo removed                                   -> refusal-changed-state/openconn
//	rcmgr.go  SetPeer does not release the transient scope                    -> ledger-mismatch/transient/conns-*
//	rcmgr.go  SetProtocol does not release the transient scope                -> ledger-mismatch/transient/streams-*
//	scope.go  releaseMemoryForEdges skips the first edge                      -> ledger-mismatch/{transient,peer,system}/memory
//	scope.go  doneUnlocked does not release to the last edge                  -> ledger-mismatch/system/*, nonzero-after-last-done/system/*
//	scope.go  doneUnlocked without done guard and without zeroing (double release) -> ledger-mismatch/{conn,stream,span,...}, nonzero-after-last-done
//	scope.go  doneUnlocked never sets the done flag                           -> closed-scope-accepted/{reservememory,beginspan}
//	rcmgr.go  connectionScope.Done without done guard (rmConn twice)          -> subnet-cap-exceeded (needs a second connection in the subnet: ~1 run in 700)
//	rcmgr.go  connectionScope.Done without rmConn                             -> subnet-not-released, subnet-limiter/refused-below-cap
//	rcmgr.go  refused OpenConnection does not give the limiter slot back      -> subnet-not-released, subnet-limiter/refused-below-cap
//	scope.go  checkMemory ignores the addition overflow                       -> admission/admitted-without-room/reservememory/*/memory, bound/negative
//	scope.go  checkMemory without the big.Int path (multiplication overflow)  -> admission/refused-with-room/*
//	scope.go  checkMemory uses prio instead of 1+prio                         -> admission/refused-with-room/reservememory
//	rcmgr.go  refused SetProtocol (peer-protocol scope full) keeps the protocol charge -> refused-reparent-inconsistent/setprotocol
//	rcmgr.go  refused SetService (peer-service scope full) keeps the service charge    -> refused-reparent-inconsistent/setservice
//	scope.go  ReserveForChild keeps the memory when the stream check fails    -> refused-reparent-inconsistent/{setprotocol,setservice}
//	scope.go  span Done does not release to its owner                         -> ledger-mismatch/{system,...}/memory
//	scope.go  span ReleaseMemory does not reach the owner                     -> ledger-mismatch/*/memory
//	scope.go  IsUnused ignores the reference count (GC collects used scopes)  -> ledger-mismatch/{peer,protocol,system}/*
//	scope.go  addConns does not check the total connection limit              -> admission/admitted-without-room/openconn/*, bound/over-limit
//	allowlist.go AllowedPeerAndMultiaddr accepts any listed peer              -> admission/admitted-without-room/setpeer/system/*
//	conn_limiter.go per-subnet comparison off by one                          -> subnet-cap-exceeded
//
// Schedule-dependent mutations (invisible to stratum S, caught by stratum C at quiescence within ~10 s):
//
//	rcmgr.go  gc() does not take the manager lock (collects a scope that OpenStream/SetPeer is attaching to) -> ledger-mismatch/system/{conns,streams}-*
//	rcmgr.go  SetPeer does not take the connection lock (races with ReserveMemory on the connection)      -> ledger-mismatch/{peer,transient}/*
//	scope.go  Done does not take the scope lock (races with reservations/re-parenting of the same holder)  -> ledger-mismatch/*, nonzero-after-last-done/*
//
// Candidate repair of F5 (transferAllowedToStandard reserves in the normal scopes first and swaps
// the edges only on success; SetPeer clears isAllowlisted only after the transfer succeeded), applied
// the same way: 3 400 runs, no violation of any class (so the W3 reading raises no false alarm on the
// repaired code). A first version of the repair that still cleared isAllowlisted before the transfer
// was reported at once (admission/admitted-without-room/setpeer/system, ledger-mismatch/*).
package c03

import (
	"fmt"
	"os"
	"strings"
	"testing"
	"time"

	rcmgr "github.com/libp2p/go-libp2p/p2p/host/resource-manager"

	"verifsim/harness/common"
	"verifsim/simrt"
)

func TestSim(t *testing.T) {
	common.Main(t, common.Harness{Property: "C03", Run: run})
}

func run(t *testing.T, tape *simrt.Tape) *common.Outcome {
	g := simrt.Gen{S: tape.G}
	o := &common.Outcome{}
	concurrent := g.Weighted(3, 1) == 1
	cfg := drawConfig(g)
	if concurrent {
		o.Logf("stratum C (concurrent)")
	} else {
		o.Logf("stratum S (sequential)")
	}
	for _, l := range cfg.describe() {
		o.Logf("%s", l)
	}
	w := &world{o: o, cfg: cfg, led: newLedger(cfg), sh: newShadow(cfg)}
	// Observation mode (see world.read): drawn from the schedule stream, before the scheduler uses it,
	// so that workload tapes (G) keep their meaning. 0 = also observe through the scope-creating View* calls.
	w.viewCreating = tape.S.Draw(2) == 0
	if !w.viewCreating {
		o.Probe("observation-without-creating-views")
		o.Logf("observation: Stat(), handles, trace, ViewSystem/ViewTransient only (no ViewService/ViewProtocol/ViewPeer)")
	}
	var plan *cPlan
	stall := 0
	if concurrent {
		plan = drawPlan(g, cfg)
		stall = plan.stall
	}
	finished := false
	res := simrt.Run(t, simrt.Config{StallPermille: stall, MaxSteps: 2000000, IdleLimit: time.Hour, NoTrace: !concurrent}, tape.S, func() {
		rm, err := cfg.build(w.sh)
		if err != nil {
			o.Trouble = "NewResourceManager: " + err.Error()
			return
		}
		w.rm = rm
		w.st = rm.(rcmgr.ResourceManagerState)
		defer rm.Close()
		if concurrent {
			runConcurrent(w, g, plan)
		} else {
			runSequential(w, g)
		}
		finished = true
	})
	o.Sched = res
	o.Virtual = res.Virtual
	switch {
	case res.Panic != "":
		o.Violate("C03/panic", "%s", firstLines(res.Panic, 14))
	case res.StepLimit:
		o.Trouble = "step limit"
	case res.Stuck || (!finished && o.Trouble == ""):
		o.Violate("C03/deadlock", "run did not finish: stuck=%v residue=%v", res.Stuck, res.Residue)
	case len(res.Residue) > 0 && o.Trouble == "":
		o.Trouble = fmt.Sprintf("goroutines left after Close: %v", res.Residue)
	}
	o.Sig = w.sig.String()
	if os.Getenv("C03_TRACE") != "" { // debugging aid: decoded trace of every run on stdout
		fmt.Printf("==== run: %d violations, trouble=%q steps=%d\n", len(o.Violations), o.Trouble, res.Steps)
		for _, l := range o.Trace {
			fmt.Println(l)
		}
	}
	if concurrent {
		o.Nontrivial = w.changed >= 2 && w.activeClients >= 2
	} else {
		o.Nontrivial = w.changed >= 2 && w.refused >= 1
	}
	return o
}

func firstLines(s string, n int) string {
	l := strings.Split(s, "\n")
	if len(l) > n {
		l = l[:n]
	}
	return strings.Join(l, " | ")
}
