package c03

import (
	"fmt"
	"time"

	"verifsim/simrt"
	"verifsim/simsync"
)

// Stratum C: 2-4 client tasks execute operation lists drawn beforehand against the instrumented
// manager; the scheduler interleaves them at every scope lock (local charge, each edge, each
// undo, the trace lock, the manager lock taken by GC and View*). Only statements that hold for
// every interleaving are asserted (HARNESS_GUIDE rule 2):
//
//   - an auditor task samples Stat() and the open handles at arbitrary points: 0 <= usage <= limit
//     for every scope at every sampled instant (oracle b);
//   - at quiescence (all clients joined) every reading equals the ledger sum exactly (a), the
//     per-subnet caps hold (f); after the closing phase everything reads zero and subnets re-admit (e).
//
// The ledger at quiescence is determined by the per-operation outcomes alone: a holder's
// constraint set is fixed by which SetPeer/SetProtocol/SetService calls succeeded, its amount by
// the admitted reservations minus the executed releases, and a closed holder contributes nothing
// whenever it was closed. Refusals are always legal here (another caller's transient charge).
// What the outcomes do NOT determine is kept out of the workload or enumerated:
//
//   - direct reservations go to system, transient and service scopes only (never collected), so that
//     the ledger does not depend on when GC ran; spans on peer/protocol scopes are fine (a span
//     keeps its owner alive);
//   - whether a connection from an allow-listed endpoint was charged to the normal or to the
//     allow-listed scopes depends on the interleaving and is not visible to the caller: at most one
//     SetPeer is planned per connection and at quiescence every assignment consistent with the
//     outcomes is tried; the readings must match one of them.

const (
	coOpenConn = iota
	coSetPeer
	coOpenStream
	coSetProtocol
	coSetService
	coReserve
	coRelease
	coBeginSpan
	coDone
	coSleep
)

const (
	tConn = iota
	tStream
	tSpan
	tTop
)

type cTarget struct{ kind, idx int }

type cSlot struct {
	kind    int
	client  int  // planned creator
	tried   bool // the creating operation has run (n == nil afterwards: it was refused)
	n       *node
	planned struct{ peer, proto, svc int } // how many Set* calls the plan contains for it
}

type cOp struct {
	kind, client int
	tgt          cTarget // holder operated on; for the creating operations: the slot created
	in, fd       bool
	ep, peer     int
	proto, svc   int
	size         int64
	prio         uint8
	resv         *cOp // coRelease: the reservation (partly) released
	dur          time.Duration
	planReleased int64 // plan time: how much of a reservation later releases take back
	done, ok     bool
	overlapped   bool
	outcome      string
}

type cPlan struct {
	nClients int
	overlap  bool
	slots    [3][]*cSlot
	ops      [][]*cOp // per client
	closers  [][]cTarget
	gaps     []int // auditor: yields between samples
	stall    int
	readmit  int // endpoint for the final re-admission check
}

var concSizes = []int64{1, 64, 1000, 300, 2, 1 << 16, 1 << 30}
var directScopes = []int{sSystem, sTransient, sSvc0, sSvc0 + 1}

func drawPlan(g simrt.Gen, cfg *config) *cPlan {
	p := &cPlan{nClients: g.Range(2, 4), overlap: g.Bool()}
	p.stall = []int{0, 0, 10, 30}[g.Int(4)]
	p.ops = make([][]*cOp, p.nClients)
	p.closers = make([][]cTarget, p.nClients)
	allowConns := 0
	var topSpanOwners []int
	for i := 0; i < nFixed; i++ {
		if i < sSvcPeer0 && i != sASystem && i != sATransient {
			topSpanOwners = append(topSpanOwners, i)
		}
	}
	for c := 0; c < p.nClients; c++ {
		n := g.Range(5, 16)
		for i := 0; i < n; i++ {
			// holders this client may operate on: its own, or anybody's when lists overlap
			usable := func(kind int) []int {
				var out []int
				for k, s := range p.slots[kind] {
					if s.client == c || p.overlap {
						out = append(out, k)
					}
				}
				return out
			}
			conns, streams, spans := usable(tConn), usable(tStream), usable(tSpan)
			var freeConns, noProto, noSvc []int
			for _, k := range conns {
				if p.slots[tConn][k].planned.peer == 0 {
					freeConns = append(freeConns, k)
				}
			}
			for _, k := range streams {
				s := p.slots[tStream][k]
				if s.planned.proto < 2 {
					noProto = append(noProto, k)
				}
				if s.planned.proto > 0 && s.planned.svc < 2 {
					noSvc = append(noSvc, k)
				}
			}
			var myResv []*cOp
			for _, o := range p.ops[c] {
				if o.kind == coReserve && o.planReleased < o.size {
					myResv = append(myResv, o)
				}
			}
			anyHolder := func() cTarget {
				var ts []cTarget
				for _, k := range conns {
					ts = append(ts, cTarget{tConn, k})
				}
				for _, k := range streams {
					ts = append(ts, cTarget{tStream, k})
				}
				for _, k := range spans {
					ts = append(ts, cTarget{tSpan, k})
				}
				if len(ts) == 0 || g.Chance(1, 5) {
					return cTarget{tTop, directScopes[g.Int(len(directScopes))]}
				}
				return ts[g.Int(len(ts))]
			}
			wt := func(cond bool, v int) int {
				if cond {
					return v
				}
				return 0
			}
			op := &cOp{client: c}
			switch g.Weighted(5, wt(len(freeConns) > 0, 4), 5, wt(len(noProto) > 0, 4), wt(len(noSvc) > 0, 3), 7,
				wt(len(myResv) > 0, 3), 2, wt(len(conns)+len(streams)+len(spans) > 0, 2), 1) {
			case 0:
				op.kind, op.in, op.fd, op.ep = coOpenConn, g.Bool(), g.Bool(), g.Int(len(cfg.eps))
				if cfg.eps[op.ep].allow != 0 {
					// the quiescence check enumerates the placements of such connections: keep them few
					if allowConns >= 6 {
						op.ep = 0
					} else {
						allowConns++
					}
				}
				p.slots[tConn] = append(p.slots[tConn], &cSlot{kind: tConn, client: c})
				op.tgt = cTarget{tConn, len(p.slots[tConn]) - 1}
			case 1:
				k := freeConns[g.Int(len(freeConns))]
				op.kind, op.tgt, op.peer = coSetPeer, cTarget{tConn, k}, g.Int(nPeers)
				p.slots[tConn][k].planned.peer++
			case 2:
				op.kind, op.peer, op.in = coOpenStream, g.Int(nPeers), g.Bool()
				p.slots[tStream] = append(p.slots[tStream], &cSlot{kind: tStream, client: c})
				op.tgt = cTarget{tStream, len(p.slots[tStream]) - 1}
			case 3:
				k := noProto[g.Int(len(noProto))]
				op.kind, op.tgt, op.proto = coSetProtocol, cTarget{tStream, k}, g.Int(nProtos)
				p.slots[tStream][k].planned.proto++
			case 4:
				k := noSvc[g.Int(len(noSvc))]
				op.kind, op.tgt, op.svc = coSetService, cTarget{tStream, k}, g.Int(nSvcs)
				p.slots[tStream][k].planned.svc++
			case 5:
				op.kind, op.tgt, op.size, op.prio = coReserve, anyHolder(), concSizes[g.Int(len(concSizes))], drawPrio(g)
			case 6:
				r := myResv[g.Int(len(myResv))]
				op.kind, op.resv, op.tgt = coRelease, r, r.tgt
				op.size = r.size - r.planReleased
				if g.Bool() && op.size > 1 {
					op.size = op.size/2 + 1
				}
				r.planReleased += op.size
			case 7:
				op.kind = coBeginSpan
				owner := anyHolder()
				if owner.kind == tTop {
					owner.idx = topSpanOwners[g.Int(len(topSpanOwners))]
				}
				p.slots[tSpan] = append(p.slots[tSpan], &cSlot{kind: tSpan, client: c})
				op.tgt = owner
				op.ep = len(p.slots[tSpan]) - 1 // the span slot created
			case 8:
				var ts []cTarget
				for _, k := range conns {
					ts = append(ts, cTarget{tConn, k})
				}
				for _, k := range streams {
					ts = append(ts, cTarget{tStream, k})
				}
				for _, k := range spans {
					ts = append(ts, cTarget{tSpan, k})
				}
				op.kind, op.tgt = coDone, ts[g.Int(len(ts))]
			case 9:
				op.kind, op.dur = coSleep, []time.Duration{61 * time.Second, time.Second}[g.Int(2)]
			}
			p.ops[c] = append(p.ops[c], op)
		}
	}
	// closing phase: every holder is closed by its creator, some also by another client at the same time
	for kind := 0; kind < 3; kind++ {
		for k, s := range p.slots[kind] {
			p.closers[s.client] = append(p.closers[s.client], cTarget{kind, k})
			if g.Chance(1, 3) {
				other := g.Int(p.nClients)
				p.closers[other] = append(p.closers[other], cTarget{kind, k})
			}
		}
	}
	for c := range p.closers {
		// drawn order
		l := p.closers[c]
		for i := len(l) - 1; i > 0; i-- {
			j := g.Int(i + 1)
			l[i], l[j] = l[j], l[i]
		}
	}
	for i := 0; i < 24; i++ {
		p.gaps = append(p.gaps, 1+g.Int(40))
	}
	var ips []int
	for i, e := range cfg.eps {
		if e.ip.IsValid() && e.allow == 0 {
			ips = append(ips, i)
		}
	}
	p.readmit = ips[g.Int(len(ips))]
	return p
}

type cWorld struct {
	*world
	p        *cPlan
	inflight int
}

func (cw *cWorld) holder(t cTarget) *node {
	if t.kind == tTop {
		return cw.led.top[t.idx]
	}
	return cw.p.slots[t.kind][t.idx].n
}

func tname(t cTarget) string {
	switch t.kind {
	case tConn:
		return fmt.Sprintf("conn#%d", t.idx)
	case tStream:
		return fmt.Sprintf("stream#%d", t.idx)
	case tSpan:
		return fmt.Sprintf("span#%d", t.idx)
	}
	return "direct(" + scopeLabel(t.idx) + ")"
}

// exec runs one planned operation and records its outcome in the ledger. Between the return of
// the manager call and the ledger update there is no scheduling point.
func (cw *cWorld) exec(op *cOp) {
	w := cw.world
	c := op.client
	n := (*node)(nil)
	if !(op.kind == coOpenConn || op.kind == coOpenStream || op.kind == coSleep) {
		n = cw.holder(op.tgt)
		// another client creates this holder: give it a bounded number of turns
		for k := 0; n == nil && k < 40 && !cw.p.slots[op.tgt.kind][op.tgt.idx].tried; k++ {
			simrt.Yield("client.wait")
			n = cw.holder(op.tgt)
		}
		if n == nil {
			op.outcome = "skipped (holder does not exist)"
			w.o.Logf("[%d] %s %s: %s", c, opName(op), tname(op.tgt), op.outcome)
			return
		}
	}
	cw.inflight++
	if cw.inflight > 1 {
		op.overlapped = true
	}
	defer func() {
		cw.inflight--
	}()
	op.done = true
	switch op.kind {
	case coOpenConn:
		e := &w.cfg.eps[op.ep]
		h, err := w.rm.OpenConnection(dirOf(op.in), op.fd, e.addr)
		op.ok, op.outcome = err == nil, errStr(err)
		if err == nil {
			nn := w.newNode(&node{kind: kConn, base: connDelta(op.in, op.fd), ep: op.ep, peer: -1, conn: h})
			nn.name = fmt.Sprintf("c%d", nn.id)
			nn.counted = e.ip.IsValid()
			nn.ambig = e.ip.IsValid() && e.allow != 0
			cw.p.slots[tConn][op.tgt.idx].n = nn
			w.changed++
		}
		cw.p.slots[tConn][op.tgt.idx].tried = true
		w.o.Logf("[%d] conn#%d = OpenConnection(%s, fd=%v, %s) -> %s", c, op.tgt.idx, dirName(op.in), op.fd, e.name, op.outcome)
	case coSetPeer:
		err := n.conn.SetPeer(w.peerID(op.peer))
		op.ok, op.outcome = err == nil, errStr(err)
		n.spTried = true
		if err == nil {
			n.peer = op.peer
			w.changed++
		} else if n.peer < 0 {
			n.spRefused = append(n.spRefused, op.peer)
		}
		w.o.Logf("[%d] %s(%s).SetPeer(P%d) -> %s", c, tname(op.tgt), n.name, op.peer, op.outcome)
	case coOpenStream:
		h, err := w.rm.OpenStream(w.peerID(op.peer), dirOf(op.in))
		op.ok, op.outcome = err == nil, errStr(err)
		if err == nil {
			nn := w.newNode(&node{kind: kStream, base: streamDelta(op.in), peer: op.peer, stream: h})
			nn.name = fmt.Sprintf("s%d", nn.id)
			cw.p.slots[tStream][op.tgt.idx].n = nn
			w.changed++
		}
		cw.p.slots[tStream][op.tgt.idx].tried = true
		w.o.Logf("[%d] stream#%d = OpenStream(P%d, %s) -> %s", c, op.tgt.idx, op.peer, dirName(op.in), op.outcome)
	case coSetProtocol:
		err := n.stream.SetProtocol(w.protoID(op.proto))
		op.ok, op.outcome = err == nil, errStr(err)
		if err == nil {
			n.proto = op.proto
			w.changed++
		}
		w.o.Logf("[%d] %s(%s).SetProtocol(proto%d) -> %s", c, tname(op.tgt), n.name, op.proto, op.outcome)
	case coSetService:
		err := n.stream.SetService(w.cfg.svcs[op.svc])
		op.ok, op.outcome = err == nil, errStr(err)
		if err == nil {
			n.svc = op.svc
			w.changed++
		}
		w.o.Logf("[%d] %s(%s).SetService(svc%d) -> %s", c, tname(op.tgt), n.name, op.svc, op.outcome)
	case coReserve:
		err := w.implReserve(n, op.size, op.prio)
		op.ok, op.outcome = err == nil, errStr(err)
		if err == nil {
			n.mem += op.size
			w.changed++
		}
		w.o.Logf("[%d] %s(%s).ReserveMemory(%d, prio %d) -> %s", c, tname(op.tgt), n.name, op.size, op.prio, op.outcome)
	case coRelease:
		if !op.resv.ok {
			op.done = false
			op.outcome = "skipped (reservation was refused)"
			w.o.Logf("[%d] %s.ReleaseMemory: %s", c, tname(op.tgt), op.outcome)
			return
		}
		w.implRelease(n, op.size)
		n.mem -= op.size
		op.resv.size -= op.size // what is still held of that reservation
		op.ok, op.outcome = true, "ok"
		w.o.Logf("[%d] %s(%s).ReleaseMemory(%d)", c, tname(op.tgt), n.name, op.size)
	case coBeginSpan:
		sp, err := w.implBeginSpan(n)
		op.ok, op.outcome = err == nil, errStr(err)
		if err == nil {
			k := w.newNode(&node{kind: kSpan, parent: n, span: sp})
			k.name = fmt.Sprintf("%s/sp%d", n.name, k.id)
			n.kids = append(n.kids, k)
			cw.p.slots[tSpan][op.ep].n = k
		}
		cw.p.slots[tSpan][op.ep].tried = true
		w.o.Logf("[%d] span#%d = %s(%s).BeginSpan() -> %s", c, op.ep, tname(op.tgt), n.name, op.outcome)
	case coDone:
		w.implDone(n)
		if n.closed {
			w.o.Probe("done-repeated")
		}
		n.closed = true
		op.ok, op.outcome = true, "ok"
		w.o.Logf("[%d] %s(%s).Done()", c, tname(op.tgt), n.name)
	case coSleep:
		simrt.TimeSleep(op.dur)
		op.ok, op.outcome = true, "ok"
		w.o.Logf("[%d] sleep %v", c, op.dur)
	}
	if op.done && !op.ok && op.overlapped {
		w.o.Probe("concurrent-refusal-with-op-in-flight")
	}
}

func opName(op *cOp) string {
	return []string{"OpenConnection", "SetPeer", "OpenStream", "SetProtocol", "SetService", "ReserveMemory", "ReleaseMemory", "BeginSpan", "Done", "sleep"}[op.kind]
}

// sample is the auditor's check: bounds on whatever Stat() and the handles show right now.
func (cw *cWorld) sample(when string) {
	w := cw.world
	st := w.st.Stat()
	chk := func(idx int, v vec) {
		for r := 0; r < nRes; r++ {
			if v[r] < 0 {
				w.violate(fmt.Sprintf("C03/bound/negative/%s/%s", w.classOfIdx(idx), resName[r]), "%s: %s[%s].%s reads %d", when, w.classOfIdx(idx), w.labelOfIdx(idx), resName[r], v[r])
			}
		}
		if lim := w.led.limitOf(idx); lim != nil {
			if over, r := overLimit(lim, v); over {
				w.violate(fmt.Sprintf("C03/bound/over-limit/%s/%s", w.classOfIdx(idx), resName[r]), "%s: %s[%s] reads %v, limit %s", when, w.classOfIdx(idx), w.labelOfIdx(idx), v, limStr(*lim))
			}
		}
	}
	chk(sSystem, statVec(st.System))
	chk(sTransient, statVec(st.Transient))
	for i, s := range w.cfg.svcs {
		chk(svcIdx(i), statVec(st.Services[s]))
	}
	for i, q := range w.cfg.protos {
		chk(protoIdx(i), statVec(st.Protocols[q]))
	}
	for i, p := range w.cfg.peers {
		chk(peerIdx(i), statVec(st.Peers[p]))
	}
	// hidden scopes: the trace shadow is exact whenever the manager's trace lock is free
	if !w.shadowSuspect {
		for _, i := range []int{sASystem, sATransient} {
			chk(i, w.sh.val[i])
		}
		for i := sSvcPeer0; i < nFixed; i++ {
			chk(i, w.sh.val[i])
		}
	}
	nn := len(w.led.nodes)
	for _, nd := range w.led.nodes[:nn] {
		switch nd.kind {
		case kConn:
			chk(nd.sidx, statVec(nd.conn.Stat()))
		case kStream:
			chk(nd.sidx, statVec(nd.stream.Stat()))
		}
	}
	w.o.Probe("auditor-sample")
}

// phase runs f(client) for every client concurrently, with an auditor, and returns at quiescence.
func (cw *cWorld) phase(name string, f func(c int)) {
	var wg, awg simsync.WaitGroup
	stop := false
	for c := 0; c < cw.p.nClients; c++ {
		wg.Add(1)
		simrt.GoNamed(fmt.Sprintf("%s.client%d", name, c), func() {
			defer wg.Done()
			f(c)
		})
	}
	awg.Add(1)
	simrt.GoNamed(name+".auditor", func() {
		defer awg.Done()
		for _, gap := range cw.p.gaps {
			for k := 0; k < gap && !stop; k++ {
				simrt.Yield("auditor.gap")
			}
			if stop {
				return
			}
			cw.sample("sampled during " + name)
		}
	})
	t0 := simrt.Now()
	wg.Wait()
	stop = true
	awg.Wait()
	simrt.WaitIdle()
	if simrt.Now()/time.Minute > t0/time.Minute {
		cw.o.Probe("gc-during-concurrent-phase") // the manager's GC ticker fired while clients were active
	}
}

// candidates lists the placements of an ambiguous connection that are consistent with the
// outcomes its callers saw. f5 marks the state only reachable through finding F5.
type placement struct {
	place int
	f5    bool
}

func (cw *cWorld) candidates(n *node) []placement {
	var out []placement
	if n.peer >= 0 {
		out = append(out, placement{plNormal, false})
		if cw.cfg.peerAllowed(n.ep, n.peer) {
			out = append(out, placement{plAllow, false})
		}
		return out
	}
	out = append(out, placement{plNormal, false}, placement{plAllow, false})
	for _, p := range n.spRefused {
		if !cw.cfg.peerAllowed(n.ep, p) {
			out = append(out, placement{plNowhere, true})
			break
		}
	}
	return out
}

// quiescent compares every reading with the ledger (oracle a) at an instant where no operation
// is in flight, trying every placement of the ambiguous connections.
func (cw *cWorld) quiescent(ctx auditCtx) {
	w := cw.world
	var view []int
	for i := 0; i < sSvcPeer0; i++ {
		if i != sASystem && i != sATransient {
			view = append(view, i)
		}
	}
	rd := w.read(view, nil)
	w.bounds(rd, ctx.desc)
	var amb []*node
	for _, n := range w.led.nodes {
		if n.kind == kConn && n.ambig && !n.closed {
			amb = append(amb, n)
		}
	}
	if len(amb) > 8 {
		amb = amb[:8]
	}
	cands := make([][]placement, len(amb))
	for i, n := range amb {
		cands[i] = cw.candidates(n)
	}
	if len(amb) > 0 {
		w.o.Probe("allowlisted-placement-enumerated")
	}
	// best assignment seen (fewest discrepancies), reported if none explains the readings
	best, bestN := make([]int, len(amb)), -1
	try := func(allowF5 bool) bool {
		idx := make([]int, len(amb))
		for {
			usesF5 := false
			for i, n := range amb {
				pl := cands[i][idx[i]]
				if pl.f5 {
					usesF5 = true
				}
				n.place = pl.place
			}
			if !usesF5 || allowF5 {
				nd := len(w.diffs(rd))
				if nd == 0 {
					if usesF5 {
						var names []string
						for i, n := range amb {
							if cands[i][idx[i]].f5 {
								names = append(names, n.name)
								n.poisoned = true
							}
						}
						w.violate("C03/refused-reparent-inconsistent/setpeer-allowlisted", "%s: the readings are only explained if %v, whose SetPeer was refused, are open but charged to no scope (F5)", ctx.desc, names)
					}
					return true
				}
				if !usesF5 && (bestN < 0 || nd < bestN) {
					bestN = nd
					copy(best, idx)
				}
			}
			// next combination
			k := 0
			for ; k < len(idx); k++ {
				idx[k]++
				if idx[k] < len(cands[k]) {
					break
				}
				idx[k] = 0
			}
			if k == len(idx) {
				return false
			}
		}
	}
	if !try(false) && !try(true) {
		for i, n := range amb {
			n.place = cands[i][best[i]].place
		}
		w.report(ctx, w.diffs(rd))
	}
	for _, n := range amb {
		n.ambig = false // settled: only closing operations follow
	}
	if over := w.cfg.groupsOver(w.led.openPlainIPs()); len(over) > 0 {
		w.violate("C03/subnet-cap-exceeded", "%s: %v", ctx.desc, over)
	}
}

func runConcurrent(w *world, g simrt.Gen, p *cPlan) {
	cw := &cWorld{world: w, p: p}
	w.o.Logf("clients=%d overlap=%v stall=%d", p.nClients, p.overlap, p.stall)
	simrt.TimeSleep(500 * time.Millisecond)
	cw.phase("run", func(c int) {
		for _, op := range p.ops[c] {
			cw.exec(op)
			simrt.Yield("client.next")
		}
	})
	cw.quiescent(auditCtx{op: "quiescence", desc: "quiescence after the concurrent phase"})
	if w.nviol >= maxViolationsPerRun || w.o.Trouble != "" {
		return
	}
	// signature: outcomes in plan order
	for c := range p.ops {
		for _, op := range p.ops[c] {
			switch {
			case !op.done:
				w.sig.WriteString("_")
			case op.ok:
				w.sig.WriteString("+")
			default:
				w.sig.WriteString("-")
			}
		}
		w.sig.WriteString("|")
	}
	active := 0
	for c := range p.ops {
		for _, op := range p.ops[c] {
			if op.done && op.ok && op.kind != coSleep && op.kind != coDone {
				active++
				break
			}
		}
	}
	w.activeClients = active

	// closing phase: concurrent Done (some holders by two clients at once) and release of what is
	// still held directly
	w.o.Logf("-- closing phase")
	cw.phase("close", func(c int) {
		for _, t := range p.closers[c] {
			n := cw.holder(t)
			if n == nil {
				continue
			}
			if n.closed {
				w.o.Probe("done-repeated")
			}
			cw.inflight++
			if cw.inflight > 1 {
				w.o.Probe("concurrent-done-race")
			}
			w.implDone(n)
			n.closed = true
			cw.inflight--
			w.o.Logf("[%d] %s(%s).Done()", c, tname(t), n.name)
			simrt.Yield("client.next")
		}
		for _, op := range p.ops[c] {
			if op.kind == coReserve && op.ok && op.tgt.kind == tTop && op.size > 0 {
				n := cw.holder(op.tgt)
				w.implRelease(n, op.size)
				n.mem -= op.size
				w.o.Logf("[%d] %s.ReleaseMemory(%d)", c, n.name, op.size)
				op.size = 0
			}
		}
	})
	simrt.TimeSleep(61 * time.Second)
	w.finalChecks(auditCtx{op: "final", desc: "the concurrent closing phase (+ GC)", final: true}, []int{p.readmit})
}
