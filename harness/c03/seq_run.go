package c03

import (
	"fmt"
	"math"
	"net/netip"
	"time"

	"verifsim/simrt"
)

// generator of sequential histories. Every choice is a draw from the G stream; the candidate
// lists are built in node-creation order, so the history is a pure function of the tape and of
// the implementation's answers.

func (w *world) pick(g simrt.Gen, pred func(n *node) bool) []*node {
	var out []*node
	for _, n := range w.led.nodes {
		if pred(n) {
			out = append(out, n)
		}
	}
	return out
}

var prioMenu = []uint8{255, 0, 101, 152, 203, 1, 254, 128}

func drawPrio(g simrt.Gen) uint8 {
	k := g.Weighted(6, 2, 2, 2, 2, 1, 1, 1, 3)
	if k < len(prioMenu) {
		return prioMenu[k]
	}
	return uint8(g.Int(256))
}

var sizeMenu = []int64{1, 64, 1000, 1 << 16, 1 << 30, 0, 3}

// drawSize chooses a reservation size: from a menu, or aimed at the remaining room of one of the
// scopes that constrain n (exactly filling it, overshooting by one, half of it), or huge.
func (w *world) drawSize(g simrt.Gen, n *node, prio uint8) int64 {
	ch, _ := w.led.chain(n)
	exp := w.led.expected()
	var size int64
	switch g.Weighted(4, 3, 3, 2, 1) {
	case 0:
		size = sizeMenu[g.Int(len(sizeMenu))]
	case 1, 2, 3:
		mode := g.Int(3)
		var cands []int
		for _, i := range ch {
			if l := w.led.limitOf(i); l != nil && !unlimitedMem(l.Memory) {
				cands = append(cands, i)
			}
		}
		if len(cands) == 0 {
			size = sizeMenu[g.Int(len(sizeMenu))]
			break
		}
		i := cands[g.Int(len(cands))]
		thr := memThreshold(w.led.limitOf(i).Memory, prio)
		used := uint64(0)
		if exp[i][rMem] > 0 {
			used = uint64(exp[i][rMem])
		}
		var rm uint64
		if thr > used {
			rm = thr - used
		}
		switch mode {
		case 0:
			size = clampSize(rm)
		case 1:
			size = clampSize(rm + 1)
		case 2:
			size = clampSize(rm/2 + 1)
		}
	case 4:
		size = []int64{math.MaxInt64 / 2, math.MaxInt64 - 1, 1 << 57, math.MaxInt64}[g.Int(4)]
	}
	// keep the memory held by all holders together below MaxInt64 whenever the reservation is
	// going to be admitted, so that no (unlimited) scope can wrap around.
	delta := vec{}
	delta[rMem] = size
	if pos, _ := w.led.firstFull(exp, ch, delta, prio); pos < 0 {
		if out := w.led.outstanding(); out+uint64(size) > math.MaxInt64 {
			size = int64(math.MaxInt64 - out)
		}
	}
	return size
}

func clampSize(v uint64) int64 {
	if v > math.MaxInt64 {
		return math.MaxInt64
	}
	return int64(v)
}

const maxNodes = 60

func (w *world) seqStep(g simrt.Gen) {
	open := func(k int) func(n *node) bool {
		return func(n *node) bool { return n.kind == k && !n.closed }
	}
	conns := w.pick(g, open(kConn))
	streams := w.pick(g, open(kStream))
	unattached := w.pick(g, func(n *node) bool { return n.kind == kConn && !n.closed && n.peer < 0 && !n.poisoned })
	noProto := w.pick(g, func(n *node) bool { return n.kind == kStream && !n.closed && n.proto < 0 })
	noSvc := w.pick(g, func(n *node) bool { return n.kind == kStream && !n.closed && n.proto >= 0 && n.svc < 0 })
	live := w.pick(g, func(n *node) bool { return !n.closed })
	holding := w.pick(g, func(n *node) bool { return !n.closed && n.mem > 0 })
	closable := w.pick(g, func(n *node) bool { return n.kind != kTop && !n.closed })
	closed := w.pick(g, func(n *node) bool { return n.kind != kTop && n.closed })
	attached := w.pick(g, func(n *node) bool { return n.kind == kConn && !n.closed && n.peer >= 0 })
	withProto := w.pick(g, func(n *node) bool { return n.kind == kStream && !n.closed && n.proto >= 0 })

	wt := func(cond bool, v int) int {
		if cond {
			return v
		}
		return 0
	}
	room := len(w.led.nodes) < maxNodes
	misuse := len(closed) > 0 || len(attached) > 0 || len(withProto) > 0 || len(noProto) > 0
	switch g.Weighted(
		wt(room, 6),                // 0 OpenConnection
		wt(len(unattached) > 0, 5), // 1 SetPeer
		wt(room, 6),                // 2 OpenStream
		wt(len(noProto) > 0, 7),    // 3 SetProtocol
		wt(len(noSvc) > 0, 7),      // 4 SetService
		9,                          // 5 ReserveMemory
		wt(len(holding) > 0, 4),    // 6 ReleaseMemory
		wt(room, 3),                // 7 BeginSpan
		wt(len(closable) > 0, 4),   // 8 Done
		1,                          // 9 clock
		wt(misuse, 2),              // 10 operations on closed scopes / repeated attachment
	) {
	case 0:
		// endpoints: half of the time the endpoint of an earlier connection (open or closed), so that
		// subnets reach their caps and released slots are taken again
		in, fd, ep := g.Bool(), g.Bool(), g.Int(len(w.cfg.eps))
		if prev := w.pick(g, func(n *node) bool { return n.kind == kConn }); len(prev) > 0 && g.Bool() {
			ep = prev[g.Int(len(prev))].ep
		}
		w.opOpenConn(in, fd, ep)
	case 1:
		w.opSetPeer(unattached[g.Int(len(unattached))], g.Int(nPeers))
	case 2:
		w.opOpenStream(g.Int(nPeers), g.Bool())
	case 3:
		w.opSetProtocol(noProto[g.Int(len(noProto))], g.Int(nProtos))
	case 4:
		w.opSetService(noSvc[g.Int(len(noSvc))], g.Int(nSvcs))
	case 5:
		// holders first: direct reservations in top level scopes are a minority
		var n *node
		withSvc := w.pick(g, func(n *node) bool { return n.kind == kStream && !n.closed && n.svc >= 0 })
		if len(withSvc) > 0 && g.Chance(1, 4) {
			// the longest edge list: peer, protocol-peer, service-peer, protocol, service, system
			n = withSvc[g.Int(len(withSvc))]
		} else if hs := append(append([]*node{}, conns...), streams...); len(hs) > 0 && g.Chance(2, 3) {
			sp := w.pick(g, func(n *node) bool { return n.kind == kSpan && !n.closed })
			hs = append(hs, sp...)
			n = hs[g.Int(len(hs))]
		} else {
			n = live[g.Int(len(live))]
		}
		prio := drawPrio(g)
		w.opReserve(n, w.drawSize(g, n, prio), prio)
	case 6:
		n := holding[g.Int(len(holding))]
		var size int64
		switch g.Int(3) {
		case 0:
			size = n.mem
		case 1:
			size = n.mem/2 + 1
			if size > n.mem {
				size = n.mem
			}
		case 2:
			size = 1
		}
		w.opRelease(n, size)
	case 7:
		w.opBeginSpan(live[g.Int(len(live))])
	case 8:
		w.opDone(closable[g.Int(len(closable))])
	case 9:
		w.opAdvance([]time.Duration{61 * time.Second, time.Second, 30 * time.Second, 150 * time.Second}[g.Int(4)])
	case 10:
		var kinds []int
		if len(closed) > 0 {
			kinds = append(kinds, 0, 1, 2)
		}
		if len(attached) > 0 {
			kinds = append(kinds, 3)
		}
		if len(withProto) > 0 {
			kinds = append(kinds, 4)
		}
		if len(noProto) > 0 {
			kinds = append(kinds, 5)
		}
		switch kinds[g.Int(len(kinds))] {
		case 0:
			w.opDone(closed[g.Int(len(closed))])
		case 1:
			n := closed[g.Int(len(closed))]
			w.opReserve(n, sizeMenu[g.Int(3)], always)
		case 2:
			if room {
				w.opBeginSpan(closed[g.Int(len(closed))])
			}
		case 3:
			w.opSetPeer(attached[g.Int(len(attached))], g.Int(nPeers))
		case 4:
			w.opSetProtocol(withProto[g.Int(len(withProto))], g.Int(nProtos))
		case 5:
			w.opSetService(noProto[g.Int(len(noProto))], g.Int(nSvcs))
		}
	}
}

// finish: oracle (e). Everything is closed and released (in a drawn order, some twice), one more
// GC runs, and then every scope must read zero; a subnet that has been at its cap must admit
// cap connections again.
func (w *world) finish(g simrt.Gen) {
	w.o.Logf("-- closing everything")
	// which plain endpoints have their subnet at its cap right now?
	var capped []int
	for i, e := range w.cfg.eps {
		if e.ip.IsValid() && e.allow == 0 && !w.cfg.limiterAdmits(e.ip, w.led.countedIPs()) {
			capped = append(capped, i)
		}
	}
	for {
		closable := w.pick(g, func(n *node) bool { return n.kind != kTop && !n.closed })
		if len(closable) == 0 {
			break
		}
		n := closable[g.Int(len(closable))]
		w.opDone(n)
		if g.Chance(1, 6) {
			w.opDone(n)
		}
	}
	for _, n := range w.led.nodes {
		if n.kind == kTop && n.mem > 0 {
			w.opRelease(n, n.mem)
		}
	}
	w.opAdvance(61 * time.Second)
	if len(capped) == 0 {
		// still exercise one endpoint with an IP so that the limiter's release path is checked
		var ips []int
		for i, e := range w.cfg.eps {
			if e.ip.IsValid() && e.allow == 0 {
				ips = append(ips, i)
			}
		}
		capped = []int{ips[g.Int(len(ips))]}
	}
	w.finalChecks(auditCtx{op: "final", desc: "the last Done / release (+ GC)", final: true}, capped)
}

// finalChecks: every scope reads zero (oracle e) and the given endpoints' subnets admit as many
// connections as their caps allow, and not one more (oracles e, f).
func (w *world) finalChecks(ctx auditCtx, endpoints []int) {
	rd := w.read([]int{sSystem, sTransient}, nil)
	w.bounds(rd, ctx.desc)
	w.report(ctx, w.diffs(rd))
	for _, epi := range endpoints {
		e := w.cfg.eps[epi]
		want := 0
		var open []netip.Addr
		for want < 9 && w.cfg.limiterAdmits(e.ip, open) {
			open = append(open, e.ip)
			want++
		}
		var held []*node
		limiterRefusals := 0
		for k := 0; k < want; k++ {
			h, err := w.rm.OpenConnection(dirOf(false), false, e.addr)
			if err != nil {
				if !isLimitErr(err) {
					limiterRefusals++
					w.violate("C03/subnet-not-released", "after every connection was closed, connection %d of %d from %s is refused by the per-subnet limiter: %v", k+1, want, e.name, err)
					break
				}
				continue // a scope limit refused: legal, the slot is given back
			}
			n := w.newNode(&node{kind: kConn, base: connDelta(false, false), ep: epi, peer: -1, conn: h, counted: true})
			n.name = fmt.Sprintf("c%d", n.id)
			held = append(held, n)
		}
		if limiterRefusals == 0 {
			w.o.Probe("subnet-readmits-after-release")
		}
		if len(held) == want && want < 9 {
			// at the cap now: one more must be refused (oracle f)
			if h, err := w.rm.OpenConnection(dirOf(false), false, e.addr); err == nil {
				w.violate("C03/subnet-cap-exceeded", "%s: connection %d admitted, cap is %d", e.name, want+1, want)
				h.Done()
			}
		}
		w.o.Logf("re-admission %s: %d of %d admitted and held", e.name, len(held), want)
		for _, n := range held {
			n.conn.Done()
			n.closed = true
		}
	}
	ctx.desc = "the re-admission check"
	w.audit(ctx)
}

func runSequential(w *world, g simrt.Gen) {
	nops := g.Range(20, 80)
	// never land exactly on a GC tick
	simrt.TimeSleep(500 * time.Millisecond)
	w.now = 500 * time.Millisecond
	for i := 0; i < nops && w.nviol < maxViolationsPerRun && w.o.Trouble == ""; i++ {
		w.seqStep(g)
	}
	if w.nviol < maxViolationsPerRun && w.o.Trouble == "" {
		w.finish(g)
	}
}
