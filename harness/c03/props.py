# orchestrator configuration of the C03 check (loaded by tools/props.py)
SPEC = dict(
    pkg="./harness/c03",
    instrument=["./p2p/host/resource-manager"],
    level="exploration",
    level_text=("seeded search over limit configurations x operation histories x schedules of the real (instrumented) "
                "resource manager, compared after every operation with an independent reference ledger written from the "
                "property statement and the interface documentation; the scheduler owns every scope lock, so concurrent "
                "clients are interleaved between the local charge, each edge and each undo. Sampling, not proof."),
    level_note=("trusted: testing/synctest, the overlay rewrite (validated by the package's own tests through "
                "./check overlaytest C03), the reference ledger and its reading of the documentation (weaker readings are "
                "listed at the top of harness/c03/model.go); readings of the allow-listed and per-peer sub-scopes, which the "
                "public Stat API does not expose, come from the exported TraceReporter interface and are cross-checked "
                "against Stat() on every scope that has both"),
    technique=("deterministic simulation: reference-ledger differential testing of generated histories (sequential stratum, "
               "exact admission) and seeded lock-level schedules of 2-4 concurrent clients plus an auditor (concurrent stratum, "
               "conservation at quiescence, bounds at sampled instants)"),
    design_ref="DESIGN.md section 5 (C03), section 9 (F5)",
    quick_s=45, thorough_s=600,
    rule=("one run = one tape: drawn limit table per scope class (system, transient, allow-listed system/transient, "
          "service, service-peer, protocol, protocol-peer, peer, conn, stream; every field from {0,1,2,small,large,max}), "
          "per-subnet caps from {1,2,8}, allow-list (IP and IP+peer), whether the scope-creating ViewService/ViewProtocol/ViewPeer calls are used for observation (half of the runs: no), then either a sequential history of 20-80 operations "
          "(OpenConnection, SetPeer, OpenStream, SetProtocol, SetService, ReserveMemory, ReleaseMemory, BeginSpan, Done, "
          "View*-scope reservations, clock advance/GC) checked against the ledger after every operation, or 2-4 client "
          "tasks executing drawn operation lists over shared holders under a seeded lock-level schedule with an auditor "
          "task; non-trivial = at least 2 operations changed the ledger and at least 1 was refused (sequential) or at "
          "least 2 clients changed the ledger (concurrent); distinct = distinct (scheduler decision hash, sequence of "
          "per-operation outcomes and final readings)"),
    probes=["refusal-at-edge-0", "refusal-at-edge-1", "refusal-at-edge-2", "refusal-at-edge-3", "refusal-at-edge-4",
            "refusal-at-edge-5", "refusal-at-edge-6",
            "refused-setpeer", "refused-setprotocol", "refused-setservice",
            "refused-setprotocol-at-peer-protocol", "refused-setservice-at-peer-service",
            "allowlisted-admission", "allowlisted-refused", "allowlisted-setpeer-stays", "allowlisted-transfer-ok",
            "allowlisted-transfer-refused", "allowlisted-transfer-then-peer-refused", "allowlisted-placement-enumerated",
            "gc-forfeits-direct-reservation", "gc-keeps-used-scope", "gc-during-concurrent-phase",
            "subnet-cap-refusal", "subnet-readmits-after-release",
            "priority-scaled-refusal", "memory-near-overflow-refusal",
            "done-repeated", "done-on-closed-owner", "reserve-on-closed-scope",
            "concurrent-refusal-with-op-in-flight", "concurrent-done-race", "auditor-sample",
            "observation-without-creating-views"],
    real=["p2p/host/resource-manager (whole package, instrumented: sync->simsync, go->simrt.Go, select, map ranges)",
          "x/rate, go-multiaddr, core/network (uninstrumented, no goroutines)"],
    stubs=[],
    assume=["synctest fake clock and quiescence detection (Go 1.25.7)",
            "the overlay rewrite preserves behaviour (checked by ./check overlaytest C03)",
            "connection rate limiting is switched off (WithConnRateLimiters(&rate.Limiter{})): not part of the property"],
)
