// C15 — event bus: exactly once, in order, stateful replay, no deadlock, blocks instead of
// dropping. Lock/channel-level simulation of the real (instrumented) eventbus package.
package c15

import (
	"fmt"
	"sort"
	"strings"
	"testing"
	"time"

	"github.com/libp2p/go-libp2p/core/event"
	"github.com/libp2p/go-libp2p/p2p/host/eventbus"

	"verifsim/harness/common"
	"verifsim/simrt"
	"verifsim/simsync"
)

type EvA struct{ E, G, N int }
type EvB struct{ E, G, N int }

type evKey struct{ typ, e, g, n int }

type emission struct {
	key    evKey
	inv    uint64 // stamp before Emit
	ret    uint64 // stamp after Emit returned (0 = never returned)
	failed bool   // Emit returned an error (emitter closed): not an emission
	dur    time.Duration
}

type emitterSpec struct {
	typ       int // 0 = A, 1 = B
	stateful  bool
	gor       int
	perG      int
	closeMid  bool // Close() while its goroutines may still be emitting
	startStep int
	created   uint64 // stamp after Emitter() returned
	closeInv  uint64 // stamp before Close (0 = closed only at the very end)
}

type subSpec struct {
	kind      int // 0 typed A, 1 typed B, 2 multi [A,B], 3 wildcard
	buf       int
	delay     time.Duration // virtual delay before subscribing
	pace      int           // 0 none, 1 short sleeps, 2 long sleeps (slow consumer path)
	closeAt   int           // close after this many reads (-1 = read until the end)
	extCloser bool          // Close issued by another task

	subInv, subRet     uint64
	closeInv, closeRet uint64
	reads              []readRec
}

type readRec struct {
	key   evKey
	stamp uint64
}

func keyOf(v any) (evKey, bool) {
	switch x := v.(type) {
	case EvA:
		return evKey{0, x.E, x.G, x.N}, true
	case EvB:
		return evKey{1, x.E, x.G, x.N}, true
	}
	return evKey{}, false
}

func subscribes(kind, typ int) bool {
	switch kind {
	case 0:
		return typ == 0
	case 1:
		return typ == 1
	}
	return true
}

func TestSim(t *testing.T) {
	common.Main(t, common.Harness{
		Property: "C15",
		Run:      run,
	})
}

func run(t *testing.T, tape *simrt.Tape) *common.Outcome {
	g := simrt.Gen{S: tape.G}
	o := &common.Outcome{}

	nEm := g.Range(1, 3)
	ems := make([]*emitterSpec, nEm)
	for i := range ems {
		ems[i] = &emitterSpec{typ: g.Int(2), stateful: g.Chance(1, 2), gor: g.Range(1, 2), perG: g.Range(1, 5),
			closeMid: g.Chance(1, 5), startStep: g.Int(3)}
	}
	nSub := g.Range(1, 4)
	subs := make([]*subSpec, nSub)
	delays := []time.Duration{0, 0, time.Millisecond, 2 * time.Second}
	for i := range subs {
		s := &subSpec{kind: g.Int(4), buf: g.Int(5), delay: delays[g.Int(len(delays))], pace: g.Weighted(6, 2, 1), closeAt: -1}
		if g.Chance(1, 2) {
			s.closeAt = g.Int(6)
			s.extCloser = g.Chance(1, 3)
		}
		subs[i] = s
	}
	stall := []int{0, 0, 20, 100}[g.Int(4)]
	o.Logf("emitters=%d subs=%d stall=%d", nEm, nSub, stall)
	for i, e := range ems {
		o.Logf(" em%d typ=%d stateful=%v gor=%d perG=%d closeMid=%v start=%d", i, e.typ, e.stateful, e.gor, e.perG, e.closeMid, e.startStep)
	}
	for i, s := range subs {
		o.Logf(" sub%d kind=%d buf=%d delay=%v pace=%d closeAt=%d ext=%v", i, s.kind, s.buf, s.delay, s.pace, s.closeAt, s.extCloser)
	}

	var emissions []*emission
	finished := false

	res := simrt.Run(t, simrt.Config{StallPermille: stall, MaxSteps: 60000, IdleLimit: time.Hour}, tape.S, func() {
		bus := eventbus.NewBus()
		var wgEm, wgSub, wgEmClose simsync.WaitGroup
		emDone := make(chan struct{})
		subsDone := make(chan struct{})

		// subscribers
		for si, s := range subs {
			wgSub.Add(1)
			simrt.GoNamed(fmt.Sprintf("sub%d", si), func() {
				defer wgSub.Done()
				if s.delay > 0 {
					simrt.TimeSleep(s.delay)
				}
				var typ any
				switch s.kind {
				case 0:
					typ = new(EvA)
				case 1:
					typ = new(EvB)
				case 2:
					typ = []any{new(EvA), new(EvB)}
				case 3:
					typ = event.WildcardSubscription
				}
				s.subInv = simrt.Stamp()
				sub, err := bus.Subscribe(typ, eventbus.BufSize(s.buf))
				s.subRet = simrt.Stamp()
				if err != nil {
					o.Trouble = "subscribe: " + err.Error()
					return
				}
				closed := make(chan struct{}) // closed by whoever called Close, after it returned
				doClose := func() {
					s.closeInv = simrt.Stamp()
					sub.Close()
					s.closeRet = simrt.Stamp()
					close(closed)
				}
				nread := 0
				closing := false
				for {
					if !closing && s.closeAt >= 0 && nread >= s.closeAt {
						closing = true
						if s.extCloser {
							simrt.GoNamed(fmt.Sprintf("closer%d", si), doClose)
						} else {
							doClose()
						}
					}
					// read one event, or learn that there will be none
					rc := simrt.RecvCase(sub.Out())
					var stop <-chan struct{}
					if closing {
						stop = closed
					} else {
						stop = emDone
					}
					sc := simrt.RecvCase(stop)
					var idx int
					if closing && s.kind != 3 {
						// typed subscription: read until the channel is closed
						idx = simrt.Select("sub.read", false, rc)
					} else {
						idx = simrt.Select("sub.read", false, rc, sc)
					}
					if idx == 0 {
						v, ok := rc.Val2()
						if !ok {
							return // channel closed by Close
						}
						k, known := keyOf(v)
						if !known {
							o.Violate("C15/foreign-value", "sub%d read %#v", si, v)
							continue
						}
						s.reads = append(s.reads, readRec{k, simrt.Stamp()})
						nread++
						switch s.pace {
						case 1:
							simrt.TimeSleep(time.Millisecond)
						case 2:
							simrt.TimeSleep(1500 * time.Millisecond)
						}
						continue
					}
					// stop signalled: let pending deliveries (stateful replay) land, then take what is
					// buffered without blocking, then finish
					simrt.WaitIdle()
					for {
						rc := simrt.RecvCase(sub.Out())
						if simrt.Select("sub.drain", true, rc) != 0 {
							break
						}
						v, ok := rc.Val2()
						if !ok {
							return
						}
						if k, known := keyOf(v); known {
							s.reads = append(s.reads, readRec{k, simrt.Stamp()})
						}
					}
					if !closing {
						doClose()
						if s.kind != 3 {
							// typed: the channel must get closed
							for {
								_, ok := simrt.Recv2("sub.final", sub.Out())
								if !ok {
									break
								}
							}
						}
					}
					return
				}
			})
		}

		// emitters
		for ei, e := range ems {
			wgEm.Add(1)
			wgEmClose.Add(1)
			simrt.GoNamed(fmt.Sprintf("em%d", ei), func() {
				defer wgEmClose.Done()
				emitted := false
				defer func() {
					if !emitted {
						wgEm.Done()
					}
				}()
				for i := 0; i < e.startStep; i++ {
					simrt.Yield("em.start")
				}
				var typ any = new(EvA)
				if e.typ == 1 {
					typ = new(EvB)
				}
				var opts []event.EmitterOpt
				if e.stateful {
					opts = append(opts, eventbus.Stateful)
				}
				em, err := bus.Emitter(typ, opts...)
				if err != nil {
					o.Trouble = "emitter: " + err.Error()
					return
				}
				e.created = simrt.Stamp()
				var wg simsync.WaitGroup
				for gi := 0; gi < e.gor; gi++ {
					wg.Add(1)
					simrt.GoNamed(fmt.Sprintf("em%d.%d", ei, gi), func() {
						defer wg.Done()
						for n := 0; n < e.perG; n++ {
							var v any = EvA{ei, gi, n}
							if e.typ == 1 {
								v = EvB{ei, gi, n}
							}
							rec := &emission{key: evKey{e.typ, ei, gi, n}}
							emissions = append(emissions, rec)
							rec.inv = simrt.Stamp()
							t0 := simrt.Now()
							err := em.Emit(v)
							rec.dur = simrt.Now() - t0
							rec.ret = simrt.Stamp()
							rec.failed = err != nil
						}
					})
				}
				if e.closeMid {
					simrt.Yield("em.closeMid")
					e.closeInv = simrt.Stamp()
					em.Close()
					wg.Wait()
					return
				}
				wg.Wait()
				emitted = true
				wgEm.Done()
				// closed at the very end (after all subscribers are done) so that the
				// stateful precondition "emitter stayed open" is decidable from closeInv==0
				simrt.Recv("em.hold", (<-chan struct{})(subsDone))
				em.Close()
			})
		}
		wgEm.Wait()
		close(emDone)
		wgSub.Wait()
		close(subsDone)
		wgEmClose.Wait()
		finished = true
	})
	o.Sched = res
	o.Virtual = res.Virtual
	check(o, res, finished, ems, subs, emissions)
	return o
}

const inf = ^uint64(0)

func check(o *common.Outcome, res simrt.Result, finished bool, ems []*emitterSpec, subs []*subSpec, emissions []*emission) {
	if res.Panic != "" {
		o.Violate("C15/panic", "%s", firstLines(res.Panic, 12))
		return
	}
	if res.StepLimit {
		o.Trouble = "step limit"
		return
	}
	if res.Stuck || !finished {
		class := "C15/deadlock"
		for _, s := range subs {
			if s.kind == 2 && s.subInv != 0 && s.subRet == 0 {
				// a multi-type Subscribe had registered its first type and was still registering the next
				class = "C15/deadlock/multi-subscribe-in-progress"
			}
		}
		o.Violate(class, "run did not finish: stuck=%v residue=%v", res.Stuck, res.Residue)
		return
	}
	if len(res.Residue) > 0 {
		o.Violate("C15/residue", "goroutines left after everything was closed: %v", res.Residue)
	}
	byKey := map[evKey]*emission{}
	for _, e := range emissions {
		byKey[e.key] = e
	}
	// signature and non-triviality
	var sig strings.Builder
	total := 0
	for si, s := range subs {
		fmt.Fprintf(&sig, "s%d:", si)
		for _, r := range s.reads {
			fmt.Fprintf(&sig, "%d.%d.%d.%d,", r.key.typ, r.key.e, r.key.g, r.key.n)
		}
		total += len(s.reads)
		o.Logf("sub%d kind=%d sub=[%d,%d] close=[%d,%d] reads=%v", si, s.kind, s.subInv, s.subRet, s.closeInv, s.closeRet, s.reads)
	}
	for _, e := range emissions {
		o.Logf("emit %v inv=%d ret=%d failed=%v", e.key, e.inv, e.ret, e.failed)
	}
	o.Sig = sig.String()
	for _, e := range emissions {
		if e.failed {
			o.Probe("emit-after-emitter-close")
		}
		if e.dur >= time.Second {
			o.Probe("slow-consumer-timer")
		}
		if e.dur > 0 {
			o.Probe("emit-blocked-on-full-sink")
		}
		for _, s := range subs {
			if s.closeInv > e.inv && s.closeInv < e.ret && subscribes(s.kind, e.key.typ) {
				o.Probe("close-during-emit")
			}
			if s.subInv > e.ret && e.ret != 0 && s.delay > 0 {
				o.Probe("late-subscribe")
			}
		}
	}
	o.Nontrivial = total > 0 && res.Tasks >= 3

	for si, s := range subs {
		if s.subRet == 0 {
			continue
		}
		closeInv, closeRet := s.closeInv, s.closeRet
		if closeInv == 0 {
			closeInv, closeRet = inf, inf
		}
		seen := map[evKey]bool{}
		lastN := map[[3]int]int{}      // stream -> last n read
		firstOfType := map[int]evKey{} // first event of each type read
		firstStamp := map[int]uint64{}
		for ri, r := range s.reads {
			em := byKey[r.key]
			if em == nil || em.failed {
				o.Violate("C15/phantom", "sub%d read %v which was never emitted", si, r.key)
				continue
			}
			if !subscribes(s.kind, r.key.typ) {
				o.Violate("C15/wrong-type", "sub%d (kind %d) read %v", si, s.kind, r.key)
			}
			if seen[r.key] {
				o.Violate("C15/duplicate", "sub%d read %v twice", si, r.key)
				continue
			}
			seen[r.key] = true
			st := [3]int{r.key.typ, r.key.e, r.key.g}
			if ln, ok := lastN[st]; ok && r.key.n < ln {
				o.Violate("C15/order", "sub%d read %v after n=%d of the same emitter goroutine", si, r.key, ln)
			}
			if _, ok := firstOfType[r.key.typ]; !ok {
				firstOfType[r.key.typ] = r.key
				firstStamp[r.key.typ] = r.stamp
			}
			// gap: every event of the stream between the previous one read and this one that was
			// certainly emitted after the subscription existed must have been read, as long as this
			// read happened before Close was invoked (afterwards the bus discards by design).
			if r.stamp < closeInv {
				from := 0
				if ln, ok := lastN[st]; ok {
					from = ln + 1
				}
				for n := from; n < r.key.n; n++ {
					k := evKey{r.key.typ, r.key.e, r.key.g, n}
					if m := byKey[k]; m != nil && !m.failed && m.inv > s.subRet && !seen[k] {
						o.Violate("C15/gap", "sub%d read %v (read #%d) but never %v, emitted after Subscribe returned (inv=%d > %d)", si, r.key, ri, k, m.inv, s.subRet)
					}
				}
			}
			lastN[st] = r.key.n
			if em.inv > closeRet {
				o.Violate("C15/after-close", "sub%d read %v whose Emit was invoked (%d) after Close returned (%d)", si, r.key, em.inv, closeRet)
			}
		}
		// completeness: everything emitted after Subscribe returned and fully before Close was
		// invoked, for a subscriber that reads until then, must have been read — unless it may
		// have been sitting unread in the buffer when Close was invoked. A subscriber that never
		// closes early (closeAt<0) reads until all emitters are done and its buffer is empty.
		if s.closeAt < 0 {
			for _, m := range emissions {
				if m.failed || m.ret == 0 || !subscribes(s.kind, m.key.typ) {
					continue
				}
				if m.inv > s.subRet && !seen[m.key] {
					o.Violate("C15/lost", "sub%d (reads to the end) never read %v emitted at inv=%d after Subscribe returned at %d", si, m.key, m.inv, s.subRet)
				}
			}
		}
		// stateful replay for typed subscriptions
		if s.kind != 3 {
			for typ := 0; typ < 2; typ++ {
				if !subscribes(s.kind, typ) {
					continue
				}
				// P = emissions of typ completed before Subscribe was invoked
				var P []*emission
				for _, m := range emissions {
					if m.key.typ == typ && !m.failed && m.ret != 0 && m.ret < s.subInv {
						P = append(P, m)
					}
				}
				required := false
				for _, x := range ems {
					if x.typ != typ || !x.stateful || x.created == 0 {
						continue
					}
					open := x.closeInv == 0 || x.closeInv > s.subRet
					if !open {
						continue
					}
					for _, m := range P {
						if x.created < m.inv {
							required = true
						}
					}
				}
				f, got := firstOfType[typ]
				if required {
					o.Probe("stateful-replay-required")
					readsEnough := s.closeAt < 0 // only a subscriber that reads to the end must have seen it
					if !got {
						if readsEnough {
							o.Violate("C15/no-replay", "sub%d: stateful type %d had a completed emission before Subscribe and an open stateful emitter, but nothing of the type was read", si, typ)
						}
						continue
					}
					fm := byKey[f]
					if fm.inv > s.subRet && firstStamp[typ] < closeInv {
						o.Violate("C15/no-replay", "sub%d: first event of stateful type %d is %v, emitted after Subscribe returned; the last earlier event was not replayed first", si, typ, f)
						continue
					}
					for _, m := range P {
						if fm.ret != 0 && m.inv > fm.ret {
							o.Violate("C15/stale-replay", "sub%d: replayed %v although %v was emitted entirely after it and before Subscribe", si, f, m.key)
							break
						}
					}
				}
			}
		}
	}
}

func firstLines(s string, n int) string {
	l := strings.Split(s, "\n")
	if len(l) > n {
		l = l[:n]
	}
	return strings.Join(l, " | ")
}

var _ = sort.Strings
