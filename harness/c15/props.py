# orchestrator configuration of the C15 check (loaded by tools/props.py)
SPEC = dict(
    pkg="./harness/c15",
    instrument=["./p2p/host/eventbus"],
    level="exploration",
    level_text=("seeded search over schedules x populations of the real event bus under a scheduler that owns every lock, "
                "channel operation and select; exactly-once/order/gap/replay/after-close oracles over stamped histories; "
                "deadlock = run that cannot finish. Sampling, not proof."),
    level_note=("trusted: testing/synctest, the overlay rewrite (validated by the package's own tests through ./check overlaytest), "
                "the harness oracles; Go's unseedable select/map order is replaced inside the instrumented package"),
    technique="deterministic simulation: seeded lock/channel-level scheduler over instrumented eventbus, history oracles",
    design_ref="DESIGN.md section 5 (C15)",
    quick_s=40, thorough_s=600,
    rule=("one run = one tape: drawn population (1-3 emitters x 1-2 goroutines x 1-5 unique events of 2 types, "
          "stateful or not, optional mid-run Emitter.Close; 1-4 subscribers typed/multi-type/wildcard, buffer 0-4, "
          "late start, three reading paces, Close after k reads by the reader or by another task) and a seeded "
          "schedule that decides every lock acquisition, channel operation and select of the instrumented eventbus "
          "package; non-trivial = at least one event was read and >=3 tasks interleaved; distinct = distinct "
          "(scheduler decision hash, per-subscriber read sequences)"),
    probes=["stateful-replay-required", "emit-blocked-on-full-sink", "close-during-emit", "late-subscribe",
            "emit-after-emitter-close", "slow-consumer-timer"],
    real=["p2p/host/eventbus (instrumented: sync->simsync, go->simrt.Go, channel ops, select, map ranges)"],
    stubs=[],
    assume=["synctest fake clock and quiescence detection (Go 1.25.7)",
            "the overlay rewrite preserves behaviour (checked by ./check overlaytest C15)"],
)
