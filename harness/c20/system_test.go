package c20

// Stratum S "system": the place where the detector meets real dials (swarm_dial.go: FilterAddrs before dialling,
// RecordResult after every dial attempt). One real dialling node D (simhost: real swarm, real TCP and QUIC transports,
// quic-go, all instrumented) with small drawn UDP and IPv6 counters, in a third of the runs a second, read-only swarm R
// that shares D's counters (what config.makeAutoNATV2Host builds), and 2-4 real target nodes listening on TCP and QUIC on
// public-looking and private IPv4/IPv6 addresses. The environment is scripted over virtual time: everything D and R
// send over UDP is dropped for a while (UDP black hole) and/or nothing reaches IPv6 destinations (IPv6 black hole),
// then it heals, possibly several times. D dials a drawn sequence of targets, each time with a drawn address set (the
// target's live addresses and dead ones; private/public x TCP/QUIC x IPv4/IPv6), waits for DialPeer, closes the
// connection, lets the losers of the race finish, and goes on. After the last heal a tail of single-address dials
// follows.
//
// What a dial leaves behind is drawn per run (each with probability 1/3, 0 = the harness cleans up): the dial back-off of
// failed dials (an address the detector lets through may then not be dialled: no record), the peerstore addresses of
// earlier dials of the target (the request concerns the union), and - for a quarter of D's successful dials - the open
// connection (the next DialPeer returns it: no detector request, the counters must not move). The reference is fed only
// by what was then really observed. The tail always starts without open connections and with a single address; it keeps
// the back-off in half of the keepBackoff runs (a tail dial stopped by back-off voids oracle (4) for that run).
// There is no warm-up: the first dial of D (and of R) happens inside a black hole whenever the drawn initial environment
// has one (UDP 1/4, IPv6 1/6). State() - the only call made just to observe - takes the counter's lock and returns the
// field; ConnsToPeer is a read under the swarm's read lock.
//
// What D attempted is read off the wire (QUIC Initial packets seen by the UDP filter, simnet.Dials() for TCP); what it
// refused from the DialError (ErrDialRefusedBlackHole per address); what succeeded from the connection returned. The
// reference is the window semantics of the statement applied to these observations. It is SET-VALUED where the
// observation is incomplete: when DialPeer connected through one address, another address of the same kind that was on
// the wire was recorded as a failure or (if its target was reachable) as a success, one that never reached the wire
// was cancelled before its turn and recorded as a failure or not at all, and their order relative to the winner is
// open. Sampled State() values prune the set; an empty set is a violation.
//
// Oracles (classes C20/system/...):
//
//	unaffected-address-refused/{private,other-kind}   (1) such an address is reported as black-holed, or silently missing
//	                                                  from a failed DialPeer's report without having been dialled
//	refused-without-full-bad-window/<kinds>           (2) refusal although no possible reference window is full and bad
//	no-probe-within-window/<kind>                     (3) N consecutive requests with public addresses of the kind, made while
//	                                                  the detector's State() is Blocked, refused by that detector: an address
//	                                                  only it may act on was refused (its probe would have let it through), or
//	                                                  the request has only UDP+IPv6 addresses and all were refused
//	liveness/no-success-after-heal/<kind>             (4) none of the first N+1 single-address dials after the heal connects
//	liveness/refused-after-recovery/<kind>            (4) a refusal after a tail dial connected while the detector was refusing
//	                                                  (that success clears it), every dial since having connected. A first
//	                                                  success in Probing state does not clear: the window may then fill up
//	                                                  bad and block once more, which the statement allows
//	state-mismatch/<kind>/got-X                       State() of D's counter is not the state of any possible window
//	read-only/passed-without-known-good/<kind>        (5) R dialled / CanDial'ed an address while the detector cannot be Allowed
//	read-only/refused-although-known-good/<kind>      R refused while every applicable detector must be Allowed
//	                                                  (R's requests never enter the reference: any influence on D shows
//	                                                  up in the classes above)

import (
	"context"
	"errors"
	"fmt"
	"net"
	"sort"
	"strings"
	"sync"
	"testing"
	"time"

	"github.com/libp2p/go-libp2p/core/peerstore"
	"github.com/libp2p/go-libp2p/p2p/net/swarm"
	ma "github.com/multiformats/go-multiaddr"

	"verifsim/harness/common"
	"verifsim/simhost"
	"verifsim/simnet"
	"verifsim/simrand"
	"verifsim/simrt"
)

const (
	sysDIP = "1.2.3.1"
	sysRIP = "1.2.3.2"
)

// sAddr is one address of the universe.
type sAddr struct {
	quic, ip6, priv bool
	ip              string
	alive           bool // a target listens there
	m               ma.Multiaddr
	s               string
	key             string // "ip:port" as simnet spells it
}

func (a *sAddr) class() string {
	s := "public-"
	if a.priv {
		s = "private-"
	}
	if a.quic {
		s += "quic"
	} else {
		s += "tcp"
	}
	if a.ip6 {
		s += "6"
	} else {
		s += "4"
	}
	if !a.alive {
		s += "-dead"
	}
	return s
}

func newSAddr(ip string, quic, alive bool) *sAddr {
	a := &sAddr{quic: quic, ip: ip, alive: alive}
	pip := net.ParseIP(ip)
	a.ip6 = pip.To4() == nil
	a.priv = strings.HasPrefix(ip, "10.") || strings.HasPrefix(ip, "fd00:")
	fam := "ip4"
	if a.ip6 {
		fam = "ip6"
	}
	if quic {
		a.m = ma.StringCast(fmt.Sprintf("/%s/%s/udp/4001/quic-v1", fam, ip))
	} else {
		a.m = ma.StringCast(fmt.Sprintf("/%s/%s/tcp/4001", fam, ip))
	}
	a.s = a.m.String()
	a.key = net.JoinHostPort(pip.String(), "4001")
	return a
}

type sTarget struct {
	ips   []string // listening IPs; ips[0] is the node's primary address
	alive []*sAddr
	node  *simhost.Node
}

const (
	sDial = iota
	sEnvUDP
	sEnvV6
	sRODial
	sROCanDial
)

type sOp struct {
	kind     int
	target   int
	add      []*sAddr // drawn: the addresses this operation puts into the peerstore
	settle   time.Duration
	tail     int  // 0 main phase, 1 UDP tail, 2 IPv6 tail
	keepConn bool // drawn: leave the connection open afterwards (the next dial of the target meets it)

	addrs []*sAddr // what the peerstore holds for the target when DialPeer is called (add + what earlier dials left)

	// observations
	t0, t1    time.Duration
	down      [2]bool   // environment during the operation: UDP black hole, IPv6 black hole
	pre, post [2]string // State() of D's counters before the request and after the losers finished
	conn      bool
	winner    string
	dialErr   bool
	errStr    string
	cause     map[string]string // address -> "blackhole" | "backoff" | other error text (first words)
	onWire    map[string]bool   // address strings attempted on the wire by the acting node
	canDial   bool
	reused    bool // DialPeer returned a connection that was already open before the call
	skipped   int  // DialError.Skipped
}

func sysIP(class, i, k int) string {
	switch class {
	case 0:
		return fmt.Sprintf("1.2.%d.%d", 10+i, 1+k)
	case 1:
		return fmt.Sprintf("2600:0:%x::%x", 10+i, 1+k)
	case 2:
		return fmt.Sprintf("10.0.%d.%d", 10+i, 1+k)
	}
	return fmt.Sprintf("fd00:0:%x::%x", 10+i, 1+k)
}

func runSystem(t *testing.T, tape *simrt.Tape, g simrt.Gen, o *common.Outcome) {
	var cfgN, cfgM [2]int
	for k := 0; k < 2; k++ {
		cfgN[k] = g.Range(2, 6)
		cfgM[k] = g.Range(1, cfgN[k])
	}
	withRO := g.Chance(1, 3)
	nT := g.Range(2, 4)
	targets := make([]*sTarget, nT)
	for i := range targets {
		tg := &sTarget{}
		var class int
		switch i {
		case 0:
			class = 0 // a public IPv4 target always exists (UDP tail)
		case 1:
			class = 1 // and a public IPv6 one (IPv6 tail)
		default:
			class = g.Weighted(3, 2, 3, 1)
		}
		tg.ips = []string{sysIP(class, i, 0)}
		if g.Chance(1, 2) {
			c2 := g.Int(4)
			if c2 != class {
				tg.ips = append(tg.ips, sysIP(c2, i, 0))
			}
		}
		for _, ip := range tg.ips {
			tg.alive = append(tg.alive, newSAddr(ip, true, true), newSAddr(ip, false, true))
		}
		targets[i] = tg
	}
	down0 := [2]bool{g.Chance(1, 4), g.Chance(1, 6)}
	settles := []time.Duration{200 * time.Millisecond, time.Second, 6 * time.Second}
	nDead := 0
	drawSet := func(tg *sTarget, ti int) []*sAddr {
		var set []*sAddr
		for _, a := range tg.alive {
			if g.Chance(1, 2) {
				set = append(set, a)
			}
		}
		for k := g.Weighted(3, 3, 1); k > 0; k-- {
			nDead++
			set = append(set, newSAddr(sysIP(g.Weighted(4, 2, 1, 1), 100+ti, nDead), g.Chance(2, 3), false))
		}
		if len(set) == 0 {
			set = append(set, tg.alive[0])
		}
		return set
	}
	nOps := g.Range(4, 22)
	var ops []*sOp
	for i := 0; i < nOps; i++ {
		wRO := 0
		if withRO {
			wRO = 2
		}
		op := &sOp{kind: g.Weighted(12, 3, 1, wRO, wRO), settle: settles[g.Weighted(3, 2, 1)]}
		switch op.kind {
		case sDial, sRODial:
			op.target = g.Int(nT)
			op.add = drawSet(targets[op.target], op.target)
		case sROCanDial:
			op.target = g.Int(nT)
			op.add = drawSet(targets[op.target], op.target)[:1]
		}
		ops = append(ops, op)
	}
	var tailLen [2]int
	for k := 0; k < 2; k++ {
		if !g.Chance(1, 4) {
			tailLen[k] = 2*cfgN[k] + 2
		}
	}
	// What one dial leaves behind for the next one (drawn per run, 0 = the harness cleans up everything):
	//   keepBackoff  the dial back-off of failed (e.g. black-holed) dials is not cleared: an address the detector lets
	//                through may then not be dialled at all (no record; a probe slot spent on it is counted as a probe)
	//   keepAddrs    the peerstore keeps the addresses of earlier dials of the target (up to 9): the request concerns the union
	//   keepConns    a quarter of D's successful dials leave their connection open: the next DialPeer of that target
	//                returns it without any detector request
	keepBackoff := g.Chance(1, 3)
	keepAddrs := g.Chance(1, 3)
	keepConns := g.Chance(1, 3)
	tailKeepsBackoff := keepBackoff && g.Chance(1, 2)
	if keepConns {
		for _, op := range ops {
			if op.kind == sDial {
				op.keepConn = g.Chance(1, 4)
			}
		}
	}
	seed := uint64(cfgN[0]*1000 + cfgN[1]*100 + cfgM[0]*10 + cfgM[1])
	o.Logf("stratum=system udp{N=%d M=%d} ipv6{N=%d M=%d} readOnlySwarm=%v targets=%d ops=%d tail=%v env0{udpDown=%v ipv6Down=%v}",
		cfgN[0], cfgM[0], cfgN[1], cfgM[1], withRO, nT, len(ops), tailLen, down0[0], down0[1])
	o.Logf(" left behind between dials: backoff=%v (tail too: %v) addresses=%v connections=%v", keepBackoff, tailKeepsBackoff, keepAddrs, keepConns)
	for i, tg := range targets {
		o.Logf(" target %d listens on %v (tcp+quic, port 4001)", i, tg.ips)
	}

	restore := simrand.Install(seed)
	defer restore()

	type wireEv struct {
		from, to string
	}
	var wmu sync.Mutex // leaf lock, held for a few instructions
	var wire []wireEv
	down := down0
	var ctr [2]*swarm.BlackHoleSuccessCounter
	var netw *simnet.Net
	finished := false
	var trouble string

	res := simrt.Run(t, simrt.Config{MaxSteps: 6_000_000, IdleLimit: 2 * time.Hour}, tape.S, func() {
		n := simnet.New(tape.S, simnet.Config{})
		netw = n
		n.SetUDPFilter(func(from, to *net.UDPAddr, data []byte) simnet.UDPVerdict {
			fip := from.IP.String()
			if fip != sysDIP && fip != sysRIP {
				return simnet.UDPPass
			}
			wmu.Lock()
			d := down
			// a QUIC v1 Initial packet: long header, packet type 0
			if len(data) > 0 && data[0]&0xb0 == 0x80 {
				wire = append(wire, wireEv{fip, net.JoinHostPort(to.IP.String(), fmt.Sprint(to.Port))})
			}
			wmu.Unlock()
			if d[0] || (d[1] && to.IP.To4() == nil) {
				return simnet.UDPDrop
			}
			return simnet.UDPPass
		})
		var nodes []*simhost.Node
		defer func() {
			for _, nd := range nodes {
				nd.Close()
			}
			simrt.TimeSleep(10 * time.Second)
		}()
		for i, tg := range targets {
			nd, err := simhost.New(n, simhost.Opts{Key: simhost.DetKey(10 + i), IP: tg.ips[0], Port: 4001, QUIC: true})
			if err != nil {
				trouble = "target node: " + err.Error()
				return
			}
			nodes = append(nodes, nd)
			tg.node = nd
			for _, a := range tg.alive[2:] {
				if err := nd.Swarm.Listen(a.m); err != nil {
					trouble = fmt.Sprintf("target %d cannot listen on %s: %v", i, a.s, err)
					return
				}
			}
		}
		for k := 0; k < 2; k++ {
			ctr[k] = &swarm.BlackHoleSuccessCounter{N: cfgN[k], MinSuccesses: cfgM[k], Name: kindName[k]}
		}
		shared := []swarm.Option{swarm.WithUDPBlackHoleSuccessCounter(ctr[0]), swarm.WithIPv6BlackHoleSuccessCounter(ctr[1])}
		D, err := simhost.New(n, simhost.Opts{Key: simhost.DetKey(1), IP: sysDIP, Port: 4001, QUIC: true, SwarmOpts: shared})
		if err != nil {
			trouble = "node D: " + err.Error()
			return
		}
		nodes = append(nodes, D)
		var R *simhost.Node
		if withRO {
			R, err = simhost.New(n, simhost.Opts{Key: simhost.DetKey(2), IP: sysRIP, QUIC: true,
				SwarmOpts: append(append([]swarm.Option{}, shared...), swarm.WithReadOnlyBlackHoleDetector())})
			if err != nil {
				trouble = "node R: " + err.Error()
				return
			}
			nodes = append(nodes, R)
		}
		setV6TCP := func(v bool) {
			// TCP side of the IPv6 black hole: dials to IPv6 destinations hang (the UDP side is the filter above)
			seen := map[string]bool{}
			for _, tg := range targets {
				for _, a := range tg.alive {
					if a.ip6 && !a.quic && !seen[a.key] {
						seen[a.key] = true
						n.SetBlackhole(a.key, v)
					}
				}
			}
			for _, op := range ops {
				for _, a := range op.add {
					if a.ip6 && !a.quic && !seen[a.key] {
						seen[a.key] = true
						n.SetBlackhole(a.key, v)
					}
				}
			}
		}
		accum := map[[2]int][]*sAddr{} // (actor, target) -> addresses the peerstore holds
		if down[1] {
			setV6TCP(true)
		}
		states := func() [2]string { return [2]string{ctr[0].State().String(), ctr[1].State().String()} }

		exec := func(op *sOp) {
			op.t0 = simrt.Now()
			wmu.Lock()
			op.down = down
			wmu.Unlock()
			switch op.kind {
			case sEnvUDP, sEnvV6:
				k := op.kind - sEnvUDP
				wmu.Lock()
				down[k] = !down[k]
				op.down = down
				wmu.Unlock()
				if k == 1 {
					setV6TCP(op.down[1])
				}
				simrt.TimeSleep(100 * time.Millisecond)
				return
			}
			actor, aip := D, sysDIP
			if op.kind == sRODial || op.kind == sROCanDial {
				actor, aip = R, sysRIP
			}
			pid := targets[op.target].node.ID
			op.pre = states()
			wmu.Lock()
			w0 := len(wire)
			wmu.Unlock()
			d0 := len(n.Dials())
			kept := false
			if op.kind == sROCanDial {
				op.addrs = op.add
				op.canDial = actor.Swarm.CanDial(pid, op.addrs[0].m)
			} else {
				ak := [2]int{0, op.target}
				if actor == R {
					ak[0] = 1
				}
				if !keepBackoff || (op.tail > 0 && !tailKeepsBackoff) {
					actor.Swarm.Backoff().Clear(pid)
				}
				if !keepAddrs || op.tail > 0 || len(accum[ak])+len(op.add) > 9 {
					actor.PS.ClearAddrs(pid)
					accum[ak] = nil
				}
				for _, a := range op.add {
					dup := false
					for _, b := range accum[ak] {
						dup = dup || b.s == a.s
					}
					if !dup {
						accum[ak] = append(accum[ak], a)
					}
				}
				op.addrs = append([]*sAddr(nil), accum[ak]...)
				var mas []ma.Multiaddr
				for _, a := range op.add {
					mas = append(mas, a.m)
				}
				actor.PS.AddAddrs(pid, mas, peerstore.PermanentAddrTTL)
				open := map[string]bool{}
				for _, c := range actor.Swarm.ConnsToPeer(pid) {
					open[c.ID()] = true
				}
				conn, err := actor.Swarm.DialPeer(context.Background(), pid)
				if err == nil {
					op.conn = true
					op.winner = conn.RemoteMultiaddr().String()
					op.reused = open[conn.ID()]
					if op.keepConn {
						kept = true
					} else {
						conn.Close()
					}
				} else {
					op.errStr = firstLines(err.Error(), 1)
					var de *swarm.DialError
					if errors.As(err, &de) {
						op.dialErr = true
						op.skipped = de.Skipped
						op.cause = map[string]string{}
						for _, te := range de.DialErrors {
							c := "error"
							switch {
							case errors.Is(te.Cause, swarm.ErrDialRefusedBlackHole):
								c = "blackhole"
							case errors.Is(te.Cause, swarm.ErrDialBackoff):
								c = "backoff"
							}
							op.cause[te.Address.String()] = c
						}
					}
				}
			}
			// let the losers of the race finish (they are cancelled when DialPeer returns; one that completed its
			// handshake first is added to the swarm as a second connection) and the close travel
			simrt.TimeSleep(op.settle)
			if op.kind != sROCanDial && !kept {
				actor.Swarm.ClosePeer(pid)
				simrt.TimeSleep(50 * time.Millisecond)
			}
			simrt.WaitIdle()
			if c := actor.Swarm.ConnsToPeer(pid); len(c) > 0 && !kept {
				trouble = fmt.Sprintf("harness: %d connections to target %d survive ClosePeer", len(c), op.target)
				return
			}
			op.t1 = simrt.Now()
			op.post = states()
			op.onWire = map[string]bool{}
			byKey := map[string][]*sAddr{}
			for _, a := range op.addrs {
				byKey[a.key] = append(byKey[a.key], a)
			}
			wmu.Lock()
			for _, e := range wire[w0:] {
				if e.from != aip {
					continue
				}
				for _, a := range byKey[e.to] {
					if a.quic {
						op.onWire[a.s] = true
					}
				}
			}
			wmu.Unlock()
			for _, d := range n.Dials()[d0:] {
				if d.From != aip {
					continue
				}
				for _, a := range byKey[d.To] {
					if !a.quic {
						op.onWire[a.s] = true
					}
				}
			}
		}
		for _, op := range ops {
			exec(op)
			if trouble != "" {
				return
			}
		}
		// the faults stop; single-address dials of live public targets, one kind at a time
		for k := 0; k < 2; k++ {
			if tailLen[k] == 0 {
				continue
			}
			for kk := 0; kk < 2; kk++ {
				wmu.Lock()
				isDown := down[kk]
				wmu.Unlock()
				if isDown {
					op := &sOp{kind: sEnvUDP + kk}
					exec(op)
					ops = append(ops, op)
				}
			}
			var a *sAddr
			if k == 0 {
				a = targets[0].alive[0] // public quic4
			} else {
				a = targets[1].alive[1] // public tcp6
			}
			ti := k
			// the tail is the controlled experiment: single address, no connection left open from the main phase
			D.Swarm.ClosePeer(targets[ti].node.ID)
			simrt.TimeSleep(50 * time.Millisecond)
			for i := 0; i < tailLen[k]; i++ {
				op := &sOp{kind: sDial, target: ti, add: []*sAddr{a}, settle: settles[0], tail: k + 1}
				exec(op)
				ops = append(ops, op)
			}
		}
		finished = true
	})
	o.Sched, o.Virtual = res, res.Virtual
	if netw != nil {
		for k, v := range netw.FaultsFired() {
			if v > 0 {
				if o.Faults == nil {
					o.Faults = map[string]int{}
				}
				o.Faults[k] += v
			}
		}
	}
	switch {
	case trouble != "":
		o.Trouble = trouble
	case res.Panic != "":
		o.Violate("C20/system/panic", "%s", firstLines(res.Panic, 14))
	case res.StepLimit:
		o.Trouble = "system stratum: step limit"
	case res.Stuck || !finished:
		o.Trouble = fmt.Sprintf("system stratum did not finish: stuck=%v %s", res.Stuck, firstLines(res.Deadlock, 6))
	}
	if o.Trouble != "" || len(o.Violations) > 0 {
		return
	}
	if len(res.Residue) > 0 {
		o.Probe("system-residue")
		o.Logf("residue: %v", res.Residue)
	}
	checkSystem(o, ops, cfgN, cfgM)
}

// ---------------------------------------------------------------------------------------------------
// set-valued reference

type winSet map[string]bool // possible windows since the last clearing ('+' success, '-' failure), at most N long

func winState(w string, n, m int) string {
	if len(w) < n {
		return stP
	}
	if strings.Count(w, "+") >= m {
		return stA
	}
	return stB
}

func winRecord(w string, ok bool, n, m int) string {
	if ok && winState(w, n, m) == stB {
		return ""
	}
	if ok {
		w += "+"
	} else {
		w += "-"
	}
	if len(w) > n {
		w = w[len(w)-n:]
	}
	return w
}

// interleave applies f failures and s successes in every order.
func interleave(from winSet, f, s, n, m int) winSet {
	type st struct {
		w    string
		f, s int
	}
	out := winSet{}
	seen := map[st]bool{}
	var rec func(x st)
	rec = func(x st) {
		if seen[x] {
			return
		}
		seen[x] = true
		if x.f == 0 && x.s == 0 {
			out[x.w] = true
			return
		}
		if x.f > 0 {
			rec(st{winRecord(x.w, false, n, m), x.f - 1, x.s})
		}
		if x.s > 0 {
			rec(st{winRecord(x.w, true, n, m), x.f, x.s - 1})
		}
	}
	for w := range from {
		rec(st{w, f, s})
	}
	return out
}

func (ws winSet) states(n, m int) map[string]bool {
	out := map[string]bool{}
	for w := range ws {
		out[winState(w, n, m)] = true
	}
	return out
}

func (ws winSet) String() string {
	var l []string
	for w := range ws {
		l = append(l, "["+w+"]")
	}
	sort.Strings(l)
	if len(l) > 12 {
		l = append(l[:12], fmt.Sprintf("... %d more", len(l)-12))
	}
	return strings.Join(l, " ")
}

func checkSystem(o *common.Outcome, ops []*sOp, cfgN, cfgM [2]int) {
	poss := [2]winSet{{"": true}, {"": true}}
	var refusedRun [2]int
	var tailFirstOK, tailCount, tailRefused [2]int
	tailFirstOK = [2]int{-1, -1}
	var tailBroken, tailCleared [2]bool
	var sig strings.Builder
	requests, records := 0, 0
	violated := map[string]bool{}
	viol := func(class, format string, a ...any) {
		if !violated[class] {
			violated[class] = true
			o.Violate(class, format, a...)
		}
	}
	applies := func(a *sAddr) (ks []int) {
		if a.priv {
			return nil
		}
		if a.quic {
			ks = append(ks, 0)
		}
		if a.ip6 {
			ks = append(ks, 1)
		}
		return
	}
	kindsOf := func(ks []int) string {
		var s []string
		for _, k := range ks {
			s = append(s, kindName[k])
		}
		return strings.Join(s, "+")
	}
	// sample: the counters' State() must be the state of a possible window; windows it rules out are dropped
	sample := func(when string, op *sOp, got [2]string) bool {
		for k := 0; k < 2; k++ {
			n, m := cfgN[k], cfgM[k]
			keep := winSet{}
			for w := range poss[k] {
				if winState(w, n, m) == got[k] {
					keep[w] = true
				}
			}
			if len(keep) == 0 {
				viol("C20/system/state-mismatch/"+kindName[k]+"/got-"+got[k], "%s operation at %v: D's %s counter State() = %s; the dial outcomes observed on the wire allow only the windows %s (N=%d MinSuccesses=%d)",
					when, op.t0, kindName[k], got[k], poss[k], n, m)
				return false
			}
			poss[k] = keep
		}
		return true
	}
	for i, op := range ops {
		if op.kind == sEnvUDP || op.kind == sEnvV6 {
			o.Logf("%v environment: udp black hole=%v ipv6 black hole=%v", op.t0, op.down[0], op.down[1])
			fmt.Fprintf(&sig, "e%v;", op.down)
			if op.down[0] {
				o.Probe("system-udp-black-hole-on")
			}
			continue
		}
		ro := op.kind == sRODial || op.kind == sROCanDial
		if !sample("before the", op, op.pre) {
			return
		}
		// what was observed per address: 1 on the wire / let through, 2 refused as black-holed, 0 nothing known
		obs := make([]int, len(op.addrs))
		for j, a := range op.addrs {
			switch {
			case op.kind == sROCanDial:
				obs[j] = 2
				if op.canDial {
					obs[j] = 1
				}
			case op.onWire[a.s] || (op.conn && op.winner == a.s):
				obs[j] = 1
			case op.cause[a.s] == "blackhole":
				obs[j] = 2
			case op.dialErr && op.cause[a.s] != "":
				obs[j] = 1 // it has a dial error of its own: the filter let it through
			}
		}
		var line strings.Builder
		who := "D"
		if ro {
			who = "R(read-only)"
		}
		if op.kind == sROCanDial {
			fmt.Fprintf(&line, "%v %s CanDial(target %d) = %v", op.t0, who, op.target, op.canDial)
		} else {
			fmt.Fprintf(&line, "%v %s DialPeer(target %d) conn=%v", op.t0, who, op.target, op.conn)
			if op.conn {
				fmt.Fprintf(&line, " via %s", op.winner)
			} else {
				fmt.Fprintf(&line, " err=%q", op.errStr)
			}
		}
		fmt.Fprintf(&line, " env{udpDown=%v v6Down=%v} State{udp=%s ipv6=%s}->{%s %s}", op.down[0], op.down[1], op.pre[0], op.pre[1], op.post[0], op.post[1])
		for j, a := range op.addrs {
			fmt.Fprintf(&line, " [%s %s %s]", a.s, a.class(), []string{"not-seen", "dialled", "REFUSED"}[obs[j]])
		}
		o.Logf("%s", line.String())
		fmt.Fprintf(&sig, "o%d.%d.%v.%v.%s.%v.%v%v;", op.kind, op.target, op.conn, op.reused, op.winner, obs, op.pre, op.post)
		if op.reused {
			// an open connection was returned: the swarm did not consult the detector and dialled nothing, so the
			// reference does not move and neither may the counters
			o.Logf("   (existing connection returned: no detector request)")
			o.Probe("system-existing-connection-returned")
			if !sample("after the (connection re-using)", op, op.post) {
				return
			}
			continue
		}

		// ---- (1) (2) and the read-only rules, per address
		for j, a := range op.addrs {
			ks := applies(a)
			if op.dialErr && op.skipped == 0 && obs[j] == 0 && len(ks) == 0 && !ro {
				// DialPeer failed and reported on every address it handled; this one is not in the report
				// and never reached the wire
				c := "other-kind"
				if a.priv {
					c = "private"
				}
				viol("C20/system/unaffected-address-refused/"+c, "op %d at %v: %s (%s) is missing from the failed dial: neither dialled nor reported (%s)", i, op.t0, a.s, a.class(), op.errStr)
			}
			switch obs[j] {
			case 2:
				o.Probe("system-address-refused")
				if len(ks) == 0 {
					c := "other-kind"
					if a.priv {
						c = "private"
					}
					viol("C20/system/unaffected-address-refused/"+c, "op %d at %v: %s (%s) was refused as black-holed", i, op.t0, a.s, a.class())
					continue
				}
				justified := false
				for _, k := range ks {
					st := poss[k].states(cfgN[k], cfgM[k])
					if (!ro && st[stB]) || (ro && (st[stB] || st[stP])) {
						justified = true
					}
				}
				if justified {
					if ro {
						o.Probe("system-read-only-refused")
					}
					continue
				}
				if ro {
					viol("C20/system/read-only/refused-although-known-good/"+kindsOf(ks), "op %d at %v: the read-only swarm refused %s (%s) although the shared detectors must be Allowed: udp %s, ipv6 %s",
						i, op.t0, a.s, a.class(), poss[0], poss[1])
				} else {
					viol("C20/system/refused-without-full-bad-window/"+kindsOf(ks), "op %d at %v: %s (%s) refused as black-holed, but no window the observed dial outcomes allow is full with fewer than MinSuccesses successes: udp %s N=%d M=%d, ipv6 %s N=%d M=%d",
						i, op.t0, a.s, a.class(), poss[0], cfgN[0], cfgM[0], poss[1], cfgN[1], cfgM[1])
				}
			case 1:
				if ro && len(ks) > 0 {
					for _, k := range ks {
						st := poss[k].states(cfgN[k], cfgM[k])
						if !st[stA] {
							viol("C20/system/read-only/passed-without-known-good/"+kindName[k], "op %d at %v: the read-only swarm let %s (%s) through while the %s detector cannot be Allowed: %s",
								i, op.t0, a.s, a.class(), kindName[k], poss[k])
						}
					}
					o.Probe("system-read-only-passed")
				}
			}
		}
		if ro {
			// the read-only swarm's requests and dials are not part of the reference: D's counters must not move
			if !sample("after the read-only swarm's turn, ", op, op.post) {
				return
			}
			continue
		}

		// ---- (3) probe rule and the tail (4), per kind
		for k := 0; k < 2; k++ {
			nK, nRef, nPass, nPure, nPureRef := 0, 0, 0, 0, 0
			for j, a := range op.addrs {
				if a.priv || (k == 0 && !a.quic) || (k == 1 && !a.ip6) {
					continue
				}
				nK++
				pure := len(applies(a)) == 1 // only this detector may act on it
				if pure {
					nPure++
				}
				switch obs[j] {
				case 2:
					nRef++
					if pure {
						nPureRef++
					}
				case 1:
					nPass++
				}
			}
			if nK == 0 {
				continue
			}
			requests++
			// The detector refused this request if its own State() was Blocked when the request came and (a) an address
			// that only it may act on was refused - a probe lets every address of the kind through, whatever else the
			// request contains - or (b) the request has only addresses that are both UDP and IPv6 and all were refused
			// (a detector that answers "probe" lets them through irrespective of the other one). A request whose
			// UDP+IPv6 addresses went through while no pure address says otherwise may have been let through by either
			// detector: it ends the run of refusals (weaker reading).
			if op.pre[k] == stB && (nPureRef > 0 || (nPure == 0 && nRef == nK)) {
				refusedRun[k]++
				o.Probe("system-request-refused")
				if refusedRun[k] >= cfgN[k] {
					viol("C20/system/no-probe-within-window/"+kindName[k], "op %d at %v: %d consecutive dial requests with public %s addresses were refused by the %s detector, N=%d", i, op.t0, refusedRun[k], kindName[k], kindName[k], cfgN[k])
				}
			} else {
				refusedRun[k] = 0
				if nPass > 0 && op.pre[k] == stB {
					o.Probe("system-probe-let-through-while-blocked")
					dialled := false
					for _, a := range op.addrs {
						if !a.priv && ((k == 0 && a.quic) || (k == 1 && a.ip6)) && (op.onWire[a.s] || op.winner == a.s || op.cause[a.s] == "error") {
							dialled = true
						}
					}
					if !dialled {
						// the detector let the request through as a probe, the dial back-off then kept every address of
						// the kind from being dialled: no record, the probe slot is gone (observation, not a violation)
						o.Probe("system-probe-slot-spent-on-backoff")
					}
				}
			}
			if op.tail == k+1 {
				tailCount[k]++
				switch {
				case op.conn:
					if tailFirstOK[k] < 0 {
						tailFirstOK[k] = tailCount[k]
					}
					if tailRefused[k] > 0 && !tailCleared[k] {
						// a dial that connects after refusals was a probe that succeeded while blocked: it clears the state
						tailCleared[k] = true
						o.Probe("system-healed-after-refusals")
					}
				case nRef == nK:
					tailRefused[k]++
					if tailCleared[k] && !tailBroken[k] {
						viol("C20/system/liveness/refused-after-recovery/"+kindName[k], "op %d at %v: dial %d of the healed %s tail refused although an earlier tail dial connected while the detector was refusing (which clears it) and every dial since connected", i, op.t0, tailCount[k], kindName[k])
					}
				default:
					// the dial was let through and failed in a healed environment: the premise "dials keep
					// succeeding" is gone
					tailBroken[k] = true
					o.Probe("system-tail-dial-failed")
				}
				if tailFirstOK[k] < 0 && !tailBroken[k] && tailCount[k] >= cfgN[k]+1 {
					viol("C20/system/liveness/no-success-after-heal/"+kindName[k], "op %d at %v: none of the first %d single-address %s dials after the environment healed connected (N=%d): %s", i, op.t0, tailCount[k], kindName[k], cfgN[k], op.errStr)
				}
			}
		}

		// ---- records of this operation, per kind
		for k := 0; k < 2; k++ {
			n, m := cfgN[k], cfgM[k]
			fMin, sMin := 0, 0 // certain records
			type unc struct{ none, f, s bool }
			var us []unc
			for j, a := range op.addrs {
				if a.priv || (k == 0 && !a.quic) || (k == 1 && !a.ip6) {
					continue
				}
				canSucceed := a.alive && !(a.quic && op.down[0]) && !(a.ip6 && op.down[1])
				switch {
				case op.conn && op.winner == a.s:
					sMin++
				case obs[j] == 2:
					// refused: never dialled, nothing recorded
				case op.dialErr:
					switch op.cause[a.s] {
					case "error":
						fMin++ // the transport's Dial returned an error
					case "backoff":
					default:
						us = append(us, unc{none: true, f: true})
					}
				case op.conn && op.onWire[a.s]:
					us = append(us, unc{f: true, s: canSucceed})
				case op.conn:
					us = append(us, unc{none: true, f: true})
				default:
					// DialPeer failed without a DialError (its own deadline): anything
					us = append(us, unc{none: true, f: true, s: canSucceed && op.onWire[a.s]})
				}
			}
			if len(us) > 0 {
				o.Probe("system-uncertain-outcome")
			}
			type fs struct{ f, s int }
			combos := map[fs]bool{{fMin, sMin}: true}
			for _, u := range us {
				next := map[fs]bool{}
				for c := range combos {
					if u.none {
						next[c] = true
					}
					if u.f {
						next[fs{c.f + 1, c.s}] = true
					}
					if u.s {
						next[fs{c.f, c.s + 1}] = true
					}
				}
				combos = next
			}
			np := winSet{}
			for c := range combos {
				for w := range interleave(poss[k], c.f, c.s, n, m) {
					np[w] = true
				}
				if c.f+c.s > 0 {
					records++
				}
			}
			before := poss[k].states(n, m)
			poss[k] = np
			after := np.states(n, m)
			if !before[stB] && after[stB] && len(after) == 1 {
				o.Probe("system-blocked-reached")
			}
			if before[stB] && len(before) == 1 && sMin > 0 {
				o.Probe("system-cleared-by-success")
			}
		}
		if !sample("after the", op, op.post) {
			return
		}
	}
	o.Sig = "S/" + sig.String()
	o.Nontrivial = requests > 0 && records > 0
}
