// C20 — black-hole detection never blocks for good nor touches unaffected addresses.
//
// Four strata, drawn first from the tape (S was appended, so first draws below 23 keep their old meaning). The harness
// is built with the full stack instrumented (props.py: FULL_STACK + QUIC_STACK): in strata B and S every goroutine of
// the swarm is a task of the scheduler; A and X have no goroutines.
//
//	A "counter"    the exported swarm.BlackHoleSuccessCounter driven directly by a generated sequence of
//	               HandleRequest / RecordResult events (N in 1..6, MinSuccesses in 0..N+1 drawn per run, a
//	               three-regime outcome process, optional healed tail) and compared after every event with
//	               refModel, a reference detector written from the property statement.
//	X "exhaustive" same oracles, every sequence over {request, success, failure} up to depth 7+N for the drawn
//	               N in 1..3 and MinSuccesses in 0..N+1 (the quantifier of C20: the state space is finite).
//	B "swarm"      a real swarm.Swarm (pstoremem peerstore, eventbus) configured with
//	               WithUDPBlackHoleSuccessCounter / WithIPv6BlackHoleSuccessCounter (small drawn N, M; one of
//	               them nil in two sub-strata) or WithReadOnlyBlackHoleDetector, and two scripted stub
//	               transport.Transport implementations (TCP, QUIC-v1) registered through AddTransport. The
//	               outcome of a stub dial follows a network process that switches UDP and IPv6 reachability
//	               off and on over virtual time. Fresh peers with a drawn mix of private/public, QUIC/TCP,
//	               IPv4/IPv6 addresses are dialled with DialPeer (sequentially or overlapping in virtual time)
//	               or asked about with CanDial; every address that reaches a transport's Dial is recorded.
//	S "system"     system_test.go: one real dialling node (simhost: real swarm, TCP + QUIC transports, quic-go) with
//	               small UDP / IPv6 counters, optionally a read-only swarm sharing them, 2-4 real targets on simnet;
//	               UDP / IPv6 black holes switched on and off over virtual time; refusals judged against a set-valued
//	               reference window computed from what was seen on the wire. Reading and oracles: see that file.
//
// Reading of the statement used by the oracles (weaker reading wherever it is ambiguous):
//   - "full observation window": N recorded outcomes since the last clearing. State() is Probing before that,
//     afterwards Allowed iff the last N outcomes contain >= MinSuccesses successes, else Blocked. The converse
//     direction (must be Blocked when the window is bad) is not in the C20 statement; it is taken from the doc
//     comment of the exported type ("Requests are blocked if the number of successes in the last N dials is
//     less than MinSuccesses", "N is the minimum number of completed dials required before evaluating").
//     It is only asserted on State(); a request that is let through is never a violation in read/write mode.
//   - "one request in every window-size requests is let through": no N consecutive requests made while the
//     reference is Blocked are all refused. Where in the window the probe falls is not asserted, nor is an
//     upper bound on the probe rate.
//   - "a single success while blocked clears the state": the clearing success is not part of the next window
//     (DESIGN.md: "N further outcomes are needed before blocking again"; type doc: "the filter state is reset").
//   - "let through as a probe" is judged per detector: a detector refused a request if an address that only it may
//     act on (public QUIC/IPv4 for UDP, public TCP/IPv6 for IPv6) was refused - its probe lets every address of its
//     kind through - or if the request has only UDP+IPv6 addresses and all of them were refused. A request whose
//     UDP+IPv6 addresses went through with no pure address saying otherwise ends the run of refusals (weaker reading).
//   - a dial that the swarm cancels because another address connected first counts as a failure (type doc).
//   - bounded liveness: once the network is healed and peers are reachable, no N consecutive single-address
//     dials of the kind fail.
//   - read-only: a public address of a kind is dialled iff every configured detector that applies to it is
//     Allowed; State() only changes through the harness's own direct RecordResult calls (the shared-counter
//     arrangement autonat uses). "Never changes state" includes state that State() does not show: after the
//     read-only swarm is closed the shared counters are driven on with a drawn request/record tail and must
//     answer exactly like twin counters that received the same direct records but never met the swarm.
//
// Determinism of stratum B: requests are issued at whole virtual milliseconds, every stub dial completes at
// (whole ms + a microsecond offset unique to its address), network switches happen at offset 950us, so no two
// detector-relevant events share a virtual instant except a successful dial and the cancellations it causes,
// which are causally ordered after it. The history is assembled after the run, ordered by virtual instant;
// a shared instant is reported as harness trouble.
//
// Sensitivity. Each mutation below was applied alone to a copy of /repo/p2p/net/swarm/black_hole_detector.go (BH)
// or swarm_dial.go (SD) through `go test -c -overlay`, run on 4 workers; every one was reported within 1-9 s
// (5-110 runs), none on the unchanged tree (43 000 runs, 3 of 6 workers with VERIF_SELFTEST=1; ./check selftest
// identical over GOMAXPROCS 1/4/16/2). Classes listed are the ones that fired first. (These runs predate the
// instrumented build; the stub transports now block only at simrt yield points.)
//
//	M1  BH HandleRequest never probes (`|| b.requests%b.N == 0` dropped)   counter/no-probe-within-window, no-probe-within-window/{udp,ipv6},
//	                                                                        liveness/no-success-within-window/{udp,ipv6}
//	M2  BH probe modulo wrong (`requests%(N+1)`)                            counter/no-probe-within-window, no-probe-within-window/{udp,ipv6}
//	M3  BH window not slid (whole `len > N` block removed)                  counter/state-mismatch/got-Allowed-want-Blocked, swarm/state-mismatch/udp/got-Allowed-want-Blocked
//	M3b BH slice not advanced (successes still decremented)                 counter/state-mismatch/got-Blocked-want-Allowed, read-only/refused-although-known-good/udp
//	M4  BH reset on success removed                                         counter/state-mismatch/got-{Allowed,Blocked}-want-Probing, swarm/state-mismatch/...
//	M5  BH private addresses filtered (IsPublicAddr guard dropped)          unaffected-address-removed/private
//	M6  BH read-only RecordResult updates state                             read-only/state-changed/{udp,ipv6}, read-only/refused-although-known-good/...
//	M7  BH MinSuccesses comparison off by one (`>`)                         counter/state-mismatch/got-Blocked-want-Allowed, swarm/state-mismatch/udp/got-Blocked-want-Allowed
//	M8  BH read-only lets unknown (Probing) state through                   read-only/passed-without-known-good/{udp,ipv6}
//	M9  BH IPv6 detector also removes IPv4 addresses                        unaffected-address-removed/other-kind, refused-without-full-bad-window/udp
//	M10 SD swarm never records dial results                                 swarm/state-mismatch/{udp,ipv6}/got-Probing-want-{Blocked,Allowed}
//	M11 BH window evaluated after N-1 outcomes                              counter/state-mismatch/got-Blocked-want-Probing, refused-without-full-bad-window/udp
//	M12 BH successes not decremented when sliding                           counter/state-mismatch/got-Allowed-want-Blocked, swarm/state-mismatch/udp/got-Allowed-want-Blocked
//	M13 BH UDP detector also removes TCP addresses                          unaffected-address-removed/{other-kind,detector-not-configured}, refused-without-full-bad-window/ipv6
//	M14 BH read-only uses HandleRequest (hidden request counter moves)      MISSED by the first version (State() only); caught after the twin-counter
//	                                                                        tail was added: read-only/state-changed/{udp,ipv6}
//	M15 BH reset keeps the old results                                      counter/state-mismatch/got-Blocked-want-Probing, refused-without-full-bad-window/udp
//	M16 SD cancelled dials not recorded (contradicts the type doc only)     swarm/state-mismatch/..., refused-without-full-bad-window/udp
//	M17 BH private addresses count as requests (use up probe slots)         no-probe-within-window/{udp,ipv6}
//	M18 SD RecordResult inverted (`err != nil`)                             refused-without-full-bad-window/udp, swarm/state-mismatch/...
//	M19 BH dials of private addresses recorded                              refused-without-full-bad-window/{udp,ipv6}, swarm/state-mismatch/...
//
// Stratum S alone (C20_ONLY=system, private overlay of the instrumented tree, 4 workers, first catch after 7-40 s):
//
//	S1  SD RecordResult inverted (`err != nil`)                 system/state-mismatch/udp/got-{Allowed,Blocked,Probing}
//	S2  SD RecordResult skipped for successes                   system/state-mismatch/udp/got-{Blocked,Probing}
//	S3  SD FilterAddrs result ignored                           system/read-only/passed-without-known-good/{udp,ipv6} (read-only swarm only;
//	                                                            in read/write mode dialling a black-holed address is not a violation)
//	S4  SD RecordResult skipped for failures                    system/state-mismatch/udp/got-Probing
//	S5  BH never probes                                         system/no-probe-within-window/{udp,ipv6}, system/liveness/no-success-after-heal/{udp,ipv6}
//	S6  BH reset on success removed                             system/state-mismatch/udp/got-{Allowed,Blocked}
//	S7  BH private addresses filtered                           system/unaffected-address-refused/private
//	S8  BH read-only lets unknown state through                 system/read-only/passed-without-known-good/{udp,ipv6}
//	S9  BH read-only RecordResult updates state                 system/state-mismatch/{udp,ipv6}/got-* (after the read-only swarm's turn)
//	S10 BH UDP detector also removes TCP addresses              system/unaffected-address-refused/other-kind, system/read-only/refused-although-known-good/ipv6
//	seeded C20-1 (ring buffer not rewound)                      system/state-mismatch/{udp,ipv6}/got-Blocked
//	seeded C20-2 (private-only requests use up probe slots)     system/no-probe-within-window/{udp,ipv6}
//	seeded C20b-1 (read-only detector calls HandleRequest)      system/no-probe-within-window/{udp,ipv6}
//	seeded C20b-2 (successes skipped while Allowed)             system/state-mismatch/{udp,ipv6}/got-Blocked
//	seeded C20c-1 (request counter never wraps while Allowed)   system/no-probe-within-window/udp, system/liveness/no-success-after-heal/udp
//	seeded C20c-2 (probe countdown restarts on every failure    MISSED by S in 40 s while "let through" meant "some address of the kind went
//	              recorded while Blocked)                       through" (a QUIC/IPv6 address dialled on behalf of the IPv6 detector hid the
//	                                                            UDP detector's refusals); caught in 9 s since the per-detector reading
//	                                                            above: system/no-probe-within-window/{udp,ipv6}
//
// C20_ONLY=<counter|swarm|exhaustive|system> (never set by ./check) makes every other stratum return at once; it exists
// for these per-stratum sensitivity runs.
//
// Not detectable by construction (not statement violations): detectors that block less than documented only in the
// request path (a request let through is never a violation in read/write mode), a different position of the probe
// inside the window, a probe rate higher than one in N.
package c20

import (
	"context"
	"errors"
	"fmt"
	"os"
	"sort"
	"strings"
	"sync"
	"testing"
	"time"

	"github.com/libp2p/go-libp2p/core/crypto"
	"github.com/libp2p/go-libp2p/core/network"
	"github.com/libp2p/go-libp2p/core/peer"
	"github.com/libp2p/go-libp2p/core/transport"
	"github.com/libp2p/go-libp2p/p2p/host/eventbus"
	"github.com/libp2p/go-libp2p/p2p/host/peerstore/pstoremem"
	"github.com/libp2p/go-libp2p/p2p/net/swarm"
	ma "github.com/multiformats/go-multiaddr"

	"verifsim/harness/common"
	"verifsim/simrt"
	"verifsim/simsync"
)

func TestSim(t *testing.T) {
	common.Main(t, common.Harness{Property: "C20", Run: run})
}

const (
	stP = "Probing"
	stA = "Allowed"
	stB = "Blocked"
)

// ---------------------------------------------------------------------------------------------------
// reference detector, written from the statement (see the header for the reading)

type refModel struct {
	n, m   int
	outs   []bool // outcomes since the last clearing, oldest first
	clears int
}

func (r *refModel) state() string {
	if len(r.outs) < r.n {
		return stP // no full observation window yet
	}
	succ := 0
	for _, ok := range r.outs[len(r.outs)-r.n:] {
		if ok {
			succ++
		}
	}
	if succ >= r.m {
		return stA
	}
	return stB
}

// record feeds one dial outcome; it reports whether the outcome cleared a blocked detector.
func (r *refModel) record(ok bool) bool {
	if ok && r.state() == stB {
		r.outs = r.outs[:0]
		r.clears++
		return true
	}
	r.outs = append(r.outs, ok)
	if len(r.outs) > 4*r.n+16 {
		r.outs = append(r.outs[:0], r.outs[len(r.outs)-r.n:]...)
	}
	return false
}

func (r *refModel) window() string {
	var b strings.Builder
	for _, ok := range r.outs {
		if ok {
			b.WriteByte('+')
		} else {
			b.WriteByte('-')
		}
	}
	return fmt.Sprintf("[%s] N=%d M=%d", b.String(), r.n, r.m)
}

// ---------------------------------------------------------------------------------------------------
// strata A and X: the exported counter against the reference

type ctrDriver struct {
	c          *swarm.BlackHoleSuccessCounter
	ref        refModel
	refusedRun int // consecutive refused requests while the reference is Blocked
	hist       []byte
	viol       func(class, detail string)
	probe      func(string)
	stopped    bool
	reblock    bool
}

func newCtrDriver(n, m int, viol func(class, detail string), probe func(string)) *ctrDriver {
	return &ctrDriver{c: &swarm.BlackHoleSuccessCounter{N: n, MinSuccesses: m, Name: "c20"}, ref: refModel{n: n, m: m}, viol: viol, probe: probe}
}

func (d *ctrDriver) fail(class, format string, a ...any) {
	d.stopped = true
	d.viol(class, fmt.Sprintf(format, a...)+fmt.Sprintf(" | history %q (r=request +=success -=failure), reference window %s", string(d.hist), d.ref.window()))
}

func (d *ctrDriver) checkState() {
	got, want := d.c.State().String(), d.ref.state()
	if got != want {
		d.fail("C20/counter/state-mismatch/got-"+got+"-want-"+want, "State() = %s, statement/doc says %s", got, want)
	}
}

// request performs HandleRequest and reports whether the request was let through.
func (d *ctrDriver) request() bool {
	d.hist = append(d.hist, 'r')
	want := d.ref.state()
	got := d.c.HandleRequest().String()
	pass := true
	switch got {
	case stB:
		pass = false
		if want != stB {
			d.fail("C20/counter/refused-without-full-bad-window/ref-"+want, "HandleRequest() = Blocked although the reference is %s", want)
			return false
		}
		d.refusedRun++
		d.probe("counter-refused")
		if d.refusedRun >= d.ref.n {
			d.fail("C20/counter/no-probe-within-window", "%d consecutive requests refused while blocked, N=%d", d.refusedRun, d.ref.n)
			return false
		}
	case stP, stA:
		if want == stB {
			d.probe("counter-probe-pass-while-blocked")
		}
		d.refusedRun = 0
	default:
		d.fail("C20/counter/unknown-request-result", "HandleRequest() = %q", got)
		return false
	}
	d.checkState()
	return pass
}

func (d *ctrDriver) record(ok bool) {
	if ok {
		d.hist = append(d.hist, '+')
	} else {
		d.hist = append(d.hist, '-')
	}
	before := d.ref.state()
	d.c.RecordResult(ok)
	if d.ref.record(ok) {
		d.refusedRun = 0
		d.probe("counter-cleared-by-success")
	}
	after := d.ref.state()
	if before != stB && after == stB {
		d.probe("counter-blocked-reached")
		if d.ref.clears > 0 {
			d.probe("counter-reblocked-after-clear")
		}
	}
	if after != stB {
		d.refusedRun = 0
	}
	d.checkState()
}

type ctrStep struct {
	kind int // 0 request, 1 record, 2 request followed by its dials when let through
	oks  []bool
}

func runCounter(t *testing.T, tape *simrt.Tape, g simrt.Gen, o *common.Outcome) {
	n := g.Range(1, 6)
	m := g.Range(0, n+1)
	nSteps := g.Range(1, 90)
	regime := 0 // 0 healthy, 1 black hole, 2 flaky
	draw := func() bool {
		v := g.Int(8)
		switch regime {
		case 1:
			return v == 7
		case 2:
			return v < 4
		}
		return v != 7
	}
	steps := make([]ctrStep, nSteps)
	for i := range steps {
		if g.Chance(1, 7) {
			regime = g.Int(3)
		}
		st := ctrStep{kind: g.Weighted(3, 4, 3)}
		switch st.kind {
		case 1:
			st.oks = []bool{draw()}
		case 2:
			for k := g.Range(1, 3); k > 0; k-- {
				st.oks = append(st.oks, draw())
			}
		}
		steps[i] = st
	}
	healTail := g.Chance(1, 2)
	o.Logf("stratum=counter N=%d MinSuccesses=%d steps=%d healTail=%v", n, m, nSteps, healTail)

	reqs, recs := 0, 0
	var d *ctrDriver
	res := simrt.Run(t, simrt.Config{MaxSteps: 1000, IdleLimit: time.Minute}, tape.S, func() {
		d = newCtrDriver(n, m, func(c, det string) { o.Violate(c, "%s", det) }, o.Probe)
		d.checkState()
		for _, st := range steps {
			if d.stopped {
				return
			}
			switch st.kind {
			case 0:
				d.request()
				reqs++
			case 1:
				d.record(st.oks[0])
				recs++
			case 2:
				reqs++
				if d.request() {
					for _, ok := range st.oks {
						if d.stopped {
							return
						}
						d.record(ok)
						recs++
					}
				}
			}
		}
		if healTail && !d.stopped {
			// the fault is over: every request that is let through is dialled and succeeds
			wasBlocked := d.ref.state() == stB
			passed := 0
			d.hist = append(d.hist, '|')
			for i := 0; i < n && !d.stopped; i++ {
				if d.request() {
					passed++
					d.record(true)
				}
			}
			if !d.stopped && passed == 0 {
				d.fail("C20/counter/liveness/no-pass-within-window", "none of %d requests after the fault healed was let through", n)
			}
			if wasBlocked && passed > 0 {
				o.Probe("counter-healed-from-blocked")
			}
		}
	})
	o.Sched = res
	o.Virtual = res.Virtual
	if res.Panic != "" {
		o.Violate("C20/counter/panic", "%s", firstLines(res.Panic, 10))
	}
	if d != nil {
		o.Logf("history %s", string(d.hist))
		o.Sig = fmt.Sprintf("A/%d/%d/%s", n, m, string(d.hist))
	}
	o.Nontrivial = reqs > 0 && recs > 0
}

func runExhaustive(t *testing.T, tape *simrt.Tape, g simrt.Gen, o *common.Outcome) {
	n := g.Range(1, 3)
	m := g.Range(0, n+1)
	depth := 7 + n
	o.Logf("stratum=exhaustive N=%d MinSuccesses=%d depth=%d", n, m, depth)
	total := 1
	for i := 0; i < depth; i++ {
		total *= 3
	}
	checked := 0
	res := simrt.Run(t, simrt.Config{MaxSteps: 1000, IdleLimit: time.Minute}, tape.S, func() {
		found := false
		for code := 0; code < total && !found; code++ {
			d := newCtrDriver(n, m, func(c, det string) {
				if !found {
					o.Violate(c, "%s", det)
				}
				found = true
			}, func(string) {})
			x := code
			for i := 0; i < depth && !d.stopped; i++ {
				switch x % 3 {
				case 0:
					d.request()
				case 1:
					d.record(true)
				case 2:
					d.record(false)
				}
				x /= 3
			}
			checked++
		}
	})
	o.Sched = res
	o.Virtual = res.Virtual
	if res.Panic != "" {
		o.Violate("C20/counter/panic", "%s", firstLines(res.Panic, 10))
	}
	o.Probe("exhaustive-sweep")
	o.Logf("sequences checked: %d of %d", checked, total)
	o.Sig = fmt.Sprintf("X/%d/%d/%d", n, m, checked)
	o.Nontrivial = checked == total
}

// ---------------------------------------------------------------------------------------------------
// stratum B: real swarm, scripted transports

type addrT struct {
	idx             int // global serial, also the microsecond offset of its completion instant
	quic, ip6, priv bool
	s               string
	m               ma.Multiaddr
	listening       bool
	lat             time.Duration
	hang            bool // while its kind is black-holed the dial times out after 2 s instead of failing fast
	reached         bool // observation: the address was handed to a transport's Dial
}

func (a *addrT) class() string {
	s := "public-"
	if a.priv {
		s = "private-"
	}
	if a.quic {
		s += "quic"
	} else {
		s += "tcp"
	}
	if a.ip6 {
		return s + "6"
	}
	return s + "4"
}

type outEv struct {
	t             time.Duration
	a             *addrT
	ok, cancelled bool
	why           string
}

const (
	opDial = iota
	opCanDial
	opNet
	opDirect
)

type opT struct {
	kind  int
	pid   peer.ID
	addrs []*addrT
	gap   int
	which int    // opNet: 0 toggle UDP, 1 toggle IPv6, 2 both
	dirK  int    // opDirect: 0 UDP counter, 1 IPv6 counter
	dirOK []bool // opDirect
	live  int    // 0 main phase, 1 liveness UDP, 2 liveness IPv6

	// observations
	issued   bool
	t        time.Duration
	st       [2]string // State() of the two counters right before the operation ("-" = not configured)
	returned bool
	gotConn  bool
	dialErr  bool // a *swarm.DialError came back (per-address information is complete)
	errStr   string
	refused  map[string]bool // addresses reported with cause ErrDialRefusedBlackHole
	canDial  bool
	netNow   [2]bool
}

type world struct {
	mu     sync.Mutex // real mutex: held for a few instructions by stub goroutines and harness tasks
	byAddr map[string]*addrT
	up     [2]bool // network process: UDP reachable, IPv6 reachable
	outs   []outEv
	bad    string
	local  peer.ID
}

var gaps = []time.Duration{0, time.Millisecond, 10 * time.Millisecond, 400 * time.Millisecond, 1500 * time.Millisecond}
var lats = []time.Duration{time.Millisecond, 3 * time.Millisecond, 20 * time.Millisecond, 300 * time.Millisecond, 900 * time.Millisecond}

func mkPeer(i int) peer.ID {
	b := make([]byte, 34)
	b[0], b[1] = 0x12, 0x20 // sha2-256 multihash header; the digest is a counter
	for k := 2; k < 34; k++ {
		b[k] = byte(0x5a ^ k)
	}
	b[2], b[3], b[4] = byte(i>>16), byte(i>>8), byte(i)
	return peer.ID(b)
}

func (w *world) newAddr(typ int, listening bool, lat time.Duration, hang bool) (*addrT, error) {
	a := &addrT{idx: len(w.byAddr) + 1, quic: typ&1 != 0, ip6: typ&2 != 0, priv: typ&4 != 0, listening: listening, lat: lat, hang: hang}
	hi, lo := a.idx>>8, a.idx&255
	var ip string
	switch {
	case !a.ip6 && !a.priv:
		ip = fmt.Sprintf("/ip4/1.%d.%d.1", hi, lo)
	case !a.ip6 && a.priv && a.idx%2 == 0:
		ip = fmt.Sprintf("/ip4/10.%d.%d.1", hi, lo)
	case !a.ip6 && a.priv:
		ip = fmt.Sprintf("/ip4/192.168.%d.%d", lo, hi+1)
	case a.ip6 && !a.priv:
		ip = fmt.Sprintf("/ip6/2600:%x::1", a.idx)
	default:
		ip = fmt.Sprintf("/ip6/fd00:%x::1", a.idx)
	}
	if a.quic {
		ip += "/udp/4001/quic-v1"
	} else {
		ip += "/tcp/4001"
	}
	m, err := ma.NewMultiaddr(ip)
	if err != nil {
		return nil, err
	}
	a.m, a.s = m, m.String()
	w.byAddr[a.s] = a
	return a, nil
}

var errStubDial = errors.New("stub: dial failed")
var errStubClosed = errors.New("stub: connection closed")

type stubTransport struct {
	w    *world
	quic bool
}

func (tr *stubTransport) Dial(ctx context.Context, raddr ma.Multiaddr, p peer.ID) (transport.CapableConn, error) {
	w := tr.w
	w.mu.Lock()
	a := w.byAddr[raddr.String()]
	if a == nil {
		if w.bad == "" {
			w.bad = "stub transport asked to dial an address the harness never generated: " + raddr.String()
		}
		w.mu.Unlock()
		return nil, errStubDial
	}
	a.reached = true
	holed := (a.quic && !w.up[0]) || (a.ip6 && !w.up[1])
	w.mu.Unlock()

	now := simrt.Now()
	d := a.lat
	timedOut := false
	if holed && !a.priv && a.hang {
		d += 2 * time.Second
		timedOut = true
	}
	// completion instant: whole millisecond + the address's own microsecond offset
	target := (now+d+time.Millisecond-1)/time.Millisecond*time.Millisecond + time.Duration(a.idx)*time.Microsecond
	tm := time.NewTimer(target - now)
	// simrt.Select: the swarm is instrumented, so this goroutine is a task of the scheduler and must only
	// block at yield points
	if simrt.Select("stub.dial", false, simrt.RecvCase(tm.C), simrt.RecvCase(ctx.Done())) == 1 {
		tm.Stop()
		w.mu.Lock()
		w.outs = append(w.outs, outEv{t: simrt.Now(), a: a, cancelled: true, why: "cancelled"})
		w.mu.Unlock()
		return nil, ctx.Err()
	}
	w.mu.Lock()
	why := ""
	switch {
	case timedOut:
		why = "timeout"
	case !a.priv && a.quic && !w.up[0]:
		why = "udp-black-hole"
	case !a.priv && a.ip6 && !w.up[1]:
		why = "ipv6-black-hole"
	case !a.listening:
		why = "peer-unreachable"
	}
	w.outs = append(w.outs, outEv{t: simrt.Now(), a: a, ok: why == "", why: why})
	w.mu.Unlock()
	if why != "" {
		return nil, errStubDial
	}
	return &stubConn{tr: tr, local: w.local, remote: p, raddr: raddr, closed: make(chan struct{})}, nil
}

func (tr *stubTransport) CanDial(a ma.Multiaddr) bool {
	ps := a.Protocols()
	if len(ps) < 2 || (ps[0].Code != ma.P_IP4 && ps[0].Code != ma.P_IP6) {
		return false
	}
	if tr.quic {
		return len(ps) == 3 && ps[1].Code == ma.P_UDP && ps[2].Code == ma.P_QUIC_V1
	}
	return len(ps) == 2 && ps[1].Code == ma.P_TCP
}

func (tr *stubTransport) Listen(ma.Multiaddr) (transport.Listener, error) {
	return nil, errors.New("stub: no listening")
}

func (tr *stubTransport) Protocols() []int {
	if tr.quic {
		return []int{ma.P_QUIC_V1}
	}
	return []int{ma.P_TCP}
}

func (tr *stubTransport) Proxy() bool { return false }

type stubConn struct {
	tr            *stubTransport
	local, remote peer.ID
	raddr         ma.Multiaddr
	once          sync.Once
	closed        chan struct{}
}

var stubLocalTCP = ma.StringCast("/ip4/10.255.0.1/tcp/4001")
var stubLocalQUIC = ma.StringCast("/ip4/10.255.0.1/udp/4001/quic-v1")

func (c *stubConn) Close() error                              { c.once.Do(func() { close(c.closed) }); return nil }
func (c *stubConn) CloseWithError(network.ConnErrorCode) error { return c.Close() }
func (c *stubConn) IsClosed() bool {
	select {
	case <-c.closed:
		return true
	default:
		return false
	}
}
func (c *stubConn) OpenStream(context.Context) (network.MuxedStream, error) {
	return nil, errors.New("stub: no streams")
}
func (c *stubConn) AcceptStream() (network.MuxedStream, error) {
	simrt.Recv("stub.accept", (<-chan struct{})(c.closed))
	return nil, errStubClosed
}
func (c *stubConn) As(any) bool                        { return false }
func (c *stubConn) LocalPeer() peer.ID                 { return c.local }
func (c *stubConn) RemotePeer() peer.ID                { return c.remote }
func (c *stubConn) RemotePublicKey() crypto.PubKey     { return nil }
func (c *stubConn) ConnState() network.ConnectionState { return network.ConnectionState{} }
func (c *stubConn) LocalMultiaddr() ma.Multiaddr {
	if c.tr.quic {
		return stubLocalQUIC
	}
	return stubLocalTCP
}
func (c *stubConn) RemoteMultiaddr() ma.Multiaddr  { return c.raddr }
func (c *stubConn) Scope() network.ConnScope       { return &network.NullScope{} }
func (c *stubConn) Transport() transport.Transport { return c.tr }

var kindName = [2]string{"udp", "ipv6"}

func run(t *testing.T, tape *simrt.Tape) *common.Outcome {
	g := simrt.Gen{S: tape.G}
	o := &common.Outcome{}
	// the system stratum was appended: first draws below 23 keep the stratum they had before it existed
	stratum := g.Weighted(10, 12, 1, 5)
	if only := os.Getenv("C20_ONLY"); only != "" && only != []string{"counter", "swarm", "exhaustive", "system"}[stratum] {
		// sensitivity runs look at one stratum at a time (never set by ./check)
		o.Sig = "skipped"
		return o
	}
	switch stratum {
	case 0:
		runCounter(t, tape, g, o)
	case 1:
		runSwarm(t, tape, g, o)
	case 2:
		runExhaustive(t, tape, g, o)
	default:
		runSystem(t, tape, g, o)
	}
	return o
}

func runSwarm(t *testing.T, tape *simrt.Tape, g simrt.Gen, o *common.Outcome) {
	w := &world{byAddr: map[string]*addrT{}, local: mkPeer(0)}
	// 0 both detectors read/write, 1 read-only (both), 2 UDP detector only, 3 IPv6 detector only
	mode := g.Weighted(6, 3, 1, 1)
	readOnly := mode == 1
	var cfgN, cfgM [2]int
	var enabled [2]bool
	for k := 0; k < 2; k++ {
		cfgN[k] = g.Range(1, 4)
		cfgM[k] = g.Range(1, cfgN[k]+1)
		if g.Chance(1, 12) {
			cfgM[k] = 0
		}
		enabled[k] = true
	}
	if mode == 2 {
		enabled[1] = false
	}
	if mode == 3 {
		enabled[0] = false
	}
	defaultRanker := g.Chance(1, 2) // 0: NoDelayDialRanker (every admitted address is dialled at once)
	overlap := g.Chance(1, 2)
	w.up[0] = !g.Chance(1, 3)
	w.up[1] = !g.Chance(1, 3)
	initUp := w.up
	// at most 30 operations x 5 addresses: fewer TCP dials than the swarm's file-descriptor dial limit (160), so
	// that with the no-delay ranker "admitted" really implies "handed to the transport at once"
	nOps := g.Range(1, 30)

	drawAddr := func() *addrT {
		typ := g.Weighted(2, 5, 3, 3, 1, 1, 1, 1) // bit0 quic, bit1 ip6, bit2 private
		var listening bool
		if typ&4 != 0 {
			listening = g.Chance(1, 4)
		} else {
			listening = !g.Chance(1, 5)
		}
		a, err := w.newAddr(typ, listening, lats[g.Int(len(lats))], g.Chance(1, 3))
		if err != nil {
			o.Trouble = "multiaddr: " + err.Error()
			return nil
		}
		return a
	}
	var ops []*opT
	nPeers := 0
	newPeer := func() peer.ID { nPeers++; return mkPeer(nPeers) }
	if readOnly {
		// the counters are shared with a "main" swarm that already collected some outcomes
		for k := 0; k < 2; k++ {
			op := &opT{kind: opDirect, dirK: k}
			for i := g.Range(0, 2*cfgN[k]); i > 0; i-- {
				op.dirOK = append(op.dirOK, !g.Chance(1, 3))
			}
			ops = append(ops, op)
		}
	}
	for i := 0; i < nOps; i++ {
		wDirect := 0
		if readOnly {
			wDirect = 4
		}
		op := &opT{kind: g.Weighted(12, 2, 3, wDirect)}
		switch op.kind {
		case opDial:
			op.pid = newPeer()
			for k := g.Range(1, 5); k > 0; k-- {
				op.addrs = append(op.addrs, drawAddr())
			}
			if overlap {
				op.gap = g.Int(len(gaps))
			}
		case opCanDial:
			op.pid = newPeer()
			op.addrs = []*addrT{drawAddr()}
		case opNet:
			op.which = g.Int(3)
		case opDirect:
			op.dirK = g.Int(2)
			for k := g.Range(1, 4); k > 0; k-- {
				op.dirOK = append(op.dirOK, !g.Chance(1, 3))
			}
		}
		ops = append(ops, op)
	}
	// healed tail (read/write modes): single-address peers, reachable, one kind at a time
	var liveLen [2]int
	if !readOnly && !g.Chance(1, 4) {
		for k := 0; k < 2; k++ {
			if enabled[k] {
				liveLen[k] = cfgN[k] + g.Int(cfgN[k]+1)
			}
		}
	}
	var liveOps []*opT
	for k := 0; k < 2; k++ {
		for i := 0; i < liveLen[k]; i++ {
			typ := 1 // public quic4: UDP only
			if k == 1 {
				typ = 2 // public tcp6: IPv6 only
			}
			a, err := w.newAddr(typ, true, time.Millisecond, false)
			if err != nil {
				o.Trouble = "multiaddr: " + err.Error()
				return
			}
			liveOps = append(liveOps, &opT{kind: opDial, pid: newPeer(), addrs: []*addrT{a}, live: k + 1})
		}
	}
	// read-only: drive the shared counters on after the read-only swarm is gone
	// (0 request, 1 failure, 2 success), applied to the shared counter and to a twin that never met the swarm
	var roTail [2][]int
	if readOnly {
		for k := 0; k < 2; k++ {
			for i := g.Range(0, 3*cfgN[k]+3); i > 0; i-- {
				roTail[k] = append(roTail[k], g.Weighted(3, 3, 1))
			}
		}
	}
	if o.Trouble != "" {
		return
	}
	if len(w.byAddr) > 899 {
		o.Trouble = "too many addresses for unique microsecond offsets"
		return
	}
	o.Logf("stratum=swarm mode=%d readOnly=%v udp{N=%d M=%d on=%v} ipv6{N=%d M=%d on=%v} defaultRanker=%v overlap=%v net0{udp=%v ipv6=%v} ops=%d live=%v",
		mode, readOnly, cfgN[0], cfgM[0], enabled[0], cfgN[1], cfgM[1], enabled[1], defaultRanker, overlap, initUp[0], initUp[1], len(ops), liveLen)

	var ctr, twin [2]*swarm.BlackHoleSuccessCounter
	var finalSt [2]string
	var finalT time.Duration
	var tailObs, twinObs [2][]string
	finished := false
	states := func() [2]string {
		var st [2]string
		for k := 0; k < 2; k++ {
			st[k] = "-"
			if ctr[k] != nil {
				st[k] = ctr[k].State().String()
			}
		}
		return st
	}
	nextMs := func() {
		now := simrt.Now()
		simrt.TimeSleep(time.Millisecond - now%time.Millisecond)
	}

	res := simrt.Run(t, simrt.Config{MaxSteps: 20000, IdleLimit: 10 * time.Minute}, tape.S, func() {
		for k := 0; k < 2; k++ {
			if enabled[k] {
				ctr[k] = &swarm.BlackHoleSuccessCounter{N: cfgN[k], MinSuccesses: cfgM[k], Name: kindName[k]}
				twin[k] = &swarm.BlackHoleSuccessCounter{N: cfgN[k], MinSuccesses: cfgM[k], Name: kindName[k] + "-twin"}
			}
		}
		ps, err := pstoremem.NewPeerstore()
		if err != nil {
			o.Trouble = "peerstore: " + err.Error()
			return
		}
		opts := []swarm.Option{swarm.WithUDPBlackHoleSuccessCounter(ctr[0]), swarm.WithIPv6BlackHoleSuccessCounter(ctr[1])}
		if readOnly {
			opts = append(opts, swarm.WithReadOnlyBlackHoleDetector())
		}
		if defaultRanker {
			opts = append(opts, swarm.WithDialRanker(swarm.DefaultDialRanker))
		} else {
			opts = append(opts, swarm.WithDialRanker(swarm.NoDelayDialRanker))
		}
		s, err := swarm.NewSwarm(w.local, ps, eventbus.NewBus(), opts...)
		if err != nil {
			ps.Close()
			o.Trouble = "NewSwarm: " + err.Error()
			return
		}
		defer func() {
			s.Close()
			ps.Close()
			simrt.WaitIdle()
		}()
		if err := s.AddTransport(&stubTransport{w: w}); err != nil {
			o.Trouble = "AddTransport tcp: " + err.Error()
			return
		}
		if err := s.AddTransport(&stubTransport{w: w, quic: true}); err != nil {
			o.Trouble = "AddTransport quic: " + err.Error()
			return
		}

		var wg simsync.WaitGroup
		issue := func(op *opT) {
			op.st = states()
			op.t = simrt.Now()
			op.issued = true
			w.mu.Lock()
			op.netNow = w.up
			w.mu.Unlock()
			switch op.kind {
			case opDial:
				var mas []ma.Multiaddr
				for _, a := range op.addrs {
					mas = append(mas, a.m)
				}
				ps.AddAddrs(op.pid, mas, time.Hour)
				wg.Add(1)
				simrt.GoNamed("dial", func() {
					defer wg.Done()
					conn, err := s.DialPeer(context.Background(), op.pid)
					op.returned = true
					if err == nil {
						op.gotConn = true
						conn.Close()
						return
					}
					op.errStr = firstLines(err.Error(), 1)
					var de *swarm.DialError
					if errors.As(err, &de) {
						op.dialErr = true
						op.refused = map[string]bool{}
						for _, te := range de.DialErrors {
							if errors.Is(te.Cause, swarm.ErrDialRefusedBlackHole) {
								op.refused[te.Address.String()] = true
							}
						}
					}
				})
				if op.gap == 0 {
					wg.Wait()
					simrt.WaitIdle()
					nextMs()
				} else {
					simrt.TimeSleep(gaps[op.gap])
				}
			case opCanDial:
				op.canDial = s.CanDial(op.pid, op.addrs[0].m)
				op.returned = true
				nextMs()
			case opNet:
				simrt.TimeSleep(950 * time.Microsecond)
				w.mu.Lock()
				if op.which != 1 {
					w.up[0] = !w.up[0]
				}
				if op.which != 0 {
					w.up[1] = !w.up[1]
				}
				op.netNow = w.up
				w.mu.Unlock()
				nextMs()
			case opDirect:
				if ctr[op.dirK] != nil {
					for _, ok := range op.dirOK {
						ctr[op.dirK].RecordResult(ok)
						twin[op.dirK].RecordResult(ok)
					}
				}
				nextMs()
			}
		}
		for _, op := range ops {
			issue(op)
		}
		wg.Wait()
		simrt.WaitIdle()
		nextMs()
		if len(liveOps) > 0 {
			heal := &opT{kind: opNet}
			// heal both kinds, whatever the current state
			heal.st = states()
			heal.t = simrt.Now()
			heal.issued = true
			simrt.TimeSleep(950 * time.Microsecond)
			w.mu.Lock()
			w.up = [2]bool{true, true}
			heal.netNow = w.up
			w.mu.Unlock()
			nextMs()
			ops = append(ops, heal)
			for _, op := range liveOps {
				issue(op)
				ops = append(ops, op)
			}
		}
		finalSt = states()
		finalT = simrt.Now()
		s.Close()
		simrt.WaitIdle()
		for k := 0; k < 2; k++ {
			if ctr[k] == nil {
				continue
			}
			for _, ev := range roTail[k] {
				for i, c := range []*swarm.BlackHoleSuccessCounter{ctr[k], twin[k]} {
					obs := ""
					if ev == 0 {
						obs = "request=" + c.HandleRequest().String() + " "
					} else {
						c.RecordResult(ev == 2)
					}
					obs += "state=" + c.State().String()
					if i == 0 {
						tailObs[k] = append(tailObs[k], obs)
					} else {
						twinObs[k] = append(twinObs[k], obs)
					}
				}
			}
		}
		finished = true
	})
	o.Sched = res
	o.Virtual = res.Virtual
	if o.Trouble != "" {
		return
	}
	if res.Panic != "" {
		o.Violate("C20/swarm/panic", "%s", firstLines(res.Panic, 12))
		return
	}
	if res.StepLimit {
		o.Trouble = "step limit"
		return
	}
	if w.bad != "" {
		o.Trouble = w.bad
		return
	}
	if res.Stuck || !finished {
		o.Trouble = fmt.Sprintf("swarm run did not finish: stuck=%v residue=%v", res.Stuck, res.Residue)
		return
	}
	if len(res.Residue) > 0 {
		o.Trouble = fmt.Sprintf("goroutines left after swarm and peerstore were closed: %v", res.Residue)
		return
	}
	checkSwarm(o, w, ops, readOnly, !defaultRanker, cfgN, cfgM, enabled, finalSt, finalT, roTail, tailObs, twinObs)
}

type evT struct {
	t    time.Duration
	rank int // 0 operation, 1 completed dial, 2 cancelled dial
	idx  int
	op   *opT
	out  *outEv
}

func checkSwarm(o *common.Outcome, w *world, ops []*opT, readOnly, noDelay bool, cfgN, cfgM [2]int, enabled [2]bool,
	finalSt [2]string, finalT time.Duration, roTail [2][]int, tailObs, twinObs [2][]string) {
	var evs []evT
	for i, op := range ops {
		if !op.issued {
			o.Trouble = fmt.Sprintf("operation %d was never issued", i)
			return
		}
		if (op.kind == opDial || op.kind == opCanDial) && !op.returned {
			o.Trouble = fmt.Sprintf("operation %d never returned", i)
			return
		}
		evs = append(evs, evT{t: op.t, rank: 0, idx: i, op: op})
	}
	for i := range w.outs {
		out := &w.outs[i]
		rank := 1
		if out.cancelled {
			rank = 2
		}
		evs = append(evs, evT{t: out.t, rank: rank, idx: out.a.idx, out: out})
	}
	sort.Slice(evs, func(i, j int) bool {
		a, b := evs[i], evs[j]
		if a.t != b.t {
			return a.t < b.t
		}
		if a.rank != b.rank {
			return a.rank < b.rank
		}
		return a.idx < b.idx
	})
	for i, b := range evs {
		same := i > 0 && evs[i-1].t == b.t
		switch {
		case same && b.rank != 2:
			o.Trouble = fmt.Sprintf("harness: two ordering-relevant events share the virtual instant %v", b.t)
			return
		case b.rank == 2 && (!same || evs[i-1].rank == 0 || (evs[i-1].rank == 1 && !evs[i-1].out.ok)):
			o.Trouble = fmt.Sprintf("harness: dial #%d was cancelled at %v without a successful dial at that instant", b.idx, b.t)
			return
		}
	}

	var ref [2]refModel
	for k := 0; k < 2; k++ {
		ref[k] = refModel{n: cfgN[k], m: cfgM[k]}
	}
	var refusedRun [2]int
	var liveFailRun [2]int
	var sig strings.Builder
	relevantReq, relevantOut := 0, 0
	violated := map[string]bool{}
	viol := func(class, format string, a ...any) {
		if !violated[class] {
			violated[class] = true
			o.Violate(class, format, a...)
		}
	}
	// applies lists the configured detectors that the statement lets act on the address
	applies := func(a *addrT) (ks []int) {
		if a.priv {
			return nil
		}
		if a.quic && enabled[0] {
			ks = append(ks, 0)
		}
		if a.ip6 && enabled[1] {
			ks = append(ks, 1)
		}
		return
	}
	kindsOf := func(ks []int) string {
		var s []string
		for _, k := range ks {
			s = append(s, kindName[k])
		}
		return strings.Join(s, "+")
	}
	stateCheck := func(when string, got [2]string) {
		for k := 0; k < 2; k++ {
			if !enabled[k] {
				continue
			}
			want := ref[k].state()
			if got[k] == want {
				continue
			}
			if readOnly {
				viol("C20/read-only/state-changed/"+kindName[k], "%s: %s counter State() = %s, but the outcomes recorded outside the read-only swarm give %s (window %s)",
					when, kindName[k], got[k], want, ref[k].window())
			} else {
				viol("C20/swarm/state-mismatch/"+kindName[k]+"/got-"+got[k]+"-want-"+want, "%s: %s counter State() = %s, dial outcomes seen by the transports give %s (window %s)",
					when, kindName[k], got[k], want, ref[k].window())
			}
		}
	}

	for _, e := range evs {
		if e.out != nil {
			out := e.out
			a := out.a
			ks := applies(a)
			res := "ok"
			if !out.ok {
				res = "FAIL(" + out.why + ")"
			}
			note := ""
			if !readOnly {
				for _, k := range ks {
					relevantOut++
					before := ref[k].state()
					if ref[k].record(out.ok) {
						note += " clears-" + kindName[k]
						refusedRun[k] = 0
						o.Probe("cleared-by-success")
					}
					after := ref[k].state()
					if before != stB && after == stB {
						note += " " + kindName[k] + "->Blocked"
						o.Probe("blocked-reached")
						if ref[k].clears > 0 {
							o.Probe("reblocked-after-clear")
						}
					}
					if after != stB {
						refusedRun[k] = 0
					}
					if out.cancelled {
						o.Probe("cancelled-dial-counted-as-failure")
					}
				}
			}
			switch out.why {
			case "udp-black-hole", "ipv6-black-hole", "timeout", "peer-unreachable":
				o.Fault(out.why)
			case "cancelled":
				o.Fault("dial-cancelled")
			}
			o.Logf("  %v dial #%d %s %s -> %s%s", out.t, a.idx, a.class(), a.s, res, note)
			fmt.Fprintf(&sig, "d%d%v;", a.idx, out.ok)
			continue
		}

		op := e.op
		stateCheck(fmt.Sprintf("before op at %v", op.t), op.st)
		switch op.kind {
		case opNet:
			o.Logf("%v net: udp=%v ipv6=%v (effective at +950us)", op.t, op.netNow[0], op.netNow[1])
			fmt.Fprintf(&sig, "n%v%v;", op.netNow[0], op.netNow[1])
			continue
		case opDirect:
			if enabled[op.dirK] {
				for _, ok := range op.dirOK {
					ref[op.dirK].record(ok)
				}
			}
			o.Logf("%v direct %s.RecordResult %v -> reference %s", op.t, kindName[op.dirK], op.dirOK, ref[op.dirK].state())
			fmt.Fprintf(&sig, "r%d%v;", op.dirK, op.dirOK)
			continue
		}

		// DialPeer / CanDial: one request for every detector that has a public address of its kind
		var at [2]string
		for k := 0; k < 2; k++ {
			at[k] = ref[k].state()
		}
		// per-address observation: 1 dialled, 2 refused, 0 unknown (DialPeer connected before its turn)
		obs := make([]int, len(op.addrs))
		for i, a := range op.addrs {
			switch {
			case op.kind == opCanDial:
				if op.canDial {
					obs[i] = 1
				} else {
					obs[i] = 2
				}
			case a.reached:
				obs[i] = 1
			case op.refused[a.s]:
				obs[i] = 2
			case op.dialErr || noDelay:
				// the swarm reported on every address (or dials all admitted addresses at once)
				// and this one was neither dialled nor reported: it was removed
				obs[i] = 2
			}
			if a.reached && op.refused[a.s] {
				viol("C20/swarm/refused-and-dialled", "op at %v: %s was reported as black-holed and dialled", op.t, a.s)
			}
		}
		var line strings.Builder
		if op.kind == opDial {
			fmt.Fprintf(&line, "%v DialPeer(p%x) conn=%v", op.t, []byte(op.pid)[2:5], op.gotConn)
			if op.errStr != "" {
				fmt.Fprintf(&line, " err=%q", op.errStr)
			}
		} else {
			fmt.Fprintf(&line, "%v CanDial = %v", op.t, op.canDial)
		}
		fmt.Fprintf(&line, " ref{udp=%s ipv6=%s}", at[0], at[1])
		for i, a := range op.addrs {
			fmt.Fprintf(&line, " [#%d %s %s]", a.idx, a.class(), []string{"?", "dialled", "REFUSED"}[obs[i]])
		}
		o.Logf("%s", line.String())
		fmt.Fprintf(&sig, "o%d%v%v%v;", op.kind, op.gotConn, op.canDial, obs)

		for i, a := range op.addrs {
			ks := applies(a)
			switch obs[i] {
			case 2:
				o.Probe("address-refused")
				justified := false
				for _, k := range ks {
					if (!readOnly && at[k] == stB) || (readOnly && at[k] != stA) {
						justified = true
					}
				}
				if justified {
					if len(ks) == 2 {
						o.Probe("dual-kind-address-refused")
					}
					if readOnly {
						o.Probe("read-only-refused")
					}
					continue
				}
				switch {
				case a.priv:
					viol("C20/unaffected-address-removed/private", "op at %v: private address %s (%s) was removed from the dial", op.t, a.s, a.class())
				case len(ks) == 0 && !a.quic && !a.ip6:
					viol("C20/unaffected-address-removed/other-kind", "op at %v: public TCP/IPv4 address %s was removed from the dial (reference udp=%s ipv6=%s)", op.t, a.s, at[0], at[1])
				case len(ks) == 0:
					viol("C20/unaffected-address-removed/detector-not-configured", "op at %v: %s (%s) was removed although no configured detector applies to it", op.t, a.s, a.class())
				case readOnly:
					viol("C20/read-only/refused-although-known-good/"+kindsOf(ks), "op at %v: %s (%s) refused although every applicable detector is Allowed", op.t, a.s, a.class())
				default:
					viol("C20/refused-without-full-bad-window/"+kindsOf(ks), "op at %v: %s (%s) refused; reference udp=%s %s, ipv6=%s %s", op.t, a.s, a.class(),
						at[0], ref[0].window(), at[1], ref[1].window())
				}
			case 1:
				if readOnly {
					for _, k := range ks {
						if at[k] != stA {
							viol("C20/read-only/passed-without-known-good/"+kindName[k], "op at %v: %s (%s) was let through in read-only mode while the %s detector is %s",
								op.t, a.s, a.class(), kindName[k], at[k])
						}
					}
					if len(ks) > 0 {
						o.Probe("read-only-passed-known-good")
					}
				}
			}
		}
		// probe rule, per detector
		for k := 0; k < 2; k++ {
			if !enabled[k] {
				continue
			}
			nK, nRef, nUnk, nPure, nPureRef := 0, 0, 0, 0, 0
			for i, a := range op.addrs {
				if a.priv || (k == 0 && !a.quic) || (k == 1 && !a.ip6) {
					continue
				}
				nK++
				pure := len(applies(a)) == 1 // only this detector may act on it
				if pure {
					nPure++
				}
				switch obs[i] {
				case 2:
					nRef++
					if pure {
						nPureRef++
					}
				case 0:
					nUnk++
				}
			}
			if nK == 0 {
				continue
			}
			relevantReq++
			if readOnly {
				continue
			}
			if at[k] != stB {
				refusedRun[k] = 0
				continue
			}
			// the detector refused the request if an address only it may act on was refused (its probe would have let
			// every address of the kind through), or if the request has only UDP+IPv6 addresses and all were refused
			if nPureRef > 0 || (nPure == 0 && nRef == nK) {
				refusedRun[k]++
				o.Probe("request-refused-while-blocked")
				if refusedRun[k] >= cfgN[k] {
					viol("C20/no-probe-within-window/"+kindName[k], "op at %v: %d consecutive requests with public %s addresses were refused while blocked, N=%d",
						op.t, refusedRun[k], kindName[k], cfgN[k])
				}
			} else {
				refusedRun[k] = 0
				if nRef+nUnk < nK {
					o.Probe("probe-pass-while-blocked")
				}
			}
		}
		// bounded liveness in the healed tail
		if op.live > 0 {
			k := op.live - 1
			if op.gotConn {
				if liveFailRun[k] > 0 {
					o.Probe("healed-after-refusals")
				}
				liveFailRun[k] = 0
			} else {
				liveFailRun[k]++
				if liveFailRun[k] >= cfgN[k] {
					viol("C20/liveness/no-success-within-window/"+kindName[k], "op at %v: %d consecutive dials of reachable single-address %s peers failed after the network healed, N=%d (last error %q)",
						op.t, liveFailRun[k], kindName[k], cfgN[k], op.errStr)
				}
			}
		}
	}
	stateCheck(fmt.Sprintf("at the end (%v)", finalT), finalSt)
	o.Logf("%v final State(): udp=%s ipv6=%s", finalT, finalSt[0], finalSt[1])
	fmt.Fprintf(&sig, "f%v;", finalSt)
	if readOnly {
		// the counters outlive the read-only swarm: driven on, they must behave like a twin that received
		// the same direct records and never met the swarm (State() also has to follow the reference)
		for k := 0; k < 2; k++ {
			for i, ev := range roTail[k] {
				if i >= len(tailObs[k]) || i >= len(twinObs[k]) {
					break
				}
				if ev != 0 {
					ref[k].record(ev == 2)
				}
				what := []string{"HandleRequest", "RecordResult(false)", "RecordResult(true)"}[ev]
				if tailObs[k][i] != twinObs[k][i] {
					viol("C20/read-only/state-changed/"+kindName[k], "after the read-only swarm was closed, tail step %d %s on the %s counter: %s, on a twin that never met the swarm: %s (tail %v): the read-only phase left hidden changes",
						i, what, kindName[k], tailObs[k][i], twinObs[k][i], roTail[k])
					break
				}
				if !strings.HasSuffix(tailObs[k][i], "state="+ref[k].state()) {
					viol("C20/read-only/state-changed/"+kindName[k], "after the read-only swarm was closed, tail step %d %s on the %s counter: %s, reference %s",
						i, what, kindName[k], tailObs[k][i], ref[k].state())
					break
				}
			}
			o.Logf("tail %s %v -> %v", kindName[k], roTail[k], tailObs[k])
			fmt.Fprintf(&sig, "t%v;", tailObs[k])
		}
	}
	o.Sig = "B/" + sig.String()
	o.Nontrivial = relevantReq > 0 && (relevantOut > 0 || readOnly)
}

func firstLines(s string, n int) string {
	l := strings.Split(s, "\n")
	if len(l) > n {
		l = l[:n]
	}
	return strings.Join(l, " | ")
}
