# orchestrator configuration of the C20 check (loaded by tools/props.py)
from stack import FULL_STACK, FULL_DEPS, QUIC_STACK, QUIC_DEPS

SPEC = dict(
    pkg="./harness/c20",
    instrument=FULL_STACK + QUIC_STACK,
    deps=FULL_DEPS + QUIC_DEPS,
    level="exploration",
    level_text=("seeded search over (a) request/record sequences applied to the exported BlackHoleSuccessCounter with small "
                "drawn N and MinSuccesses, compared event by event with a reference detector written from the statement, "
                "(b) bounded-exhaustive enumeration of all such sequences up to depth 7+N for N<=3, and (c) workloads of "
                "DialPeer/CanDial against a real swarm with scripted TCP and QUIC-v1 stub transports whose dial outcomes "
                "follow a UDP/IPv6 reachability process switched off and on over virtual time; oracles on which addresses "
                "reach a transport's Dial, which are reported as black-holed, and on State(); and (d) a system stratum: a "
                "real dialling node (real swarm, TCP and QUIC transports, quic-go) with small UDP/IPv6 counters, optionally "
                "a read-only swarm sharing them, and 2-4 real target nodes on a simulated network whose UDP / IPv6 paths "
                "from the dialler are black-holed and healed over virtual time; refusals are judged against a set-valued "
                "reference window computed from what was seen on the wire. Sampling (plus a small exhaustive core), not proof."),
    level_note=("trusted: testing/synctest, the overlay rewrite of the instrumented stack, the reference detector and oracles "
                "of the harness, the stub transports (stratum swarm), simnet/simhost (stratum system); the stub stratum "
                "assembles its history from events that occupy distinct virtual instants (a shared instant is reported as "
                "harness trouble); the system stratum is sequential (one DialPeer at a time, losers of the address race are "
                "given time to finish before State() is sampled)"),
    technique=("deterministic simulation: lock-level scheduling of the instrumented stack, virtual time, scripted transports "
               "and a simulated UDP/TCP network with a reachability fault process, reference-model oracles"),
    design_ref="DESIGN.md section 6 (C20)",
    quick_s=30, thorough_s=300,
    rule=("one run = one tape; the first draw picks the stratum. counter: N in 1..6, MinSuccesses in 0..N+1, 1-90 steps "
          "(request / record / request followed by 1-3 outcomes when let through) under a three-regime outcome process "
          "(healthy, black hole, flaky), optional healed tail of N requests. exhaustive: N in 1..3, MinSuccesses in 0..N+1, "
          "all 3^(7+N) sequences. swarm: detector configuration (both read/write, read-only with directly driven shared "
          "counters, UDP only, IPv6 only), N in 1..4 and MinSuccesses in 0..N+1 per detector, NoDelay or default dial "
          "ranker, sequential or overlapping issue, 1-30 operations (DialPeer of a fresh peer with 1-5 addresses drawn "
          "from {public,private}x{QUIC,TCP}x{IPv4,IPv6} with per-address reachability, latency and timeout-vs-fast-fail "
          "behaviour; CanDial; network switch of UDP and/or IPv6; direct RecordResult bursts in the read-only stratum), "
          "then a healed tail of N..2N single-address dials per detector. system: UDP and IPv6 counters with N in 2..6, "
          "MinSuccesses in 1..N, read-only swarm sharing them in 1/3 of the runs, 2-4 real targets (one public IPv4, one "
          "public IPv6, others drawn; optional second listening IP) on TCP+QUIC, initial environment and 4-22 operations "
          "(DialPeer of a target with a drawn subset of its live addresses plus 0-2 dead ones of drawn class; toggle of the "
          "UDP or the IPv6 black hole; read-only DialPeer / CanDial), drawn settle time, drawn per run what a dial leaves "
          "behind (dial back-off kept 1/3, peerstore addresses of earlier dials kept 1/3, a quarter of the connections left "
          "open 1/3; no warm-up: the first dial is inside a black hole when the drawn initial environment has one), then heal "
          "and 2N+2 single-address dials per detector. non-trivial = at least one request and one "
          "recorded outcome concerned a configured detector (counter/swarm) or the sweep completed (exhaustive); "
          "distinct = distinct event history (requests, per-address observations, dial outcomes, sampled states)"),
    probes=["blocked-reached", "request-refused-while-blocked", "probe-pass-while-blocked", "cleared-by-success",
            "reblocked-after-clear", "dual-kind-address-refused", "cancelled-dial-counted-as-failure",
            "healed-after-refusals", "read-only-refused", "read-only-passed-known-good", "address-refused",
            "counter-blocked-reached", "counter-refused", "counter-probe-pass-while-blocked",
            "counter-cleared-by-success", "counter-reblocked-after-clear", "counter-healed-from-blocked",
            "exhaustive-sweep",
            "system-blocked-reached", "system-address-refused", "system-request-refused", "system-probe-let-through-while-blocked",
            "system-cleared-by-success", "system-healed-after-refusals", "system-uncertain-outcome", "system-udp-black-hole-on",
            "system-read-only-refused", "system-read-only-passed", "system-existing-connection-returned",
            "system-probe-slot-spent-on-backoff"],
    real=["p2p/net/swarm (Swarm, dial worker, dial sync, limiter, backoff, black hole detector, BlackHoleSuccessCounter)",
          "p2p/host/peerstore/pstoremem", "p2p/host/eventbus",
          "system stratum: p2p/transport/tcp dial path, p2p/net/upgrader, noise, yamux, p2p/transport/quic, quicreuse, quic-go v0.59 "
          "(all instrumented) on dialler, read-only dialler and targets"],
    stubs=["stratum swarm: transport.Transport for TCP and QUIC-v1 (scripted Dial outcome and latency, no listening) and the "
           "transport.CapableConn returned by successful stub dials (no streams)",
           "stratum system: simnet (in-memory TCP and UDP wire; black holes scripted through the UDP filter and SetBlackhole), "
           "simhost's listen wrapper, simrand (seeded crypto/rand)"],
    assume=["synctest fake clock and quiescence detection (Go 1.25.7)",
            "peer IDs are synthetic multihashes (no keys); the swarm never needs the key in these paths",
            "classification public/private of the generated addresses (1.x, 2600::/16 public; 10.x, 192.168.x, fd00::/16 private) "
            "is the harness's own and unambiguous",
            "system stratum: a dial whose QUIC Initial / TCP SYN was seen on the wire was recorded exactly once; one that was not "
            "seen and lost the race was recorded as a failure or not at all; 200 ms (virtual) after DialPeer returned no dial of "
            "that request is still running",
            "the overlay rewrite preserves behaviour (./check overlaytest)"],
)
