# orchestrator configuration of the C20 check (loaded by tools/props.py)
from stack import FULL_STACK, FULL_DEPS, QUIC_STACK, QUIC_DEPS

SPEC = dict(
    pkg="./harness/c20",
    instrument=FULL_STACK + QUIC_STACK,
    deps=FULL_DEPS + QUIC_DEPS,
    level="exploration",
    level_text=("seeded search over (a) request/record sequences applied to the exported BlackHoleSuccessCounter with small "
                "drawn N and MinSuccesses, compared event by event with a reference detector written from the statement, "
                "(b) bounded-exhaustive enumeration of all such sequences up to depth 7+N for N<=3, and (c) workloads of "
                "DialPeer/CanDial against a real swarm with scripted TCP and QUIC-v1 stub transports whose dial outcomes "
                "follow a UDP/IPv6 reachability process switched off and on over virtual time; oracles on which addresses "
                "reach a transport's Dial, which are reported as black-holed, and on State(). Sampling (plus a small "
                "exhaustive core), not proof."),
    level_note=("trusted: testing/synctest, the reference detector and oracles of the harness, the stub transports; "
                "operation-level: the swarm's own goroutines run freely inside the bubble and the history is assembled "
                "from events that occupy distinct virtual instants (a shared instant is reported as harness trouble)"),
    technique="deterministic simulation: operation-level, virtual time, scripted transports with a reachability fault process, reference-model oracles",
    design_ref="DESIGN.md section 6 (C20)",
    quick_s=30, thorough_s=300,
    rule=("one run = one tape; the first draw picks the stratum. counter: N in 1..6, MinSuccesses in 0..N+1, 1-90 steps "
          "(request / record / request followed by 1-3 outcomes when let through) under a three-regime outcome process "
          "(healthy, black hole, flaky), optional healed tail of N requests. exhaustive: N in 1..3, MinSuccesses in 0..N+1, "
          "all 3^(7+N) sequences. swarm: detector configuration (both read/write, read-only with directly driven shared "
          "counters, UDP only, IPv6 only), N in 1..4 and MinSuccesses in 0..N+1 per detector, NoDelay or default dial "
          "ranker, sequential or overlapping issue, 1-30 operations (DialPeer of a fresh peer with 1-5 addresses drawn "
          "from {public,private}x{QUIC,TCP}x{IPv4,IPv6} with per-address reachability, latency and timeout-vs-fast-fail "
          "behaviour; CanDial; network switch of UDP and/or IPv6; direct RecordResult bursts in the read-only stratum), "
          "then a healed tail of N..2N single-address dials per detector. non-trivial = at least one request and one "
          "recorded outcome concerned a configured detector (counter/swarm) or the sweep completed (exhaustive); "
          "distinct = distinct event history (requests, per-address observations, dial outcomes, sampled states)"),
    probes=["blocked-reached", "request-refused-while-blocked", "probe-pass-while-blocked", "cleared-by-success",
            "reblocked-after-clear", "dual-kind-address-refused", "cancelled-dial-counted-as-failure",
            "healed-after-refusals", "read-only-refused", "read-only-passed-known-good", "address-refused",
            "counter-blocked-reached", "counter-refused", "counter-probe-pass-while-blocked",
            "counter-cleared-by-success", "counter-reblocked-after-clear", "counter-healed-from-blocked",
            "exhaustive-sweep"],
    real=["p2p/net/swarm (Swarm, dial worker, dial sync, limiter, backoff, black hole detector, BlackHoleSuccessCounter)",
          "p2p/host/peerstore/pstoremem", "p2p/host/eventbus"],
    stubs=["transport.Transport for TCP and QUIC-v1 (scripted Dial outcome and latency, no listening)",
           "transport.CapableConn returned by successful stub dials (no streams)"],
    assume=["synctest fake clock and quiescence detection (Go 1.25.7)",
            "peer IDs are synthetic multihashes (no keys); the swarm never needs the key in these paths",
            "classification public/private of the generated addresses (1.x, 2600::/16 public; 10.x, 192.168.x, fd00::/16 private) "
            "is the harness's own and unambiguous"],
)
