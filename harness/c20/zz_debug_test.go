package c20

import (
	"fmt"
	"os"
	"time"

	"github.com/libp2p/go-libp2p/core/crypto"
	"github.com/libp2p/go-libp2p/core/network"
	"github.com/libp2p/go-libp2p/p2p/net/swarm"
	ma "github.com/multiformats/go-multiaddr"

	"verifsim/simrt"
)

type dbgTracer struct{}

func (dbgTracer) OpenedConnection(network.Direction, crypto.PubKey, network.ConnectionState, ma.Multiaddr) {}
func (dbgTracer) ClosedConnection(network.Direction, time.Duration, network.ConnectionState, ma.Multiaddr) {}
func (dbgTracer) CompletedHandshake(d time.Duration, cs network.ConnectionState, a ma.Multiaddr) {
	fmt.Println("DBG", simrt.Now(), "CompletedHandshake", a)
}
func (dbgTracer) FailedDialing(a ma.Multiaddr, err error, cause error) {
	fmt.Println("DBG", simrt.Now(), "FailedDialing", a, err, cause)
}
func (dbgTracer) DialCompleted(success bool, totalDials int, latency time.Duration) {
	fmt.Println("DBG", simrt.Now(), "DialCompleted", success, totalDials)
}
func (dbgTracer) DialRankingDelay(d time.Duration) {}
func (dbgTracer) UpdatedBlackHoleSuccessCounter(name string, state swarm.BlackHoleState, nextProbeAfter int, successFraction float64) {
	fmt.Println("DBG", simrt.Now(), "BH", name, state, nextProbeAfter, successFraction)
}

func dbgOpts() []swarm.Option {
	if os.Getenv("C20_DEBUG") == "" {
		return nil
	}
	return []swarm.Option{swarm.WithMetricsTracer(dbgTracer{})}
}
