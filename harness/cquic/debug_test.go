package cquic

import (
	"context"
	"fmt"
	"io"
	"os"
	"testing"
	"time"

	"github.com/libp2p/go-libp2p/core/network"
	"github.com/libp2p/go-libp2p/core/peerstore"
	ma "github.com/multiformats/go-multiaddr"

	"verifsim/simhost"
	"verifsim/simnet"
	"verifsim/simrand"
	"verifsim/simrt"
)

// TestDebugListenClose: what happens to A's connection when B's QUIC listener is closed.
func TestDebugListenClose(t *testing.T) {
	if os.Getenv("CQUIC_DEBUG") == "" {
		t.Skip()
	}
	tape := simrt.NewTape(1, "dbg", 0)
	defer simrand.Install(1)()
	simrt.Run(t, simrt.Config{MaxSteps: 3_000_000}, tape.S, func() {
		n := simnet.New(tape.G, simnet.Config{})
		a, _ := simhost.New(n, simhost.Opts{Key: simhost.DetKey(1), IP: "10.0.0.1", Port: 4001, QUIC: true, NoTCPListen: true, WithHost: true})
		b, _ := simhost.New(n, simhost.Opts{Key: simhost.DetKey(2), IP: "10.0.0.2", Port: 4001, QUIC: true, NoTCPListen: true, WithHost: true})
		b.Host.SetStreamHandler("/echo/1", func(s network.Stream) { io.Copy(s, s); s.Close() })
		a.PS.AddAddrs(b.ID, []ma.Multiaddr{b.QAddr}, peerstore.PermanentAddrTTL)
		s, err := a.Host.NewStream(context.Background(), b.ID, "/echo/1")
		fmt.Println("newstream", err)
		s.Write([]byte("x"))
		s.CloseWrite()
		io.ReadAll(s)
		s.Close()
		simrt.TimeSleep(2 * time.Second)
		switch os.Getenv("CQUIC_DEBUG") {
		case "listenclose":
			b.Swarm.ListenClose(b.QAddr)
		case "blackout":
			n.SetBlocked(func(from, to string) bool { return from == "10.0.0.1" })
		}
		for i := 0; i < 20; i++ {
			simrt.TimeSleep(10 * time.Second)
			fmt.Printf("t=%v A conns=%d B conns=%d sockets=%v udp=%v\n", simrt.Now(), len(a.Swarm.ConnsToPeer(b.ID)), len(b.Swarm.ConnsToPeer(a.ID)), n.UDPSockets(), n.UDPCounts())
		}
		a.Close()
		b.Close()
	})
}


// TestDebugNAT: source NAT as seen by the other side, on TCP and on QUIC.
func TestDebugNAT(t *testing.T) {
	if os.Getenv("CQUIC_DEBUG") != "nat" {
		t.Skip()
	}
	tape := simrt.NewTape(1, "dbg", 0)
	defer simrand.Install(1)()
	simrt.Run(t, simrt.Config{MaxSteps: 3_000_000}, tape.S, func() {
		n := simnet.New(tape.G, simnet.Config{})
		n.SetNAT("10.0.0.1", "5.5.5.5")
		a, _ := simhost.New(n, simhost.Opts{Key: simhost.DetKey(1), IP: "10.0.0.1", Port: 4001, QUIC: true, WithHost: true})
		b, _ := simhost.New(n, simhost.Opts{Key: simhost.DetKey(2), IP: "1.2.3.4", Port: 4001, QUIC: true, WithHost: true})
		for _, target := range []ma.Multiaddr{b.Addr, b.QAddr} {
			a.PS.ClearAddrs(b.ID)
			a.PS.AddAddrs(b.ID, []ma.Multiaddr{target}, peerstore.PermanentAddrTTL)
			_, err := a.Host.NewStream(context.Background(), b.ID, "/none/1")
			fmt.Println("newstream via", target, "->", err)
			simrt.TimeSleep(2 * time.Second)
			for _, c := range b.Swarm.ConnsToPeer(a.ID) {
				fmt.Println("  B sees A as", c.RemoteMultiaddr())
			}
			for _, c := range a.Swarm.ConnsToPeer(b.ID) {
				fmt.Println("  A's own end", c.LocalMultiaddr())
			}
			a.Swarm.ClosePeer(b.ID)
			simrt.TimeSleep(2 * time.Second)
		}
		fmt.Println("mappings:", n.NATMappings())
		a.Close()
		b.Close()
	})
}
