# Machinery self-test, not a property check: the QUIC stratum (quic-go + p2p/transport/quic + quicreuse, instrumented, over
# simnet's UDP model with loss, duplication and reordering) must be deterministic and make progress. `./check selftest CQUIC`.
from stack import FULL_STACK, FULL_DEPS, QUIC_STACK, QUIC_DEPS, WT_STACK, WT_DEPS

CLAIMED = False
SPEC = dict(
    pkg="./harness/cquic",
    instrument=FULL_STACK + QUIC_STACK + WT_STACK,
    deps=FULL_DEPS + QUIC_DEPS + WT_DEPS,
    level="self_test",
    level_text="machinery self-test of the QUIC stratum",
    level_note="",
    technique="deterministic simulation with fault injection",
    design_ref="DESIGN.md section 2A",
    quick_s=30, thorough_s=120,
    rule="one run = two nodes, QUIC dial, echo; UDP loss/duplication/latency drawn",
    probes=[], real=[], stubs=[], assume=[],
)
