// Package cquic is a machinery self-test: real QUIC (quic-go, p2p/transport/quic, quicreuse; all instrumented) between two real
// nodes over simnet's UDP model with drawn loss, duplication and reordering. It asserts nothing about go-libp2p beyond
// "an echo over a lossy link completes once loss stops"; its purpose is `./check selftest CQUIC` (determinism) and the
// fault counters.
package cquic

import (
	"bytes"
	"context"
	"fmt"
	"io"
	"net"
	"os"
	"testing"
	"time"

	"github.com/libp2p/go-libp2p/core/network"
	"github.com/libp2p/go-libp2p/core/peerstore"
	ma "github.com/multiformats/go-multiaddr"

	"verifsim/harness/common"
	"verifsim/simhost"
	"verifsim/simnet"
	"verifsim/simrand"
	"verifsim/simrt"
)

var pktRun int

func TestSim(t *testing.T) { common.Main(t, common.Harness{Property: "CQUIC", Run: run}) }

func run(t *testing.T, tape *simrt.Tape) *common.Outcome {
	o := &common.Outcome{}
	g := simrt.Gen{S: tape.G}
	drop := []int{0, 30, 120, 300}[g.Int(4)]
	dup := []int{0, 50}[g.Int(2)]
	lats := [][]time.Duration{nil, {0, time.Millisecond, 15 * time.Millisecond}, {0, 5 * time.Millisecond, 80 * time.Millisecond, 400 * time.Millisecond}}[g.Int(3)]
	size := []int{16, 3000, 100000}[g.Int(3)]
	wt := g.Int(2) == 1 // the echo runs over WebTransport (HTTP/3 + webtransport-go on the same UDP port) instead of plain QUIC
	restore := simrand.Install(uint64(drop*7 + dup*3 + size))
	defer restore()
	var got, via string
	var n *simnet.Net
	res := simrt.Run(t, simrt.Config{MaxSteps: 3_000_000, TraceCap: 300000}, tape.S, func() {
		n = simnet.New(tape.G, simnet.Config{})
		n.SetUDP(simnet.UDPConfig{DropPermille: drop, DupPermille: dup, Latencies: lats})
		if os.Getenv("CQUIC_PKTLOG") != "" {
			pktRun++
			f, _ := os.Create(fmt.Sprintf("/tmp/pktlog.%d", pktRun))
			defer f.Close()
			n.SetUDPFilter(func(from, to *net.UDPAddr, data []byte) simnet.UDPVerdict {
				fmt.Fprintf(f, "%v %v len=%d first=%02x stamp=%d\n", simrt.Now(), from, len(data), data[0], simrt.Stamp())
				return simnet.UDPPass
			})
		}
		a, err := simhost.New(n, simhost.Opts{Key: simhost.DetKey(1), IP: "10.0.0.1", Port: 4001, QUIC: true, WebTransport: wt, WithHost: true})
		if err != nil {
			o.Trouble = err.Error()
			return
		}
		b, err := simhost.New(n, simhost.Opts{Key: simhost.DetKey(2), IP: "10.0.0.2", Port: 4001, QUIC: true, WebTransport: wt, WithHost: true})
		if err != nil {
			o.Trouble = err.Error()
			return
		}
		b.Host.SetStreamHandler("/echo/1", func(s network.Stream) {
			io.Copy(s, s)
			s.Close()
		})
		target := b.QAddr
		if wt {
			if target = b.WTAddr(); target == nil {
				o.Trouble = "no webtransport listen address"
				return
			}
		}
		a.PS.AddAddrs(b.ID, []ma.Multiaddr{target}, peerstore.PermanentAddrTTL)
		ctx, cancel := context.WithTimeout(context.Background(), 60*time.Second)
		s, err := a.Host.NewStream(ctx, b.ID, "/echo/1")
		cancel()
		if err != nil {
			got = "newstream: " + err.Error()
		} else {
			via = s.Conn().RemoteMultiaddr().String()
			payload := bytes.Repeat([]byte("quic-echo "), size/10+1)[:size]
			simrt.Go(func() {
				s.Write(payload)
				s.CloseWrite()
			})
			s.SetReadDeadline(time.Now().Add(5 * time.Minute))
			buf, rerr := io.ReadAll(s)
			switch {
			case rerr != nil:
				got = fmt.Sprintf("read error after %d bytes: %v", len(buf), rerr)
			case !bytes.Equal(buf, payload):
				got = fmt.Sprintf("WRONG echo: %d bytes", len(buf))
				o.Violate("CQUIC/wrong-echo", "echo of %d bytes returned %d bytes / different content", size, len(buf))
			default:
				got = "ok"
			}
			s.Close()
		}
		a.Close()
		b.Close()
		simrt.TimeSleep(10 * time.Second)
	})
	o.Sched, o.Virtual = res, res.Virtual
	for k, v := range n.UDPCounts() {
		for i := 0; i < v && i < 1; i++ {
			o.Fault(k)
		}
	}
	o.Faults = n.UDPCounts()
	o.Logf("drop=%d dup=%d lats=%v size=%d -> %s via %s; udp %v", drop, dup, lats, size, got, via, n.UDPCounts())
	o.Sig = fmt.Sprintf("%d/%d/%d/%d/%v %s %v steps=%d", drop, dup, len(lats), size, wt, got, n.UDPCounts(), res.Steps)
	if wt {
		o.Probe("webtransport-" + got[:2])
	}
	o.Nontrivial = got == "ok"
	if res.Panic != "" {
		o.Trouble = "panic: " + res.Panic
	}
	if res.Stuck {
		o.Trouble = "stuck: " + res.Deadlock
	}
	if len(res.Residue) > 0 {
		o.Logf("residue: %v", res.Residue)
		o.Probe("residue")
	}
	o.Probe("result-" + got[:2])
	return o
}
