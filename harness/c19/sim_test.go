// C19 — HTTP Peer-ID auth reports only proven identities.
//
// Operation-level simulation of the real ServerPeerIDAuth / ClientPeerIDAuth (exported API only; the
// internal handshake package is exercised through them). Everything runs synchronously in task 0 of a
// simrt bubble: the "network" is this file's http.RoundTripper, which calls server.ServeHTTP on an
// httptest.ResponseRecorder and hands every request and response to a tape-driven adversary ("mallory",
// who owns a key of her own, sees every header of every honest session, can route, replay, mutate,
// recombine, forge opaque state and answer in place of a server). time.Now() is the bubble's clock, so
// challenge (5 min) and token TTLs are crossed with simrt.TimeSleep.
//
// Clocks and the clock-jump fault (suspend/resume, VM pause, wall-clock step). Every time-dependent clause of
// the statement is stamped and checked by ONE party: the server stamps and checks challenge state and bearer
// tokens (handshake package, through its own test seam `nowFn`), the client stamps and checks the entries of
// its token store (auth/client.go, time.Now / time.Since). Each SERVER therefore runs on a clock of its own
// (bubble clock + per-server offset, installed through nowFn by two files the build overlay ADDS to /repo's
// packages, see props.py: build with -overlay .build/overlay/C19/overlay-full.json); the clients read the
// bubble's clock (auth/client.go calls package time directly, so they share one clock). Drawn faults:
//   - step "clock jump": ONE party (server i, or the client side) jumps forward between two steps, by
//     lifetime-1s / lifetime+1s / 2*lifetime for a drawn lifetime (5 min challenge lifetime, any server's token
//     TTL, any client's non-zero token TTL) — i.e. between token issue and token use, between a recorded
//     challenge and its replay; a server jump adds to its offset, a client-side jump lets the bubble's clock
//     pass and subtracts the amount from every server's offset (their clocks stand still);
//   - per call (1 in 5, drawn first = separate stratum): before every round trip >= 2 of AuthenticatedDo the
//     target server OR the client side may jump (same amounts, lifetimes of the two parties) — between the
//     legs of one handshake, and between the token's issue (leg 2) and the request proper (leg 3).
//
// Judging: all issue stamps and "now" of the server clause are read on the serving server's clock (the
// enforcer), so a challenge or token is never accepted after its lifetime on that clock whatever the bubble
// (client) clock says, and attack timing ("expiry-1s", ...) sleeps relative to the issuer's clock. Honest
// side (guards against a vacuous harness, not part of the statement): an untampered call must succeed unless
// the TARGET SERVER's clock jumped, inside that call, by at least min(5 min, its token TTL), or the client
// still holds, for this hostname, the entry it stored at the end of such an excused call (its state is then a
// product of the fault; the excuse ends when a call opens with a fresh challenge or an un-jumped call
// handshakes successfully); client-side jumps never excuse anything (the client enforces its TTL only when it
// looks a token up at the start of a call). The safety oracles stay on for excused calls.
//
// Audit (observer effect / warm-up). Observation: the oracles call nothing in the code under test — they read
// the harness's own tables of what went over the wire and verify with core/crypto on harness-held keys;
// ClientPeerIDAuth.HasToken (whose lookup deletes an expired entry) is deliberately never called; reading
// ServerPeerIDAuth.HmacKey is a field read. Warm-up: the first version always began with an untampered
// c0->s0 call, so s0's lazily drawn secret and MAC pool and c0's token store were always first used on the
// happy path (s1, c1, c2 were not warmed). Now drawn: 1 run in 4 is a COLD START without that call — the first
// request a server ever serves and the first call a client ever makes may be the adversary's (attacks that need
// recorded material and find none do nothing; no oracle needs the warm-up). Probes "cold-start",
// "first-contact-adversarial".
//
// Oracles (all derived from the statement, evaluated by a reference model that shares no code with the
// handshake package — it keeps a table of every challenge and every token each server has put on the wire,
// builds the signed data from the public spec and verifies signatures with core/crypto):
//
//	server  Next(P) on a request to server S under Host H at time t is allowed only if the request carries
//	        (lenient parse: every occurrence of every parameter, every base64 flavour)
//	        - a bearer value whose bytes equal a token S itself issued, for P, with t <= issued+TokenTTL; or
//	        - an opaque value whose bytes equal a challenge state S itself issued under Host H with
//	          t <= issued+5min, and a sig value that verifies under P's key over
//	          (that challenge, S's public key, H).
//	        Anything else is C19/server/unproven-peer/<nearest miss>. Exact replays of honest credentials
//	        within their TTL are therefore legitimate and not flagged. Weaker readings adopted: (a) hostname
//	        binding is asserted for the signature flow only; a bearer token accepted under another hostname
//	        of the same server is the probe "token-other-hostname-accepted"; (b) the exact expiry instant may
//	        go either way; (c) "a signature valid under P's key" is what core/crypto.Verify says, so
//	        altered signatures that Verify tolerates (bytes appended after an ECDSA signature's DER) are the
//	        probe "altered-bytes-still-valid" and other spellings of the same bytes (non-canonical base64
//	        tail bits, parameter order, duplicates, ...) the probe "neutral-reencoding-accepted", not
//	        violations; (d) which public key the server chose to
//	        verify with (header or bound in the state) is not asserted, only that P's key verifies.
//	client  AuthenticatedDo returning (S, nil) is allowed only if one of the responses delivered during this
//	        call carried a sig that verifies under S's key over (a challenge-server this call sent, the
//	        client's public key, the hostname the client used); or the call did not open with a fresh
//	        challenge (the client relied on the token it stored) and S is the identity of this client's last
//	        successful call for this hostname (token path, not covered by the statement: weakest reading).
//	        Otherwise C19/client/unproven-server/<why>.
//	honest  sanity: an untampered call of a client whose token store for the hostname was never touched by
//	        the adversary succeeds, reports the server's ID, and Next saw the client's ID; a spec-conforming
//	        signature by mallory over a fresh challenge is accepted as mallory (validates the reference
//	        model's signed-data format against the implementation).
//
// crypto/rand is not pinned: keys, nonces and signatures differ between replays. Traces, violation details
// and o.Sig therefore contain only structural facts (who, which artifact by index, which mutation, outcome),
// and every mutation is designed so that its accept/reject outcome does not depend on random bytes (e.g.
// padding-sensitive mutations are not applied to variable-length ECDSA/secp256k1 signatures).
//
// Sensitivity (overlay copies of /repo files, one change at a time, seed 1, one worker, 30 s each = 3-7 k runs;
// "run" is the first run index that reported the class; hs/ = p2p/http/auth/internal/handshake/):
//
//	M1  hs/server.go Unmarshal: result of the HMAC compare ignored          run 2    server/unproven-peer/altered-or-forged-token
//	                                                                         (forged token, stale MAC), then altered-or-forged-state,
//	                                                                         token-of-other-server, honest/wrong-server-id
//	M19 hs/server.go Unmarshal: HMAC compared over its first 4 bytes only   run 31   altered-or-forged-token (flip-head byte 7 of a token)
//	M2  hs/server.go VerifyChallenge: IsToken check removed                 run 45   server/unproven-peer/token-as-challenge (mallory signs
//	                                                                         the empty challenge of a bearer-token blob)
//	M2b hs/server.go VerifyBearer: !IsToken check removed                   MISSED, not observable: challenge state carries no peer ID,
//	                                                                         PeerID() fails and Next is not called (401 instead of 400)
//	M3  hs/server.go VerifyChallenge: opaque-hostname compare removed       run 28   challenge-of-other-hostname (the first version needed
//	                                                                         run 431 through a re-hosted call; the challenge source
//	                                                                         "fresh-under-other-hostname" was added for it)
//	M3b hs/handshake.go genDataToSign skips "hostname" (both sides agree)   run 0    invalid-sig, client/unproven-server/no-valid-signature,
//	                                                                         honest/spec-client-rejected
//	M8  hs/server.go verifySig takes the hostname from the opaque state     MISSED, equivalent: the compare M3 removes makes both equal
//	M4  hs/server.go challenge TTL check removed                            run 1    expired-challenge (mallory's own, expiry+1ns)
//	M4d hs/server.go challenge TTL + 2 s                                    run 1    expired-challenge (expiry+1ns; expiry+1s at run 20)
//	M4b hs/server.go token TTL check removed                                run 6    expired-token (honest client's own late reuse)
//	M4c hs/server.go token TTL compare inverted                             run 0    honest/status, run 6 expired-token
//	M7  hs/server.go VerifyChallenge: verifySig not called                  run 1    sig-of-other-key (claims-key-of-c0), invalid-sig,
//	                                                                         undecodable-sig, sig-over-other-hostname, unknown-peer
//	M6  hs/server.go client-initiated: verifies with the header's key,      run 17   sig-of-other-key (challenge bound to c0, signed and
//	    reports the key bound in the state                                           presented by mallory)
//	M20 hs/server.go reports the header's public-key although another       run 656  sig-of-other-key (replayed honest answer with an injected
//	    (bound) key verified                                                         public-key parameter)
//	M9  auth/server.go: error of hs.PeerID() ignored                        run 0    no-credential (Next called with the empty peer ID)
//	M5  hs/client.go verifySig returns nil                                  run 7    client/unproven-server/no-valid-signature, then
//	                                                                         signed-by-another-key, unknown-identity
//	M5b hs/client.go verifies over the echoed, not its own challenge        run 0    honest/call-failed
//	M11 hs/client.go server ID taken from the latest public-key parameter   run 275  client/unproven-server/signed-by-another-key (forge
//	    while the first key keeps verifying                                          variant v6 added for it; before: run 2798 via inject)
//
// OBSERVATION on the unchanged tree, found by the clock-jump fault (probe
// "observed-client-locked-out-by-empty-stored-token"; not a violation: C19's statement is pure safety and no
// unproven identity is reported anywhere in this history; first seen at seed 1 run 91 of the version that still
// had it as an oracle). Server s0 with TokenTTL 1 h, client c0 = ClientPeerIDAuth{TokenTTL: 0}, no adversary:
//  1. c0.AuthenticatedDo, leg 1 of the client-initiated handshake (challenge-server, public-key): 401 with
//     WWW-Authenticate{challenge-client, public-key, sig, opaque}; the client verifies s0's signature.
//  2. s0's clock jumps forward by >= the 5 min challenge lifetime before leg 2 (the same thing, for the server,
//     as the client being suspended that long between the legs).
//  3. leg 2 (opaque, sig, request body): the challenge has expired on the server's clock: 401 with a fresh
//     WWW-Authenticate and NO Authentication-Info. Correct.
//  4. auth/client.go runHandshake ignores the error of hs.ParseHeader (errMissingChallenge); handshake/client.go
//     Run() in state WaitingForBearer writes a bearer parameter with an empty value (writeParam drops empty
//     values) and goes to Done.
//  5. AuthenticatedDo returns (s0's ID, the 401 response, err == nil) and stores
//     tokenInfo{token: "libp2p-PeerID ", peerID: s0} for the hostname.
//  6. the next call c0 -> s0, same Host, no fault, every lifetime respected: doWithToken sends
//     "Authorization: libp2p-PeerID "; the server finds no parameter (errInvalidHeader): 400.
//  7. 400 is not 401, so the client takes the token for valid and returns (s0, the 400 response, nil); Next
//     never sees the client. Every later call repeats 6-7 for as long as the client's own TokenTTL keeps the
//     entry — for ever with the zero value. (Any 401 on leg 2 does it: server secret rotated between the legs,
//     or an adversary stripping the second Authorization.)
//
// Observations on the unchanged tree (not violations under the readings above):
//   - a signature parameter with 1 or 16 bytes appended is accepted when the signer's key is ECDSA
//     (core/crypto's ECDSA Verify ignores what follows the DER structure); the strict reading of "any
//     alteration of the signature is rejected" does not hold for that key type, the identity is still proven;
//   - a bearer token is accepted under every hostname of the server that issued it (DESIGN.md C19);
//   - client: the same empty stored token arises when the adversary strips the second Authorization; there the
//     client's state counts as adversary-tainted and nothing is required of later calls. The server ID the
//     client keeps returning was proven in the earlier handshake, which is why the token path of the client
//     oracle is keyed on "no fresh challenge in the first request", not on the presence of a bearer parameter.
//
// Clock sensitivity (same procedure): K1 token expiry check reads time.Now instead of nowFn (= another
// party's clock): run 2 honest/status (client-side jump made the server refuse a live token), run 115
// server/unproven-peer/expired-token; K2 same for the challenge check: run 2 honest/call-failed, run 13
// honest/status, run 29 expired-challenge; K3 token stamped with time.Now: run 25 honest/status, run 142
// expired-token.
//
// C19_TRACE=1 prints the decoded trace of every run to stderr (debugging aid).
package c19

import (
	"bytes"
	"crypto/hmac"
	"crypto/rand"
	"crypto/sha256"
	"encoding/base64"
	"encoding/binary"
	"encoding/json"
	"errors"
	"fmt"
	"io"
	"net/http"
	"net/http/httptest"
	"os"
	"regexp"
	"runtime/debug"
	"sort"
	"strings"
	"sync"
	"testing"
	"time"

	"github.com/libp2p/go-libp2p/core/crypto"
	"github.com/libp2p/go-libp2p/core/peer"
	httppeeridauth "github.com/libp2p/go-libp2p/p2p/http/auth"

	"verifsim/harness/common"
	"verifsim/simrt"
)

const (
	scheme       = "libp2p-PeerID"
	challengeTTL = 5 * time.Minute // DESIGN.md C19: challenge lifetime
)

const (
	ktEd = iota
	ktECDSA
	ktSecp
	ktRSA
)

var ktNames = []string{"ed25519", "ecdsa", "secp256k1", "rsa"}

// RSA-2048 generation is slow; keys are random in every run anyway (crypto/rand is not pinned), so RSA
// keys are generated once per process and handed out by index.
var rsaCache struct {
	sync.Mutex
	keys []crypto.PrivKey
}

func rsaKey(i int) (crypto.PrivKey, error) {
	rsaCache.Lock()
	defer rsaCache.Unlock()
	for len(rsaCache.keys) <= i {
		k, _, err := crypto.GenerateRSAKeyPair(2048, rand.Reader)
		if err != nil {
			return nil, err
		}
		rsaCache.keys = append(rsaCache.keys, k)
	}
	return rsaCache.keys[i], nil
}

type party struct {
	name string
	kt   int
	priv crypto.PrivKey
	pub  crypto.PubKey
	pubB []byte // protobuf encoding, as carried in public-key parameters
	id   peer.ID
}

func (p *party) varLenSig() bool { return p.kt == ktECDSA || p.kt == ktSecp }

func (p *party) sign(data []byte) string {
	s, err := p.priv.Sign(data)
	if err != nil {
		panic("harness sign: " + err.Error())
	}
	return b64(s)
}

type chalRec struct { // a challenge state a server put on the wire
	srv      *serverSim
	host     string // Host of the request it was issued to
	at       time.Time
	b64      string
	raw      []byte
	chal     string // challenge-client text
	cliInit  bool   // response carried a server signature (state bound to a client key)
	boundPub string // public-key parameter of the request that obtained it (attack material only)
}

type tokRec struct { // a bearer token a server put on the wire
	srv  *serverSim
	host string
	at   time.Time
	b64  string
	raw  []byte
	peer peer.ID // the identity the server reported to Next when it issued the token ("" = none)
}

type authRec struct { // an Authorization value with a signature, produced by an honest client
	cli   *clientSim
	srv   *serverSim // server the client meant to talk to
	host  string     // hostname the client used (and signed)
	value string
}

type srvHdr struct { // a recorded server response header
	kind  string // WWW-Authenticate / Authentication-Info
	value string
	srv   *serverSim
}

type serverSim struct {
	*party
	idx   int
	auth  *httppeeridauth.ServerPeerIDAuth
	hosts []string
	ttl   time.Duration
	chals map[string]*chalRec
	toks  map[string]*tokRec
	next  []peer.ID // Next invocations of the ServeHTTP call in progress

	// offset: this server's clock is the bubble's clock plus offset (the clients read the bubble's clock). A
	// forward jump of the server's clock adds to it; a forward jump of the client side lets the bubble's
	// clock pass and subtracts the same amount here, so that the server's clock stands still meanwhile.
	offset   time.Duration
	contacts int // requests served so far
}

// now is the server's own clock: every stamp and every expiry the server enforces is judged on it.
func (s *serverSim) now() time.Time { return time.Now().Add(s.offset) }

func (s *serverSim) clock() string {
	return fmt.Sprintf("%v", (simrt.Now() + s.offset).Round(time.Nanosecond))
}

type clientSim struct {
	*party
	auth       *httppeeridauth.ClientPeerIDAuth
	ttl        time.Duration
	lastProven map[string]peer.ID // hostname -> server identity of the last successful call
	tainted    map[string]bool    // hostname -> adversary interfered with a call (token store no longer trusted)
	faulted    map[string]bool    // hostname -> the token entry the client may hold was stored by a call excused for a clock jump
}

type exchange struct {
	status int
	hdr    http.Header
	body   []byte
	srv    *serverSim
	next   []peer.ID
}

type callCtx struct {
	cli   *clientSim
	srv   *serverSim
	host  string
	mode  int // 0 plain, 1 first Authorization stripped (forces the server-initiated flow), 2 adversary in the middle
	reqs  []string
	resps []http.Header
	exs   []*exchange
	notes []string

	timeFaults bool          // clock jumps may be drawn between the round trips of this call
	srvJumped  time.Duration // how far the target server's clock jumped between the round trips of this call
}

type world struct {
	o   *common.Outcome
	g   simrt.Gen
	sig strings.Builder

	srv     []*serverSim
	cli     []*clientSim
	mal     *party
	parties []*party
	nRSA    int
	malKey  []byte // mallory's own HMAC secret for forged state

	chals []*chalRec
	toks  []*tokRec
	auths []*authRec
	hdrs  []srvHdr
	seen  map[string][]string // parameter name -> values observed on the wire, in order

	cur    *callCtx
	curSrv *serverSim // server whose ServeHTTP is running (selects the clock the handshake package reads)

	legitNext, attacks, tampered, jumps int
}

func TestSim(t *testing.T) {
	common.Main(t, common.Harness{Property: "C19", Run: run})
}

func run(t *testing.T, tape *simrt.Tape) *common.Outcome {
	o := &common.Outcome{}
	w := &world{o: o, g: simrt.Gen{S: tape.G}, seen: map[string][]string{}}
	finished := false
	res := simrt.Run(t, simrt.Config{MaxSteps: 20000, IdleLimit: 100 * time.Hour}, tape.S, func() {
		defer func() {
			if r := recover(); r != nil {
				o.Trouble = fmt.Sprintf("harness panic: %v | %s", r, firstLines(string(debug.Stack()), 14))
			}
		}()
		// per-server clocks: the handshake package's nowFn (its own test seam, reached through two files the
		// build overlay adds, see props.py) reads the clock of the server that is serving
		httppeeridauth.VerifsimSetServerNow(func() time.Time {
			if w.curSrv != nil {
				return w.curSrv.now()
			}
			return time.Now()
		})
		defer httppeeridauth.VerifsimSetServerNow(nil)
		w.setup()
		w.steps()
		finished = true
	})
	o.Sched = res
	o.Virtual = res.Virtual
	o.Sig = w.sig.String()
	if o.Trouble == "" {
		switch {
		case res.Panic != "":
			o.Trouble = "task panic: " + firstLines(res.Panic, 10)
		case !finished || res.Stuck || res.StepLimit:
			o.Trouble = fmt.Sprintf("run did not finish: stuck=%v steplimit=%v", res.Stuck, res.StepLimit)
		case len(res.Residue) > 0:
			o.Trouble = fmt.Sprintf("goroutines left: %v", res.Residue)
		}
	}
	// non-trivial: at least one proven identity reached Next and the adversary acted at least once
	o.Nontrivial = w.legitNext >= 1 && w.attacks+w.tampered+w.jumps >= 1
	if os.Getenv("C19_TRACE") != "" {
		fmt.Fprintf(os.Stderr, "=== run sig=%s\n%s\n", o.Sig, strings.Join(o.Trace, "\n"))
	}
	return o
}

// ---------------------------------------------------------------------------------------------
// population

func (w *world) newParty(name string, kt int) *party {
	var priv crypto.PrivKey
	var err error
	switch kt {
	case ktEd:
		priv, _, err = crypto.GenerateEd25519Key(rand.Reader)
	case ktECDSA:
		priv, _, err = crypto.GenerateECDSAKeyPair(rand.Reader)
	case ktSecp:
		priv, _, err = crypto.GenerateSecp256k1Key(rand.Reader)
	case ktRSA:
		priv, err = rsaKey(w.nRSA)
		w.nRSA++
	}
	if err != nil {
		panic("keygen: " + err.Error())
	}
	pub := priv.GetPublic()
	pb, err := crypto.MarshalPublicKey(pub)
	if err != nil {
		panic(err)
	}
	id, err := peer.IDFromPublicKey(pub)
	if err != nil {
		panic(err)
	}
	p := &party{name: name, kt: kt, priv: priv, pub: pub, pubB: pb, id: id}
	w.parties = append(w.parties, p)
	w.o.Probe("key-" + ktNames[kt])
	return p
}

func (w *world) drawKT() int { return w.g.Weighted(6, 3, 3, 1) }

func (w *world) setup() {
	g := w.g
	srvTTL := []time.Duration{time.Hour, 10 * time.Minute, 90 * time.Second, 3 * time.Second}
	cliTTL := []time.Duration{0, time.Hour, 60 * time.Second}
	nSrv := 1 + g.Weighted(3, 2)
	for i := 0; i < nSrv; i++ {
		s := &serverSim{idx: i, chals: map[string]*chalRec{}, toks: map[string]*tokRec{}}
		s.party = w.newParty(fmt.Sprintf("s%d", i), w.drawKT())
		s.ttl = srvTTL[g.Int(len(srvTTL))]
		if i == 0 {
			s.hosts = []string{"a.example"}
			if g.Chance(1, 2) {
				s.hosts = append(s.hosts, "a.example:8443")
			}
		} else {
			s.hosts = []string{"c.example"}
			if g.Chance(1, 3) {
				s.hosts = append(s.hosts, "a.example") // a hostname both servers answer for
				w.o.Probe("shared-hostname")
			}
		}
		hosts := s.hosts
		s.auth = &httppeeridauth.ServerPeerIDAuth{
			PrivKey:         s.priv,
			TokenTTL:        s.ttl,
			NoTLS:           true,
			ValidHostnameFn: func(h string) bool { return contains(hosts, h) },
		}
		if g.Chance(1, 2) {
			s.auth.HmacKey = bytes.Repeat([]byte{byte(0x51 + i)}, 32) // else: the server draws its own secret
		}
		srv := s
		s.auth.Next = func(p peer.ID, rw http.ResponseWriter, r *http.Request) {
			srv.next = append(srv.next, p)
			if r.Body != nil {
				io.Copy(io.Discard, r.Body)
			}
			rw.WriteHeader(http.StatusOK)
			rw.Write([]byte("ok"))
		}
		w.srv = append(w.srv, s)
		w.o.Logf("server s%d key=%s tokenTTL=%v hosts=%v ownSecret=%v", i, ktNames[s.kt], s.ttl, s.hosts, s.auth.HmacKey == nil)
	}
	if nSrv == 2 {
		w.o.Probe("two-servers")
	}
	nCli := 1 + g.Weighted(3, 2, 1)
	for i := 0; i < nCli; i++ {
		c := &clientSim{lastProven: map[string]peer.ID{}, tainted: map[string]bool{}, faulted: map[string]bool{}}
		c.party = w.newParty(fmt.Sprintf("c%d", i), w.drawKT())
		c.ttl = cliTTL[g.Int(len(cliTTL))]
		c.auth = &httppeeridauth.ClientPeerIDAuth{PrivKey: c.priv, TokenTTL: c.ttl}
		w.cli = append(w.cli, c)
		w.o.Logf("client c%d key=%s tokenTTL=%v", i, ktNames[c.kt], c.ttl)
	}
	w.mal = w.newParty("m", w.drawKT())
	w.malKey = bytes.Repeat([]byte{0x4d}, 32)
	w.o.Logf("mallory key=%s", ktNames[w.mal.kt])
}

func (w *world) name(p peer.ID) string {
	if p == "" {
		return "<empty>"
	}
	for _, x := range w.parties {
		if x.id == p {
			return x.name
		}
	}
	return "?"
}

func (w *world) partyByID(p peer.ID) *party {
	for _, x := range w.parties {
		if x.id == p {
			return x
		}
	}
	return nil
}

func (w *world) names(ps []peer.ID) string {
	if len(ps) == 0 {
		return "-"
	}
	var l []string
	for _, p := range ps {
		l = append(l, w.name(p))
	}
	return strings.Join(l, "+")
}

// ---------------------------------------------------------------------------------------------
// steps

func (w *world) steps() {
	g := w.g
	// warm start (0, simplest): one honest call first, so that there is material to attack. Cold start: no
	// bootstrap — the first request a server ever serves (lazy secret, MAC pool) and the first call a client
	// ever makes (empty token store) may then be the adversary's; attacks that need recorded material and
	// find none do nothing.
	if cold := g.Chance(1, 4); cold {
		w.o.Logf("cold start: no honest bootstrap call")
		w.o.Probe("cold-start")
		fmt.Fprintf(&w.sig, "cold;")
	} else {
		w.call(w.cli[0], w.srv[0], w.srv[0].hosts[0], 0)
	}
	n := g.Range(1, 9)
	sleeps := []time.Duration{time.Second, 30 * time.Second, 89 * time.Second, 91 * time.Second, 4*time.Minute + 59*time.Second,
		5*time.Minute + time.Second, 10 * time.Minute, time.Hour, time.Hour + time.Second}
	for i := 0; i < n; i++ {
		switch g.Weighted(4, 6, 2, 4, 3) {
		case 4:
			// fault: forward jump of ONE party's clock between two steps (between token issue and token
			// use, between a recorded challenge and its replay, ...)
			w.jump(g.Int(len(w.srv)+1), w.jumpAmount(nil, nil), "step")
		case 0:
			c := w.cli[g.Int(len(w.cli))]
			s := w.srv[g.Int(len(w.srv))]
			h := s.hosts[g.Int(len(s.hosts))]
			w.call(c, s, h, g.Weighted(3, 1))
		case 1:
			w.attack()
		case 2:
			d := sleeps[g.Int(len(sleeps))]
			w.o.Logf("sleep %v", d)
			fmt.Fprintf(&w.sig, "Z%d;", int(d/time.Second))
			simrt.TimeSleep(d)
		case 3:
			c := w.cli[g.Int(len(w.cli))]
			s := w.srv[g.Int(len(w.srv))]
			h := s.hosts[g.Int(len(s.hosts))]
			w.call(c, s, h, 2)
		}
	}
}

// jumpAmount draws a jump around one of the lifetimes of the statement: lifetime-1s, lifetime+1s, 2*lifetime,
// for the challenge lifetime, every server's token TTL and every client's (non-zero) token TTL — or, inside a
// call, those of the two parties of the call.
func (w *world) jumpAmount(s *serverSim, c *clientSim) time.Duration {
	lifetimes := []time.Duration{challengeTTL}
	add := func(d time.Duration) {
		if d <= 0 {
			return
		}
		for _, x := range lifetimes {
			if x == d {
				return
			}
		}
		lifetimes = append(lifetimes, d)
	}
	if s != nil {
		add(s.ttl)
	} else {
		for _, x := range w.srv {
			add(x.ttl)
		}
	}
	if c != nil {
		add(c.ttl)
	} else {
		for _, x := range w.cli {
			add(x.ttl)
		}
	}
	l := lifetimes[w.g.Int(len(lifetimes))]
	switch w.g.Int(3) {
	case 0:
		return l - time.Second
	case 1:
		return l + time.Second
	}
	return 2 * l
}

// jump moves one party's clock forward by d (suspend/resume, VM pause, wall-clock step): who < len(servers)
// is that server; otherwise the client side (all clients read the bubble's clock: it passes, and every
// server's offset shrinks by the same amount, i.e. the servers' clocks stand still).
func (w *world) jump(who int, d time.Duration, where string) string {
	w.jumps++
	var name string
	if who < len(w.srv) {
		s := w.srv[who]
		s.offset += d
		name = s.name
		w.o.Fault("clock-jump-server")
	} else {
		simrt.TimeSleep(d)
		for _, s := range w.srv {
			s.offset -= d
		}
		name = "clients"
		w.o.Fault("clock-jump-clients")
	}
	var clocks []string
	for _, s := range w.srv {
		clocks = append(clocks, s.name+"="+s.clock())
	}
	w.o.Logf("CLOCK JUMP %s +%v (%s); clocks now: clients=%v %s", name, d, where, simrt.Now(), strings.Join(clocks, " "))
	desc := fmt.Sprintf("J%s+%v", name, d)
	fmt.Fprintf(&w.sig, "%s;", desc)
	return desc
}

// ---------------------------------------------------------------------------------------------
// the wire: delivery to a real server, with recording and the server-side oracle

func (w *world) deliver(s *serverSim, host, authz string, body []byte, origin string) *exchange {
	req := httptest.NewRequest("POST", "http://placeholder/r", bytes.NewReader(body))
	req.Host = host
	req.URL.Host = host
	if authz != "" {
		req.Header.Set("Authorization", authz)
	}
	rec := httptest.NewRecorder()
	s.next = nil
	if s.contacts == 0 && (strings.HasPrefix(origin, "atk:") || (w.cur != nil && w.cur.mode == 2)) {
		w.o.Probe("first-contact-adversarial")
	}
	s.contacts++
	w.curSrv = s
	func() {
		defer func() {
			w.curSrv = nil
			if r := recover(); r != nil {
				w.o.Violate("C19/panic/server", "ServeHTTP panicked on request %s params{%s}: %v | %s", origin, paramNames(authz), r, firstLines(string(debug.Stack()), 12))
			}
		}()
		s.auth.ServeHTTP(rec, req)
	}()
	ex := &exchange{status: rec.Code, hdr: rec.Header().Clone(), body: rec.Body.Bytes(), srv: s, next: append([]peer.ID(nil), s.next...)}
	now := s.now() // the enforcer's clock: issue stamps and expiry are judged on it

	// server-side oracle, before the response's artifacts are recorded (a request cannot be justified by
	// a credential that only its own response creates)
	for _, p := range ex.next {
		ok, how := w.legit(s, host, authz, p, now)
		if ok {
			w.legitNext++
			continue
		}
		w.o.Violate("C19/server/unproven-peer/"+how,
			"server %s (Host %q, its clock %s) reported peer %s to Next for request %s params{%s}, but the request carries no credential that proves it: %s",
			s.name, host, s.clock(), w.name(p), origin, paramNames(authz), how)
	}

	// record what the server put on the wire
	if v := ex.hdr.Get("WWW-Authenticate"); v != "" {
		w.hdrs = append(w.hdrs, srvHdr{"WWW-Authenticate", v, s})
		h := parseHdr(v)
		w.observe(h)
		if ob, ok := h.get("opaque"); ok {
			if raw, err := base64.URLEncoding.DecodeString(ob); err == nil {
				c := &chalRec{srv: s, host: host, at: now, b64: ob, raw: raw}
				c.chal, _ = h.get("challenge-client")
				_, c.cliInit = h.get("sig")
				if c.cliInit {
					c.boundPub, _ = parseHdr(authz).get("public-key")
				}
				if s.chals[string(raw)] == nil {
					s.chals[string(raw)] = c
					w.chals = append(w.chals, c)
				}
			}
		}
	}
	if v := ex.hdr.Get("Authentication-Info"); v != "" {
		w.hdrs = append(w.hdrs, srvHdr{"Authentication-Info", v, s})
		h := parseHdr(v)
		w.observe(h)
		if tb, ok := h.get("bearer"); ok {
			if raw, err := base64.URLEncoding.DecodeString(tb); err == nil {
				tk := &tokRec{srv: s, host: host, at: now, b64: tb, raw: raw}
				if len(ex.next) == 1 {
					tk.peer = ex.next[0]
				}
				if s.toks[string(raw)] == nil {
					s.toks[string(raw)] = tk
					w.toks = append(w.toks, tk)
				}
			}
		}
	}
	w.o.Logf("  %s -> %s Host=%s params{%s} t=%s => %d next=%s www{%s} info{%s}", origin, s.name, host, paramNames(authz), s.clock(),
		ex.status, w.names(ex.next), paramNames(ex.hdr.Get("WWW-Authenticate")), paramNames(ex.hdr.Get("Authentication-Info")))
	fmt.Fprintf(&w.sig, "%s@%s/%s>%s;", origin, s.name, host, w.names(ex.next))
	return ex
}

func (w *world) observe(h *hdr) {
	for _, p := range h.ps {
		if !contains(w.seen[p.k], p.v) {
			w.seen[p.k] = append(w.seen[p.k], p.v)
		}
	}
}

// legit is the reference model of the statement's server clause.
func (w *world) legit(s *serverSim, host, authz string, p peer.ID, now time.Time) (bool, string) {
	ps := lenientParams(authz)
	rank := map[string]int{"expired-token": 1, "expired-challenge": 1, "challenge-of-other-hostname": 2, "sig-over-other-hostname": 2,
		"sig-of-other-key": 3, "token-of-other-peer": 3, "token-of-other-server": 4, "challenge-of-other-server": 4, "token-as-challenge": 4,
		"challenge-as-token": 4, "unknown-peer": 5, "invalid-sig": 5, "no-sig": 6, "altered-or-forged-token": 7, "altered-or-forged-state": 7,
		"undecodable-sig": 8, "undecodable-token": 8, "undecodable-state": 8, "no-credential": 9}
	best := "no-credential"
	note := func(r string) {
		if rank[r] < rank[best] {
			best = r
		}
	}
	for _, v := range ps["bearer"] {
		if len(decodings(v)) == 0 {
			note("undecodable-token")
		}
		for _, d := range decodings(v) {
			t := s.toks[string(d)]
			switch {
			case t == nil:
				note("altered-or-forged-token")
				for _, o := range w.srv {
					if o != s && o.toks[string(d)] != nil {
						note("token-of-other-server")
					}
					if o.chals[string(d)] != nil {
						note("challenge-as-token")
					}
				}
			case t.peer != p:
				note("token-of-other-peer")
			case now.After(t.at.Add(s.ttl)):
				note("expired-token")
			default:
				return true, "bearer"
			}
		}
	}
	who := w.partyByID(p)
	for _, v := range ps["opaque"] {
		if len(decodings(v)) == 0 {
			note("undecodable-state")
		}
		for _, d := range decodings(v) {
			c := s.chals[string(d)]
			switch {
			case c == nil:
				note("altered-or-forged-state")
				for _, o := range w.srv {
					if o != s && o.chals[string(d)] != nil {
						note("challenge-of-other-server")
					}
					if o.toks[string(d)] != nil {
						note("token-as-challenge")
					}
				}
				continue
			case now.After(c.at.Add(challengeTTL)):
				note("expired-challenge")
				continue
			case c.host != host:
				note("challenge-of-other-hostname")
				continue
			case who == nil:
				note("unknown-peer")
				continue
			}
			if len(ps["sig"]) == 0 {
				note("no-sig")
			}
			for _, sv := range ps["sig"] {
				if len(decodings(sv)) == 0 {
					note("undecodable-sig")
				}
				for _, sg := range decodings(sv) {
					if ok, _ := who.pub.Verify(clientSigData(c.chal, s.pubB, host), sg); ok {
						return true, "sig"
					}
					note("invalid-sig")
					for _, h2 := range w.allHosts() {
						if h2 != host {
							if ok, _ := who.pub.Verify(clientSigData(c.chal, s.pubB, h2), sg); ok {
								note("sig-over-other-hostname")
							}
						}
					}
					for _, q := range w.parties {
						if q != who {
							if ok, _ := q.pub.Verify(clientSigData(c.chal, s.pubB, host), sg); ok {
								note("sig-of-other-key")
							}
						}
					}
				}
			}
		}
	}
	return false, best
}

func (w *world) allHosts() []string {
	out := []string{"evil.example"}
	for _, s := range w.srv {
		for _, h := range s.hosts {
			if !contains(out, h) {
				out = append(out, h)
			}
		}
	}
	return out
}

// signed data per the public spec (libp2p specs, http/peer-id-auth.md): scheme prefix, then the
// parameters sorted by name, each as uvarint(len("k=v")) "k=" v.
func signedData(parts map[string][]byte) []byte {
	keys := make([]string, 0, len(parts))
	for k := range parts {
		keys = append(keys, k)
	}
	sort.Strings(keys)
	buf := []byte(scheme)
	for _, k := range keys {
		v := parts[k]
		buf = binary.AppendUvarint(buf, uint64(len(k)+1+len(v)))
		buf = append(buf, k...)
		buf = append(buf, '=')
		buf = append(buf, v...)
	}
	return buf
}

func clientSigData(challengeClient string, serverPub []byte, host string) []byte {
	return signedData(map[string][]byte{"challenge-client": []byte(challengeClient), "server-public-key": serverPub, "hostname": []byte(host)})
}

func serverSigData(challengeServer string, clientPub []byte, host string) []byte {
	return signedData(map[string][]byte{"challenge-server": []byte(challengeServer), "client-public-key": clientPub, "hostname": []byte(host)})
}

// ---------------------------------------------------------------------------------------------
// honest clients, and the adversary in the middle of their calls

func (w *world) call(c *clientSim, s *serverSim, host string, mode int) {
	ctx := &callCtx{cli: c, srv: s, host: host, mode: mode}
	// fault stratum, drawn per call: clock jumps of one party between the round trips of the handshake
	ctx.timeFaults = w.g.Chance(1, 5)
	modeName := []string{"plain", "strip-first", "mitm"}[mode]
	w.o.Logf("call %s -> %s Host=%s mode=%s clock-jumps=%v t=%v (clock of %s: %s)", c.name, s.name, host, modeName, ctx.timeFaults, simrt.Now(), s.name, s.clock())
	fmt.Fprintf(&w.sig, "C%s>%s/%s/%d[", c.name, s.name, host, mode)
	req, err := http.NewRequest("POST", "http://"+host+"/r", bytes.NewReader([]byte("body of "+c.name)))
	if err != nil {
		panic(err)
	}
	hc := &http.Client{Transport: w}
	var sid peer.ID
	var resp *http.Response
	w.cur = ctx
	func() {
		defer func() {
			if r := recover(); r != nil {
				err = fmt.Errorf("panic")
				w.o.Violate("C19/panic/client", "AuthenticatedDo panicked (call %s->%s mode=%s notes=%v): %v | %s", c.name, s.name, modeName, ctx.notes, r, firstLines(string(debug.Stack()), 12))
			}
		}()
		sid, resp, err = c.auth.AuthenticatedDo(hc, req)
	}()
	w.cur = nil
	status := 0
	if resp != nil {
		status = resp.StatusCode
		if resp.Body != nil {
			resp.Body.Close()
		}
	}
	if mode == 2 {
		w.tampered++
	}
	// classify the flow from what the client sent
	flow := ""
	for i, a := range ctx.reqs {
		ps := lenientParams(a)
		switch {
		case len(ps["bearer"]) > 0 && i == 0:
			flow += "T"
		case len(ps["bearer"]) > 0:
			flow += "b" // the request proper, with the token just obtained
		case len(ps["sig"]) > 0 && len(ps["public-key"]) > 0:
			flow += "S" // answer to a server-initiated challenge
		case len(ps["sig"]) > 0:
			flow += "c" // second leg of the client-initiated flow
		case len(ps["challenge-server"]) > 0:
			flow += "I"
		default:
			flow += "?"
		}
	}
	if err != nil {
		w.o.Logf("  => error (flow %s, %d round trips)", flow, len(ctx.reqs))
		fmt.Fprintf(&w.sig, "]err;")
	} else {
		w.o.Logf("  => server=%s status=%d (flow %s)", w.name(sid), status, flow)
		fmt.Fprintf(&w.sig, "]%s;", w.name(sid))
	}

	// client-side oracle
	if err == nil {
		ok, why := w.provenServer(ctx, sid)
		if !ok {
			w.o.Violate("C19/client/unproven-server/"+why,
				"client %s (call to %s Host %q, mode=%s, flow %s, adversary actions %v) reported server identity %s, but no delivered response carries that identity's signature over this call's challenge, the client's key and the hostname: %s",
				c.name, s.name, host, modeName, flow, ctx.notes, w.name(sid), why)
		} else if mode == 2 {
			if sid == w.mal.id {
				w.o.Probe("client-reports-mallory-who-signed")
			}
		}
		c.lastProven[host] = sid
	} else if mode == 2 {
		w.o.Probe("client-refused-tampered-handshake")
	}

	// honest-path sanity
	clean := mode != 2 && !c.tainted[host]
	if mode == 2 {
		c.tainted[host] = true
	}
	// The honest-path oracles are guards against a vacuous harness, not part of the (pure safety) statement;
	// they must stay sound under the clock-jump fault:
	//  - the server enforces the challenge lifetime between the legs of the handshake and its token TTL between
	//    issuing the token and the request proper; if its own clock jumped by at least the shorter of the two
	//    inside this call, this call is excused. Jumps of the client side excuse nothing (the client enforces
	//    its TTL only when it looks the token up at the start of a call);
	//  - what the client stored for the hostname at the end of an excused call is a product of the fault (e.g.
	//    the empty "token" of the observation in the header), so every later call of the same client to the
	//    same hostname is excused as long as the client still holds that entry: it does when the call opens
	//    without a fresh challenge (it relied on the stored entry); a call that opens with a fresh challenge
	//    shows the entry is gone (dropped by the client's own TTL), and an untampered, un-jumped call that
	//    handshakes successfully replaces it — both end the excuse.
	// All safety oracles (server clause in deliver, client clause above) stay on for excused calls.
	limit := challengeTTL
	if s.ttl < limit {
		limit = s.ttl
	}
	late := ctx.srvJumped >= limit
	openedFresh, handshook := false, false
	for i, a := range ctx.reqs {
		if _, ok := parseHdr(a).get("challenge-server"); ok {
			handshook = true
			if i == 0 {
				openedFresh = true
			}
		}
	}
	if openedFresh {
		delete(c.faulted, host)
	}
	sawClient := false
	for _, ex := range ctx.exs {
		for _, p := range ex.next {
			if p == c.id {
				sawClient = true
			}
		}
	}
	// the client opened the call with the scheme and no parameter at all — the "token" it stored after an
	// earlier handshake whose last response carried no bearer — and got nowhere: observation, see header
	emptyStored := len(ctx.reqs) > 0 && strings.Contains(ctx.reqs[0], scheme) && len(parseHdr(ctx.reqs[0]).ps) == 0
	if mode != 2 && emptyStored && (err != nil || status != http.StatusOK || !sawClient) {
		w.o.Probe("observed-client-locked-out-by-empty-stored-token")
		w.o.Logf("  observation: %s sent \"Authorization: %s \" (its stored entry for %q), status %d, err=%v, Next never saw it", c.name, scheme, host, status, err != nil)
	}
	if clean && ctx.srvJumped > 0 {
		if late {
			w.o.Probe("honest-call-server-clock-jumped-past-lifetime")
		} else if err == nil && status == http.StatusOK {
			w.o.Probe("honest-call-server-clock-jumped-within-lifetime-ok")
		}
	}
	switch {
	case clean && late:
		if err == nil && sid != s.id {
			w.o.Violate("C19/honest/wrong-server-id", "untampered call %s->%s Host %q (flow %s, server clock jumped %v inside the call) reported server %s", c.name, s.name, host, flow, ctx.srvJumped, w.name(sid))
		}
		c.faulted[host] = true
		clean = false
	case clean && c.faulted[host]:
		w.o.Probe("honest-call-excused-client-holds-entry-of-jumped-call")
		if err == nil && handshook && status == http.StatusOK {
			delete(c.faulted, host) // the entry now comes from this call's own successful handshake
		}
		clean = false
	}
	if clean {
		switch {
		case err != nil:
			w.o.Violate("C19/honest/call-failed", "untampered call %s->%s Host %q (mode=%s, flow %s, t=%v, server TTL %v, client TTL %v, jumps inside the call %v) failed: %s", c.name, s.name, host, modeName, flow, simrt.Now(), s.ttl, c.ttl, ctx.notes, scrub(err.Error()))
		case sid != s.id:
			w.o.Violate("C19/honest/wrong-server-id", "untampered call %s->%s Host %q (flow %s) reported server %s", c.name, s.name, host, flow, w.name(sid))
		case status != http.StatusOK:
			w.o.Violate("C19/honest/status", "untampered call %s->%s Host %q (flow %s) ended with status %d (server TTL %v, client TTL %v, jumps inside the call %v)", c.name, s.name, host, flow, status, s.ttl, c.ttl, ctx.notes)
		case !sawClient:
			w.o.Violate("C19/honest/client-not-reported", "untampered call %s->%s Host %q (flow %s) succeeded but Next never saw %s", c.name, s.name, host, flow, c.name)
		default:
			switch {
			case flow == "T":
				w.o.Probe("flow-token-reuse")
			case strings.HasPrefix(flow, "T"):
				w.o.Probe("flow-token-rejected-rehandshake")
			case strings.Contains(flow, "S"):
				w.o.Probe("flow-server-initiated")
			default:
				w.o.Probe("flow-client-initiated")
			}
		}
	}
}

// provenServer is the reference model of the statement's client clause.
func (w *world) provenServer(ctx *callCtx, sid peer.ID) (bool, string) {
	c := ctx.cli
	var css []string
	// token path: the call did not open with a fresh challenge, i.e. the client relied on what it stored
	// for this hostname after an earlier handshake (a bearer token, possibly a degenerate one)
	storedFirst := false
	for i, a := range ctx.reqs {
		ps := lenientParams(a)
		css = append(css, ps["challenge-server"]...)
		if i == 0 && len(ps["challenge-server"]) == 0 {
			storedFirst = true
		}
	}
	var sigs [][]byte
	for _, h := range ctx.resps {
		for _, hn := range []string{"WWW-Authenticate", "Authentication-Info"} {
			for _, sv := range lenientParams(h.Get(hn))["sig"] {
				sigs = append(sigs, decodings(sv)...)
			}
		}
	}
	who := w.partyByID(sid)
	if who != nil {
		for _, cs := range css {
			for _, sg := range sigs {
				if ok, _ := who.pub.Verify(serverSigData(cs, c.pubB, ctx.host), sg); ok {
					return true, "sig"
				}
			}
		}
	}
	if storedFirst {
		if lp, ok := c.lastProven[ctx.host]; ok && lp == sid {
			return true, "cached-with-token"
		}
	}
	if who == nil {
		return false, "unknown-identity"
	}
	for _, q := range w.parties {
		if q == who {
			continue
		}
		for _, cs := range css {
			for _, sg := range sigs {
				if ok, _ := q.pub.Verify(serverSigData(cs, c.pubB, ctx.host), sg); ok {
					return false, "signed-by-another-key"
				}
			}
		}
	}
	if len(sigs) == 0 {
		return false, "no-signature-delivered"
	}
	return false, "no-valid-signature"
}

func (w *world) RoundTrip(req *http.Request) (*http.Response, error) {
	ctx := w.cur
	if ctx == nil {
		return nil, errors.New("harness: round trip outside a call")
	}
	var body []byte
	if req.Body != nil {
		body, _ = io.ReadAll(req.Body)
		req.Body.Close()
	}
	c := ctx.cli
	authz := req.Header.Get("Authorization")
	ctx.reqs = append(ctx.reqs, authz)
	rt := len(ctx.reqs)
	if rt > 8 {
		return nil, errors.New("harness: too many round trips")
	}
	ah := parseHdr(authz)
	w.observe(ah)
	if _, ok := ah.get("sig"); ok {
		w.auths = append(w.auths, &authRec{cli: c, srv: ctx.srv, host: req.Host, value: authz})
	}

	if ctx.timeFaults && rt >= 2 {
		// between two round trips of one call: a party is suspended / its wall clock steps forward
		switch w.g.Weighted(3, 1, 1) {
		case 1:
			d := w.jumpAmount(ctx.srv, c)
			ctx.notes = append(ctx.notes, fmt.Sprintf("before-rt%d:%s", rt, w.jump(ctx.srv.idx, d, fmt.Sprintf("inside the call, before round trip %d", rt))))
			ctx.srvJumped += d
		case 2:
			d := w.jumpAmount(ctx.srv, c)
			ctx.notes = append(ctx.notes, fmt.Sprintf("before-rt%d:%s", rt, w.jump(len(w.srv), d, fmt.Sprintf("inside the call, before round trip %d", rt))))
		}
	}
	dst, host, sent := ctx.srv, req.Host, authz
	tag := fmt.Sprintf("%s.%d", c.name, rt)
	malAnswers := false
	act := func(s string) {
		ctx.notes = append(ctx.notes, fmt.Sprintf("rt%d:%s", rt, s))
		w.o.Fault("mitm:" + strings.SplitN(s, " ", 2)[0])
		tag += "/" + s
	}
	switch ctx.mode {
	case 1:
		if rt == 1 {
			sent = ""
			w.o.Fault("strip-first-authorization")
			tag += "/strip"
		}
	case 2:
		switch w.g.Weighted(6, 2, 1, 1, 2, 2) {
		case 1:
			sent = ""
			act("req-strip")
		case 2:
			if len(w.srv) > 1 {
				dst = w.srv[1-dst.idx]
				act("req-reroute")
			}
		case 3:
			if len(dst.hosts) > 1 {
				for _, h := range dst.hosts {
					if h != host {
						host = h
						break
					}
				}
				act("req-rehost")
			}
		case 4:
			if len(ah.ps) > 0 {
				d := w.mutate(ah, c.varLenSig(), 1)
				sent = ah.String()
				act("req-mutate " + d)
			}
		case 5:
			malAnswers = true
		}
	}

	var ex *exchange
	if malAnswers {
		fv := w.g.Weighted(3, 1, 1, 1, 1, 1, 2)
		act(fmt.Sprintf("mallory-answers v%d", fv))
		ex = w.malloryAnswer(ctx, authz, fv)
		fmt.Fprintf(&w.sig, "%s;", tag)
		w.o.Logf("  %s => %d (mallory) www{%s} info{%s}", tag, ex.status, paramNames(ex.hdr.Get("WWW-Authenticate")), paramNames(ex.hdr.Get("Authentication-Info")))
	} else {
		ex = w.deliver(dst, host, sent, body, tag)
		ctx.exs = append(ctx.exs, ex)
	}
	hdrs := ex.hdr.Clone()
	status := ex.status
	if ctx.mode == 2 && !malAnswers {
		kind := "WWW-Authenticate"
		if hdrs.Get(kind) == "" {
			kind = "Authentication-Info"
		}
		cur := hdrs.Get(kind)
		switch w.g.Weighted(5, 2, 3, 3) {
		case 1:
			if len(w.hdrs) > 0 {
				i := w.g.Int(len(w.hdrs))
				r := w.hdrs[i]
				hdrs.Set(r.kind, r.value)
				act(fmt.Sprintf("resp-replay #%d(%s of %s)", i, r.kind, r.srv.name))
			}
		case 2:
			if cur != "" {
				h := parseHdr(cur)
				d := w.mutate(h, dst.varLenSig(), 1)
				hdrs.Set(kind, h.String())
				act("resp-mutate " + d)
			}
		case 3:
			fv := w.g.Weighted(3, 1, 1, 1, 1, 1, 2)
			if cur == "" {
				m := w.malloryAnswer(ctx, authz, fv)
				hdrs, status = m.hdr, m.status
				act(fmt.Sprintf("resp-forge-whole v%d", fv))
			} else {
				h := parseHdr(cur)
				w.forgeServerParams(ctx, h, fv, authz)
				hdrs.Set(kind, h.String())
				act(fmt.Sprintf("resp-forge v%d", fv))
			}
		}
		if len(ctx.notes) > 0 {
			fmt.Fprintf(&w.sig, "%s;", tag)
			w.o.Logf("    delivered to %s as %d www{%s} info{%s} after %s", c.name, status, paramNames(hdrs.Get("WWW-Authenticate")), paramNames(hdrs.Get("Authentication-Info")), tag)
		}
	}
	ctx.resps = append(ctx.resps, hdrs)
	return &http.Response{
		Status: fmt.Sprintf("%d %s", status, http.StatusText(status)), StatusCode: status,
		Proto: "HTTP/1.1", ProtoMajor: 1, ProtoMinor: 1,
		Header: hdrs, Body: io.NopCloser(bytes.NewReader(ex.body)), ContentLength: int64(len(ex.body)), Request: req,
	}, nil
}

// lastChallengeServer: the most recent challenge-server the client sent in this call (what a server
// would have to sign).
func lastChallengeServer(ctx *callCtx) string {
	for i := len(ctx.reqs) - 1; i >= 0; i-- {
		if v, ok := parseHdr(ctx.reqs[i]).get("challenge-server"); ok {
			return v
		}
	}
	return ""
}

// forgeServerParams rewrites public-key and/or sig of a server response the way mallory would.
// v0: mallory's key and mallory's correct signature (a legitimate proof of *mallory's* identity);
// v1: the server's key stays, mallory signs; v2: mallory's key, the server's signature stays;
// v3: mallory signs another hostname; v4: mallory signs another client key; v5: mallory signs a stale challenge;
// v6: only a public-key parameter naming mallory is added (else as v2).
func (w *world) forgeServerParams(ctx *callCtx, h *hdr, v int, authz string) {
	if v == 6 { // the real signature stays; a public-key parameter naming mallory is added where there was none
		if _, ok := h.get("public-key"); !ok {
			h.ps = append(h.ps, hp{k: "public-key", v: b64(w.mal.pubB)})
			return
		}
		v = 2
	}
	if _, ok := h.get("public-key"); ok && v != 1 {
		h.set("public-key", b64(w.mal.pubB))
	}
	if _, ok := h.get("sig"); ok && v != 2 {
		h.set("sig", w.mallorySig(ctx, v))
	}
}

func (w *world) mallorySig(ctx *callCtx, v int) string {
	cs, cpub, host := lastChallengeServer(ctx), ctx.cli.pubB, ctx.host
	switch v {
	case 3:
		host = "evil.example"
		for _, h := range w.allHosts() {
			if h != ctx.host && h != "evil.example" {
				host = h
			}
		}
	case 4:
		cpub = w.mal.pubB
	case 5:
		cs = swapCase(cs)
	}
	return w.mal.sign(serverSigData(cs, cpub, host))
}

// malloryAnswer: mallory answers a client's request herself, without any server.
func (w *world) malloryAnswer(ctx *callCtx, authz string, v int) *exchange {
	ah := parseHdr(authz)
	_, hasSig := ah.get("sig")
	_, hasCS := ah.get("challenge-server")
	_, hasBearer := ah.get("bearer")
	pub := b64(w.mal.pubB)
	if v == 1 {
		pub = b64(ctx.srv.pubB)
	}
	sig := w.mallorySig(ctx, v)
	if v == 2 { // a recorded signature of the real server, if there is one
		for i := len(w.hdrs) - 1; i >= 0; i-- {
			if s, ok := parseHdr(w.hdrs[i].value).get("sig"); ok && w.hdrs[i].srv == ctx.srv {
				sig = s
				break
			}
		}
	}
	malChal := b64(bytes.Repeat([]byte{'M'}, 32))
	ex := &exchange{hdr: http.Header{}}
	switch {
	case hasSig:
		ex.status = 200
		h := &hdr{sep: ", "}
		if hasCS {
			h.ps = append(h.ps, hp{k: "sig", v: sig})
		}
		h.ps = append(h.ps, hp{k: "bearer", v: b64([]byte("mallory's token"))})
		ex.hdr.Set("Authentication-Info", h.String())
	case hasBearer:
		ex.status = 200
	case hasCS:
		ex.status = 401
		h := &hdr{sep: ", ", ps: []hp{{k: "challenge-client", v: malChal}, {k: "public-key", v: pub}, {k: "sig", v: sig}, {k: "opaque", v: b64([]byte("mallory's state"))}}}
		ex.hdr.Set("WWW-Authenticate", h.String())
	default:
		ex.status = 401
		h := &hdr{sep: ", ", ps: []hp{{k: "challenge-client", v: malChal}, {k: "public-key", v: pub}, {k: "opaque", v: b64([]byte("mallory's state"))}}}
		ex.hdr.Set("WWW-Authenticate", h.String())
	}
	return ex
}

// ---------------------------------------------------------------------------------------------
// mallory's own requests

func (w *world) otherServer(s *serverSim) *serverSim {
	if len(w.srv) > 1 {
		return w.srv[1-s.idx]
	}
	return s
}

// pickTarget: 0 = where the credential belongs.
func (w *world) pickTarget(s *serverSim, host string) (*serverSim, string, string) {
	switch w.g.Weighted(6, 2, 2, 1) {
	case 1:
		if o := w.otherServer(s); o != s {
			h := o.hosts[0]
			if contains(o.hosts, host) {
				h = host
			}
			return o, h, "other-server"
		}
	case 2:
		for _, h := range s.hosts {
			if h != host {
				return s, h, "other-hostname"
			}
		}
	case 3:
		return s, "evil.example", "unserved-hostname"
	}
	return s, host, "home"
}

// timing sleeps to an instant around the expiry of a credential. 0 = now.
func (w *world) timing(issuer *serverSim, at time.Time, ttl time.Duration, what string) string {
	k := w.g.Weighted(6, 2, 2, 1, 1, 1)
	if k == 0 {
		return "now"
	}
	delta := []time.Duration{0, -time.Second, time.Second, -time.Nanosecond, time.Nanosecond, 0}[k]
	name := []string{"", "expiry-1s", "expiry+1s", "expiry-1ns", "expiry+1ns", "expiry"}[k]
	d := at.Add(ttl).Add(delta).Sub(issuer.now()) // on the clock of the server that stamped the credential
	if d <= 0 {
		return "now(" + what + " " + name + " already passed)"
	}
	simrt.TimeSleep(d)
	return what + " " + name
}

func (w *world) attack() {
	g := w.g
	w.attacks++
	switch g.Weighted(4, 4, 4, 2, 4) {
	case 0:
		w.atkReplayToken()
	case 1:
		w.atkReplaySig()
	case 2:
		w.atkMallorySigned()
	case 3:
		w.atkBlobConfusion()
	case 4:
		w.atkForgedState()
	}
}

func bearerHdr(v string) *hdr { return &hdr{sep: ", ", ps: []hp{{k: "bearer", v: v}}} }

// send delivers one of mallory's requests and books probes about what happened to it.
func (w *world) send(s *serverSim, host string, h *hdr, desc string, expectPeer *party) *exchange {
	w.o.Fault("attack:" + strings.SplitN(desc, " ", 2)[0])
	ex := w.deliver(s, host, h.String(), nil, "atk:"+desc)
	_ = expectPeer
	return ex
}

func (w *world) atkReplayToken() {
	if len(w.toks) == 0 {
		w.o.Logf("attack replay-token: no token recorded yet")
		return
	}
	i := w.g.Int(len(w.toks))
	t := w.toks[i]
	h := bearerHdr(t.b64)
	mut := w.mutate(h, false, 0)
	s, host, tgt := w.pickTarget(t.srv, t.host)
	when := w.timing(t.srv, t.at, s.ttl, "token")
	ex := w.send(s, host, h, fmt.Sprintf("replay-token #%d(of %s@%s) mut=%s target=%s when=%s", i, w.name(t.peer), t.srv.name, mut, tgt, when), nil)
	w.bookReplay(ex, "token", mut, tgt, when)
}

func (w *world) atkReplaySig() {
	if len(w.auths) == 0 {
		w.o.Logf("attack replay-sig: no signed Authorization recorded yet")
		return
	}
	i := w.g.Int(len(w.auths))
	a := w.auths[i]
	h := parseHdr(a.value)
	mut := w.mutate(h, a.cli.varLenSig(), 0)
	s, host, tgt := w.pickTarget(a.srv, a.host)
	issuer, at := a.srv, a.srv.now()
	if ob, ok := parseHdr(a.value).get("opaque"); ok {
		if raw, err := base64.URLEncoding.DecodeString(ob); err == nil {
			for _, sv := range w.srv {
				if c := sv.chals[string(raw)]; c != nil {
					issuer, at = sv, c.at
				}
			}
		}
	}
	when := w.timing(issuer, at, challengeTTL, "challenge")
	ex := w.send(s, host, h, fmt.Sprintf("replay-sig #%d(of %s for %s/%s) mut=%s target=%s when=%s", i, a.cli.name, a.srv.name, a.host, mut, tgt, when), nil)
	w.bookReplay(ex, "challenge", mut, tgt, when)
}

func (w *world) bookReplay(ex *exchange, what, mut, tgt, when string) {
	acc := len(ex.next) > 0
	if acc {
		switch {
		case mut == "none" && tgt == "home":
			w.o.Probe("replay-within-ttl-accepted-" + what)
		case mut == "none" && tgt == "other-hostname" && what == "token":
			w.o.Probe("token-other-hostname-accepted") // DESIGN.md C19: observation, the code does not compare the token's hostname
		case strings.HasPrefix(mut, "neutral:"):
			w.o.Probe("neutral-reencoding-accepted")
		case strings.HasPrefix(mut, "value:") && !strings.Contains(mut, "(challenge-server"):
			// a credential parameter whose bytes changed and which core/crypto still verifies: trailing bytes
			// after an ECDSA signature's DER (challenge-server is the client's own nonce, not a credential)
			w.o.Probe("altered-bytes-still-valid")
		}
	}
	if mut == "none" && tgt == "home" {
		switch {
		case strings.HasSuffix(when, "expiry-1s") || strings.HasSuffix(when, "expiry-1ns"):
			if acc {
				w.o.Probe("accepted-just-before-" + what + "-expiry")
			}
		case strings.HasSuffix(when, "expiry+1s") || strings.HasSuffix(when, "expiry+1ns"):
			if !acc {
				w.o.Probe("rejected-just-after-" + what + "-expiry")
			}
		}
	}
}

// fetchChallenge: mallory asks for a challenge. kind 0: no Authorization (server-initiated challenge);
// kind 1: client-initiated with a victim's public key, so that the state is bound to the victim's key.
func (w *world) fetchChallenge(s *serverSim, host string, kind int, victim *party) *chalRec {
	authz := ""
	tag := "atk:fetch-challenge"
	if kind == 1 {
		h := &hdr{sep: ", ", ps: []hp{{k: "challenge-server", v: b64(bytes.Repeat([]byte{'m'}, 32))}, {k: "public-key", v: b64(victim.pubB)}}}
		authz = h.String()
		tag = "atk:fetch-challenge-bound-to-" + victim.name
	}
	n := len(w.chals)
	w.deliver(s, host, authz, nil, tag)
	if len(w.chals) > n {
		return w.chals[len(w.chals)-1]
	}
	return nil
}

func (w *world) atkMallorySigned() {
	g := w.g
	s := w.srv[g.Int(len(w.srv))]
	host := s.hosts[g.Int(len(s.hosts))]
	victim := w.cli[g.Int(len(w.cli))].party
	var c *chalRec
	src := ""
	switch g.Weighted(4, 2, 2, 2) {
	case 3:
		for _, h2 := range s.hosts {
			if h2 != host {
				c = w.fetchChallenge(s, h2, 0, nil)
				src = "fresh-under-other-hostname"
				break
			}
		}
		if c != nil {
			break
		}
		fallthrough
	case 0:
		c = w.fetchChallenge(s, host, 0, nil)
		src = "fresh"
	case 1:
		c = w.fetchChallenge(s, host, 1, victim)
		src = "fresh-bound-to-" + victim.name
	case 2:
		if len(w.chals) > 0 {
			i := g.Int(len(w.chals))
			c = w.chals[i]
			src = fmt.Sprintf("recorded#%d(%s/%s,bound=%v)", i, c.srv.name, c.host, c.cliInit)
		}
	}
	if c == nil {
		w.o.Logf("attack mallory-signed: no challenge obtained from %s/%s", s.name, host)
		return
	}
	// v0: everything as the spec says (legitimate proof of mallory's own identity)
	v := g.Weighted(3, 2, 2, 2, 2, 1, 1)
	chal, spub, shost, pub := c.chal, s.pubB, host, b64(w.mal.pubB)
	vname := "correct"
	switch v {
	case 1:
		shost = "evil.example"
		for _, h := range w.allHosts() {
			if h != host && h != "evil.example" {
				shost = h
			}
		}
		vname = "signs-other-hostname"
	case 2:
		spub = w.mal.pubB
		if o := w.otherServer(s); o != s {
			spub = o.pubB
		}
		vname = "signs-other-server-key"
	case 3:
		pub = b64(victim.pubB)
		vname = "claims-key-of-" + victim.name
	case 4:
		chal = swapCase(chal)
		vname = "signs-other-challenge"
	case 5:
		pub = ""
		vname = "no-public-key"
	case 6:
		pub = b64(s.pubB)
		vname = "claims-server-key"
	}
	h := &hdr{sep: ", "}
	if pub != "" {
		h.ps = append(h.ps, hp{k: "public-key", v: pub})
	}
	h.ps = append(h.ps, hp{k: "challenge-server", v: b64(bytes.Repeat([]byte{'m'}, 32))})
	h.ps = append(h.ps, hp{k: "sig", v: w.mal.sign(clientSigData(chal, spub, shost))}, hp{k: "opaque", v: c.b64})
	mut := "none"
	if g.Chance(1, 4) {
		mut = w.mutate(h, w.mal.varLenSig(), 1)
	}
	when := w.timing(c.srv, c.at, challengeTTL, "challenge")
	ex := w.send(s, host, h, fmt.Sprintf("mallory-signed chal=%s variant=%s mut=%s when=%s", src, vname, mut, when), nil)
	if src == "fresh" && v == 0 && mut == "none" && (when == "now" || strings.HasSuffix(when, "-1s") || strings.HasSuffix(when, "-1ns")) {
		// honest-path sanity for a spec-conforming third-party client; also proves that the reference
		// model's signed-data format is the implementation's
		if len(ex.next) == 1 && ex.next[0] == w.mal.id {
			w.o.Probe("mallory-own-identity-accepted")
		} else {
			w.o.Violate("C19/honest/spec-client-rejected", "a signature by %s key over (fresh server-initiated challenge of %s, its public key, Host %q) built from the public spec was not accepted as that key's identity at %s: status %d next=%s",
				ktNames[w.mal.kt], s.name, host, when, ex.status, w.names(ex.next))
		}
	}
}

func (w *world) atkBlobConfusion() {
	g := w.g
	switch g.Weighted(1, 1) {
	case 0: // a bearer token presented as challenge state, with mallory's signature over the (absent) challenge
		if len(w.toks) == 0 {
			return
		}
		i := g.Int(len(w.toks))
		t := w.toks[i]
		chal := ""
		if g.Chance(1, 3) {
			chal = b64(bytes.Repeat([]byte{0}, 32))
		}
		h := &hdr{sep: ", ", ps: []hp{{k: "public-key", v: b64(w.mal.pubB)}, {k: "challenge-server", v: b64(bytes.Repeat([]byte{'m'}, 32))},
			{k: "sig", v: w.mal.sign(clientSigData(chal, t.srv.pubB, t.host))}, {k: "opaque", v: t.b64}}}
		w.send(t.srv, t.host, h, fmt.Sprintf("token-as-challenge #%d(of %s@%s) emptyChallenge=%v", i, w.name(t.peer), t.srv.name, chal == ""), nil)
	case 1: // challenge state presented as bearer token
		if len(w.chals) == 0 {
			return
		}
		i := g.Int(len(w.chals))
		c := w.chals[i]
		w.send(c.srv, c.host, bearerHdr(c.b64), fmt.Sprintf("challenge-as-token #%d(%s/%s,bound=%v)", i, c.srv.name, c.host, c.cliInit), nil)
	}
}

// atkForgedState: white-box forging of the opaque state (the adversary may know the format; the oracles
// do not). The MAC is stale, or made with a secret that is not the target's.
func (w *world) atkForgedState() {
	g := w.g
	s := w.srv[g.Int(len(w.srv))]
	host := s.hosts[g.Int(len(s.hosts))]
	victim := w.parties[g.Int(len(w.parties))]
	macKind := g.Weighted(3, 2, 2, 1, 1)
	macName := []string{"stale-mac", "mallory-secret", "other-server-secret", "zero-mac", "no-mac"}[macKind]
	mac := func(old, fields []byte) []byte {
		switch macKind {
		case 0:
			if len(old) >= 32 {
				return append(append([]byte(nil), old[:32]...), fields...)
			}
			return append(make([]byte, 32), fields...)
		case 1:
			return append(hmacSum(w.malKey, fields), fields...)
		case 2:
			o := w.otherServer(s)
			key := o.auth.HmacKey
			if o == s || key == nil {
				key = bytes.Repeat([]byte{0x77}, 32)
			}
			return append(hmacSum(key, fields), fields...)
		case 3:
			return append(make([]byte, 32), fields...)
		}
		return fields
	}
	now := time.Now().Format(time.RFC3339Nano)
	switch g.Weighted(2, 2, 2) {
	case 0: // token minted from nothing
		fields, _ := json.Marshal(map[string]any{"is-token": true, "peer-id": victim.id.String(), "hostname": host, "created-time": now})
		w.send(s, host, bearerHdr(b64(mac(nil, fields))), fmt.Sprintf("forged-token minted-for=%s %s", victim.name, macName), nil)
	case 1: // a recorded token with edited fields
		if len(w.toks) == 0 {
			return
		}
		i := g.Int(len(w.toks))
		t := w.toks[i]
		edit := g.Weighted(2, 2, 1)
		ename := []string{"refresh-created-time", "peer-id:=" + victim.name, "hostname:=" + host}[edit]
		fields, ok := editFields(t.raw, func(m map[string]any) {
			switch edit {
			case 0:
				m["created-time"] = now
			case 1:
				m["peer-id"] = victim.id.String()
			case 2:
				m["hostname"] = host
			}
		})
		if !ok {
			return
		}
		w.send(s, host, bearerHdr(b64(mac(t.raw, fields))), fmt.Sprintf("forged-token from#%d(of %s@%s) edit=%s %s", i, w.name(t.peer), t.srv.name, ename, macName), nil)
	case 2: // an honest client's signed answer whose (expired or foreign) challenge state gets a new timestamp / hostname
		if len(w.auths) == 0 {
			return
		}
		i := g.Int(len(w.auths))
		a := w.auths[i]
		h := parseHdr(a.value)
		ob, _ := h.get("opaque")
		raw, err := base64.URLEncoding.DecodeString(ob)
		if err != nil {
			return
		}
		edit := g.Weighted(2, 1)
		ename := []string{"refresh-created-time", "hostname:=" + host}[edit]
		fields, ok := editFields(raw, func(m map[string]any) {
			if edit == 0 {
				m["created-time"] = now
			} else {
				m["hostname"] = host
			}
		})
		if !ok {
			return
		}
		h.set("opaque", b64(mac(raw, fields)))
		w.send(s, host, h, fmt.Sprintf("forged-challenge-state from#%d(of %s for %s/%s) edit=%s %s", i, a.cli.name, a.srv.name, a.host, ename, macName), nil)
	}
}

// editFields never fails: whether a blob that was damaged in transit still parses depends on random bytes,
// and the history must not — an unparsable blob is forged on unedited (the request is sent all the same).
func editFields(raw []byte, f func(map[string]any)) ([]byte, bool) {
	if len(raw) < 32 {
		return raw, true
	}
	m := map[string]any{}
	if err := json.Unmarshal(raw[32:], &m); err != nil {
		return raw[32:], true
	}
	f(m)
	b, err := json.Marshal(m)
	if err != nil {
		return raw[32:], true
	}
	return b, true
}

func hmacSum(key, data []byte) []byte {
	h := hmac.New(sha256.New, key)
	h.Write(data)
	return h.Sum(nil)
}

// ---------------------------------------------------------------------------------------------
// header model and mutations

type hp struct {
	k, v string
	raw  string // emitted verbatim instead of k="v" when set
}

type hdr struct {
	pre    string
	scheme string
	ps     []hp
	sep    string
	post   string
}

func isSep(r rune) bool { return r == ' ' || r == ',' || r == '\t' }

func parseHdr(s string) *hdr {
	h := &hdr{sep: ", "}
	i := strings.Index(s, scheme)
	if i < 0 {
		return h
	}
	for _, tok := range strings.FieldsFunc(s[i+len(scheme):], isSep) {
		k, v, ok := strings.Cut(tok, "=")
		if !ok {
			break
		}
		h.ps = append(h.ps, hp{k: k, v: strings.Trim(v, `"`)})
	}
	return h
}

func (h *hdr) String() string {
	var b strings.Builder
	b.WriteString(h.pre)
	if h.scheme != "" {
		b.WriteString(h.scheme)
	} else {
		b.WriteString(scheme)
	}
	b.WriteByte(' ')
	for i, p := range h.ps {
		if i > 0 {
			b.WriteString(h.sep)
		}
		if p.raw != "" {
			b.WriteString(p.raw)
		} else {
			b.WriteString(p.k + `="` + p.v + `"`)
		}
	}
	b.WriteString(h.post)
	return b.String()
}

func (h *hdr) get(k string) (string, bool) {
	for _, p := range h.ps {
		if p.k == k {
			return p.v, true
		}
	}
	return "", false
}

func (h *hdr) set(k, v string) {
	for i := range h.ps {
		if h.ps[i].k == k {
			h.ps[i].v = v
			h.ps[i].raw = ""
			return
		}
	}
	h.ps = append(h.ps, hp{k: k, v: v})
}

var quotedParam = regexp.MustCompile(`([A-Za-z][A-Za-z0-9-]*)\s*=\s*"([^"]*)"`)

// lenientParams collects every value any reasonable parser could attribute to a parameter name:
// space/comma separated tokens with or without quotes, quoted strings with blanks inside, any letter case.
func lenientParams(s string) map[string][]string {
	out := map[string][]string{}
	add := func(k, v string) {
		k = strings.ToLower(k)
		if !contains(out[k], v) {
			out[k] = append(out[k], v)
		}
	}
	for _, tok := range strings.FieldsFunc(s, isSep) {
		if k, v, ok := strings.Cut(tok, "="); ok {
			add(k, strings.Trim(v, `"'`))
		}
	}
	for _, m := range quotedParam.FindAllStringSubmatch(s, -1) {
		add(m[1], m[2])
	}
	return out
}

// decodings: every byte string a base64 flavour could make of v.
func decodings(v string) [][]byte {
	v = strings.Map(func(r rune) rune {
		if r == ' ' || r == '\t' || r == '\r' || r == '\n' {
			return -1
		}
		return r
	}, v)
	var out [][]byte
	for _, enc := range []*base64.Encoding{base64.URLEncoding, base64.RawURLEncoding, base64.StdEncoding, base64.RawStdEncoding} {
		d, err := enc.DecodeString(v)
		if err != nil {
			continue
		}
		dup := false
		for _, o := range out {
			if bytes.Equal(o, d) {
				dup = true
			}
		}
		if !dup {
			out = append(out, d)
		}
	}
	return out
}

func paramNames(s string) string {
	if s == "" {
		return ""
	}
	var l []string
	for _, tok := range strings.FieldsFunc(s, isSep) {
		if k, _, ok := strings.Cut(tok, "="); ok {
			// only names the harness knows: a damaged header can put random base64 in front of a '='
			if !contains(paramOrder, strings.ToLower(k)) && k != "foo" && k != "pad" {
				k = "<other>"
			}
			l = append(l, k)
		}
	}
	if len(l) == 0 {
		return "<no-params>"
	}
	return strings.Join(l, ",")
}

func b64(b []byte) string { return base64.URLEncoding.EncodeToString(b) }

func swapCase(s string) string {
	return strings.Map(func(r rune) rune {
		switch {
		case r >= 'a' && r <= 'z':
			return r - 32
		case r >= 'A' && r <= 'Z':
			return r + 32
		}
		return r
	}, s)
}

var paramOrder = []string{"opaque", "bearer", "sig", "public-key", "challenge-client", "challenge-server"}

// mutate applies one drawn mutation to one drawn parameter of h and returns its structural description.
// Description prefixes: "none"; "value:" the decoded bytes change; "text:" the encoding is damaged;
// "neutral:" the same bytes in another spelling (a server may accept or reject, both are fine);
// "hdr:" header structure; "swap:" a value recorded elsewhere. min=1 excludes "none".
// varLenSig: the sig parameter's length is random (ECDSA/secp256k1 DER) — padding-sensitive mutations
// would then have a random effect and are replaced.
func (w *world) mutate(h *hdr, varLenSig bool, min int) string {
	g := w.g
	if len(h.ps) == 0 {
		return "none"
	}
	weights := []int{12, // none
		3, 3, 3, 2, 2, 2, 2, 2, 2, // value: flip-head flip-tail flip-mid trunc1 trunc-half empty append1 append16 zeros
		2, 2, 1, 1, 1, 2, 2, 2, 1, // text/neutral: swapcase extra-pad noquote squote upper-name noncanon-tail strip-pad std-alphabet space-inside
		2, 2, 2, 1, 1, 1, 1, 1, 1, // hdr: drop dup-bogus-first dup-bogus-last reverse scheme-case prefix-scheme compact junk-param oversize
		4, 3, // swap: same-name cross-name
		3} // inject a parameter the header does not have
	if min > 0 {
		weights[0] = 0
	}
	m := g.Weighted(weights...)
	if m == 0 {
		return "none"
	}
	pi := g.Int(len(h.ps))
	p := &h.ps[pi]
	a, bit := g.Int(32), g.Int(8)
	raw, derr := base64.URLEncoding.DecodeString(p.v)
	canPad := !(p.k == "sig" && varLenSig) && strings.HasSuffix(p.v, "=")
	on := p.k
	setRaw := func(b []byte) { p.v = b64(b) }
	if m >= 1 && m <= 9 && (derr != nil || len(raw) == 0) {
		m = 10 // not base64 (should not happen): damage the text instead
	}
	// A compressed secp256k1 point with a flipped x coordinate is a valid key with probability 1/2, which
	// would make the rest of the history depend on random bytes: flips on such a key go to the prefix byte
	// (bit 0: the other valid key with the same x; other bits: never a valid encoding).
	secpKey := p.k == "public-key" && len(raw) == 37 && raw[0] == 0x08 && raw[1] == 0x02
	switch m {
	case 1:
		i := a
		if i >= len(raw) {
			i = len(raw) - 1
		}
		if secpKey {
			i = 4
		}
		raw[i] ^= 1 << bit
		setRaw(raw)
		return fmt.Sprintf("value:flip-head(%s,byte %d,bit %d)", on, a, bit)
	case 2:
		i := len(raw) - 1 - a%16
		if i < 0 {
			i = 0
		}
		if secpKey {
			i = 4
		}
		raw[i] ^= 1 << bit
		setRaw(raw)
		return fmt.Sprintf("value:flip-tail(%s,byte -%d,bit %d)", on, 1+a%16, bit)
	case 3:
		i := len(raw) * (a % 16) / 16
		if secpKey {
			i = 4
		}
		raw[i] ^= 1 << bit
		setRaw(raw)
		return fmt.Sprintf("value:flip-at(%s,%d/16,bit %d)", on, a%16, bit)
	case 4:
		setRaw(raw[:len(raw)-1])
		return "value:truncate-1(" + on + ")"
	case 5:
		setRaw(raw[:len(raw)/2])
		return "value:truncate-half(" + on + ")"
	case 6:
		p.v = ""
		return "value:empty(" + on + ")"
	case 7:
		setRaw(append(raw, 0))
		return "value:append-1(" + on + ")"
	case 8:
		setRaw(append(raw, bytes.Repeat([]byte{0xaa}, 16)...))
		return "value:append-16(" + on + ")"
	case 9:
		setRaw(make([]byte, len(raw)))
		return "value:zeros(" + on + ")"
	case 10:
		p.v = swapCase(p.v)
		return "value:swapcase(" + on + ")"
	case 11:
		p.v += "="
		return "text:extra-pad(" + on + ")"
	case 12:
		p.raw = p.k + "=" + p.v
		return "text:no-quotes(" + on + ")"
	case 13:
		p.raw = p.k + "='" + p.v + "'"
		return "text:single-quotes(" + on + ")"
	case 14:
		p.raw = strings.ToUpper(p.k) + `="` + p.v + `"`
		return "text:upper-name(" + on + ")"
	case 15:
		if !canPad {
			p.v += "="
			return "text:extra-pad(" + on + ")"
		}
		// same bytes, non-canonical unused bits in the last symbol
		const alpha = "ABCDEFGHIJKLMNOPQRSTUVWXYZabcdefghijklmnopqrstuvwxyz0123456789-_"
		t := strings.TrimRight(p.v, "=")
		last := strings.IndexByte(alpha, t[len(t)-1])
		if last < 0 {
			p.v += "="
			return "text:extra-pad(" + on + ")"
		}
		p.v = t[:len(t)-1] + string(alpha[last|1]) + p.v[len(t):]
		return "neutral:noncanonical-tail-bits(" + on + ")"
	case 16:
		if !canPad {
			p.v += "="
			return "text:extra-pad(" + on + ")"
		}
		p.v = strings.TrimRight(p.v, "=")
		return "neutral:strip-padding(" + on + ")"
	case 17:
		// '-','_' -> '+','/'; whether the value contains any is random, so the label does not say: when
		// there is none the value gets an extra '=' instead (both are refused by a base64url decoder)
		n := strings.NewReplacer("-", "+", "_", "/").Replace(p.v)
		if n == p.v {
			n += "="
		}
		p.v = n
		return "text:std-alphabet(" + on + ")"
	case 18:
		p.v = p.v[:len(p.v)/2] + " " + p.v[len(p.v)/2:]
		return "text:space-inside(" + on + ")"
	case 19:
		h.ps = append(h.ps[:pi], h.ps[pi+1:]...)
		return "hdr:drop(" + on + ")"
	case 20:
		bogus := hp{k: p.k, v: b64(make([]byte, 48))}
		h.ps = append(h.ps[:pi], append([]hp{bogus}, h.ps[pi:]...)...)
		return "neutral:duplicate-bogus-before(" + on + ")"
	case 21:
		h.ps = append(h.ps, hp{k: p.k, v: b64(make([]byte, 48))})
		return "hdr:duplicate-bogus-after(" + on + ")"
	case 22:
		for i, j := 0, len(h.ps)-1; i < j; i, j = i+1, j-1 {
			h.ps[i], h.ps[j] = h.ps[j], h.ps[i]
		}
		return "neutral:reverse-order"
	case 23:
		h.scheme = strings.ToUpper(scheme)
		return "hdr:scheme-case"
	case 24:
		h.pre = `Basic dXNlcjpwdw==, `
		return "neutral:other-scheme-first"
	case 25:
		h.sep = ","
		return "neutral:compact-separators"
	case 26:
		h.ps = append(h.ps, hp{k: "foo", v: "bar"})
		return "neutral:junk-param"
	case 27:
		h.ps = append(h.ps, hp{k: "pad", v: strings.Repeat("A", 2100)})
		return "hdr:oversize"
	case 28:
		pool := w.seen[p.k]
		var alt []string
		for _, v := range pool {
			if v != p.v {
				alt = append(alt, v)
			}
		}
		if p.k == "public-key" {
			for _, q := range w.parties {
				if v := b64(q.pubB); v != p.v && !contains(alt, v) {
					alt = append(alt, v)
				}
			}
		}
		if len(alt) == 0 {
			setRaw(make([]byte, len(raw)))
			return "value:zeros(" + on + ")"
		}
		i := g.Int(len(alt))
		p.v = alt[i]
		return fmt.Sprintf("swap:%s<-other-%s#%d", on, on, i)
	case 29:
		var names []string
		for _, n := range paramOrder {
			if n != p.k && len(w.seen[n]) > 0 {
				names = append(names, n)
			}
		}
		if len(names) == 0 {
			p.v = ""
			return "value:empty(" + on + ")"
		}
		n := names[g.Int(len(names))]
		i := g.Int(len(w.seen[n]))
		p.v = w.seen[n][i]
		return fmt.Sprintf("swap:%s<-%s#%d", on, n, i)
	case 30:
		var names []string
		for _, n := range paramOrder {
			if _, has := h.get(n); !has && (len(w.seen[n]) > 0 || n == "public-key") {
				names = append(names, n)
			}
		}
		if len(names) == 0 {
			h.ps = append(h.ps, hp{k: "foo", v: "bar"})
			return "neutral:junk-param"
		}
		n := names[g.Int(len(names))]
		var pool []string
		if n == "public-key" {
			pool = append(pool, b64(w.mal.pubB))
			for _, q := range w.parties {
				if q != w.mal {
					pool = append(pool, b64(q.pubB))
				}
			}
		} else {
			pool = w.seen[n]
		}
		i := g.Int(len(pool))
		np := hp{k: n, v: pool[i]}
		if g.Bool() {
			h.ps = append(h.ps, np)
		} else {
			h.ps = append([]hp{np}, h.ps...)
		}
		return fmt.Sprintf("hdr:inject(%s#%d)", n, i)
	}
	return "none"
}

// ---------------------------------------------------------------------------------------------

func contains(l []string, s string) bool {
	for _, x := range l {
		if x == s {
			return true
		}
	}
	return false
}

var b64ish = regexp.MustCompile(`[A-Za-z0-9_=+/-]{24,}`)

// scrub removes anything that could be random bytes from an error text.
func scrub(s string) string { return b64ish.ReplaceAllString(s, "<b64>") }

func firstLines(s string, n int) string {
	l := strings.Split(s, "\n")
	if len(l) > n {
		l = l[:n]
	}
	return strings.Join(l, " | ")
}
