# orchestrator configuration of the C19 check (loaded by tools/props.py)
SPEC = dict(
    pkg="./harness/c19",
    # two files ADDED to /repo's packages through the build overlay (nothing is replaced, /repo is not modified): a setter for
    # the handshake package's own test seam `nowFn` and its re-export, so that every server can run on a clock of its own
    overlay_add={"p2p/http/auth/internal/handshake/zz_verifsim_clock.go": "harness/c19/seam_handshake.go.txt",
                 "p2p/http/auth/zz_verifsim_clock.go": "harness/c19/seam_auth.go.txt"},
    level="exploration",
    level_text=("seeded search over populations x adversary plans x clock offsets of the real ServerPeerIDAuth / ClientPeerIDAuth "
                "connected by an in-memory RoundTripper inside a synctest bubble; every request that reaches a server and every "
                "AuthenticatedDo result is judged by a reference model of the statement (tables of the challenges and tokens each "
                "server actually issued, signed data rebuilt from the public spec, core/crypto verification). Fault: forward clock jumps "
                "of ONE party (each server has a clock of its own, the clients share the bubble's) between steps and between the round "
                "trips of one handshake; every lifetime is judged on the clock of the party that enforces it. Sampling, not proof."),
    level_note=("trusted: testing/synctest fake clock, core/crypto Sign/Verify and key (un)marshalling, net/http header handling, "
                "the harness's reference model; crypto/rand is not pinned, so keys, nonces and signatures differ between replays "
                "and only structural facts enter traces and signatures"),
    technique="deterministic simulation with fault injection (per-party clock jumps): operation-level, tape-driven network adversary, reference-model oracles",
    design_ref="DESIGN.md section 6 (C19)",
    quick_s=30, thorough_s=300,
    rule=("one run = one tape: 1-2 servers (own key of any type, own secret, token TTL 3 s-1 h, 1-2 hostnames, optionally a hostname "
          "served by both), 1-3 honest clients (key of any type, client token TTL 0/60 s/1 h) and an adversary with a key of her own; "
          "after one honest bootstrap call (1 run in 4: cold start without it, so that first contacts can be the adversary's), "
          "1-9 drawn steps: clock jump of one party (server i or the client side; lifetime-1s / +1s / x2 of the challenge lifetime, "
          "a server's or a client's token TTL), honest call (1 in 5 with clock jumps of the target server or the client side drawn "
          "before each later round trip; (plain, or first Authorization stripped to force the "
          "server-initiated flow; token reuse and token-expired re-handshake arise from the clock), adversary request (replay of a "
          "recorded token or signed Authorization with one of 29 parameter/header mutations, to the home or another server / "
          "hostname, now or at expiry -1s/+1s/-1ns/+1ns/0; adversary-signed variants over fresh, bound or recorded challenges; "
          "token<->challenge state confusion; forged state under a stale MAC / foreign secret), virtual sleep (1 s-1 h), or an "
          "honest call with the adversary in the middle (strip, reroute, re-host, mutate, replay recorded response headers, "
          "forge public-key/sig, answer in the server's place). Non-trivial = at least one proven identity reached Next and the "
          "adversary acted at least once; distinct = distinct sequence of (origin descriptor, target, identities reported to "
          "Next) and (call, reported server identity or error)"),
    probes=["flow-client-initiated", "flow-server-initiated", "flow-token-reuse", "flow-token-rejected-rehandshake",
            "key-ed25519", "key-ecdsa", "key-secp256k1", "key-rsa", "two-servers", "shared-hostname",
            "replay-within-ttl-accepted-token", "replay-within-ttl-accepted-challenge",
            "accepted-just-before-token-expiry", "rejected-just-after-token-expiry",
            "accepted-just-before-challenge-expiry", "rejected-just-after-challenge-expiry",
            "token-other-hostname-accepted", "neutral-reencoding-accepted", "altered-bytes-still-valid",
            "mallory-own-identity-accepted", "client-reports-mallory-who-signed", "client-refused-tampered-handshake",
            "cold-start", "first-contact-adversarial", "honest-call-server-clock-jumped-past-lifetime",
            "honest-call-server-clock-jumped-within-lifetime-ok", "honest-call-excused-client-holds-entry-of-jumped-call",
            "observed-client-locked-out-by-empty-stored-token"],
    real=["p2p/http/auth ServerPeerIDAuth.ServeHTTP (NoTLS + ValidHostnameFn, TokenTTL, Next)",
          "p2p/http/auth ClientPeerIDAuth.AuthenticatedDo (token store, client- and server-initiated handshake)",
          "p2p/http/auth/internal/handshake (through the two above)", "core/crypto keys of all four types", "net/http.Client"],
    stubs=["network: in-memory http.RoundTripper calling ServeHTTP on an httptest.ResponseRecorder (no sockets, no TLS)"],
    assume=["synctest fake clock (Go 1.25.7)", "the two overlay-added files only assign the handshake package's own nowFn variable",
            "all honest clients share one clock (auth/client.go reads package time directly); servers have one each", "core/crypto signature verification is correct (it is the reference model's judge)",
            "challenge lifetime is 5 min (DESIGN.md C19)"],
)
