package c02

import (
	"net"
	"sort"
	"sync/atomic"
)

// qadv is the adversary on the UDP wire of the QUIC layer (simnet SetUDPMangle): it sees a private copy of every
// datagram of the data phase and returns what travels instead. QUIC authenticates every packet (header and payload under
// the AEAD, packet numbers make replays duplicates), so whatever it does a reader must receive exactly what was written,
// or an error - usually the stack simply survives (the packet is discarded, the sender retransmits).
//
// It runs in the sending task (one task runs at a time), draws from the schedule stream like simnet itself and never blocks.
type qadv struct {
	p      qadvPlan
	draw   func(n int) int
	active atomic.Bool
	hist   map[string][][]byte // per flow: the last datagrams as sent
	held   map[string][]byte   // swap: the datagram held back
	pass   map[string]bool     // swap: the next datagram of the flow passes (it overtakes the held one)
	counts map[string]int
}

func newQadv(p qadvPlan, draw func(n int) int) *qadv {
	return &qadv{p: p, draw: draw, hist: map[string][][]byte{}, held: map[string][]byte{}, pass: map[string]bool{}, counts: map[string]int{}}
}

func (q *qadv) stop() {
	q.active.Store(false)
}

func (q *qadv) actions() []string {
	var out []string
	for k := range q.counts {
		out = append(out, k)
	}
	sort.Strings(out)
	return out
}

func (q *qadv) mangle(from, to *net.UDPAddr, data []byte) []byte {
	if !q.active.Load() {
		return data
	}
	if len(data) == 0 {
		return data
	}
	flow := from.String() + ">" + to.String()
	orig := append([]byte(nil), data...)
	defer func() {
		h := append(q.hist[flow], orig)
		if len(h) > 8 {
			h = h[1:]
		}
		q.hist[flow] = h
	}()
	// a swap in progress: hold d(i); d(i+1) passes; d(i) travels in place of d(i+2), which is lost
	if h := q.held[flow]; h != nil {
		if q.pass[flow] {
			q.pass[flow] = false
			return data
		}
		delete(q.held, flow)
		return h
	}
	if q.draw(1000) >= q.p.rate {
		return data
	}
	act := q.p.action
	if act == qMixed {
		act = q.draw(qMixed)
	}
	q.counts[qadvName[act]]++
	bit := byte(1) << q.draw(8)
	switch act {
	case qFlipHeader:
		data[q.draw(min(len(data), 20))] ^= bit
	case qFlipMiddle:
		data[len(data)/2] ^= bit
	case qFlipTag:
		data[len(data)-1-q.draw(min(len(data), 16))] ^= bit
	case qTruncate:
		data = data[:1+q.draw(len(data)-1)]
	case qAppend:
		for k := 1 + q.draw(16); k > 0; k-- {
			data = append(data, byte(q.draw(256)))
		}
	case qReplay:
		h := q.hist[flow]
		if len(h) == 0 {
			return data
		}
		return append([]byte(nil), h[q.draw(len(h))]...)
	case qSwap:
		q.held[flow] = data
		q.pass[flow] = true
		return nil
	case qDrop:
		return nil
	}
	return data
}
