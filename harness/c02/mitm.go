package c02

import (
	"encoding/binary"
	"fmt"
	"sync/atomic"
)

// mitm is the frame-aware man in the middle of the adversary stratum. It is installed as the
// simnet hook of the raw connection when the pair is created and passes everything through until
// it is armed (at a quiescent instant after the handshake, so parsing starts on a frame boundary).
// Frames: Noise = 2-byte big-endian length + ciphertext; TLS = 5-byte record header + body.
// Frames it does not attack are forwarded byte for byte as they arrive (fragmentation is kept);
// only the attacked frame (and its neighbour for a swap) is held until complete.
//
// The hook runs on simnet's pump task with the half-connection lock held: it must not block and
// must not touch the connection; anything else (closing the writer's end for a truncation) is
// handed to onTruncate, which starts a task.
type mitm struct {
	hdr        int // 2 (Noise) or 5 (TLS)
	p          advPlan
	armed      bool
	done       bool // the single attack has been carried out
	fired      atomic.Bool
	d          [2]mitmDir
	onTruncate func(toDialer bool)
	note       string // what was done, with lengths (no ciphertext)
}

type mitmDir struct {
	idx   int // index of the current frame since arming
	got   int // bytes of the current frame seen (header included)
	flen  int // total length of the current frame, known once got >= hdr
	h     [5]byte
	hold  []byte // bytes of the frame being held
	first []byte // swap: the complete first frame
	dead  bool   // truncated: nothing passes any more
	bytes int
}

func (m *mitm) bodyLen(h []byte) int {
	if m.hdr == 2 {
		return int(binary.BigEndian.Uint16(h[0:2]))
	}
	return int(binary.BigEndian.Uint16(h[3:5]))
}

func (m *mitm) hook(toDialer bool, chunk []byte) []byte {
	if !m.armed {
		return chunk
	}
	di := 0
	if toDialer {
		di = 1
	}
	d := &m.d[di]
	d.bytes += len(chunk)
	if d.dead {
		return nil
	}
	if m.done && d.hold == nil && d.first == nil {
		return chunk
	}
	target := m.p.toDialer == toDialer && !m.done
	var out []byte
	for len(chunk) > 0 {
		holding := target && (d.idx == m.p.k || (m.p.action == advSwap && d.idx == m.p.k+1 && d.first != nil))
		if holding && d.got == 0 && m.p.action == advTruncate && m.p.pos == 0 {
			// cut the stream on the boundary in front of frame k
			m.truncate(d, toDialer, 0)
			return out
		}
		var piece []byte
		if d.got < m.hdr {
			take := min(m.hdr-d.got, len(chunk))
			copy(d.h[d.got:], chunk[:take])
			piece, chunk = chunk[:take], chunk[take:]
			d.got += take
			if d.got == m.hdr {
				d.flen = m.hdr + m.bodyLen(d.h[:m.hdr])
			}
		} else {
			take := min(d.flen-d.got, len(chunk))
			piece, chunk = chunk[:take], chunk[take:]
			d.got += take
		}
		if holding {
			d.hold = append(d.hold, piece...)
		} else {
			out = append(out, piece...)
		}
		if d.got >= m.hdr && d.got == d.flen {
			// frame complete
			if holding {
				out = m.act(d, toDialer, out)
				if d.dead {
					return out
				}
			}
			d.idx++
			d.got, d.flen = 0, 0
			target = target && !m.done
		}
	}
	return out
}

func (m *mitm) truncate(d *mitmDir, toDialer bool, kept int) {
	d.dead = true
	m.done = true
	m.fired.Store(true)
	m.note = fmt.Sprintf("truncated the stream at frame %d (+%d bytes of it)", d.idx, kept)
	if m.onTruncate != nil {
		m.onTruncate(toDialer)
	}
}

// act is called with the complete attacked frame in d.hold.
func (m *mitm) act(d *mitmDir, toDialer bool, out []byte) []byte {
	f := d.hold
	d.hold = nil
	switch m.p.action {
	case advFlip:
		pos := 0
		body := len(f) - m.hdr
		switch m.p.pos {
		case 0:
			pos = m.hdr
		case 1:
			pos = len(f) - 1
		case 2:
			pos = m.hdr + body/2
		case 3:
			pos = m.hdr - 1
		case 4:
			pos = 0
		}
		if pos >= len(f) {
			pos = len(f) - 1
		}
		f[pos] ^= m.p.bit
		m.done = true
		m.fired.Store(true)
		m.note = fmt.Sprintf("flipped mask %#02x at byte %d of frame %d (%d bytes)", m.p.bit, pos, d.idx, len(f))
		return append(out, f...)
	case advDrop:
		m.done = true
		m.fired.Store(true)
		m.note = fmt.Sprintf("dropped frame %d (%d bytes)", d.idx, len(f))
		return out
	case advDup:
		m.done = true
		m.fired.Store(true)
		m.note = fmt.Sprintf("duplicated frame %d (%d bytes)", d.idx, len(f))
		return append(append(out, f...), f...)
	case advSwap:
		if d.idx == m.p.k {
			d.first = f
			// withheld from now on: if no neighbour ever follows this is a drop of the last frame
			m.fired.Store(true)
			m.note = fmt.Sprintf("withheld frame %d (%d bytes) waiting for its neighbour", d.idx, len(f))
			return out
		}
		m.done = true
		m.note = fmt.Sprintf("swapped frames %d (%d bytes) and %d (%d bytes)", d.idx-1, len(d.first), d.idx, len(f))
		out = append(append(out, f...), d.first...)
		d.first = nil
		return out
	case advTruncate:
		// mid-frame cut: half of the frame passes, then the stream ends
		keep := len(f) / 2
		out = append(out, f[:keep]...)
		m.truncate(d, toDialer, keep)
		return out
	}
	return append(out, f...)
}
