// C02 — secured connections and streams deliver bytes intact, in order, once.
//
// (header comment with oracles, weaker readings and the sensitivity record: see the end of the work; filled in below)
package c02

import (
	"context"
	"fmt"
	"net"
	"os"
	"sort"
	"strings"
	"sync"
	"sync/atomic"
	"testing"
	"time"

	"github.com/libp2p/go-libp2p/core/network"
	"github.com/libp2p/go-libp2p/core/peer"
	"github.com/libp2p/go-libp2p/core/peerstore"
	"github.com/libp2p/go-libp2p/core/protocol"
	"github.com/libp2p/go-libp2p/core/sec"
	"github.com/libp2p/go-libp2p/p2p/net/pnet"
	"github.com/libp2p/go-libp2p/p2p/security/noise"
	libp2ptls "github.com/libp2p/go-libp2p/p2p/security/tls"
	ma "github.com/multiformats/go-multiaddr"

	"verifsim/harness/common"
	"verifsim/simhost"
	"verifsim/simnet"
	"verifsim/simrt"
)

var debug = os.Getenv("C02_DEBUG") != ""

func TestSim(t *testing.T) { common.Main(t, common.Harness{Property: "C02", Run: run}) }

// no progress (no Read/Write returned, nothing delivered on the wire) for this long in virtual time:
// longer than every pause, deadline, keep-alive (30 s + 10 s) and negotiation timeout (10 s) of the scenario
const quietLimit = 3 * time.Minute

type world struct {
	p    *plan
	o    *common.Outcome
	n    *simnet.Net
	mitm *mitm

	gate     chan struct{}
	progress atomic.Int64
	pending  atomic.Int64 // tasks not finished (started or not)
	closing  atomic.Bool  // teardown has begun: handlers must not start new tasks
	peerClosed atomic.Bool // peer-close stratum: the closing side has closed its connection
	aux        atomic.Int32 // auxiliary harness tasks alive (they must be gone before main returns)

	rawA, rawB *simnet.Conn
	chans      [][2]*chanState
	sideClosed [][2]atomic.Bool

	// conn layers
	connA, connB net.Conn
	// stream layers
	nodeA, nodeB *simhost.Node
	strA, strB   []network.Stream
	inbound      int

	mu     sync.Mutex // plain mutex, never held across anything that blocks
	probes map[string]int
	hung   bool
	lazy   int
}

func (w *world) layer() string { return layerName[w.p.layer] }

func (w *world) probe(name string) {
	w.mu.Lock()
	w.probes[name]++
	w.mu.Unlock()
}

func (w *world) taskDone() { w.pending.Add(-1) }

var arenas [8][]byte

func (w *world) arena(i int) []byte {
	if arenas[i] == nil {
		arenas[i] = make([]byte, maxArena)
	}
	return arenas[i]
}

func run(t *testing.T, tape *simrt.Tape) *common.Outcome {
	g := simrt.Gen{S: tape.G}
	o := &common.Outcome{}
	p := genPlan(g)
	for _, l := range p.describe() {
		o.Logf("%s", l)
		if debug {
			fmt.Fprintln(os.Stderr, l)
		}
	}
	w := &world{p: p, o: o, probes: map[string]int{}}
	w.chans = make([][2]*chanState, p.nstreams)
	w.sideClosed = make([][2]atomic.Bool, p.nstreams)
	w.strA = make([]network.Stream, p.nstreams)
	w.strB = make([]network.Stream, p.nstreams)
	for s := 0; s < p.nstreams; s++ {
		for d := 0; d < 2; d++ {
			w.chans[s][d] = &chanState{w: w, stream: s, dir: d, id: chanID(s, d), p: &p.ch[s][d], t: tab(s, d, p.ch[s][d].total)}
		}
	}
	w.pending.Store(int64(4 * p.nstreams))

	res := simrt.Run(t, simrt.Config{MaxSteps: 3000000, IdleLimit: 2 * time.Hour, TraceCap: 20000}, tape.S, func() { w.main(tape) })

	o.Sched = res
	o.Virtual = res.Virtual
	if debug {
		for _, r := range res.Residue {
			fmt.Fprintln(os.Stderr, "RESIDUE:", r)
		}
		fmt.Fprintf(os.Stderr, "steps=%d virtual=%v deadlock=%q stuck=%v\n", res.Steps, res.Virtual, res.Deadlock, res.Stuck)
	}
	w.finish(res)
	return o
}

// ---- set-up of the layers -------------------------------------------------------------------

func (w *world) installHook(d *simnet.Conn) {
	if !w.p.adv.on {
		return
	}
	m := &mitm{hdr: 2, p: w.p.adv}
	if isTLSLayer(w.p.layer) {
		m.hdr = 5
	}
	m.onTruncate = func(toDialer bool) {
		// the adversary ends the attacked direction with a FIN: close the write side of the sender's raw end
		from := w.rawA
		if toDialer {
			from = w.rawB
		}
		w.aux.Add(1)
		simrt.GoNamed("adversary-fin", func() { defer w.aux.Add(-1); from.CloseWrite() })
	}
	w.mitm = m
	d.SetHook(m.hook)
}

type hsResult struct {
	c   sec.SecureConn
	err error
}

func (w *world) setupConn() bool {
	p := w.p
	w.rawA, w.rawB = w.n.Pipe("10.0.0.1", "10.0.0.2", 4001)
	w.installHook(w.rawA)
	keyA, keyB := simhost.DetKey(1), simhost.DetKey(2)
	switch p.layer {
	case layPnet:
		psk := make([]byte, 32)
		for i := range psk {
			psk[i] = byte(i*3 + 1)
		}
		ca, err := pnet.NewProtectedConn(psk, w.rawA)
		if err != nil {
			w.o.Trouble = "pnet: " + err.Error()
			return false
		}
		cb, err := pnet.NewProtectedConn(psk, w.rawB)
		if err != nil {
			w.o.Trouble = "pnet: " + err.Error()
			return false
		}
		w.connA, w.connB = ca, cb
		return true
	}
	var tA, tB sec.SecureTransport
	var err error
	if p.layer == layNoise {
		tA, err = noise.New(noise.ID, keyA, nil)
		if err == nil {
			tB, err = noise.New(noise.ID, keyB, nil)
		}
	} else {
		tA, err = libp2ptls.New(libp2ptls.ID, keyA, nil)
		if err == nil {
			tB, err = libp2ptls.New(libp2ptls.ID, keyB, nil)
		}
	}
	if err != nil {
		w.o.Trouble = "security transport: " + err.Error()
		return false
	}
	idB, err := peer.IDFromPrivateKey(keyB)
	if err != nil {
		w.o.Trouble = "peer id: " + err.Error()
		return false
	}
	ctx, cancel := context.WithTimeout(context.Background(), time.Minute)
	defer cancel()
	ra, rb := make(chan hsResult, 1), make(chan hsResult, 1)
	simrt.GoNamed("handshake-A", func() {
		c, err := tA.SecureOutbound(ctx, w.rawA, idB)
		ra <- hsResult{c, err}
	})
	simrt.GoNamed("handshake-B", func() {
		c, err := tB.SecureInbound(ctx, w.rawB, "")
		rb <- hsResult{c, err}
	})
	a := simrt.Recv("hs-a", ra)
	b := simrt.Recv("hs-b", rb)
	if a.c != nil {
		w.connA = a.c
	}
	if b.c != nil {
		w.connB = b.c
	}
	if a.err != nil || b.err != nil {
		w.o.Trouble = fmt.Sprintf("fault-free handshake failed: A=%v B=%v", a.err, b.err)
		return false
	}
	return true
}

func (w *world) setupNodes() bool {
	p := w.p
	secu := "noise"
	if isTLSLayer(p.layer) {
		secu = "tls"
	}
	first := true
	w.n.OnConn(func(d, l *simnet.Conn) {
		if !first {
			return
		}
		first = false
		w.rawA, w.rawB = d, l
		w.installHook(d)
	})
	host := isHostLayer(p.layer)
	var err error
	w.nodeA, err = simhost.New(w.n, simhost.Opts{Key: simhost.DetKey(1), IP: "10.0.0.1", Port: 4001, Security: secu, WithHost: host})
	if err != nil {
		w.o.Trouble = "node A: " + err.Error()
		return false
	}
	w.nodeB, err = simhost.New(w.n, simhost.Opts{Key: simhost.DetKey(2), IP: "10.0.0.2", Port: 4001, Security: secu, WithHost: host})
	if err != nil {
		w.o.Trouble = "node B: " + err.Error()
		return false
	}
	a, b := w.nodeA, w.nodeB
	if host {
		for s := 0; s < p.nstreams; s++ {
			s := s
			b.Host.SetStreamHandler(protoOf(s), func(st network.Stream) { w.acceptB(s, st) })
		}
	} else {
		b.Swarm.SetStreamHandler(func(st network.Stream) {
			s := w.inbound
			w.inbound++
			w.acceptB(s, st)
		})
	}
	a.PS.AddAddrs(b.ID, []ma.Multiaddr{b.Addr}, peerstore.PermanentAddrTTL)
	ctx, cancel := context.WithTimeout(context.Background(), time.Minute)
	defer cancel()
	if host {
		if err := a.Host.Connect(ctx, b.AddrInfo()); err != nil {
			w.o.Trouble = "fault-free connect failed: " + err.Error()
			return false
		}
		for s := 0; s < p.nstreams; s++ {
			st, err := a.Host.NewStream(ctx, b.ID, protoOf(s))
			if err != nil {
				w.o.Trouble = "fault-free NewStream failed: " + err.Error()
				return false
			}
			if strings.Contains(fmt.Sprintf("%T", st), "streamWrapper") {
				w.lazy++
			}
			w.strA[s] = st
		}
	} else {
		c, err := a.Swarm.DialPeer(ctx, b.ID)
		if err != nil {
			w.o.Trouble = "fault-free dial failed: " + err.Error()
			return false
		}
		for s := 0; s < p.nstreams; s++ {
			st, err := c.NewStream(ctx)
			if err != nil {
				w.o.Trouble = "fault-free NewStream failed: " + err.Error()
				return false
			}
			w.strA[s] = st
			// the SYN travels with the opener's first window update: wait until B's handler has the stream, so
			// that stream k of A is stream k of B
			for i := 0; i < 200 && w.strB[s] == nil; i++ {
				simrt.WaitIdle()
				if w.strB[s] == nil {
					simrt.TimeSleep(10 * time.Millisecond)
				}
			}
			if w.strB[s] == nil {
				w.o.Trouble = fmt.Sprintf("stream %d was not accepted by B", s)
				return false
			}
		}
	}
	if w.rawA == nil {
		w.o.Trouble = "no raw connection seen"
		return false
	}
	return true
}

func protoOf(s int) protocol.ID { return protocol.ID(fmt.Sprintf("/c02/%d", s)) }

func streamEnd(st network.Stream) *end {
	return &end{rw: st, setRDL: st.SetReadDeadline, closeW: st.CloseWrite}
}

// acceptB runs on B's stream-handler task: B's reader of A>B and writer of B>A start here.
func (w *world) acceptB(s int, st network.Stream) {
	if w.closing.Load() || s >= w.p.nstreams || w.strB[s] != nil {
		st.Reset()
		return
	}
	w.strB[s] = st
	e := streamEnd(st)
	rc, wc := w.chans[s][0], w.chans[s][1]
	rc.rStarted, wc.wStarted = true, true
	simrt.GoNamed(fmt.Sprintf("read-B-s%d", s), func() { rc.reader(e) })
	simrt.GoNamed(fmt.Sprintf("write-B-s%d", s), func() { wc.writer(e) })
}

// ---- the run ----------------------------------------------------------------------------------

func (w *world) main(tape *simrt.Tape) {
	p := w.p
	w.gate = make(chan struct{}) // made inside the bubble: blocking on it is durable
	// The handshakes are not what this property is about: they run under coarse chunking (TLS needs whole
	// deliveries because its handshake lengths depend on crypto/rand); the data phase uses the drawn mode.
	setupMode := simnet.Fragment
	if isTLSLayer(p.layer) {
		setupMode = simnet.Whole
	}
	w.n = simnet.New(tape.S, simnet.Config{Mode: setupMode, Latencies: p.lat})
	var ok bool
	if isConnLayer(p.layer) {
		ok = w.setupConn()
	} else {
		ok = w.setupNodes()
	}
	if !ok {
		w.teardown()
		return
	}
	// A quiescent instant: nothing is in flight (the adversary stratum has no latency), so the raw byte
	// stream stands on a frame boundary when the adversary starts parsing.
	simrt.WaitIdle()
	if !isConnLayer(p.layer) {
		simrt.TimeSleep(time.Second) // identify and friends
		simrt.WaitIdle()
	}
	w.rawA.SetMode(p.mode)
	w.rawB.SetMode(p.mode)
	if w.mitm != nil {
		w.mitm.armed = true
	}
	if p.stall.on {
		e := w.rawA
		if p.stall.sideB {
			e = w.rawB
		}
		e.InjectFault(simnet.Fault{Kind: simnet.Stall, AtCall: e.Stats().Calls + p.stall.k})
	}
	if isConnLayer(p.layer) {
		eA := w.connEnd(w.connA, w.rawA)
		eB := w.connEnd(w.connB, w.rawB)
		ab, ba := w.chans[0][0], w.chans[0][1]
		ab.wStarted, ab.rStarted, ba.wStarted, ba.rStarted = true, true, true, true
		simrt.GoNamed("write-A", func() { ab.writer(eA) })
		simrt.GoNamed("read-B", func() { ab.reader(eB) })
		simrt.GoNamed("write-B", func() { ba.writer(eB) })
		simrt.GoNamed("read-A", func() { ba.reader(eA) })
	} else {
		for s := 0; s < p.nstreams; s++ {
			e := streamEnd(w.strA[s])
			wc, rc := w.chans[s][0], w.chans[s][1]
			wc.wStarted, rc.rStarted = true, true
			simrt.GoNamed(fmt.Sprintf("write-A-s%d", s), func() { wc.writer(e) })
			simrt.GoNamed(fmt.Sprintf("read-A-s%d", s), func() { rc.reader(e) })
		}
	}
	if p.pclose.on {
		w.aux.Add(1)
		simrt.GoNamed("peer-close", func() { defer w.aux.Add(-1); w.peerCloser() })
	}
	close(w.gate)
	w.wait()
	w.teardown()
}

// peerCloser (peer-close stratum): as soon as every task of one side has finished - its writers have half-closed,
// its readers have seen the end - that side closes the whole connection, the way a process that is done goes
// away. Nothing of what the OTHER side still has to read is in doubt: it was accepted by Write and the write
// side was closed in order before.
func (w *world) peerCloser() {
	x := 0
	if w.p.pclose.sideB {
		x = 1
	}
	for {
		if w.closing.Load() {
			return
		}
		done := true
		for s := range w.chans {
			if !w.chans[s][x].wDone.Load() || !w.chans[s][1-x].rDone.Load() {
				done = false
			}
		}
		if done {
			break
		}
		simrt.TimeSleep(5 * time.Millisecond)
	}
	if d := w.p.pclose.delay; d > 0 {
		simrt.TimeSleep(d)
	}
	if w.closing.Load() {
		return
	}
	w.peerClosed.Store(true)
	switch {
	case isConnLayer(w.p.layer):
		if x == 0 {
			w.connA.Close()
		} else {
			w.connB.Close()
		}
	case x == 0:
		w.nodeA.Swarm.ClosePeer(w.nodeB.ID)
	default:
		w.nodeB.Swarm.ClosePeer(w.nodeA.ID)
	}
}

func (w *world) connEnd(c net.Conn, raw *simnet.Conn) *end {
	e := &end{rw: c, setRDL: c.SetReadDeadline}
	if w.p.layer == layNoise || w.p.layer == layPnet {
		base := raw.Stats().BytesIn // the handshake is over and consumed: nothing is in flight or buffered
		e.rawIn = func() int { return raw.Stats().BytesIn - base }
	}
	if cw, ok := c.(interface{ CloseWrite() error }); ok && w.p.layer == layTLS {
		e.closeW = cw.CloseWrite // TLS close_notify
	} else {
		// Noise and PSK connections have no half close of their own: the TCP connection underneath is half
		// closed (FIN after everything that was written), which the reader sees as EOF at a frame boundary.
		e.closeW = raw.CloseWrite
	}
	return e
}

func (w *world) wait() {
	last := w.progress.Load()
	lastAt := simrt.Now()
	start := lastAt
	step := time.Millisecond
	for w.pending.Load() > 0 {
		simrt.TimeSleep(step)
		if step < time.Second {
			step *= 4
		}
		now := simrt.Now()
		if cur := w.progress.Load(); cur != last {
			last, lastAt = cur, now
			continue
		}
		if now-lastAt > quietLimit || now-start > 2*time.Hour {
			w.hung = true
			return
		}
	}
}

func (w *world) unfinished() int {
	n := 0
	for s := range w.chans {
		for d := 0; d < 2; d++ {
			c := w.chans[s][d]
			if c.rStarted && !c.rDone.Load() {
				n++
			}
			if c.wStarted && !c.wDone.Load() {
				n++
			}
		}
	}
	return n
}

func (w *world) teardown() {
	w.closing.Store(true)
	select {
	case <-w.gate:
	default:
		close(w.gate)
	}
	clean := !w.hung && w.o.Trouble == ""
	for s := range w.chans {
		for d := 0; d < 2; d++ {
			c := w.chans[s][d]
			if c.rEnd != "eof" || c.wErr != "" {
				clean = false
			}
		}
	}
	for _, l := range [][]network.Stream{w.strA, w.strB} {
		for _, st := range l {
			if st == nil {
				continue
			}
			if clean {
				st.Close()
			} else {
				st.Reset()
			}
		}
	}
	if w.connA != nil {
		w.connA.Close()
	}
	if w.connB != nil {
		w.connB.Close()
	}
	if w.nodeA != nil {
		w.nodeA.Close()
	}
	if w.nodeB != nil {
		w.nodeB.Close()
	}
	if w.rawA != nil {
		w.rawA.Close()
		w.rawB.Close()
	}
	for i := 0; i < 300; i++ {
		simrt.WaitIdle()
		if w.unfinished() == 0 && w.aux.Load() == 0 {
			break
		}
		simrt.TimeSleep(time.Second)
	}
	// simnet pumps may be inside a latency sleep; synctest stops advancing time once the bubble's root returns,
	// so let them wake up and see the closed connection before main returns
	simrt.TimeSleep(50 * time.Millisecond)
	simrt.WaitIdle()
	if debug {
		for _, g := range simrt.BubbleGoroutines() {
			fmt.Fprintln(os.Stderr, "LEFT:", g)
		}
	}
}

// ---- judgement ----------------------------------------------------------------------------------

// violate files a failed oracle.
func (w *world) violate(class, detail string) {
	w.o.Violations = append(w.o.Violations, common.Violation{Class: class, Detail: detail})
}

// OBSERVATION, not an oracle (decision of the lead, guide rule 6): read deadlines and retries after a timeout are
// outside the property's quantifier (write sizes, read-buffer sizes, short reads, concurrent streams, half close,
// tampering). On the two bare connections that keep no partial-frame state, a read deadline that expires in the
// middle of a frame leaves the connection silently desynchronised:
//   - pnet pskConn.Read reads the 24-byte nonce into a local buffer with io.ReadFull; the bytes consumed before the
//     deadline are lost, the next Read takes 24 bytes from the middle of the stream as nonce, everything after is
//     garbage (or, on a short stream, the payload is swallowed as nonce and the FIN reads as a clean io.EOF);
//   - noise secureSession.Read loses the length byte / ciphertext consumed before the deadline and carries on in the
//     middle of the frame: mostly an authentication error follows, but a bogus length can swallow the rest of the
//     stream, after which the peer's FIN reads as a clean io.EOF with bytes missing.
// Neither is reachable through the assembled stack (the upgrader closes the connection on a timeout, yamux reads the
// secured connection without deadlines). Both were first seen as failures of the prefix / EOF oracles (histories in the
// report to the lead). Now the CONDITION is counted: when a timeout is returned to a reader of one of these two layers
// and the raw bytes taken off the wire so far end inside a frame (inside the nonce), the probe below is counted and the
// reader stops - what a further Read would return depends on ciphertext bytes, i.e. on crypto/rand, and would make the
// run irreproducible. A deadline that expires ON a frame boundary loses nothing and the reader carries on, fully
// judged. TLS, yamux streams and host streams resume correctly after a deadline and keep every oracle.
const deadlineObservation = "observation:read-deadline-expired-mid-frame/"

func (w *world) finish(res simrt.Result) {
	o, p, lay := w.o, w.p, w.layer()
	advFired := w.mitm != nil && w.mitm.fired.Load()
	stallFired := false
	for _, c := range []*simnet.Conn{w.rawA, w.rawB} {
		if c != nil && len(c.Stats().Fired) > 0 {
			stallFired = true
		}
	}
	peerClosed := w.peerClosed.Load()
	if advFired {
		o.Fault("adversary-" + advName[p.adv.action])
		o.Logf("adversary: %s", w.mitm.note)
	} else if p.adv.on {
		w.probes["adversary-frame-never-came"]++
	}
	if stallFired {
		o.Fault("stall")
	}
	if peerClosed {
		o.Fault("peer-closed-connection")
	}
	if p.mode != simnet.Whole {
		o.Fault("fragmentation-" + modeName(p.mode))
	}
	if len(p.lat) > 0 {
		o.Fault("latency")
	}
	w.probes["layer-"+lay]++
	w.probes["stratum-"+stratumName[p.stratum]]++
	if w.lazy > 0 {
		w.probes["lazy-multistream-stream"] += w.lazy
	}
	faulted := advFired || stallFired || peerClosed

	var sig []string
	sig = append(sig, lay, stratumName[p.stratum], modeName(p.mode), fmt.Sprintf("adv=%v stall=%v pc=%v hung=%v", advFired, stallFired, peerClosed, w.hung))
	totalData := 0
	judged := res.Panic == "" && o.Trouble == "" && !res.StepLimit && !res.Stuck && res.Deadlock == ""
	for s := range w.chans {
		for d := 0; d < 2; d++ {
			c := w.chans[s][d]
			cp := c.p
			totalData += c.dataReads
			sig = append(sig, fmt.Sprintf("%s:%d/%d/%d r%d %s w=%s t%d", c.id, cp.total, c.accepted, c.off, c.reads, c.rEnd, c.wErr, c.timeouts))
			for _, wr := range cp.writes {
				if wr > noiseMaxPlain && !isTLSLayer(p.layer) && p.layer != layPnet && c.accepted >= wr {
					w.probes["write-of-2-or-more-noise-frames"]++
					break
				}
			}
			for _, wr := range cp.writes {
				if wr >= yamuxWindow && !isConnLayer(p.layer) {
					w.probes["write-reaching-yamux-window"]++
					break
				}
			}
			nv := len(o.Violations)
			for _, v := range append(append([]common.Violation(nil), c.rviol...), c.wviol...) {
				w.violate(v.Class, v.Detail)
			}
			if judged {
				w.judge(c, faulted, advFired, stallFired)
			}
			bad := len(o.Violations) > nv || c.rEnd == "deadline-mid-frame"
			o.Logf("result %s: planned=%d accepted=%d delivered=%d reads=%d timeouts=%d reader=%s%s writer=%s%s started r=%v w=%v done r=%v w=%v",
				c.id, cp.total, c.accepted, c.off, c.reads, c.timeouts, orDash(c.rEnd), paren(c.rErrText), orDash(c.wErr), paren(c.wErrText), c.rStarted, c.wStarted, c.rDone.Load(), c.wDone.Load())
			w.dump(c.id+" W", c.wlog.lines(), bad)
			w.dump(c.id+" R", c.rlog.lines(), bad)
		}
	}
	var pk []string
	for k := range w.probes {
		pk = append(pk, k)
	}
	sort.Strings(pk)
	for _, k := range pk {
		for i := 0; i < w.probes[k]; i++ {
			o.Probe(k)
		}
	}
	o.Sig = strings.Join(sig, "|")
	o.Nontrivial = faulted || totalData >= 2
	if res.Panic != "" {
		o.Violate("C02/panic/"+lay, "%s", res.Panic)
		return
	}
	if o.Trouble == "" && (res.StepLimit || res.Stuck || res.Deadlock != "") {
		o.Trouble = fmt.Sprintf("steplimit=%v stuck=%v deadlock=%q", res.StepLimit, res.Stuck, res.Deadlock)
	}
}

func orDash(s string) string {
	if s == "" {
		return "-"
	}
	return s
}

func paren(s string) string {
	if s == "" {
		return ""
	}
	if len(s) > 160 {
		s = s[:160]
	}
	return " (" + s + ")"
}

func (w *world) dump(who string, l []string, all bool) {
	if !all && len(l) > 6 {
		l = append(append(append([]string(nil), l[:3]...), fmt.Sprintf("... (%d more)", len(l)-6)), l[len(l)-3:]...)
	}
	for _, s := range l {
		w.o.Logf("    %s %s", who, s)
	}
}

func (w *world) judge(c *chanState, faulted, advFired, stallFired bool) {
	lay := w.layer()
	cp := c.p
	ctx := c.ctx()
	if stallFired {
		ctx += "/after-stall"
	}
	// WEAKER READING of "truncated ... the reader gets an error": the bare secured connections have no end of
	// stream the reader insists on. The libp2p Noise session has no termination message at all, and crypto/tls
	// deliberately turns a FIN that arrives on a record boundary without close_notify into a plain io.EOF
	// (crypto/tls conn.go readRecordOrCCS: "popular web sites seem to do this, so we accept it if and only if at
	// the record boundary"). A stream cut (or a tail withheld) on a frame boundary is therefore indistinguishable
	// from the peer's own FIN on these two layers: the reader gets io.EOF - an error value, never wrong data - and
	// that is accepted here. go-libp2p never exposes these connections to applications: everything runs over
	// yamux, whose FIN travels inside the authenticated channel, and the stream layers ARE held to the strict rule
	// (EOF only after the writer closed and with every accepted byte delivered).
	noAuthEnd := (w.p.layer == layNoise || w.p.layer == layTLS) && advFired &&
		(w.p.adv.action == advTruncate || w.p.adv.action == advDrop || w.p.adv.action == advSwap)
	if c.rEnd == "eof" && !noAuthEnd {
		how := "eof-alone"
		if c.eofWithData {
			how = "eof-with-data"
		}
		more := ""
		if c.afterEOFData > 0 {
			more = fmt.Sprintf("; the next Read(s) then returned %d more bytes (correct continuation: %v)", c.afterEOFData, c.afterEOFGood)
		}
		// One class per diagnosed defect: on a stream, io.EOF handed out TOGETHER WITH data although the stream had
		// not ended is the signature of the muxer returning a connection-level error from Read (whatever the
		// security transport and whatever ended the connection; fixed in /repo by f6576df); anything else is
		// classified by layer, shape and context.
		pclass := "C02/premature-eof/" + lay + "/" + how
		if !isConnLayer(w.p.layer) && c.eofWithData {
			pclass = "C02/premature-eof/stream/eof-returned-with-data"
		}
		generic := strings.HasSuffix(pclass, how)
		switch {
		case !c.eofClosing:
			if generic {
				pclass += "/before-close" + ctx
			}
			w.violate(pclass, fmt.Sprintf("%s: Read returned io.EOF at offset %d although the writer had not begun to close (planned %d bytes)%s", c.id, c.eofOff, cp.total, more))
		case c.eofOff < c.accepted:
			if generic {
				pclass += "/bytes-missing" + ctx
			}
			w.violate(pclass, fmt.Sprintf("%s: Read returned io.EOF after %d bytes but Write had accepted %d and the write side was closed in order%s", c.id, c.eofOff, c.accepted, more))
		case c.afterEOFData > 0:
			w.violate("C02/data-after-eof/"+lay+ctx, fmt.Sprintf("%s: Read returned io.EOF at the end (offset %d)%s", c.id, c.eofOff, more))
		}
	}
	if c.off > c.accepted && c.wErr == "" && c.wDone.Load() {
		w.violate("C02/delivered-more-than-accepted/"+lay+ctx, fmt.Sprintf("%s: %d bytes delivered, Write return values sum to %d", c.id, c.off, c.accepted))
	}
	if faulted || c.hadTimeout {
		return // weak regime: a correct prefix and the EOF rules above
	}
	// strong regime: nothing happened that may legitimately cost data
	if c.rEnd == "violation" || c.wErr == "violation" {
		return // already filed by the task
	}
	wrappedEnd := c.rEnd == "error:wrapped-eof" && c.off == cp.total && c.closing.Load()
	if wrappedEnd {
		// weaker reading: an error that wraps io.EOF, after every byte and after the writer closed, is accepted as the end
		w.probes["clean-end-reported-as-wrapped-eof"]++
	}
	switch {
	case w.hung && (!c.rDone.Load() || !c.wDone.Load() || !c.rStarted || !c.wStarted):
		w.violate("C02/hang/"+lay, fmt.Sprintf("%s: no Read or Write returned for %v of virtual time; reader started=%v done=%v at offset %d, writer started=%v done=%v accepted %d of %d",
			c.id, quietLimit, c.rStarted, c.rDone.Load(), c.off, c.wStarted, c.wDone.Load(), c.accepted, cp.total))
	case c.wErr != "":
		w.violate("C02/incomplete/"+lay+"/write-"+c.wErr, fmt.Sprintf("%s: fault-free run, writer ended with %s (%s) after %d of %d bytes", c.id, c.wErr, c.wErrText, c.accepted, cp.total))
	case c.rEnd != "eof" && !wrappedEnd:
		w.violate("C02/incomplete/"+lay+"/read-"+strings.TrimPrefix(c.rEnd, "error:"), fmt.Sprintf("%s: fault-free run, reader ended with %q (%s) at offset %d of %d", c.id, c.rEnd, c.rErrText, c.off, cp.total))
	case c.off != cp.total || c.accepted != cp.total:
		w.violate("C02/incomplete/"+lay+"/short", fmt.Sprintf("%s: fault-free run with clean close: planned %d, Write accepted %d, delivered %d", c.id, cp.total, c.accepted, c.off))
	}
}
