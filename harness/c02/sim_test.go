// C02 — secured connections and streams deliver bytes intact, in order, once.
//
// Full-stack, lock-level simulation. Every layer named by the property is a stratum, drawn first from the tape:
//
//	noise       real noise.Transport handshake over a raw simnet pipe, then Read/Write on the sec.SecureConn
//	tls         real libp2ptls.Transport likewise (crypto/tls underneath; whole deliveries during the handshake)
//	pnet        pnet.NewProtectedConn on both pipe ends (XSalsa20 stream, not authenticated: no adversary stratum)
//	mux-noise   two real swarms (simhost): TCP dial path, upgrader, Noise, yamux; swarm streams (swarm_stream.go,
//	mux-tls     p2p/muxer/yamux glue, go-yamux) over Noise / TLS
//	host-noise  two real basic hosts: NewStream after identify returns the lazy-multistream streamWrapper, the
//	host-tls    listener's handler is reached through the real multistream negotiation; one protocol id per stream
//	host-quic   the same two basic hosts over ONE QUIC connection (simhost QUIC: true, NoTCPListen: true): real
//	            p2p/transport/quic + quicreuse + quic-go (its own TLS 1.3, its own streams) over simnet's UDP model, 1-4
//	            streams through swarm_stream.go / basic_host.go. crypto/rand is pinned for these runs (simrand). One
//	            writer per stream direction: quic-go documents no atomicity of a Write against a concurrent Write on the
//	            same stream (its writeOnce channel is a guard "to protect against concurrent use", not a promise). A swarm-
//	            only QUIC layer is not built: QUIC announces a stream with its first STREAM frame, so streams can only be
//	            told apart by protocol id, i.e. through the host.
//
// Shared TCP (mux-* and host-* over TCP; drawn LAST so that earlier draws keep their meaning, in half of the runs): the
// listening node runs the real TcpTransport.Listen with a tcpreuse.ConnMgr - demultiplexing listener and sampledconn, which
// peeks the first three bytes of every inbound connection and must hand them back to the first Reads. Everything B reads
// then passes sampledconn; the oracles are unchanged (security negotiation, handshake, muxer, identify and every stream
// byte on top must not notice). Optionally the first deliveries to the listener are 1-3 bytes each (the peek meets short
// reads), and 0-2 "sick dials" precede the real connection: raw connections that end inside or right after the peek (EOF
// after 0/1/2 bytes, a reset at the listener's 1st-3rd I/O call, bytes of no known protocol, a header that stops) - see
// sickDials. sampledconn is internal: only the read pattern the stack produces on it is reachable (multistream reads one
// byte, then the rest of the token into a larger buffer; nobody reads the peeked bytes with a 2-byte buffer).
//
// One run: per (stream, direction) a writer task issues 0-5 writes (sizes biased to 0, 1, 65518-65520, 65535-65537,
// 2x and 3x+1 Noise frames, the yamux window, a yamux frame that is exactly one maximal Noise frame -1/0/+1) and then
// half-closes (CloseWrite on streams, tls CloseWrite, TCP FIN underneath Noise / PSK); a reader task on the other side
// reads with a cycle of buffer sizes (1, 2, 15-17, pending frame -17..+1, 64Ki+-1, 1Mi, "leave j bytes of the frame
// then 1-2 byte reads across the edge") with 0-64 bytes of spare capacity behind len(buf), until EOF, then reads 1-3
// more times. 1-4 streams, i.e. up to 16 concurrent tasks. The byte at (stream, direction, offset) is a keyed function
// (payload.go); read buffers are pre-filled with its complement. The wire delivers whole queues, drawn fragments or 1-3
// bytes at a time.
//
// Two writer tasks on one connection (bare connections only, drawn with 1/3, not in the stall stratum): net.Conn says
// "Multiple goroutines may invoke methods on a Conn simultaneously", and with several writers "in order" can only be
// read per Write call - READING TAKEN: the bytes of one accepted Write arrive contiguous and complete; whole writes
// of the two writers may follow each other in any order that keeps each writer's own order. The payload is then keyed
// per WRITE (writer, index of the write, offset in it) and the reader keeps every admissible parse of what it has read
// as a concatenation of whole writes (oracle.go, "dual mode"). Streams are not given a second writer: yamux makes no
// such promise (a stream Write is sent as several frames without a stream-wide lock).
//
// Zero-length read buffers are part of the drawn buffer cycles in every layer (at most 24 per reader): such a Read must
// return n = 0 and change nothing - whatever it does to the layer's state shows in the reads that follow.
//
// Writer behaviour "deadline, then carry on" (strata clean and timing, one writer, drawn last in the plan, 1/3 of the
// directions): before one of its writes the writer sets a write deadline that has already passed - or, on yamux streams, one
// 1-40 virtual ms ahead while the write is larger than the 256 KiB send window and the reader starts 2 s late - and when
// Write returns a timeout it lifts the deadline and CONTINUES FROM b[n:], exactly as the returned n says (io.Writer: "the
// number of bytes written from p and any error that caused the write to stop early"; net.Conn: timeouts are retryable).
// The oracles are unchanged: every byte once, in order - a range that arrives twice or never is a violation whichever
// layer mis-reported n. On the bare layers the raw connection is wrapped (dlConn) so that a Write past its deadline fails
// before anything is written, as on a real socket. What the unchanged tree does, per layer (checked in the source):
//   - yamux streams (mux-*, host-* listener side and later writes of the opener) and QUIC streams: n is exact (what was
//     queued for sending), the timeout is temporary: held to the full oracle (complete delivery, exactly once).
//   - pnet: only the FIRST Write is given the deadline (it fails before the nonce is out and the cipher is only kept once
//     the nonce was written: resumable). OBSERVATION, not exercised: a later Write XORs its key stream BEFORE the write that
//     fails, so after (0, timeout) the retry is encrypted with key stream the reader is not at - garbage for ever, no error.
//   - Noise: the frame that failed consumed a nonce; the writer carries on without an error but the reader's next frame
//     fails authentication (an error, never wrong data). OBSERVATION: probe observation:write-deadline-ended-the-session/noise.
//   - crypto/tls documents it: "After a Write has timed out, the TLS state is corrupt and all future writes will return the
//     same error" - the writer ends with that error; same probe.
//   - host layers, opener's first write: it carries the lazy multistream handshake through a bufio.Writer;
//     lazyClientConn.Write then returns n = the bytes it BUFFERED (not sent) together with the timeout and keeps the error
//     for good, so the stream never comes to life (neither direction). n is an upper bound there, but since every later
//     Write fails nothing is lost silently. OBSERVATION, same probe; both directions of that stream are only held to
//     "never wrong data".
//
// Drawn in every stratum (no faults, part of "every underlying connection"): each raw endpoint may return the last
// bytes of the stream TOGETHER with io.EOF in one Read call (simnet SetEOFWithData; the io.Reader contract allows it).
// Noise-based layers get a prelude of 0-3 sacrificial bare Noise sessions that are closed while plaintext of a partially
// read frame is queued, closed twice and / or read after Close (see prelude()): whatever they leave in process-wide
// state (go-buffer-pool) must not reach the data phase, whose frames come from the same size classes. The global buffer
// pool is replaced by an empty one at the start of every run, so that runs stay independent of each other.
//
// Fault strata (drawn; kept apart so that a relaxation cannot hide an ordinary bug):
//
//	clean       fragmentation only
//	timing      link latency, reader deadlines (1 ms - 3 s) with retry, writer pauses up to 8 s, late readers
//	stall       one raw endpoint stops receiving at its k-th I/O call; readers have deadlines and give up
//	adversary   frame-aware man in the middle on the raw connection (mitm.go), armed at a quiescent instant after the
//	            handshakes: ONE ciphertext frame (Noise: 2-byte length + ciphertext; TLS: record) of one direction
//	            is bit-flipped (header / first / middle / last byte), dropped, duplicated, swapped with its
//	            neighbour, or the stream is cut in front of / in the middle of it
//	peer-close  no fault: one side closes the whole connection as soon as all its own tasks are done while the
//	            other side's readers lag (this stratum found the yamux defect below without any tampering)
//
// The strata read for QUIC (host-quic; armed after a fault-free set-up, see genQuic / armQuic): clean = perfect wire;
// timing = latency per datagram copy (0-400 ms, i.e. reordering) + the deadlines / pauses / late readers of timing;
// stall = what UDP really does: loss of 3 / 12 / 30 %, duplication, reordering; adversary = qadv.go rewrites 3 / 15 / 40 %
// of the datagrams in flight (bit flip in the header / the middle / the AEAD tag, truncate, append, replay of an older
// datagram of the flow, swap, drop, or a mix); peer-close as everywhere. Loss, duplication and the adversary stop
// 20 ms - 40 s after the data phase began. QUIC discards what fails the AEAD and retransmits, so tampering is usually
// SURVIVED: nothing demands an error - every reader gets exactly the writer's bytes at each position, once, or an
// error / reset / deadline (prefix and EOF oracles, weak regime); with a perfect or merely slow wire the strong regime
// holds (complete delivery). Liveness only after the faults stopped: C02/hang/host-quic/after-faults-stopped (see judge).
//
// peer-close on the stream layers has an abrupt variant: the side closes the connection at a drawn instant in the
// middle of the transfers (a peer that goes away). Everybody may get errors, nobody wrong data or a premature EOF; it is
// what makes Write fail while data is in flight.
//
// Oracles (violation classes; <lay> = layer, <ctx> = "" | /after-tamper | /after-peer-close | /after-timeout | /after-stall):
//
//	C02/wrong-bytes/<lay><ctx>              after EVERY Read: the bytes returned continue the planned stream at the
//	                                        reader's offset (prefix oracle; the first wrong offset and where the bytes
//	                                        come from are reported). Holds in every stratum.
//	C02/more-than-written/<lay><ctx>        ... and had been handed to Write before the Read returned.
//	C02/write-not-atomic/<lay><ctx>         two writers: in the middle of one accepted Write the stream goes on with the
//	                                        beginning of a write of the other writer.
//	C02/wrong-bytes/<lay>/two-writers<ctx>  two writers: the stream is not a concatenation of whole writes in any other way.
//	C02/read-count-out-of-range, C02/read-wrote-past-buffer   n outside [0, len(buf)]; bytes behind len(buf) changed.
//	C02/write-count-out-of-range, C02/short-write-without-error, C02/write-modified-buffer   io.Writer contract.
//	C02/premature-eof/<lay>/<eof-alone|eof-with-data>/<before-close|bytes-missing><ctx>
//	                                        Read returned io.EOF although the writer had not begun to close / although
//	                                        Write had accepted more and the write side was closed in order. Every stratum.
//	C02/premature-eof/stream/eof-returned-with-data   the same on a stream layer when the EOF came together with data
//	                                        (one class whatever the security transport and the context: signature of
//	                                        the muxer handing a connection-level error out of Read; see FOUND).
//	C02/data-after-eof/<lay><ctx>           a Read after the (genuine) end returned data.
//	C02/delivered-more-than-accepted        more bytes arrived than Write return values sum to (writer without error).
//	C02/incomplete/<lay>/<read-kind|write-kind|short>   strong regime only (no fault fired, this reader saw no timeout):
//	                                        the reader must reach io.EOF with planned == accepted == delivered.
//	C02/hang/<lay>                          strong regime: no Read/Write returned for 3 virtual minutes.
//	C02/hang/host-quic/after-faults-stopped QUIC: the same, measured from the instant loss and adversary stopped, for a task
//	                                        that is inside a Read / Write (a dead connection is an error outcome, not a hang).
//	C02/read-no-progress/<lay>              more than 8 consecutive (0, nil) Reads with a non-empty buffer.
//	C02/wrong-bytes/<lay>/read-after-close  prelude: a Read on a closed session returned bytes that are not the queued ones.
//	C02/fault-free-run-failed/<lay>/<stage> a step of the fault-free part (handshake, connect, dial, new-stream, accept,
//	                                        prelude-*) failed before anything was injected (see failSetup for why this
//	                                        is a violation and not harness trouble).
//	C02/panic/<lay>
//
// Under tampering / stall / peer close / after a timeout on the reader ("weak regime") an operation may fail and
// un-delivered bytes may be lost: the prefix and EOF oracles stay, completeness is not demanded.
//
// Weaker readings (guide rules 1 and 6):
//   - "truncated ... the reader gets an error": on the BARE Noise and TLS connections a cut on a frame boundary (or a
//     withheld tail) reads as io.EOF: Noise has no termination message, crypto/tls deliberately accepts a FIN on a
//     record boundary without close_notify. Accepted there (actions truncate / drop / swap only); the stream layers are
//     held to the strict rule because yamux's FIN travels inside the authenticated channel. See judge().
//   - EOF means io.EOF itself (io.Reader: callers compare with ==). An error that merely wraps io.EOF (yamux "stream
//     reset: connection closed: EOF", pnet "could not read full nonce: EOF") is an error; after the last byte and after
//     the writer closed it is accepted as the end (probe clean-end-reported-as-wrapped-eof: an empty PSK stream).
//   - (0, nil) from Read is tolerated (Noise returns it once after a read with frame-16 <= len(buf) < frame).
//   - after EOF only "never data" is demanded of further Reads (any error, or (0, nil)).
//   - read deadlines / retries are outside the property's quantifier: see deadlineObservation (two observations, probes).
//   - a failed Write's count is only an upper bound: nothing is demanded of Write counts after an error.
//   - a 0-byte Write is a no-op on every layer; 0-length read buffers are not used (yamux blocks on them).
//
// FOUND with this harness (history in the replay trace of the class, fixed in /repo by f6576df):
// go-yamux Stream.Read returns the error of sendWindowUpdate next to the data; once the session has ended because the
// peer closed the connection that error is the bare io.EOF, so a reader draining >= 128 KiB of buffered data got
// (n > 0, io.EOF) with more bytes still buffered - io.ReadAll truncated silently. Class
// C02/premature-eof/stream/eof-returned-with-data; reproduced by reverting the fix (M11).
//
// Sensitivity (2026-09-26): one mutation at a time in a private copy of the generated overlay, 8 workers, seed 1,
// budget 60 s. Time to the first violation / classes:
//
//	M1   noise Read: qseek += copied+1 (queued-remainder seek off by one)        <1 s  wrong-bytes/noise, panic/noise
//	M1b  noise Read: first partial read of a frame skips one byte more             3 s  wrong-bytes/noise, wrong-bytes/mux-noise
//	M1c  noise Read: remainder of a large frame released one byte early           <30 s wrong-bytes/noise (offset 65518), read-no-progress/noise
//	M2   noise Write: chunk of MaxPlaintextLength+1                               16 s  incomplete/noise/read-error, incomplete/mux-noise/*
//	M2'  noise Write: `total < MaxPlaintextLength` -> `<=` (buffer size branch)   equivalent (both branches give 65537 bytes), not run
//	M3   noise Read: in-place path when len(buf) == frame-1                        2 s  read-wrote-past-buffer/noise, panic/noise (slice bounds)
//	M3b  noise Read: in-place path when len(buf) >= plaintext-1 and cap allows     1 s  read-wrote-past-buffer/noise
//	M4   sampledconn peeked bytes                                                  see T1-T3 below (shared-TCP path)
//	M5a  streamWrapper.Write bypasses the lazy conn                                1 s  hang/host-tls, hang/host-noise
//	M5b  streamWrapper.Read bypasses the lazy conn                                10 s  more-than-written/host-noise, /host-tls
//	M6a  noise: nonce pinned on both sides (consistent reuse)                      8 s  wrong-bytes/noise/after-tamper, more-than-written/noise/after-tamper,
//	                                                                                    wrong-bytes/mux-noise/after-tamper (adversary stratum only, by construction)
//	M6b  noise: nonce not advanced after some encryptions                         13 s  incomplete/noise/read-error, incomplete/mux-noise/*
//	M7   yamux glue Read returns n+1                                               3 s  more-than-written/host-tls, wrong-bytes/mux-noise, wrong-bytes/host-noise
//	M8   pnet Read decrypts the whole buffer instead of out[:n]                    1 s  wrong-bytes/pnet
//	M9   swarm Stream.Write reports len(p) next to an error                       MISSED: not observable through the statement (see weaker readings)
//	M10  streamWrapper.CloseWrite without Flush                                    7 s  hang/host-tls, hang/host-noise
//	M11  revert of f6576df (yamux glue passes (n>0, io.EOF) on)                   13 s  premature-eof/stream/eof-returned-with-data
//	M12  pnet Write encrypts in place                                              1 s  write-modified-buffer/pnet
//	M13  swarm Stream.CloseWrite closes both directions                            4 s  incomplete/*/read-reset, write-reset
//	M14  noise Read swallows a decrypt error (skips the frame)                     8 s  premature-eof/noise/eof-alone/bytes-missing/after-tamper
//
// QUIC layer (2026-09-27; C02_ONLY=host-quic for Q3-Q5 so that the TCP layers do not report first):
//
//	Q1   quic glue Read reads into b[:len-1] and reports one byte more               1 s  fault-free-run-failed/host-quic/new-stream (identify / multistream already break)
//	Q2   quic glue Read swallows io.EOF once ((0, nil), EOF on the next call)        MISSED: (0, nil) is tolerated (io.Reader; weaker readings)
//	Q3   swarm Stream.Write drops the error                                         30 s  short-write-without-error/host-quic (also host-noise, mux-tls, ... within seconds)
//	Q4   quic glue Write reports (len(b), nil) when the Write failed                 MISSED: not observable (the connection is gone, the reader has an error; like M9)
//	Q5   quic glue CloseWrite cancels the send side instead of closing it           19 s  hang/host-quic, incomplete/host-quic/read-reset
//
// Shared-TCP path (2026-09-27): all three within the first shared-TCP run (5 s), as fault-free-run-failed/<lay>/connect|dial:
//
//	T1   sampledconn.Read: bytesPeeked = 3 after any partial copy (peeked bytes dropped on a 1-byte read)
//	T2   sampledconn.Read: the peeked bytes are handed out twice
//	T3   sampledconn.Read: copy starts one byte too far
//
// Third-round seeds (VERIF_REPO=<worktree> ./check C02 quick, 8 workers, both within the 50 s):
//
//	S5   yamux glue Write reports 0 next to an error (go-yamux reported partial progress)   wrong-bytes/{mux,host}-{noise,tls} at offset
//	     262144 "equals the planned bytes at offset 0" (needs deadline-then-carry-on with a write larger than the window and a late reader)
//	S6   pnet Write keeps the cipher before the nonce is written                      wrong-bytes/pnet (needs the first Write to fail by its deadline)
//
// Seeded by the lead (checked with VERIF_REPO=<worktree> ./check C02 quick, 8 workers):
//
//	S1   noise Close() returns the queued read buffer to the pool without clearing it (double Put after a second Close /
//	     a draining Read; another connection's queued plaintext is overwritten)    caught from run ~20 on: wrong-bytes/host-noise,
//	     wrong-bytes/noise[/after-tamper], wrong-bytes/mux-noise, incomplete/*-noise/*, hang/host-noise (needs the prelude and the
//	     per-run pool reset; some of the minimised tapes do not reproduce in a fresh process because sync.Pool is not deterministic)
//	S2   pnet Read returns before the XOR when data and error arrive in one call    run 0: wrong-bytes/pnet (needs SetEOFWithData)
//	S3   noise Write takes writeLock per Noise message instead of per call         30 s: write-not-atomic/noise[/after-*] (needs two writers)
//	S4   noise Read falls through to the wire when the queue path copied 0 bytes   run 9: wrong-bytes/noise, incomplete/noise/short, ... (needs
//	     zero-length reads; with two writers the hole is reported as write-not-atomic)
package c02

import (
	"context"
	"fmt"
	"io"
	"net"
	"os"
	"sort"
	"strings"
	"sync"
	"sync/atomic"
	"testing"
	"time"

	pool "github.com/libp2p/go-buffer-pool"
	"github.com/libp2p/go-libp2p/core/network"
	"github.com/libp2p/go-libp2p/core/peer"
	"github.com/libp2p/go-libp2p/core/peerstore"
	"github.com/libp2p/go-libp2p/core/protocol"
	"github.com/libp2p/go-libp2p/core/sec"
	"github.com/libp2p/go-libp2p/p2p/net/pnet"
	"github.com/libp2p/go-libp2p/p2p/security/noise"
	libp2ptls "github.com/libp2p/go-libp2p/p2p/security/tls"
	ma "github.com/multiformats/go-multiaddr"

	"verifsim/harness/common"
	"verifsim/simhook"
	"verifsim/simhost"
	"verifsim/simnet"
	"verifsim/simrand"
	"verifsim/simrt"
)

var debug = os.Getenv("C02_DEBUG") != ""

func TestSim(t *testing.T) { common.Main(t, common.Harness{Property: "C02", Run: run}) }

// no progress (no Read/Write returned, nothing delivered on the wire) for this long in virtual time:
// longer than every pause, deadline, keep-alive (30 s + 10 s) and negotiation timeout (10 s) of the scenario
const quietLimit = 3 * time.Minute

type world struct {
	p    *plan
	o    *common.Outcome
	n    *simnet.Net
	mitm *mitm

	gate       chan struct{}
	progress   atomic.Int64
	pending    atomic.Int64 // tasks not finished (started or not)
	closing    atomic.Bool  // teardown has begun: handlers must not start new tasks
	peerClosed atomic.Bool  // peer-close stratum: the closing side has closed its connection
	aux        atomic.Int32 // auxiliary harness tasks alive (they must be gone before main returns)

	rawA, rawB *simnet.Conn
	chans      [][2]*chanState
	sideClosed [][2]atomic.Bool

	// conn layers
	connA, connB net.Conn
	// stream layers
	nodeA, nodeB *simhost.Node
	strA, strB   []network.Stream
	inbound      int

	mu     sync.Mutex // plain mutex, never held across anything that blocks
	probes map[string]int
	hung   bool
	lazy   int

	setupFail string    // stage of the fault-free part that failed ("" = none)
	sickNow   *sickPlan // the sick dial being made (read by the OnConn callback)

	// QUIC layer
	tapeS  *simrt.Stream
	qadv   *qadv
	healed atomic.Bool // loss, duplication and the adversary have stopped
}

func (w *world) layer() string { return layerName[w.p.layer] }

func (w *world) probe(name string) {
	w.mu.Lock()
	w.probes[name]++
	w.mu.Unlock()
}

func (w *world) taskDone() { w.pending.Add(-1) }

var arenas [8][]byte

func (w *world) arena(i int) []byte {
	if arenas[i] == nil {
		arenas[i] = make([]byte, maxArena)
	}
	return arenas[i]
}

func run(t *testing.T, tape *simrt.Tape) *common.Outcome {
	// go-buffer-pool's global pool is process-wide state shared by Noise, pnet, yamux and multistream: every run starts
	// with an empty one, so that a run stays a pure function of its tape even when the code under test mismanages
	// pooled buffers (what one run does to the pool cannot surface in another run of the same worker process).
	pool.GlobalPool = new(pool.BufferPool)
	g := simrt.Gen{S: tape.G}
	o := &common.Outcome{}
	p := genPlan(g)
	for _, l := range p.describe() {
		o.Logf("%s", l)
		if debug {
			fmt.Fprintln(os.Stderr, l)
		}
	}
	if only := os.Getenv("C02_ONLY"); only != "" && only != layerName[p.layer] {
		o.Sig = "skipped (C02_ONLY, debugging aid)"
		return o
	}
	if isQuicLayer(p.layer) {
		// QUIC needs a crypto/rand that is a function of the run (connection ids, TLS randoms): see simrand
		restore := simrand.Install(p.randSeed)
		defer restore()
	}
	w := &world{p: p, o: o, probes: map[string]int{}, tapeS: tape.S}
	w.chans = make([][2]*chanState, p.nstreams)
	w.sideClosed = make([][2]atomic.Bool, p.nstreams)
	w.strA = make([]network.Stream, p.nstreams)
	w.strB = make([]network.Stream, p.nstreams)
	for s := 0; s < p.nstreams; s++ {
		for d := 0; d < 2; d++ {
			w.chans[s][d] = &chanState{w: w, stream: s, dir: d, id: chanID(s, d), p: &p.ch[s][d], t: tab(s, d, p.ch[s][d].total)}
		}
	}
	w.pending.Store(int64(4 * p.nstreams))
	for s := range w.chans {
		for d := 0; d < 2; d++ {
			c := w.chans[s][d]
			c.wLeft.Store(int32(c.nWriters()))
			c.closeLeft.Store(int32(c.nWriters()))
			if c.p.dual {
				w.pending.Add(1)
				w.probes["two-writers-on-one-connection"]++
			}
		}
	}

	res := simrt.Run(t, simrt.Config{MaxSteps: 3000000, IdleLimit: 2 * time.Hour, TraceCap: 20000}, tape.S, func() { w.main(tape) })

	o.Sched = res
	o.Virtual = res.Virtual
	if debug {
		for _, r := range res.Residue {
			fmt.Fprintln(os.Stderr, "RESIDUE:", r)
		}
		fmt.Fprintf(os.Stderr, "steps=%d virtual=%v deadlock=%q stuck=%v\n", res.Steps, res.Virtual, res.Deadlock, res.Stuck)
	}
	w.finish(res)
	return o
}

// ---- set-up of the layers -------------------------------------------------------------------

func (w *world) installHook(d *simnet.Conn) {
	if !w.p.adv.on {
		return
	}
	m := &mitm{hdr: 2, p: w.p.adv}
	if isTLSLayer(w.p.layer) {
		m.hdr = 5
	}
	m.onTruncate = func(toDialer bool) {
		// the adversary ends the attacked direction with a FIN: close the write side of the sender's raw end
		from := w.rawA
		if toDialer {
			from = w.rawB
		}
		w.aux.Add(1)
		simrt.GoNamed("adversary-fin", func() { defer w.aux.Add(-1); from.CloseWrite() })
	}
	w.mitm = m
	d.SetHook(m.hook)
}

type hsResult struct {
	c   sec.SecureConn
	err error
}

func (w *world) setupConn() bool {
	p := w.p
	w.rawA, w.rawB = w.n.Pipe("10.0.0.1", "10.0.0.2", 4001)
	w.installHook(w.rawA)
	switch p.layer {
	case layPnet:
		psk := make([]byte, 32)
		for i := range psk {
			psk[i] = byte(i*3 + 1)
		}
		ca, err := pnet.NewProtectedConn(psk, &dlConn{Conn: w.rawA})
		if err != nil {
			w.o.Trouble = "pnet: " + err.Error()
			return false
		}
		cb, err := pnet.NewProtectedConn(psk, &dlConn{Conn: w.rawB})
		if err != nil {
			w.o.Trouble = "pnet: " + err.Error()
			return false
		}
		w.connA, w.connB = ca, cb
		return true
	}
	a, b, ok := w.secureHandshake(&dlConn{Conn: w.rawA}, &dlConn{Conn: w.rawB}, p.layer == layTLS, "handshake")
	w.connA, w.connB = a, b
	return ok
}

// secureHandshake runs the real Noise / TLS handshake over a raw pair from two tasks.
// dlConn gives the raw connection of the bare layers the write-deadline behaviour of a real socket: a Write whose
// deadline has already passed fails with a timeout before anything is written (internal/poll checks the deadline before
// the first write attempt). simnet itself consults the write deadline only when the writer is blocked by 8 MiB in flight.
type dlConn struct {
	*simnet.Conn
	mu  sync.Mutex
	wdl time.Time
}

func (c *dlConn) setW(t time.Time) { c.mu.Lock(); c.wdl = t; c.mu.Unlock() }

func (c *dlConn) SetDeadline(t time.Time) error      { c.setW(t); return c.Conn.SetDeadline(t) }
func (c *dlConn) SetWriteDeadline(t time.Time) error { c.setW(t); return c.Conn.SetWriteDeadline(t) }

func (c *dlConn) Write(p []byte) (int, error) {
	c.mu.Lock()
	dl := c.wdl
	c.mu.Unlock()
	if !dl.IsZero() && !time.Now().Before(dl) {
		return 0, &net.OpError{Op: "write", Net: "tcp", Addr: c.Conn.LocalAddr(), Err: os.ErrDeadlineExceeded}
	}
	return c.Conn.Write(p)
}

func (w *world) secureHandshake(rawA, rawB net.Conn, useTLS bool, stage string) (net.Conn, net.Conn, bool) {
	keyA, keyB := simhost.DetKey(1), simhost.DetKey(2)
	var tA, tB sec.SecureTransport
	var err error
	if !useTLS {
		tA, err = noise.New(noise.ID, keyA, nil)
		if err == nil {
			tB, err = noise.New(noise.ID, keyB, nil)
		}
	} else {
		tA, err = libp2ptls.New(libp2ptls.ID, keyA, nil)
		if err == nil {
			tB, err = libp2ptls.New(libp2ptls.ID, keyB, nil)
		}
	}
	if err != nil {
		w.o.Trouble = "security transport: " + err.Error()
		return nil, nil, false
	}
	idB, err := peer.IDFromPrivateKey(keyB)
	if err != nil {
		w.o.Trouble = "peer id: " + err.Error()
		return nil, nil, false
	}
	ctx, cancel := context.WithTimeout(context.Background(), time.Minute)
	defer cancel()
	ra, rb := make(chan hsResult, 1), make(chan hsResult, 1)
	simrt.GoNamed(stage+"-A", func() {
		c, err := tA.SecureOutbound(ctx, rawA, idB)
		ra <- hsResult{c, err}
	})
	simrt.GoNamed(stage+"-B", func() {
		c, err := tB.SecureInbound(ctx, rawB, "")
		rb <- hsResult{c, err}
	})
	a := simrt.Recv("hs-a", ra)
	b := simrt.Recv("hs-b", rb)
	var ca, cb net.Conn
	if a.c != nil {
		ca = a.c
	}
	if b.c != nil {
		cb = b.c
	}
	if a.err != nil || b.err != nil {
		w.failSetup(stage, fmt.Sprintf("A=%v B=%v", a.err, b.err))
		return ca, cb, false
	}
	return ca, cb, true
}

// failSetup: a step of the FAULT-FREE part of a run failed (handshake, connect, stream open / accept, the prelude):
// nothing was injected yet - no adversary armed, no stall, at most milliseconds of link latency against timeouts of a
// minute - and the step only moves bytes over secured connections and streams, so a failure means those bytes did not
// arrive intact. A violation of its own class, not harness trouble (which is left for what the harness itself cannot
// build: keys, transports, nodes).
func (w *world) failSetup(stage, text string) {
	if w.setupFail == "" {
		w.setupFail = stage
		w.violate("C02/fault-free-run-failed/"+w.layer()+"/"+stage, fmt.Sprintf("before any fault was injected: %s failed: %s", stage, text))
	}
}

func (w *world) setupNodes() bool {
	p := w.p
	secu := "noise"
	if isTLSLayer(p.layer) {
		secu = "tls"
	}
	first := true
	w.n.OnConn(func(d, l *simnet.Conn) {
		if ta, ok := d.LocalAddr().(*net.TCPAddr); !ok || ta.IP.String() != "10.0.0.1" {
			// a sick dial of the prelude (sickDials): the drawn reset lands inside or right after sampledconn's peek
			if sp := w.sickNow; sp != nil {
				l.SetMode(simnet.Tiny)
				if sp.end == 2 {
					l.InjectFault(simnet.Fault{Kind: simnet.Reset, AtCall: sp.k})
				}
			}
			return
		}
		if !first {
			return
		}
		first = false
		w.rawA, w.rawB = d, l
		w.installHook(d)
		if p.sharedTCP && p.peekTiny {
			// the first deliveries to the listener (the three peeked bytes and the beginning of the multistream
			// negotiation, all of fixed length) arrive 1-3 bytes at a time; after a dozen I/O calls the set-up mode is back
			l.SetMode(simnet.Tiny)
			back := simnet.Fragment
			if isTLSLayer(p.layer) {
				back = simnet.Whole
			}
			l.SetOnCall(func(call int, _ bool) {
				if call == 12 {
					l.SetMode(back)
					l.SetOnCall(nil)
				}
			})
		}
	})
	host := isHostLayer(p.layer)
	var err error
	quic := isQuicLayer(p.layer)
	w.nodeA, err = simhost.New(w.n, simhost.Opts{Key: simhost.DetKey(1), IP: "10.0.0.1", Port: 4001, Security: secu, WithHost: host, QUIC: quic, NoTCPListen: quic})
	if err != nil {
		w.o.Trouble = "node A: " + err.Error()
		return false
	}
	w.nodeB, err = simhost.New(w.n, simhost.Opts{Key: simhost.DetKey(2), IP: "10.0.0.2", Port: 4001, Security: secu, WithHost: host, QUIC: quic, NoTCPListen: quic, SharedTCP: p.sharedTCP && !quic && simhook.TCPReuseSeam})
	if err != nil {
		w.o.Trouble = "node B: " + err.Error()
		return false
	}
	a, b := w.nodeA, w.nodeB
	if host {
		for s := 0; s < p.nstreams; s++ {
			s := s
			b.Host.SetStreamHandler(protoOf(s), func(st network.Stream) { w.acceptB(s, st) })
		}
	} else {
		b.Swarm.SetStreamHandler(func(st network.Stream) {
			s := w.inbound
			w.inbound++
			w.acceptB(s, st)
		})
	}
	if quic {
		a.PS.AddAddrs(b.ID, []ma.Multiaddr{b.QAddr}, peerstore.PermanentAddrTTL)
	} else {
		a.PS.AddAddrs(b.ID, []ma.Multiaddr{b.Addr}, peerstore.PermanentAddrTTL)
	}
	if p.sharedTCP && !quic && simhook.TCPReuseSeam {
		w.probe("shared-tcp-listener")
		if !w.sickDials() {
			return false
		}
	}
	ctx, cancel := context.WithTimeout(context.Background(), time.Minute)
	defer cancel()
	if host {
		ai := b.AddrInfo()
		if quic {
			ai.Addrs = []ma.Multiaddr{b.QAddr}
		}
		if err := a.Host.Connect(ctx, ai); err != nil {
			w.failSetup("connect", err.Error())
			return false
		}
		for s := 0; s < p.nstreams; s++ {
			st, err := a.Host.NewStream(ctx, b.ID, protoOf(s))
			if err != nil {
				w.failSetup("new-stream", err.Error())
				return false
			}
			if strings.Contains(fmt.Sprintf("%T", st), "streamWrapper") {
				w.lazy++
			}
			w.strA[s] = st
		}
	} else {
		c, err := a.Swarm.DialPeer(ctx, b.ID)
		if err != nil {
			w.failSetup("dial", err.Error())
			return false
		}
		for s := 0; s < p.nstreams; s++ {
			st, err := c.NewStream(ctx)
			if err != nil {
				w.failSetup("new-stream", err.Error())
				return false
			}
			w.strA[s] = st
			// the SYN travels with the opener's first window update: wait until B's handler has the stream, so
			// that stream k of A is stream k of B
			for i := 0; i < 200 && w.strB[s] == nil; i++ {
				simrt.WaitIdle()
				if w.strB[s] == nil {
					simrt.TimeSleep(10 * time.Millisecond)
				}
			}
			if w.strB[s] == nil {
				w.failSetup("accept", fmt.Sprintf("stream %d opened by A was not accepted by B within 2 s", s))
				return false
			}
		}
	}
	if quic {
		for _, st := range w.strA {
			if !strings.Contains(st.Conn().RemoteMultiaddr().String(), "/quic-v1") {
				w.o.Trouble = "QUIC layer: the stream does not run over QUIC but over " + st.Conn().RemoteMultiaddr().String()
				return false
			}
		}
		return true
	}
	if w.rawA == nil {
		w.o.Trouble = "no raw connection seen"
		return false
	}
	return true
}

// sickDials (shared-TCP listener): raw connections to B's listen address that end inside or right after sampledconn's
// three-byte peek - EOF after 0, 1 or 2 bytes, a reset, three or four bytes that are no known protocol, or the genuine
// beginning of a multistream header and then nothing. None of it is a fault of the run: they are other peers' broken
// connections; the listener has to drop them and the real connection that follows must not notice (every later oracle).
func (w *world) sickDials() bool {
	const hdr = "\x13/multistream/1.0.0\n"
	for i := range w.p.sick {
		sp := &w.p.sick[i]
		w.sickNow = sp
		ctx, cancel := context.WithTimeout(context.Background(), 10*time.Second)
		c, err := w.n.Dialer("10.0.0.9").DialContext(ctx, "tcp", "10.0.0.2:4001")
		cancel()
		w.sickNow = nil
		if err != nil {
			w.failSetup("sick-dial", fmt.Sprintf("raw dial to the listener failed: %v", err))
			return false
		}
		raw := c.(*simnet.Conn)
		data := []byte(hdr[:sp.bytes])
		if sp.garbage {
			data = []byte("\x00\xfe\x7f\x01"[:sp.bytes])
		}
		if len(data) > 0 {
			raw.Write(data)
		}
		simrt.WaitIdle()
		switch sp.end {
		case 0, 2:
			raw.Close()
		case 1:
			raw.CloseWrite()
			simrt.WaitIdle()
			simrt.TimeSleep(50 * time.Millisecond)
			raw.Close()
		}
		simrt.WaitIdle()
		w.o.Logf("  sick dial %d: %d bytes (garbage=%v), end=%d k=%d; listener end closed=%v", i, sp.bytes, sp.garbage, sp.end, sp.k, raw.Peer().Stats().Closed)
		if debug {
			fmt.Fprintf(os.Stderr, "sick dial %d: %+v listener end: %+v\n", i, *sp, raw.Peer().Stats())
		}
		w.probe(fmt.Sprintf("sick-dial-%d-bytes", sp.bytes))
	}
	return true
}

func protoOf(s int) protocol.ID { return protocol.ID(fmt.Sprintf("/c02/%d", s)) }

func streamEnd(st network.Stream) *end {
	return &end{rw: st, setRDL: st.SetReadDeadline, setWDL: st.SetWriteDeadline, closeW: st.CloseWrite}
}

// acceptB runs on B's stream-handler task: B's reader of A>B and writer of B>A start here.
func (w *world) acceptB(s int, st network.Stream) {
	if w.closing.Load() || s >= w.p.nstreams || w.strB[s] != nil {
		st.Reset()
		return
	}
	w.strB[s] = st
	e := streamEnd(st)
	rc, wc := w.chans[s][0], w.chans[s][1]
	rc.rStarted, wc.wStarted = true, true
	simrt.GoNamed(fmt.Sprintf("read-B-s%d", s), func() { rc.reader(e) })
	simrt.GoNamed(fmt.Sprintf("write-B-s%d", s), func() { wc.writer(e, 0) })
}

// ---- the run ----------------------------------------------------------------------------------

func (w *world) main(tape *simrt.Tape) {
	p := w.p
	w.gate = make(chan struct{}) // made inside the bubble: blocking on it is durable
	// The handshakes are not what this property is about: they run under coarse chunking (TLS needs whole
	// deliveries because its handshake lengths depend on crypto/rand); the data phase uses the drawn mode.
	setupMode := simnet.Fragment
	if isTLSLayer(p.layer) {
		setupMode = simnet.Whole
	}
	w.n = simnet.New(tape.S, simnet.Config{Mode: setupMode, Latencies: p.lat})
	var ok bool
	if isConnLayer(p.layer) {
		ok = w.setupConn()
	} else {
		ok = w.setupNodes()
	}
	if !ok {
		w.teardown()
		return
	}
	// A quiescent instant: nothing is in flight (the adversary stratum has no latency), so the raw byte
	// stream stands on a frame boundary when the adversary starts parsing.
	simrt.WaitIdle()
	if !isConnLayer(p.layer) {
		simrt.TimeSleep(time.Second) // identify and friends
		simrt.WaitIdle()
	}
	if !w.prelude() {
		w.teardown()
		return
	}
	simrt.WaitIdle()
	if isQuicLayer(p.layer) {
		w.armQuic()
	} else {
		w.rawA.SetMode(p.mode)
		w.rawB.SetMode(p.mode)
		w.rawA.SetEOFWithData(p.ewd[0])
		w.rawB.SetEOFWithData(p.ewd[1])
	}
	if w.mitm != nil {
		w.mitm.armed = true
	}
	if p.stall.on {
		e := w.rawA
		if p.stall.sideB {
			e = w.rawB
		}
		e.InjectFault(simnet.Fault{Kind: simnet.Stall, AtCall: e.Stats().Calls + p.stall.k})
	}
	if isConnLayer(p.layer) {
		eA := w.connEnd(w.connA, w.rawA)
		eB := w.connEnd(w.connB, w.rawB)
		ab, ba := w.chans[0][0], w.chans[0][1]
		ab.wStarted, ab.rStarted, ba.wStarted, ba.rStarted = true, true, true, true
		simrt.GoNamed("write-A", func() { ab.writer(eA, 0) })
		if ab.p.dual {
			simrt.GoNamed("write-A2", func() { ab.writer(eA, 1) })
		}
		if ba.p.dual {
			simrt.GoNamed("write-B2", func() { ba.writer(eB, 1) })
		}
		simrt.GoNamed("read-B", func() { ab.reader(eB) })
		simrt.GoNamed("write-B", func() { ba.writer(eB, 0) })
		simrt.GoNamed("read-A", func() { ba.reader(eA) })
	} else {
		for s := 0; s < p.nstreams; s++ {
			e := streamEnd(w.strA[s])
			wc, rc := w.chans[s][0], w.chans[s][1]
			wc.wStarted, rc.rStarted = true, true
			simrt.GoNamed(fmt.Sprintf("write-A-s%d", s), func() { wc.writer(e, 0) })
			simrt.GoNamed(fmt.Sprintf("read-A-s%d", s), func() { rc.reader(e) })
		}
	}
	if p.pclose.on {
		w.aux.Add(1)
		simrt.GoNamed("peer-close", func() { defer w.aux.Add(-1); w.peerCloser() })
	}
	close(w.gate)
	w.wait()
	w.teardown()
}

// armQuic: the data phase of the QUIC layer begins - the wire starts to lose, duplicate, delay (reorder) and, in the
// adversary stratum, rewrite datagrams. Loss, duplication and the adversary stop p.heal later (latency stays: it is not a
// fault); only from then on is anything demanded about termination.
func (w *world) armQuic() {
	p := w.p
	w.n.SetUDP(simnet.UDPConfig{DropPermille: p.udp.drop, DupPermille: p.udp.dup, Latencies: p.udp.lat})
	if p.qadv.on {
		w.qadv = newQadv(p.qadv, w.tapeS.Draw)
		w.qadv.active.Store(true)
		w.n.SetUDPMangle(w.qadv.mangle)
	}
	if p.udp.drop == 0 && p.udp.dup == 0 && !p.qadv.on {
		w.healed.Store(true)
		return
	}
	w.aux.Add(1)
	simrt.GoNamed("quic-heal", func() {
		defer w.aux.Add(-1)
		for left := p.heal; left > 0 && !w.closing.Load(); left -= 500 * time.Millisecond {
			simrt.TimeSleep(min(left, 500*time.Millisecond))
		}
		w.n.SetUDP(simnet.UDPConfig{Latencies: p.udp.lat})
		if w.qadv != nil {
			w.qadv.stop()
		}
		w.healed.Store(true)
		w.progress.Add(1) // the quiet period of the hang oracle starts over: it is measured from here
	})
}

// peerCloser (peer-close stratum): as soon as every task of one side has finished - its writers have half-closed,
// its readers have seen the end - that side closes the whole connection, the way a process that is done goes
// away. Nothing of what the OTHER side still has to read is in doubt: it was accepted by Write and the write
// side was closed in order before.
func (w *world) peerCloser() {
	x := 0
	if w.p.pclose.sideB {
		x = 1
	}
	for !w.p.pclose.abrupt {
		if w.closing.Load() {
			return
		}
		done := true
		for s := range w.chans {
			if !w.chans[s][x].wDone.Load() || !w.chans[s][1-x].rDone.Load() {
				done = false
			}
		}
		if done {
			break
		}
		simrt.TimeSleep(5 * time.Millisecond)
	}
	d := w.p.pclose.delay
	if w.p.pclose.abrupt {
		d = w.p.pclose.at
		w.probe("connection-closed-abruptly")
	}
	if d > 0 {
		simrt.TimeSleep(d)
	}
	if w.closing.Load() {
		return
	}
	w.peerClosed.Store(true)
	switch {
	case isConnLayer(w.p.layer):
		if x == 0 {
			w.connA.Close()
		} else {
			w.connB.Close()
		}
	case x == 0:
		w.nodeA.Swarm.ClosePeer(w.nodeB.ID)
	default:
		w.nodeB.Swarm.ClosePeer(w.nodeA.ID)
	}
}

// prelude (Noise-based layers): sacrificial bare Noise sessions on the same simulated network, run to completion before
// the data phase. Each one is CLOSED WHILE PLAINTEXT OF A PARTIALLY READ FRAME IS QUEUED inside the session, then closed
// again and / or read again (a Read on a closed session may hand out what was queued - it must be the right bytes - or
// fail). Nothing here is a fault; the sessions share nothing with the connections of the data phase except the
// process: whatever they leave behind in shared state (the buffer pool) must not reach the data phase, whose frames
// are drawn from the same size classes.
func (w *world) prelude() bool {
	for i, sp := range w.p.sac {
		if !w.sacrifice(i, sp) {
			return false
		}
	}
	return true
}

func (w *world) sacrifice(i int, sp sacPlan) bool {
	lay := w.layer()
	ra, rb := w.n.Pipe("10.0.1.1", "10.0.1.2", 5000+i)
	defer ra.Close()
	defer rb.Close()
	ca, cb, ok := w.secureHandshake(ra, rb, false, "prelude-handshake")
	if !ok {
		return false
	}
	t := tab(4, 0, sp.size)
	src := t.src[:sp.size:sp.size]
	if n, err := ca.Write(src); n != sp.size || err != nil {
		w.failSetup("prelude-write", fmt.Sprintf("Write(%d bytes) = %d, %v", sp.size, n, err))
		return false
	}
	if string(src) != string(t.exp[:sp.size]) {
		copy(src, t.exp[:sp.size])
		w.violate("C02/write-modified-buffer/"+lay, fmt.Sprintf("prelude %d: Write(%d bytes) changed the caller's buffer", i, sp.size))
	}
	off := 0
	read := func(size int, what string) (int, error) {
		buf := make([]byte, size)
		copy(buf, t.neg[off:min(off+size, len(t.neg))])
		n, err := cb.Read(buf)
		w.o.Logf("  prelude %d: %s Read(buf %d) @%d = %d, %s", i, what, size, off, n, errKind(err))
		if n < 0 || n > size {
			w.violate("C02/read-count-out-of-range/"+lay, fmt.Sprintf("prelude %d: %s Read with a %d-byte buffer returned n=%d", i, what, size, n))
			return 0, io.ErrNoProgress
		}
		if n > 0 {
			if off+n > sp.size || string(buf[:n]) != string(t.exp[off:off+n]) {
				k := 0
				for off+k < sp.size && k < n && buf[k] == t.exp[off+k] {
					k++
				}
				class := "C02/wrong-bytes/" + lay
				if what != "first" {
					class += "/read-after-close"
				}
				w.violate(class, fmt.Sprintf("prelude %d (one %d-byte frame written): %s Read returned %d bytes for offsets %d..%d, wrong from offset %d on", i, sp.size, what, n, off, off+n-1, off+k))
				return 0, io.ErrNoProgress
			}
			off += n
		}
		return n, err
	}
	for tries := 0; off == 0 && tries < 4; tries++ {
		_, err := read(sp.first, "first")
		if err == io.ErrNoProgress { // a violation was filed: the run goes on without this session
			ca.Close()
			cb.Close()
			return true
		}
		if err != nil {
			w.failSetup("prelude-read", fmt.Sprintf("first Read of a %d-byte frame: %v", sp.size, err))
			return false
		}
	}
	if off == 0 {
		w.failSetup("prelude-read", fmt.Sprintf("4 Reads of a %d-byte frame returned no data", sp.size))
		return false
	}
	cerr := cb.Close()
	w.o.Logf("  prelude %d: Close() with %d of %d bytes read = %s", i, off, sp.size, errKind(cerr))
	w.probe("session-closed-with-queued-plaintext")
	for _, op := range sp.ops {
		switch op {
		case 0:
			cerr := cb.Close()
			w.o.Logf("  prelude %d: Close() again = %s", i, errKind(cerr))
			w.probe("session-closed-twice")
		case 1:
			if n, _ := read(sp.first, "after-close"); n > 0 {
				w.probe("read-after-close-returned-queued-bytes")
			}
		case 2:
			for k := 0; k < 40; k++ {
				n, err := read(4096, "after-close")
				if n > 0 {
					w.probe("read-after-close-returned-queued-bytes")
				}
				if err != nil {
					break
				}
			}
		}
	}
	ca.Close()
	return true
}

func (w *world) connEnd(c net.Conn, raw *simnet.Conn) *end {
	e := &end{rw: c, setRDL: c.SetReadDeadline, setWDL: c.SetWriteDeadline}
	if w.p.layer == layNoise || w.p.layer == layPnet {
		base := raw.Stats().BytesIn // the handshake is over and consumed: nothing is in flight or buffered
		e.rawIn = func() int { return raw.Stats().BytesIn - base }
	}
	if cw, ok := c.(interface{ CloseWrite() error }); ok && w.p.layer == layTLS {
		e.closeW = cw.CloseWrite // TLS close_notify
	} else {
		// Noise and PSK connections have no half close of their own: the TCP connection underneath is half
		// closed (FIN after everything that was written), which the reader sees as EOF at a frame boundary.
		e.closeW = raw.CloseWrite
	}
	return e
}

func (w *world) wait() {
	last := w.progress.Load()
	lastAt := simrt.Now()
	start := lastAt
	step := time.Millisecond
	for w.pending.Load() > 0 {
		simrt.TimeSleep(step)
		if step < time.Second {
			step *= 4
		}
		now := simrt.Now()
		if cur := w.progress.Load(); cur != last {
			last, lastAt = cur, now
			continue
		}
		if now-lastAt > quietLimit || now-start > 2*time.Hour {
			w.hung = true
			return
		}
	}
}

func (w *world) unfinished() int {
	n := 0
	for s := range w.chans {
		for d := 0; d < 2; d++ {
			c := w.chans[s][d]
			if c.rStarted && !c.rDone.Load() {
				n++
			}
			if c.wStarted && !c.wDone.Load() {
				n++
			}
		}
	}
	return n
}

func (w *world) teardown() {
	w.closing.Store(true)
	select {
	case <-w.gate:
	default:
		close(w.gate)
	}
	clean := !w.hung && w.o.Trouble == ""
	for s := range w.chans {
		for d := 0; d < 2; d++ {
			c := w.chans[s][d]
			c.collectWriters()
			if c.rEnd != "eof" || c.wErr != "" {
				clean = false
			}
		}
	}
	for _, l := range [][]network.Stream{w.strA, w.strB} {
		for _, st := range l {
			if st == nil {
				continue
			}
			if clean {
				st.Close()
			} else {
				st.Reset()
			}
		}
	}
	if w.connA != nil {
		w.connA.Close()
	}
	if w.connB != nil {
		w.connB.Close()
	}
	if w.nodeA != nil {
		w.nodeA.Close()
	}
	if w.nodeB != nil {
		w.nodeB.Close()
	}
	if w.rawA != nil {
		w.rawA.Close()
		w.rawB.Close()
	}
	for i := 0; i < 300; i++ {
		simrt.WaitIdle()
		if w.unfinished() == 0 && w.aux.Load() == 0 {
			break
		}
		simrt.TimeSleep(time.Second)
	}
	if isQuicLayer(w.p.layer) {
		simrt.TimeSleep(5 * time.Second) // CONNECTION_CLOSE, draining and timers of quic-go
		simrt.WaitIdle()
	}
	// simnet pumps may be inside a latency sleep: let them wake up and see the closed connection before main returns
	simrt.TimeSleep(50 * time.Millisecond)
	simrt.WaitIdle()
	if debug {
		for _, g := range simrt.BubbleGoroutines() {
			fmt.Fprintln(os.Stderr, "LEFT:", g)
		}
	}
}

// ---- judgement ----------------------------------------------------------------------------------

// violate files a failed oracle.
func (w *world) violate(class, detail string) {
	w.o.Violations = append(w.o.Violations, common.Violation{Class: class, Detail: detail})
}

// OBSERVATION, not an oracle (decision of the lead, guide rule 6): read deadlines and retries after a timeout are
// outside the property's quantifier (write sizes, read-buffer sizes, short reads, concurrent streams, half close,
// tampering). On the two bare connections that keep no partial-frame state, a read deadline that expires in the
// middle of a frame leaves the connection silently desynchronised:
//   - pnet pskConn.Read reads the 24-byte nonce into a local buffer with io.ReadFull; the bytes consumed before the
//     deadline are lost, the next Read takes 24 bytes from the middle of the stream as nonce, everything after is
//     garbage (or, on a short stream, the payload is swallowed as nonce and the FIN reads as a clean io.EOF);
//   - noise secureSession.Read loses the length byte / ciphertext consumed before the deadline and carries on in the
//     middle of the frame: mostly an authentication error follows, but a bogus length can swallow the rest of the
//     stream, after which the peer's FIN reads as a clean io.EOF with bytes missing.
//
// Neither is reachable through the assembled stack (the upgrader closes the connection on a timeout, yamux reads the
// secured connection without deadlines). Both were first seen as failures of the prefix / EOF oracles (histories in the
// report to the lead). Now the CONDITION is counted: when a timeout is returned to a reader of one of these two layers
// and the raw bytes taken off the wire so far end inside a frame (inside the nonce), the probe below is counted and the
// reader stops - what a further Read would return depends on ciphertext bytes, i.e. on crypto/rand, and would make the
// run irreproducible. A deadline that expires ON a frame boundary loses nothing and the reader carries on, fully
// judged. TLS, yamux streams and host streams resume correctly after a deadline and keep every oracle.
const deadlineObservation = "observation:read-deadline-expired-mid-frame/"

func (w *world) finish(res simrt.Result) {
	o, p, lay := w.o, w.p, w.layer()
	advFired := w.mitm != nil && w.mitm.fired.Load()
	stallFired := false
	for _, c := range []*simnet.Conn{w.rawA, w.rawB} {
		if c != nil && len(c.Stats().Fired) > 0 {
			stallFired = true
		}
	}
	peerClosed := w.peerClosed.Load()
	if advFired {
		o.Fault("adversary-" + advName[p.adv.action])
		o.Logf("adversary: %s", w.mitm.note)
	} else if p.adv.on {
		w.probes["adversary-frame-never-came"]++
	}
	if stallFired {
		o.Fault("stall")
	}
	quicFaulted := false
	if isQuicLayer(p.layer) && w.n != nil {
		uc := w.n.UDPCounts()
		for _, k := range []string{"udp-lost", "udp-duplicated", "udp-delayed"} {
			if uc[k] > 0 {
				o.Fault(k)
			}
		}
		quicFaulted = p.udp.drop > 0 || p.udp.dup > 0 || p.qadv.on
		if w.qadv != nil {
			for _, a := range w.qadv.actions() {
				o.Fault("quic-adversary-" + a)
			}
			o.Logf("QUIC adversary: %v; udp: %v", w.qadv.counts, uc)
		}
	}
	if peerClosed {
		o.Fault("peer-closed-connection")
	}
	if p.mode != simnet.Whole && !isQuicLayer(p.layer) {
		o.Fault("fragmentation-" + modeName(p.mode))
	}
	if len(p.lat) > 0 {
		o.Fault("latency")
	}
	w.probes["layer-"+lay]++
	w.probes["stratum-"+stratumName[p.stratum]]++
	if w.lazy > 0 {
		w.probes["lazy-multistream-stream"] += w.lazy
	}
	faulted := advFired || stallFired || peerClosed || quicFaulted

	var sig []string
	sig = append(sig, lay, stratumName[p.stratum], modeName(p.mode), fmt.Sprintf("shared=%v/%v/%d adv=%v stall=%v pc=%v hung=%v sac=%d ewd=%v fail=%s", p.sharedTCP, p.peekTiny, len(p.sick), advFired, stallFired, peerClosed, w.hung, len(p.sac), p.ewd, w.setupFail))
	totalData := 0
	judged := res.Panic == "" && o.Trouble == "" && w.setupFail == "" && !res.StepLimit && !res.Stuck && res.Deadlock == ""
	for s := range w.chans {
		for d := 0; d < 2; d++ {
			c := w.chans[s][d]
			cp := c.p
			c.collectWriters()
			totalData += c.dataReads
			sig = append(sig, fmt.Sprintf("%s:%d/%d/%d r%d %s w=%s t%d", c.id, cp.total, c.accepted, c.off, c.reads, c.rEnd, c.wErr, c.timeouts))
			for _, wr := range cp.writes {
				if wr > noiseMaxPlain && !isTLSLayer(p.layer) && !isQuicLayer(p.layer) && p.layer != layPnet && c.accepted >= wr {
					w.probes["write-of-2-or-more-noise-frames"]++
					break
				}
			}
			for _, wr := range cp.writes {
				if wr >= yamuxWindow && !isConnLayer(p.layer) && !isQuicLayer(p.layer) {
					w.probes["write-reaching-yamux-window"]++
					break
				}
			}
			if c.eofWithData {
				w.probes["final-bytes-and-eof-in-one-read"]++
			}
			nv := len(o.Violations)
			for _, v := range c.rviol {
				w.violate(v.Class, v.Detail)
			}
			for i := 0; i < c.nWriters(); i++ {
				for _, v := range c.ws[i].viol {
					w.violate(v.Class, v.Detail)
				}
			}
			if judged {
				w.judge(c, faulted, advFired, stallFired)
			}
			bad := len(o.Violations) > nv || c.rEnd == "deadline-mid-frame"
			o.Logf("result %s: planned=%d accepted=%d delivered=%d reads=%d timeouts=%d reader=%s%s writer=%s%s started r=%v w=%v done r=%v w=%v",
				c.id, cp.total, c.accepted, c.off, c.reads, c.timeouts, orDash(c.rEnd), paren(c.rErrText), orDash(c.wErr), paren(c.wErrText), c.rStarted, c.wStarted, c.rDone.Load(), c.wDone.Load())
			for i := 0; i < c.nWriters(); i++ {
				w.dump(fmt.Sprintf("%s W%d", c.id, i), c.ws[i].log.lines(), bad)
			}
			w.dump(c.id+" R", c.rlog.lines(), bad)
		}
	}
	if quicFaulted && judged {
		all, died := true, false
		for s := range w.chans {
			for d := 0; d < 2; d++ {
				c := w.chans[s][d]
				if c.rEnd != "eof" || c.off != c.p.total {
					all = false
				}
				if strings.HasPrefix(c.rEnd, "error:") {
					died = true
				}
			}
		}
		if all {
			w.probes["quic-wire-faults-survived-every-byte-delivered"]++
		}
		if died {
			w.probes["quic-reader-got-an-error-under-wire-faults"]++
		}
	}
	var pk []string
	for k := range w.probes {
		pk = append(pk, k)
	}
	sort.Strings(pk)
	for _, k := range pk {
		for i := 0; i < w.probes[k]; i++ {
			o.Probe(k)
		}
	}
	o.Sig = strings.Join(sig, "|")
	o.Nontrivial = faulted || totalData >= 2 || len(p.sac) > 0
	if res.Panic != "" {
		o.Violate("C02/panic/"+lay, "%s", res.Panic)
		return
	}
	if o.Trouble == "" && (res.StepLimit || res.Stuck || res.Deadlock != "") {
		o.Trouble = fmt.Sprintf("steplimit=%v stuck=%v deadlock=%q", res.StepLimit, res.Stuck, res.Deadlock)
	}
}

func orDash(s string) string {
	if s == "" {
		return "-"
	}
	return s
}

func paren(s string) string {
	if s == "" {
		return ""
	}
	if len(s) > 160 {
		s = s[:160]
	}
	return " (" + s + ")"
}

func (w *world) dump(who string, l []string, all bool) {
	if !all && len(l) > 6 {
		l = append(append(append([]string(nil), l[:3]...), fmt.Sprintf("... (%d more)", len(l)-6)), l[len(l)-3:]...)
	}
	for _, s := range l {
		w.o.Logf("    %s %s", who, s)
	}
}

func (w *world) judge(c *chanState, faulted, advFired, stallFired bool) {
	lay := w.layer()
	cp := c.p
	ctx := c.ctx()
	if stallFired {
		ctx += "/after-stall"
	}
	// WEAKER READING of "truncated ... the reader gets an error": the bare secured connections have no end of
	// stream the reader insists on. The libp2p Noise session has no termination message at all, and crypto/tls
	// deliberately turns a FIN that arrives on a record boundary without close_notify into a plain io.EOF
	// (crypto/tls conn.go readRecordOrCCS: "popular web sites seem to do this, so we accept it if and only if at
	// the record boundary"). A stream cut (or a tail withheld) on a frame boundary is therefore indistinguishable
	// from the peer's own FIN on these two layers: the reader gets io.EOF - an error value, never wrong data - and
	// that is accepted here. go-libp2p never exposes these connections to applications: everything runs over
	// yamux, whose FIN travels inside the authenticated channel, and the stream layers ARE held to the strict rule
	// (EOF only after the writer closed and with every accepted byte delivered).
	noAuthEnd := (w.p.layer == layNoise || w.p.layer == layTLS) && advFired &&
		(w.p.adv.action == advTruncate || w.p.adv.action == advDrop || w.p.adv.action == advSwap)
	if c.rEnd == "eof" && !noAuthEnd {
		how := "eof-alone"
		if c.eofWithData {
			how = "eof-with-data"
		}
		more := ""
		if c.afterEOFData > 0 {
			more = fmt.Sprintf("; the next Read(s) then returned %d more bytes (correct continuation: %v)", c.afterEOFData, c.afterEOFGood)
		}
		// One class per diagnosed defect: on a stream, io.EOF handed out TOGETHER WITH data although the stream had
		// not ended is the signature of the muxer returning a connection-level error from Read (whatever the
		// security transport and whatever ended the connection; fixed in /repo by f6576df); anything else is
		// classified by layer, shape and context.
		pclass := "C02/premature-eof/" + lay + "/" + how
		if !isConnLayer(w.p.layer) && c.eofWithData {
			pclass = "C02/premature-eof/stream/eof-returned-with-data"
		}
		generic := strings.HasSuffix(pclass, how)
		switch {
		case !c.eofClosing:
			if generic {
				pclass += "/before-close" + ctx
			}
			w.violate(pclass, fmt.Sprintf("%s: Read returned io.EOF at offset %d although the writer had not begun to close (planned %d bytes)%s", c.id, c.eofOff, cp.total, more))
		case c.eofOff < c.accepted:
			if generic {
				pclass += "/bytes-missing" + ctx
			}
			w.violate(pclass, fmt.Sprintf("%s: Read returned io.EOF after %d bytes but Write had accepted %d and the write side was closed in order%s", c.id, c.eofOff, c.accepted, more))
		case c.afterEOFData > 0:
			w.violate("C02/data-after-eof/"+lay+ctx, fmt.Sprintf("%s: Read returned io.EOF at the end (offset %d)%s", c.id, c.eofOff, more))
		}
	}
	if c.off > c.accepted && c.wErr == "" && c.wDone.Load() {
		w.violate("C02/delivered-more-than-accepted/"+lay+ctx, fmt.Sprintf("%s: %d bytes delivered, Write return values sum to %d", c.id, c.off, c.accepted))
	}
	if isQuicLayer(w.p.layer) && w.hung && w.healed.Load() && !w.peerClosed.Load() &&
		((c.rStarted && !c.rDone.Load()) || (c.wStarted && !c.wDone.Load())) {
		// LIVENESS AFTER THE FAULTS STOPPED (QUIC layer): loss, duplication and the adversary ended, then no Read or
		// Write returned anywhere for quietLimit (3 min) of virtual time, and this task is still inside a call. Whatever
		// happened before, by then the connection has either recovered (a probe timeout after heavy loss backs off to
		// tens of seconds at most, because an idle connection is closed after 30 s and kept alive every 15 s) or died
		// (every pending Read / Write then fails): a task blocked beyond that is a hang, not an error outcome.
		w.violate("C02/hang/"+lay+"/after-faults-stopped", fmt.Sprintf("%s: the wire has been fault-free for more than %v and no Read or Write returned in that time; reader done=%v at offset %d of %d, writer done=%v accepted %d",
			c.id, quietLimit, c.rDone.Load(), c.off, cp.total, c.wDone.Load(), c.accepted))
	}
	// "deadline, then carry on" (writer): where the layer cannot resume after a Write that timed out, only "never wrong
	// data" is left for this direction - see the header (Noise: the failed frame consumed a nonce, the reader's next frame
	// fails authentication; crypto/tls documents that a timed-out Write corrupts the state and every later Write returns
	// the same error; the lazy multistream conn keeps the error of its first, handshake-carrying write for good).
	if c.ws[0].wTimeouts > 0 {
		l := w.p.layer
		if l == layNoise || (c.wErr != "" && l == layTLS) {
			w.probes["observation:write-deadline-ended-the-session/"+lay]++
			return
		}
	}
	if isHostLayer(w.p.layer) {
		// the opener's first write carries the multistream handshake: when it timed out and the lazy conn kept that error,
		// the listener never gets the stream's protocol and neither direction of the stream comes to life
		if ab := w.chans[c.stream][0]; ab.ws[0].wTimeouts > 0 && ab.wErr != "" && ab.p.wdl.idx == 0 {
			if c.dir == 0 {
				w.probes["observation:write-deadline-ended-the-session/"+lay]++
			}
			return
		}
	}
	if faulted || c.hadTimeout {
		return // weak regime: a correct prefix and the EOF rules above
	}
	// strong regime: nothing happened that may legitimately cost data
	if c.rEnd == "violation" || c.wErr == "violation" {
		return // already filed by the task
	}
	wrappedEnd := c.rEnd == "error:wrapped-eof" && c.off == cp.total && c.closing.Load()
	if wrappedEnd {
		// weaker reading: an error that wraps io.EOF, after every byte and after the writer closed, is accepted as the end
		w.probes["clean-end-reported-as-wrapped-eof"]++
	}
	switch {
	case w.hung && (!c.rDone.Load() || !c.wDone.Load() || !c.rStarted || !c.wStarted):
		w.violate("C02/hang/"+lay, fmt.Sprintf("%s: no Read or Write returned for %v of virtual time; reader started=%v done=%v at offset %d, writer started=%v done=%v accepted %d of %d",
			c.id, quietLimit, c.rStarted, c.rDone.Load(), c.off, c.wStarted, c.wDone.Load(), c.accepted, cp.total))
	case c.wErr != "":
		w.violate("C02/incomplete/"+lay+"/write-"+c.wErr, fmt.Sprintf("%s: fault-free run, writer ended with %s (%s) after %d of %d bytes", c.id, c.wErr, c.wErrText, c.accepted, cp.total))
	case c.rEnd != "eof" && !wrappedEnd:
		w.violate("C02/incomplete/"+lay+"/read-"+strings.TrimPrefix(c.rEnd, "error:"), fmt.Sprintf("%s: fault-free run, reader ended with %q (%s) at offset %d of %d", c.id, c.rEnd, c.rErrText, c.off, cp.total))
	case c.off != cp.total || c.accepted != cp.total:
		w.violate("C02/incomplete/"+lay+"/short", fmt.Sprintf("%s: fault-free run with clean close: planned %d, Write accepted %d, delivered %d", c.id, cp.total, c.accepted, c.off))
	}
}
